//go:build cff

// Hand-written (not produced by gen_corpus.py): every argument of the directive and of its options is written
// with redundant parentheses, which is legal and must not change what is generated. Seed C20_m unparenthesised
// the task function when compiling it: base mode kept working (it names the hoisted variable after the node it
// stores), modifier mode, which names definitions after the arguments as written and uses after the stored node,
// emitted a call of an undefined variable.

package mflows

import (
	"context"

	"go.uber.org/cff"
)

// P_paren: parenthesised Params, Results, Concurrency and task functions.
func P_paren(ctx context.Context, in0 A) (C, error) {
	var out0 C
	r := &recv{k: 1}
	err := cff.Flow((ctx),
		cff.Params((in0)),
		cff.Results((&out0)),
		cff.Concurrency((2)),
		cff.Task((aToB)),
		cff.Task((r.bToC)),
	)
	return out0, err
}

// P_paren2: nested parentheses and a parenthesised function literal.
func P_paren2(ctx context.Context, in0 A, in1 E) (D, error) {
	var out0 D
	err := cff.Flow(ctx,
		cff.Params(((in0)), (in1)),
		cff.Results(((&out0))),
		cff.Task(((aToB))),
		cff.Task((func(b B, e E) (D, error) { return D(int(b) + int(e)), nil })),
	)
	return out0, err
}
