#!/usr/bin/env python3
"""Generates selftest/lint.json: seeded edits of the generator's Go sources."""
import json
M = []
def mut(name, file, old, new, expect, why="", benign=False, edits=None, engines="lint"):
    d = dict(name=name, file=file, old=old, new=new, expect=expect, engines=engines, why=why)
    if benign: d["benign"] = True
    if edits: d["edits"] = edits
    M.append(d)
G="internal/gen.go"; C="internal/compile.go"; P="internal/compile_parallel.go"
mut("g1-imports-unsorted", G, "	sort.Strings(newImports)\n\n	// Add the newly added imports to the file first.\n	for _, importPath := range newImports {\n		astutil.AddNamedImport(fset, file, addImports[importPath], importPath)\n	}\n\n	buff.Reset()\n	// Format the node and write it to the buffer.\n	if err := format.Node(&buff, fset, file); err != nil {\n		return err\n	}\n\n	if g.sourceMapped {",
    "	_ = sort.Strings\n\n	// Add the newly added imports to the file first.\n	for _, importPath := range newImports {\n		astutil.AddNamedImport(fset, file, addImports[importPath], importPath)\n	}\n\n	buff.Reset()\n	// Format the node and write it to the buffer.\n	if err := format.Node(&buff, fset, file); err != nil {\n		return err\n	}\n\n	if g.sourceMapped {", ["G1"], why="import order follows map order")
mut("g1-prologue-unsorted", G, "	sort.Slice(exprs, func(i, j int) bool {\n		return exprs[i].Pos() < exprs[j].Pos()\n	})\n	return exprs", "	return exprs", ["G1", "G12"])
mut("g2-time-in-header", G, "		fmt.Fprintf(&buff, \"//line %v:1\\n\", filepath.Base(posFile.Name()))", "		fmt.Fprintf(&buff, \"//line %v:1\\n// generated %v\\n\", filepath.Base(posFile.Name()), time.Now().Unix())", ["G2"],
    edits=[dict(file=G, old='	"text/template"\n', new='	"text/template"\n	"time"\n')])
mut("g2-magic-in-base-mode", G, "	if !g.sourceMapped {\n		return \"\"\n	}\n	return fmt.Sprintf(\"\\n// %v\", g.magic)", "	return fmt.Sprintf(\"\\n// %v\", g.magic)", ["G2"])
mut("g3-global-serial", C, "	c.taskSerial++\n\n	c.interpretTaskOptions(flow, &t, opts)", "	c.taskSerial++\n	globalSerial++\n\n	c.interpretTaskOptions(flow, &t, opts)", ["G3"],
    edits=[dict(file=C, old="type funcIndex int\n", new="type funcIndex int\n\nvar globalSerial int\n"), dict(file=C, old="		Serial:   c.taskSerial,\n		Inputs:   compiledFunc.Inputs,", new="		Serial:   c.taskSerial + globalSerial,\n		Inputs:   compiledFunc.Inputs,")], why="output depends on files processed before")
mut("g4-write-source-path", G, "	return os.WriteFile(g.outputPath, buff.Bytes(), 0o644)\n}\n\nfunc (g *generator) resetMagicTokens", "	return os.WriteFile(f.Filepath, buff.Bytes(), 0o644)\n}\n\nfunc (g *generator) resetMagicTokens", ["G4"])
mut("g4-extra-backup-file", G, "	return os.WriteFile(g.outputPath, buff.Bytes(), 0o644)\n}\n\nfunc (g *generator) resetMagicTokens", "	_ = os.WriteFile(g.outputPath+\".bak\", bs, 0o644)\n	return os.WriteFile(g.outputPath, buff.Bytes(), 0o644)\n}\n\nfunc (g *generator) resetMagicTokens", ["G4"])
mut("g5-generate-despite-errors", "internal/process.go", "	f, err := c.CompileFile(file, pkg)\n	if err != nil {\n		return err\n	}", "	f, err := c.CompileFile(file, pkg)\n	if err != nil && f == nil {\n		return err\n	}", ["G5"])
mut("g6-write-before-format", G, "	buff.Reset()\n	// Format the node and write it to the buffer.\n	if err := format.Node(&buff, fset, file); err != nil {\n		return err\n	}\n\n	if g.sourceMapped {",
    "	if err := os.WriteFile(g.outputPath, buff.Bytes(), 0o644); err != nil {\n		return err\n	}\n	buff.Reset()\n	// Format the node and write it to the buffer.\n	if err := format.Node(&buff, fset, file); err != nil {\n		return err\n	}\n\n	if g.sourceMapped {", ["G6"])
mut("g7-revert-f5", C, "	if val.Value == nil || val.Value.Kind() != constant.Bool {\n		c.errf(c.nodePosition(o.Args[0]), \"cff.Invoke expects a boolean constant, got %v\", astutil.NodeDescription(o.Args[0]))\n		return nil\n	}\n", "", ["G7"], why="finding F5")
mut("g8-revert-f2-slice", P, "types.AssignableTo(slc.Elem(), fn.Inputs[elemParamPos])", "types.AssignableTo(fn.Inputs[elemParamPos], slc.Elem())", ["G8"], why="finding F2")
mut("g8-revert-f2-mapkey", P, "types.AssignableTo(mtype.Key(), fn.Inputs[0])", "types.AssignableTo(fn.Inputs[0], mtype.Key())", ["G8"])
mut("g8-fallback-reversed", C, "if !types.AssignableTo(give, want) {", "if !types.AssignableTo(want, give) {", ["G8"])
mut("g9-skip-cycle-check", C, "	if err := validateFlowCycles(&flow, c.fset); err != nil {\n		c.errors = append(c.errors, err)\n		return nil\n	}\n", "	if len(flow.Funcs) < 64 {\n		if err := validateFlowCycles(&flow, c.fset); err != nil {\n			c.errors = append(c.errors, err)\n			return nil\n		}\n	}\n", ["G9"])
mut("g9-skip-unused-outputs", C, "	c.validateNoUnusedOutputTypes(&flow)\n	c.validateFuncs(&flow)", "	if len(flow.Outputs) > 0 {\n		c.validateNoUnusedOutputTypes(&flow)\n	}\n	c.validateFuncs(&flow)", ["G9"])
mut("g9-schedule-with-errors", C, "	if len(c.errors) > 0 {\n		return nil\n	}\n\n	c.scheduleFlowAndToposort(&flow)", "	c.scheduleFlowAndToposort(&flow)", ["G9"])
mut("g10-ignore-duplicate-provider", C, "			prev := flow.providers.Set(o, i)\n			if prev != nil {\n				pIdx := prev.(int)\n				p := flow.Funcs[pIdx]\n				c.errf(c.nodePosition(fn), \"type %v already provided at %v\", o, c.nodePosition(p))\n				continue\n			}", "			flow.providers.Set(o, i)", ["G10"])
mut("g10-params-duplicate-unchecked", C, "				if other, _ := provided.At(in.Type).(*input); other != nil {\n					c.errf(c.nodePosition(i), \"type %v already provided to cff.Params at %v\", other.Type, c.nodePosition(other.Node))\n					continue\n				}\n", "", ["G10"])
mut("g11-unpositioned-cycle-error", "internal/cycle.go", "				return fmt.Errorf(\n					\"%v: cycle detected: %v\",\n					fset.Position(fn.Node.Pos()),\n					prettyPrintFuncCycle(append(path, entry)))", "				return fmt.Errorf(\n					\"cycle detected: %v\",\n					prettyPrintFuncCycle(append(path, entry)))", ["G11"])
mut("g12-prologue-after-body", G, "	if err := prologueTmpl.ExecuteTemplate(w, _paramExprTmpl, paramExprs(exprs)); err != nil {\n		return err\n	}\n	if _, err := io.WriteString(w, \"return func() (err error) {\\n\"); err != nil {\n		return err\n	}\n	if _, err := w.Write(b.Bytes()); err != nil {\n		return err\n	}\n	if g.sourceMapped {",
    "	if _, err := io.WriteString(w, \"return func() (err error) {\\n\"); err != nil {\n		return err\n	}\n	if _, err := w.Write(b.Bytes()); err != nil {\n		return err\n	}\n	if err := prologueTmpl.ExecuteTemplate(w, _paramExprTmpl, paramExprs(exprs)); err != nil {\n		return err\n	}\n	if g.sourceMapped {", ["G12"])
mut("g12-name-without-record", G, "	p.exprs[e] = struct{}{}\n	pos := p.g.posInfo(e)", "	if _, isCall := e.(*ast.CallExpr); !isCall {\n		p.exprs[e] = struct{}{}\n	}\n	pos := p.g.posInfo(e)", ["G12"])
mut("g13-revert-f6", "internal/gen_parallel.go", "	if _, err := io.WriteString(w, \"func() error {\\n\"); err != nil {", "	if _, err := io.WriteString(w, \"func() (err error) {\\n\"); err != nil {", ["G13"], why="finding F6")
mut("g14-drop-and-y", "internal/buildtag.go", "	case *constraint.AndExpr:\n		invertCffConstraint(&ex.X)\n		invertCffConstraint(&ex.Y)", "	case *constraint.AndExpr:\n		invertCffConstraint(&ex.X)", ["G14"])
mut("g14-invert-any-tag", "internal/buildtag.go", "		if ex.Tag == \"cff\" {\n			*exp = &constraint.NotExpr{X: ex}\n		}", "		if ex.Tag != \"\" {\n			*exp = &constraint.NotExpr{X: ex}\n		}", ["G14"])
mut("g14-drop-or-case", "internal/buildtag.go", "	case *constraint.OrExpr:\n		invertCffConstraint(&ex.X)\n		invertCffConstraint(&ex.Y)\n", "", ["G14"])
mut("g15-skip-tail", G, "	// Write remaining code as-is.\n	if _, err := buff.Write(bs[lastOff:]); err != nil {\n		return err\n	}\n\n	// Parse the generated file and clean up.", "	// Write remaining code as-is.\n	if _, err := buff.Write(bs[lastOff+1:]); err != nil {\n		return err\n	}\n\n	// Parse the generated file and clean up.", ["G15"], why="first byte after the last directive dropped")
mut("g15-lastoff-not-advanced", G, "		lastOff = posFile.Offset(gen.End())\n", "		_ = posFile.Offset(gen.End())\n", ["G15"], why="directive source text duplicated")
mut("g16-flag-guards-code", G, "	if g.sourceMapped {\n		// Annotate with line directives after we're done generating code.", "	if g.sourceMapped {\n		fmt.Fprintf(w, \"_ = %d\\n\", 0)\n		// Annotate with line directives after we're done generating code.", ["G16"])
mut("g17-swallow-generate-error", "internal/process.go", "		if err := g.GenerateFile(f); err != nil {\n			return err\n		}\n	}\n\n	return nil", "		_ = g.GenerateFile(f)\n	}\n\n	return nil", ["G17"])
mut("g18-map-typeids", G, "	typeIDs    *typeutil.Map // map[types.Type]int\n	nextTypeID int\n\n	predIDs", "	typeIDs    *typeutil.Map // map[types.Type]int\n	nextTypeID int\n	rawIDs     map[types.Type]int\n\n	predIDs", ["G18"])

E="emitter_stack.go"
mut("l1-errorrecovered-to-error", E, "		e.TaskErrorRecovered(ctx, err)", "		e.TaskError(ctx, err)", ["L1"], engines="lib")
mut("l1-flowdone-twice", E, "	for _, e := range fs {\n		e.FlowDone(ctx, d)\n	}", "	for _, e := range fs {\n		e.FlowDone(ctx, d)\n	}\n	for _, e := range fs[1:] {\n		e.FlowDone(ctx, d)\n	}", ["L1"], engines="lib")
mut("l1-skip-first", E, "	for _, e := range ts {\n		e.TaskSkipped(ctx, err)", "	for _, e := range ts[1:] {\n		e.TaskSkipped(ctx, err)", ["L1"], engines="lib")
mut("l2-init-only-first", E, "	for _, e := range es {\n		emitters = append(emitters, e.ParallelInit(info))\n	}", "	for _, e := range es[:1] {\n		emitters = append(emitters, e.ParallelInit(info))\n	}", ["L2"], engines="lib")
mut("l3-drop-nested", E, "				stack = append(stack, s...)", "				stack = append(stack, s[0])", ["L3"], engines="lib")
mut("l3-single-wrapped-nop", E, "	case 1:\n		return emitters[0]", "	case 1:\n		return NopEmitter()", ["L3"], engines="lib")
mut("l4-value-unexported", "error.go", "	Value any\n", "	value any\n", ["L4"], engines="lib", edits=[dict(file="error.go", old="pe.Value, pe.Stacktrace", new="pe.value, pe.Stacktrace")])

mut("g23-revert-f7", "internal/types.go", "o.Pkg() != nil && o.Pkg().Path() == \"context\"", "o.Pkg().Path() == \"context\"", ["G23"], why="finding F7")
mut("g24-revert-f8", C, "		for _, f := range file.Flows {\n			if f != nil {\n				c.errf(c.nodePosition(f.Node), msgfmt, \"cff.Flow\")\n			}\n		}", "		for _, f := range file.Flows {\n			c.errf(c.nodePosition(f.Node), msgfmt, \"cff.Flow\")\n		}", ["G24"], why="finding F8")
mut("g24-use-before-nil-test", C, "			if task := c.compileTask(&flow, ce.Args[0], ce.Args[1:]); task != nil {\n				flow.Tasks = append(flow.Tasks, task)", "			if task := c.compileTask(&flow, ce.Args[0], ce.Args[1:]); task != nil || len(flow.Tasks) == 0 {\n				flow.Tasks = append(flow.Tasks, task)", ["G24"])
mut("g21-map-arity-check-weakened", P, "	if len(fn.Inputs) != 2 {\n		c.errf(c.nodePosition(mmap), \"map function expects two", "	if len(fn.Inputs) > 2 {\n		c.errf(c.nodePosition(mmap), \"map function expects two", ["G21"])
mut("g20-positioned-synthetic", C, "		Name: &ast.BasicLit{\n			Kind:  token.STRING,", "		Name: &ast.BasicLit{\n			ValuePos: token.Pos(1),\n			Kind:  token.STRING,", ["G20"])
mut("g19-dedupe-dependson", C, "		for _, depIdx := range g.Dependencies(idx) {\n			fn.DependsOn = append(fn.DependsOn, f.Funcs[depIdx])\n		}", "		for _, depIdx := range g.Dependencies(idx) {\n			if depIdx != idx+1 {\n				fn.DependsOn = append(fn.DependsOn, f.Funcs[depIdx])\n			}\n		}", ["G19"])

# regenerated-corpus (Y) rules: generator edits seen through the generated code
mut("y-drop-tail-byte", G, "	if _, err := buff.Write(bs[lastOff:]); err != nil {\n		return err\n	}\n\n	// Parse the generated file and clean up.", "	if _, err := buff.Write(bs[lastOff:len(bs)-1]); err != nil {\n		return err\n	}\n	buff.WriteString(\"\\n// end\\n\")\n\n	// Parse the generated file and clean up.", ["G15"], engines="gen,lint")
mut("y-sourcemap-extra-stmt", G, "		fmt.Fprintf(w, \"/*line %v:%d*/\", filepath.Base(f.PosInfo.File), endPos.Line-1)\n	}\n\n	if _, err := io.WriteString(w, \"}()\\n}()\"); err != nil {", "		fmt.Fprintf(w, \"/*line %v:%d*/\", filepath.Base(f.PosInfo.File), endPos.Line-1)\n		io.WriteString(w, \"\\n_ = 0\\n\")\n	}\n\n	if _, err := io.WriteString(w, \"}()\\n}()\"); err != nil {", ["V20"], engines="gen,lint")
mut("y-drop-predicate-edge", C, "		t.Function.Dependencies = append(t.Function.Dependencies, t.Predicate.SentinelOutput)", "		_ = t.Predicate.SentinelOutput", ["V15"], engines="gen", why="compile.go forgets the task->predicate edge: the generator now rejects valid corpus flows")
mut("y-directive-left", C, "			case fn.Name() == \"Parallel\":\n				parallel := c.compileParallel(astFile, n)", "			case fn.Name() == \"Parallel\" && len(n.Args) > 9:\n				parallel := c.compileParallel(astFile, n)", ["V15"], engines="gen", why="cff.Parallel silently skipped")
mut("y-source-decl-dropped", G, "		lastOff = posFile.Offset(gen.End())\n", "		lastOff = posFile.Offset(gen.End())\n		if len(f.Generators) > 1 {\n			lastOff += 0\n		}\n", [], benign=True, engines="gen")
# benign
mut("benign-errf-wording", C, "\"cff.Flow expects at least one function\"", "\"cff.Flow expects one or more functions\"", [], benign=True)
mut("benign-not-cff-generic-path", "internal/buildtag.go", "		// Special-case: If \"X\" in \"!X\" is \"cff\",\n		// just remove the \"!\".\n		if t, ok := ex.X.(*constraint.TagExpr); ok && t.Tag == \"cff\" {\n			*exp = ex.X\n			return\n		}\n", "", [], benign=True)
mut("benign-extra-sort", G, "	sort.Strings(newImports)\n", "	sort.Strings(newImports)\n	sort.Strings(newImports)\n", [], benign=True)
json.dump(M, open(__file__.replace("gen_lint.py", "lint.json"), "w"), indent=1)
print(len(M), "mutants")
