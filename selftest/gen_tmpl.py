#!/usr/bin/env python3
"""Generates selftest/tmpl.json: seeded edits of the template files."""
import json
T = "internal/templates/"
M = []
def mut(name, file, old, new, expect, why="", benign=False, edits=None, engines="gen"):
    d = dict(name=name, file=T + file if not file.startswith("internal/") else file, old=old, new=new, expect=expect, engines=engines, why=why, nobuild=True)
    if benign: d["benign"] = True
    if edits: d["edits"] = edits
    M.append(d)

REC_MAPEND = """		Run: func(ctx {{ $context }}.Context) (err error) {
			defer func() {
				recovered := recover()
				if recovered != nil {
					{{ template "panicError" }}
				}
			}()

			{{ if .HasError }} err = {{ end }} {{ template "callFunc" . }}"""
mut("v2-mapend-no-recover", "parallel/map.go.tmpl", REC_MAPEND, """		Run: func(ctx {{ $context }}.Context) (err error) {
			{{ if .HasError }} err = {{ end }} {{ template "callFunc" . }}""", ["V2"], why="MapEnd panic kills the process")
mut("v2-pred-no-recover", "flow/predicate.go.tmpl", """    defer func() {
	if recovered := recover(); recovered != nil {
	    p{{ predHash . }}PanicRecover = recovered
        p{{ predHash . }}PanicStacktrace = {{ import "runtime/debug" }}.Stack()
	}
    }()
""", "", ["V2"])
mut("v2-value-nil", "shared/panic_error.go.tmpl", "    Value:      recovered,\n", "    Value:      nil,\n", ["V2"])
mut("v2-recover-nested", "parallel/task.go.tmpl", "		recovered := recover()\n", "		recovered := func() any { return recover() }()\n", ["V2"], why="recover in nested literal returns nil")
mut("v2-slice-guard-after-call", "parallel/slice.go.tmpl", """		defer func() {
			recovered := recover()
			if recovered != nil {
				{{ template "panicError" }}
			}
		}()
		{{ if .Function.HasError }} err = {{ end }}{{ if .HasIndexParameter }}{{ template "callSlice" . }}{{else}}{{ template "callSliceNoIndex" . }}{{end}}
""", """		{{ if .Function.HasError }} err = {{ end }}{{ if .HasIndexParameter }}{{ template "callSlice" . }}{{else}}{{ template "callSliceNoIndex" . }}{{end}}
		defer func() {
			recovered := recover()
			if recovered != nil {
				{{ template "panicError" }}
			}
		}()
""", ["V2"])
mut("v2-pred-handover-dropped", "flow/task.go.tmpl", "				recovered = p{{ predHash .Predicate }}PanicRecover\n", "				_ = p{{ predHash .Predicate }}PanicRecover\n", ["V2"])
mut("v4-enqueue-background", "parallel/task.go.tmpl", "sched.Enqueue(ctx, {{ $cff }}.Job{\n	Run: task{{ .Serial }}.fn,", "sched.Enqueue({{ $context }}.Background(), {{ $cff }}.Job{\n	Run: task{{ .Serial }}.fn,", ["V4"])
mut("v4-task-gets-directive-ctx", "flow/task.go.tmpl", "{{ $t }}.run = func(ctx {{ $context }}.Context) (err error) {", "{{ $t }}.run = func(jobCtx {{ $context }}.Context) (err error) {", ["V4"], why="user fn gets directive ctx rather than job ctx")
mut("v3-wrap-error", "flow/task.go.tmpl", "				taskEmitter.TaskError(ctx, err)\n				return err\n", "				taskEmitter.TaskError(ctx, err)\n				return {{ import \"fmt\" }}.Errorf(\"task failed: %v\", err)\n", ["V3"])
mut("v3-drop-error-parallel", "parallel/task.go.tmpl", "			taskEmitter.TaskError(ctx, err)\n			return\n", "			taskEmitter.TaskError(ctx, err)\n			return nil\n", ["V3"])
mut("v8-early-return", "parallel/parallel.go.tmpl", "	{{ range $parallel.SliceTasks }}", "	if len(tasks) > 64 {\n		return nil\n	}\n	{{ range $parallel.SliceTasks }}", ["V8"])
mut("v1-go-slice-call", "parallel/slice.go.tmpl", "{{- define \"callSliceNoIndex\" -}}\n	{{- expr .Function.Node }}(", "{{- define \"callSliceNoIndex\" -}}\n	go {{ expr .Function.Node }}(", ["V16"], why="go stmt (only compiles w/o error)")
mut("v16-undefined-ident", "flow/flow.go.tmpl", "	schedEmitter := emitter.SchedulerInit(schedInfo)", "	schedEmitter := emitter.SchedulerInit(schedulerInfo)", ["V16"])
mut("t3-missing-field", "parallel/map.go.tmpl", "{{ if .MapEndFn -}}\n{{ $t }}Jobs := make", "{{ if .MapEnd -}}\n{{ $t }}Jobs := make", ["V16"])
mut("benign-rename-tmpl-var", "parallel/task.go.tmpl", "	taskEmitter := {{ $t }}.emitter\n", "	taskEmitter := {{ $t }}.emitter\n	_ = taskEmitter\n", [], benign=True)
mut("benign-comment", "flow/task.go.tmpl", "	defer {{ $t }}.ran.Store(true)\n", "	// mark as ran\n	defer {{ $t }}.ran.Store(true)\n", [], benign=True)

mut("v5-drop-task-deps", "flow/task.go.tmpl", """    {{ if .Function.DependsOn -}}
        Dependencies: []*{{ $cff }}.ScheduledJob{
            {{ range .Function.DependsOn -}}
			    {{ template "dependencies" . }}
            {{ end -}}
        },
    {{- end }}
""", "", ["V5"], why="tasks run before their inputs exist")
mut("v5-task-not-dep-on-pred", "flow/task.go.tmpl", "		pred{{ .Predicate.Serial }}.job,\n", "", ["V5"], why="task reads predicate result without edge")
mut("v5-pred-drop-deps", "flow/predicate.go.tmpl", "                task{{.Task.Serial}}.job,\n", "", ["V5"])
mut("v5-sliceend-no-deps", "parallel/slice.go.tmpl", "		Dependencies: {{ $t }}Jobs,\n		Run: func(ctx {{ $context }}.Context) (err error) {\n			defer func() {\n				recovered := recover()\n				if recovered != nil {\n					{{ template \"panicError\" }}\n				}\n			}()\n\n			{{ template \"callSliceEndFn\" . }}", "		Run: func(ctx {{ $context }}.Context) (err error) {\n			_ = {{ $t }}Jobs\n			defer func() {\n				recovered := recover()\n				if recovered != nil {\n					{{ template \"panicError\" }}\n				}\n			}()\n\n			{{ template \"callSliceEndFn\" . }}", ["V10"], why="SliceEnd runs before elements")
mut("v7-results-before-wait", "flow/flow.go.tmpl", """	if err := sched.Wait(ctx); err != nil {
		flowEmitter.FlowError(ctx, err)
		return err
	}

	{{ range .Outputs }}
		*({{ expr .Node }}) = v{{ typeHash .Type }} // {{ typeName .Type }}
	{{- end }}
""", """	{{ range .Outputs }}
		*({{ expr .Node }}) = v{{ typeHash .Type }} // {{ typeName .Type }}
	{{- end }}

	if err := sched.Wait(ctx); err != nil {
		flowEmitter.FlowError(ctx, err)
		return err
	}
""", ["V7", "V5"])
mut("v7-return-nil-on-error", "flow/flow.go.tmpl", "		flowEmitter.FlowError(ctx, err)\n		return err\n", "		flowEmitter.FlowError(ctx, err)\n		return nil\n", ["V7"])
mut("v9-drop-coe-forward", "parallel/parallel.go.tmpl", "			{{ with .ContinueOnError -}} ContinueOnError: {{ expr . }}, {{ end }}\n", "", ["V9"])
mut("v9-coe-constant", "parallel/parallel.go.tmpl", "{{ with .ContinueOnError -}} ContinueOnError: {{ expr . }}, {{ end }}", "{{ with .ContinueOnError -}} ContinueOnError: true, {{ end }}", ["V9"], why="non-constant false expression treated as true")
mut("v9-drop-concurrency", "flow/flow.go.tmpl", "			{{ with .Concurrency -}} Concurrency: {{ expr . }}, {{ end -}}\n", "", ["V9"])
mut("v9-emitters-only-first", "shared/emitter.go.tmpl", "			{{- range . -}}\n				{{ expr . }},\n			{{- end -}}", "			{{ expr (index . 0) }},", ["V9"])
mut("v6-call-in-loop", "flow/task.go.tmpl", "	{{ template \"taskResultList\" . }}{{ if or .Function.HasError (len .Outputs) }} = {{ end }}{{ expr .Function.Node }}{{ template \"callTaskArgs\" . }}\n", "	for i := 0; i < 2; i++ {\n	{{ template \"taskResultList\" . }}{{ if or .Function.HasError (len .Outputs) }} = {{ end }}{{ expr .Function.Node }}{{ template \"callTaskArgs\" . }}\n	}\n", ["V1"])

mut("v10-drop-val-copy", "parallel/slice.go.tmpl", "	val := val\n	{{ $t }} := new(", "	{{ $t }} := new(", ["V10"], why="go<1.22: all jobs see last element")
mut("v10-drop-key-copy-map", "parallel/map.go.tmpl", "	key := key\n", "", ["V10"])
mut("v10-end-inside-loop", "parallel/map.go.tmpl", """	{{- if .MapEndFn }} ) {{ end }}
}

{{ with .MapEndFn -}}""", """	{{- if .MapEndFn }} ) {{ end }}

{{ with .MapEndFn -}}""", ["V10"], edits=[dict(file=T+"parallel/map.go.tmpl", old="""		},
	})
{{ end }}

{{- define "callMap" -}}""", new="""		},
	})
{{ end }}
}

{{- define "callMap" -}}""")])
mut("v10-shared-task-struct", "parallel/slice.go.tmpl", "	{{ $t }} := new({{ template \"task\" }})\n	{{ $t }}.fn", "	{{ $t }} := {{ $t }}Shared\n	{{ $t }}.fn", [], edits=[dict(file=T+"parallel/slice.go.tmpl", old="\nfor {{if or .HasIndexParameter", new="\n{{ $t }}Shared := new({{ template \"task\" }})\nfor {{if or .HasIndexParameter")], why="benign: Run: x.fn copies the func value at Enqueue time", benign=True)
mut("v10-slice-jobs-index0", "parallel/slice.go.tmpl", "	 	{{ $t }}Jobs[idx] =", "	 	{{ $t }}Jobs[0] =", ["V10"])
mut("v11-drop-gate", "flow/task.go.tmpl", """	{{ if .Predicate }}
		if !p{{ predHash .Predicate }} {
			return nil
		}
	{{ end }}
""", "", ["V11"])
mut("v11-gate-inverted", "flow/task.go.tmpl", "		if !p{{ predHash .Predicate }} {\n			return nil", "		if p{{ predHash .Predicate }} {\n			return nil", ["V11"])
mut("v11-gate-returns-error", "flow/task.go.tmpl", "		if !p{{ predHash .Predicate }} {\n			return nil", "		if !p{{ predHash .Predicate }} {\n			return {{ $context }}.Canceled", ["V11"])
mut("v11-pred-fails-flow", "flow/predicate.go.tmpl", "	    p{{ predHash . }}PanicRecover = recovered\n", "	    p{{ predHash . }}PanicRecover = recovered\n	    err = &{{ $cff }}.PanicError{Value: recovered}\n", ["V11"])
mut("v12-fallback-error-only", "flow/task.go.tmpl", """			taskEmitter.TaskPanicRecovered(ctx, recovered)
			{{ template "taskResultList" . }} = {{ range $i, $v := .FallbackWithResults -}}
				{{ if gt $i 0 }},{{ end }}{{ expr $v }}
			{{- end }}{{ if gt (len .FallbackWithResults) 0 }}, {{ end }} nil
""", """			taskEmitter.TaskPanicRecovered(ctx, recovered)
			err = &{{ $cff }}.PanicError{Value: recovered}
""", ["V12"], why="fallback not applied on panic")
mut("v12-fallback-on-success", "flow/task.go.tmpl", """		} else {
			taskEmitter.TaskSuccess(ctx)
		}""", """		} else {
			taskEmitter.TaskSuccess(ctx)
			{{ if .FallbackWith }}{{ template "taskResultList" . }} = {{ range $i, $v := .FallbackWithResults -}}
				{{ if gt $i 0 }},{{ end }}{{ expr $v }}
			{{- end }}{{ if gt (len .FallbackWithResults) 0 }}, {{ end }} nil{{ end }}
		}""", ["V12"])
mut("v17-ran-plain-bool", "flow/types.go.tmpl", "		ran     {{ $cff }}.AtomicBool\n		run     func", "		ran     struct{ v bool }\n		run     func", ["V16"])

mut("v13-success-before-error-test", "flow/task.go.tmpl", """	{{ if .Function.HasError -}}
		if err != nil {""", """	{{ if .Function.HasError -}}
		taskEmitter.TaskSuccess(ctx)
		if err != nil {""", ["V13"], edits=[dict(file=T+"flow/task.go.tmpl", old="""		} else {
			taskEmitter.TaskSuccess(ctx)
		}""", new="		}")])
mut("v13-drop-flowdone", "flow/flow.go.tmpl", "	defer func() { flowEmitter.FlowDone(ctx, {{ import \"time\" }}.Since(startTime)) }()\n", "	_ = startTime\n", ["V13"])
mut("v13-flowdone-not-first", "flow/flow.go.tmpl", "	defer func() { flowEmitter.FlowDone(ctx, {{ import \"time\" }}.Since(startTime)) }()\n", "", ["V13"], edits=[dict(file=T+"flow/flow.go.tmpl", old="	{{ range $flow.TopoFuncs }}", new="	defer func() { flowEmitter.FlowDone(ctx, {{ import \"time\" }}.Since(startTime)) }()\n	{{ range $flow.TopoFuncs }}")], why="Done emitted before TaskSkipped sweep")
mut("v13-ran-before-gate", "flow/task.go.tmpl", "	defer {{ $t }}.ran.Store(true)\n", "", ["V13"], edits=[dict(file=T+"flow/task.go.tmpl", old="	{{ if .Predicate }}\n		if !p{{ predHash .Predicate }} {", new="	defer {{ $t }}.ran.Store(true)\n	{{ if .Predicate }}\n		if !p{{ predHash .Predicate }} {")], why="predicate-false task reports TaskDone, never TaskSkipped")
mut("v13-taskdone-unguarded", "parallel/task.go.tmpl", "		if {{ $t }}.ran.Load() {\n			taskEmitter.TaskDone(ctx, {{ import \"time\" }}.Since(startTime))\n		}", "		taskEmitter.TaskDone(ctx, {{ import \"time\" }}.Since(startTime))", ["V13"])
mut("v13-panic-events-swapped", "flow/task.go.tmpl", "			taskEmitter.TaskPanicRecovered(ctx, recovered)", "			taskEmitter.TaskPanic(ctx, recovered)", ["V13"])
mut("v13-task-not-swept", "parallel/task.go.tmpl", "tasks = append(tasks, task{{ .Serial }})", "_ = tasks", ["V13"])
mut("v13-flowerror-wrong-arg", "flow/flow.go.tmpl", "		flowEmitter.FlowError(ctx, err)\n		return err", "		flowEmitter.FlowError(ctx, ctx.Err())\n		return err", ["V13"])
mut("v13-parallel-taskerror-missing", "parallel/task.go.tmpl", "			taskEmitter.TaskError(ctx, err)\n			return\n", "			return\n", ["V13"])
mut("v13-sweep-ignores-ran", "parallel/parallel.go.tmpl", "			if !t.ran.Load() {\n				t.emitter.TaskSkipped(ctx, err)\n			}", "			t.emitter.TaskSkipped(ctx, err)", ["V13"])
mut("v13-nop-emitter-always", "flow/task.go.tmpl", "	{{- if .Instrument -}}\n		emitter.TaskInit(", "	{{- if false -}}\n		emitter.TaskInit(", ["V13"])
mut("v13-success-on-parallel-error-path", "parallel/task.go.tmpl", "			taskEmitter.TaskError(ctx, err)\n			return\n", "			taskEmitter.TaskError(ctx, err)\n", ["V13"])

mut("t2-raw-map-expr", "parallel/map.go.tmpl", "for key, val := range {{ expr .Map }} {", "for key, val := range {{ rawExpr .Map }} {", ["T2"], why="map expression evaluated twice / late")
mut("t2-bare-slice-expr", "parallel/slice.go.tmpl", "{{ $t }}Slice := {{ expr .Slice }}", "{{ $t }}Slice := {{ .Slice }}", ["T2"])
mut("t2-prologue-uses-expr-twice", "prologue/param_expr.go.tmpl", "	{{ expr . }} := {{ rawExpr . }}", "	{{ expr . }} := {{ expr . }}", ["T2"])
mut("t1-new-decision-field", "flow/task.go.tmpl", "	defer {{ $t }}.ran.Store(true)\n", "	{{ if .Function.Sig }}_ = 0{{ end }}\n	defer {{ $t }}.ran.Store(true)\n", ["T1"], why="model drift: new template decision not covered by the product")

MT="internal/modifier/templates/"
mut("m-task-no-named-result", MT+"flow_task.go.tmpl", "{{ $t }}.run = func(ctx {{ $context }}.Context) (err error) {", "{{ $t }}.run = func(ctx {{ $context }}.Context) error {\n	var err error", ["V18", "V2"], edits=[dict(file=MT+"flow_task.go.tmpl", old="{{ template \"callTaskArgs\" . }}\n	return\n}", new="{{ template \"callTaskArgs\" . }}\n	return err\n}")], why="modifier task panic swallowed")
mut("m-drop-deps", MT+"flow_task.go.tmpl", "			    {{ template \"dependencies\" . }}\n", "", ["V18", "V5"])
mut("m-results-before-wait", MT+"flow.go.tmpl", "	if err := sched.Wait(ctx); err != nil {\n		flowEmitter.FlowError(ctx, err)\n		return err\n	}\n\n	{{ range .Outputs }}\n		*({{ expr .Node }}) = v{{ typeHash .Type }} // {{ typeName .Type }}\n	{{ end }}\n", "	{{ range .Outputs }}\n		*({{ expr .Node }}) = v{{ typeHash .Type }} // {{ typeName .Type }}\n	{{ end }}\n	if err := sched.Wait(ctx); err != nil {\n		flowEmitter.FlowError(ctx, err)\n		return err\n	}\n", ["V18", "V7"])
mut("m-concurrency-dropped", MT+"flow.go.tmpl", "{{ with .Concurrency -}} Concurrency: {{ expr . }}, {{ end -}}", "", ["V18", "V9"])
json.dump(M, open(__file__.replace("gen_tmpl.py", "tmpl.json"), "w"), indent=1)
print(len(M), "mutants")
