#!/usr/bin/env python3
"""Generates selftest/sched.json: seeded edits of scheduler/scheduler.go and scheduler.go."""
import json
F = "scheduler/scheduler.go"
M = []
def mut(name, old, new, expect, file=F, why="", benign=False, edits=None):
    d = dict(name=name, file=file, old=old, new=new, expect=expect, engines="sched", why=why)
    if benign: d["benign"] = True
    if edits: d["edits"] = edits
    M.append(d)

mut("s5-drop-remaining-guard-enq", "\t\t\tif job.remaining == 0 {\n\t\t\t\tready.PushBack(job)\n\t\t\t} else {\n\t\t\t\twaiting++\n\t\t\t}",
    "\t\t\tready.PushBack(job)\n\t\t\tif job.remaining != 0 {\n\t\t\t\twaiting++\n\t\t\t}", ["S5"], why="job runs before deps")
mut("s5-guard-le-1", "\t\t\t\tif consumer.remaining == 0 {", "\t\t\t\tif consumer.remaining <= 1 {", ["S5"])
mut("s7-double-decrement", "\t\t\t\tconsumer.remaining--\n", "\t\t\t\tconsumer.remaining--\n\t\t\t\tif len(job.consumers) > 3 {\n\t\t\t\t\tconsumer.remaining--\n\t\t\t\t}\n", ["S7"])
mut("s7-register-done-dep", "\t\t\t\t\tcontinue\n\t\t\t\t}\n\t\t\t\tdep.consumers", "\t\t\t\t}\n\t\t\t\tdep.consumers", ["S7"], why="finished dep never notifies → deadlock")
mut("s6-no-remove", "\t\t\tready.Remove(nextEl)\n", "\t\t\t_ = nextEl\n", ["S6"], why="job dispatched twice")
mut("s6-buffered-ready", "\treadyc := make(chan *ScheduledJob)\n", "\treadyc := make(chan *ScheduledJob, 8)\n", ["S10"])
mut("s11-go-run", "\t\t\tres.Err = j.run(j.ctx)\n", "\t\t\tdone := make(chan error)\n\t\t\tgo func() { done <- j.run(j.ctx) }()\n\t\t\tres.Err = <-done\n", ["S9", "S11"])
mut("s9-go-per-enqueue", "\ts.enqueuec <- pj // panics if closed\n", "\tgo func() { s.enqueuec <- pj }()\n", ["S9"])
mut("s12-min-2", "_minDefaultWorkers = 4", "_minDefaultWorkers = 2", ["S12"])
mut("s13-drop-ctx-check", "\t\tif err := j.ctx.Err(); err != nil {\n\t\t\t// Don't run if context already cancelled.\n\t\t\tres.Err = err\n\t\t} else if j.invalid {",
    "\t\tif j.invalid {", ["S13"])
mut("s13-background-ctx", "res.Err = j.run(j.ctx)", "res.Err = j.run(context.Background())", ["S13"])
mut("s13-drop-invalid-check", "\t\t} else if j.invalid {\n\t\t\t// Don't run if marked as invalid.\n\t\t\tres.Err = errJobInvalid\n\t\t} else {", "\t\t} else {", ["S13"])
mut("s16-drop-drain", "\tdefer func() {\n\t\tfor range s.enqueuec {\n\t\t}\n\t}()\n", "", ["S16"])
mut("s16-drop-close-ready", "\tdefer close(s.readyc)    // kill workers\n", "", ["S16"])
mut("s16-drop-close-finished", "\tdefer close(s.finishedc) // unblock Wait()\n", "", ["S16"])
mut("s10-donec-unbuffered", "donec := make(chan jobResult, c.Concurrency)", "donec := make(chan jobResult)", ["S10"])
mut("s10-donec-half", "donec := make(chan jobResult, c.Concurrency)", "donec := make(chan jobResult, c.Concurrency/2)", ["S10"])
mut("s17-exit-or", "if pending == 0 && enqueuec == nil {", "if pending == 0 || enqueuec == nil {", ["S17"])
mut("s17-drop-store-err", "\t\t\t\t\ts.err = err\n\t\t\t\t\treturn\n", "\t\t\t\t\treturn\n", ["S17"])
mut("s17-exit-ready-empty", "if pending == 0 && enqueuec == nil {", "if ready.Len() == 0 && enqueuec == nil {", ["S17"])
mut("s20-drop-ctx-arm", "\tcase <-ctx.Done():\n\t\treturn ctx.Err()\n", "", ["S20"])
mut("s20-wait-returns-nil", "\t\terr := s.err\n", "\t\tvar err error\n", ["S20"])
mut("s20-no-close", "\tclose(s.enqueuec) // disallow new Enqueues\n", "", ["S20"])
mut("s22-drop-invalidation", "\t\t\t\tfor _, consumer := range job.consumers {\n\t\t\t\t\tconsumer.invalid = true\n\t\t\t\t}\n", "", ["S22"])
mut("s22-drop-sentinel-filter", "\t\t\t\tif !errors.Is(err, errJobInvalid) {\n\t\t\t\t\ts.err = multierr.Append(s.err, err)\n\t\t\t\t}\n", "\t\t\t\ts.err = multierr.Append(s.err, err)\n", ["S22"])
mut("s22-invalidate-only-real-errors", "\t\t\t\tif !errors.Is(err, errJobInvalid) {\n\t\t\t\t\ts.err = multierr.Append(s.err, err)\n\t\t\t\t}\n\t\t\t\tfor _, consumer := range job.consumers {\n\t\t\t\t\tconsumer.invalid = true\n\t\t\t\t}\n",
    "\t\t\t\tif !errors.Is(err, errJobInvalid) {\n\t\t\t\t\ts.err = multierr.Append(s.err, err)\n\t\t\t\t\tfor _, consumer := range job.consumers {\n\t\t\t\t\t\tconsumer.invalid = true\n\t\t\t\t\t}\n\t\t\t\t}\n", ["S22"], why="invalidation not transitive")
mut("s23-drop-late-enqueue-check", "\t\t\t\t\tif dep.err != nil {\n\t\t\t\t\t\tjob.invalid = true\n\t\t\t\t\t}\n", "", ["S23"])
mut("s2-worker-sets-done", "\t\tcurrentJob = nil\n\t\tdonec <- res\n", "\t\tcurrentJob = nil\n\t\tj.done = true\n\t\tdonec <- res\n", ["S1", "S2"])
mut("s21-enqueue-reads-err", "\ts.enqueuec <- pj // panics if closed\n", "\tif s.err != nil {\n\t\treturn pj\n\t}\n\ts.enqueuec <- pj // panics if closed\n", ["S3", "S21"])
mut("s25-waiting-unconditional", "\t\t\tif job.remaining == 0 {\n\t\t\t\tready.PushBack(job)\n\t\t\t} else {\n\t\t\t\twaiting++\n\t\t\t}", "\t\t\twaiting++\n\t\t\tif job.remaining == 0 {\n\t\t\t\tready.PushBack(job)\n\t\t\t}", ["S25"])
mut("s26-pending-ongoing", "\t\t\t\t\tPending:     pending,", "\t\t\t\t\tPending:     ongoing,", ["S26"])
mut("s26-idle-swapped", "IdleWorkers: idleWorkers(s.concurrency, ongoing),", "IdleWorkers: idleWorkers(ongoing, s.concurrency),", ["S26"])
mut("s15-drop-respawn", "\t\tgo worker(readyc, donec)\n\t}()\n\n\tfor j := range readyc {", "\t}()\n\n\tfor j := range readyc {", ["S15"])
mut("s15-exitcleanly-early", "\tfor j := range readyc {\n\t\tres := jobResult{Job: j}", "\texitCleanly = true\n\tfor j := range readyc {\n\t\tres := jobResult{Job: j}", ["S15"])
mut("s15-currentjob-not-cleared", "\t\tcurrentJob = nil\n\t\tdonec <- res", "\t\tdonec <- res", ["S15"])
mut("s8-done-after-branch", "\t\t\tjob.done = true\n\n\t\t\tpending--\n\t\t\tongoing--\n\n\t\t\tif err := res.Err; err != nil {\n\t\t\t\tjob.err = err\n",
    "\t\t\tpending--\n\t\t\tongoing--\n\n\t\t\tif err := res.Err; err != nil {\n\t\t\t\tjob.done = true\n\t\t\t\tjob.err = err\n", ["S8"])
mut("s18-continue-instead-of-break", "\t\t\t\tenqueuec = nil\n\t\t\t\tbreak\n", "\t\t\t\tenqueuec = nil\n\t\t\t\tcontinue\n", ["S18"], why="skips exit test: Wait with zero pending hangs")
mut("s19-donec-local-nil", "\t\tcase res := <-s.donec:", "\t\tcase res := <-doneLocal:",
    ["S19"], edits=[dict(file=F, old="\tenqueuec := s.enqueuec\n", new="\tenqueuec := s.enqueuec\n\tdoneLocal := s.donec\n\tif s.concurrency > 1024 {\n\t\tdoneLocal = nil\n\t}\n")])
mut("s29-drop-continue-forward", "\t\tContinueOnError: p.ContinueOnError,\n", "", ["S29"], file="scheduler.go")
mut("s29-concurrency-not-forwarded", "\t\tconcurrency:     c.Concurrency,", "\t\tconcurrency:     len(c.String()),", ["ENGINE"],
    edits=[dict(file=F, old="// New starts a scheduler with a fixed number of goroutines.", new="func (c Config) String() string { return \"\" }\n\n// New starts a scheduler with a fixed number of goroutines.")])
mut("s14-wrap-error", "\t\t\tres.Err = j.run(j.ctx)\n", "\t\t\tif e := j.run(j.ctx); e != nil {\n\t\t\t\tres.Err = errors.New(e.Error())\n\t\t\t}\n", ["S14"])
mut("s14-skip-result-on-invalid", "\t\t\tres.Err = errJobInvalid\n\t\t} else {", "\t\t\tcurrentJob = nil\n\t\t\tcontinue\n\t\t} else {", ["S14"])
mut("s24-export-sentinel-via-wait", "\t\tif err == nil {\n\t\t\terr = ctx.Err()\n\t\t}\n\t\treturn err", "\t\tif err == nil {\n\t\t\terr = ctx.Err()\n\t\t}\n\t\tif err == nil && s.continueOnError {\n\t\t\terr = errJobInvalid\n\t\t}\n\t\treturn err", ["S24", "S20"])
mut("s28-emit-after-loop", "\tdefer close(s.finishedc) // unblock Wait()\n", "\tdefer close(s.finishedc) // unblock Wait()\n\tdefer func() {\n\t\tif emitter != nil {\n\t\t\temitter.Emit(State{Concurrency: s.concurrency, IdleWorkers: s.concurrency})\n\t\t}\n\t}()\n", ["S28"])
mut("s4-add-method", "// Enqueue queues up a job for execution with the scheduler.", "// Done reports whether the job ran.\nfunc (j *ScheduledJob) Done() bool { return j.done }\n\n// Enqueue queues up a job for execution with the scheduler.", ["S4", "S1"])
mut("s9-spawn-2n", "for i := 0; i < c.Concurrency; i++ {", "for i := 0; i < 2*c.Concurrency; i++ {", ["S9"])

# benign edits: must stay silent
mut("benign-rename-locals", "ongoing := 0", "executing := 0", [], benign=True,
    edits=[dict(file=F, old="\t\t\tongoing++\n", new="\t\t\texecuting++\n"), dict(file=F, old="\t\t\tongoing--\n", new="\t\t\texecuting--\n"),
           dict(file=F, old="idleWorkers(s.concurrency, ongoing)", new="idleWorkers(s.concurrency, executing)"),
           dict(file=F, old="ready.Len() > 0 && ongoing < s.concurrency", new="ready.Len() > 0 && executing < s.concurrency")])
mut("benign-new-state-field", "\t\t\t\t\tConcurrency: s.concurrency,\n", "\t\t\t\t\tConcurrency: s.concurrency,\n\t\t\t\t\tTotal:       pending + 0,\n", [], benign=True,
    edits=[dict(file="scheduler/emitter.go", old="\tConcurrency int\n}", new="\tConcurrency int\n\t// Total.\n\tTotal int\n}")])
mut("benign-new-select-arm", "\t\tcase <-tickerC:", "\t\tcase <-s.quit:\n\t\t\t_ = 0\n\n\t\tcase <-tickerC:", [], benign=True,
    edits=[dict(file=F, old="\tcontinueOnError bool\n}", new="\tcontinueOnError bool\n\n\tquit chan struct{}\n}")])
mut("benign-early-continue-form", "\t\t\tif job.remaining == 0 {\n\t\t\t\tready.PushBack(job)\n\t\t\t} else {\n\t\t\t\twaiting++\n\t\t\t}",
    "\t\t\tif job.remaining != 0 {\n\t\t\t\twaiting++\n\t\t\t\tbreak\n\t\t\t}\n\t\t\tready.PushBack(job)", [], benign=True)
mut("s27-revert-dispatch-gate", "\t\tif ready.Len() > 0 && ongoing < s.concurrency {", "\t\tif ready.Len() > 0 {", ["S27"], why="finding F1")
mut("benign-gate-other-form", "\t\tif ready.Len() > 0 && ongoing < s.concurrency {", "\t\tif s.concurrency > ongoing && ready.Len() > 0 {", [], benign=True)
mut("benign-inline-idle", "IdleWorkers: idleWorkers(s.concurrency, ongoing),", "IdleWorkers: s.concurrency - ongoing,", [], benign=True,
    edits=[dict(file=F, old="func idleWorkers(concurrency, ongoing int) int {", new="func idleWorkersUnused(concurrency, ongoing int) int {")])
mut("benign-log-line", "\t\t\tpending++\n", "\t\t\tpending++\n\t\t\t_ = time.Now()\n", [], benign=True)
json.dump(M, open(__file__.replace("gen_sched.py", "sched.json"), "w"), indent=1)
print(len(M), "mutants")
