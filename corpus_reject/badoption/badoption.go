//go:build cff
// +build cff

// An option of cff.Parallel given to cff.Flow.
package badoption

import (
	"context"

	"go.uber.org/cff"
)

type A struct{ N int }

func F(ctx context.Context, xs []int) (A, error) {
	var a A
	err := cff.Flow(ctx,
		cff.Results(&a),
		cff.Task(func() A { return A{} }),
		cff.Slice(func(i, x int) {}, xs),
	)
	return a, err
}
