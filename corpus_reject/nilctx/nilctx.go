//go:build cff
// +build cff

// The literal nil as the context argument (finding F13).
package nilctx

import "go.uber.org/cff"

type A struct{ N int }

func F() (A, error) {
	var out A
	err := cff.Flow(nil,
		cff.Results(&out),
		cff.Task(func() A { return A{} }),
	)
	return out, err
}
