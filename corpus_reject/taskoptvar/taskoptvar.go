//go:build cff
// +build cff

package taskoptvar

import (
	"context"

	"go.uber.org/cff"
)

// Task, Slice and Map options held in variables.
func F(ctx context.Context, o cff.TaskOption) (int, error) {
	var n int
	err := cff.Flow(ctx, cff.Results(&n), cff.Task(func() int { return 1 }, o))
	return n, err
}

func G(ctx context.Context, xs []int, o cff.SliceOption) error {
	return cff.Parallel(ctx, cff.Slice(func(int, int) {}, xs, o))
}

func H(ctx context.Context, m map[string]int, o cff.MapOption) error {
	return cff.Parallel(ctx, cff.Map(func(string, int) {}, m, o))
}
