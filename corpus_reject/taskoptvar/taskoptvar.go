//go:build cff
// +build cff

package taskoptvar

import (
	"context"

	"go.uber.org/cff"
)

// A Task option held in a variable.
func F(ctx context.Context, o cff.TaskOption) (int, error) {
	var n int
	err := cff.Flow(ctx, cff.Results(&n), cff.Task(func() int { return 1 }, o))
	return n, err
}
