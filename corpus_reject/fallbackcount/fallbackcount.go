//go:build cff
// +build cff

// FallbackWith with fewer values than the task has results.
package fallbackcount

import (
	"context"

	"go.uber.org/cff"
)

type A struct{ N int }
type B struct{ N int }

func F(ctx context.Context) (A, B, error) {
	var a A
	var b B
	err := cff.Flow(ctx,
		cff.Results(&a, &b),
		cff.Task(func() (A, B, error) { return A{}, B{}, nil }, cff.FallbackWith(A{})),
	)
	return a, b, err
}
