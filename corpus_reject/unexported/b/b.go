package b

type hidden struct{ N int }

// Make returns a value whose type cannot be named outside this package.
func Make() hidden { return hidden{N: 1} }

// Use takes one.
func Use(h hidden) int { return h.N }
