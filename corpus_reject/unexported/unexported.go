//go:build cff
// +build cff

// A value of another package's unexported type flows through the directive (finding F12).
package unexported

import (
	"context"

	"example.com/reject/unexported/b"
	"go.uber.org/cff"
)

func F(ctx context.Context) (int, error) {
	var out int
	err := cff.Flow(ctx,
		cff.Results(&out),
		cff.Task(b.Make),
		cff.Task(b.Use),
	)
	return out, err
}
