//go:build cff
// +build cff

// len is a variable where a Slice with SliceEnd is written: the generated len(...) would use it (finding F16).
package lenend

import (
	"context"

	"go.uber.org/cff"
)

func EachThenDone(ctx context.Context, xs []int) error {
	len := len(xs)
	_ = len
	return cff.Parallel(ctx,
		cff.Slice(func(i int, x int) {}, xs, cff.SliceEnd(func() {})),
	)
}
