//go:build cff
// +build cff

// A directive inside a task literal of another directive (finding F10).
package nested

import (
	"context"

	"go.uber.org/cff"
)

type A struct{ N int }
type B struct{ N int }

func F(ctx context.Context) (A, error) {
	var out A
	err := cff.Flow(ctx,
		cff.Results(&out),
		cff.Task(func() (A, error) {
			var b B
			err := cff.Flow(ctx, cff.Results(&b), cff.Task(func() B { return B{} }))
			return A{b.N}, err
		}),
	)
	return out, err
}
