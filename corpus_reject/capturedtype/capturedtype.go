//go:build cff
// +build cff

// A type called like a variable of the generated code (finding F15).
package capturedtype

import (
	"context"

	"go.uber.org/cff"
)

type emitter struct{ N int }

func mk() *emitter       { return &emitter{N: 2} }
func use(t *emitter) int { return t.N }

func F(ctx context.Context) (int, error) {
	var out int
	err := cff.Flow(ctx,
		cff.Results(&out),
		cff.Task(mk),
		cff.Task(use),
	)
	return out, err
}
