//go:build cff
// +build cff

package cycle

import (
	"context"

	"go.uber.org/cff"
)

type A struct{ N int }
type B struct{ N int }
type C struct{ N int }

func F(ctx context.Context) (C, error) {
	var out C
	err := cff.Flow(ctx,
		cff.Results(&out),
		cff.Task(func(b B) A { return A{b.N} }),
		cff.Task(func(a A) B { return B{a.N} }),
		cff.Task(func(a A) C { return C{a.N} }),
	)
	return out, err
}
