//go:build cff
// +build cff

package sliceassign

import (
	"context"
	"fmt"

	"go.uber.org/cff"
)

func F(ctx context.Context, xs []fmt.Stringer) error {
	return cff.Parallel(ctx,
		cff.Slice(func(i int, s *fmt.Stringer) {}, xs),
	)
}
