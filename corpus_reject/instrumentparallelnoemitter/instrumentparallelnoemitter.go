//go:build cff
// +build cff

package instrumentparallelnoemitter

import (
	"context"

	"go.uber.org/cff"
)

func F(ctx context.Context) error {
	return cff.Parallel(ctx,
		cff.InstrumentParallel("p"),
		cff.Tasks(func() {}),
	)
}
