//go:build cff
// +build cff

package spreadslice

import (
	"context"

	"go.uber.org/cff"
)

func pair() (func(int, string) error, []string) {
	return func(int, string) error { return nil }, []string{"a"}
}

// One multi-value call stands for both arguments of cff.Slice: type-correct Go, a single argument
// expression. cff must refuse it with a diagnostic (it used to die with an index out of range: F20).
func F(ctx context.Context) error {
	return cff.Parallel(ctx,
		cff.Slice(pair()),
	)
}
