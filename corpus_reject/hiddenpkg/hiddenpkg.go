//go:build cff
// +build cff

// A parameter called like a package the generated code refers to (finding F11).
package hiddenpkg

import (
	"context"

	"go.uber.org/cff"
)

type A struct{ N int }

func F(ctx context.Context, time int, debug bool) (A, error) {
	var out A
	err := cff.Flow(ctx,
		cff.Results(&out),
		cff.Task(func() A { return A{time} }),
	)
	_ = debug
	return out, err
}
