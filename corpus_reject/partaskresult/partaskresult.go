//go:build cff
// +build cff

package partaskresult

import (
	"context"

	"go.uber.org/cff"
)

// A parallel task may only return an error.
func F(ctx context.Context) error {
	return cff.Parallel(ctx, cff.Tasks(func() int { return 1 }))
}
