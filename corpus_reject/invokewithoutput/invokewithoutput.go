//go:build cff
// +build cff

// cff.Invoke on a task that has a result.
package invokewithoutput

import (
	"context"

	"go.uber.org/cff"
)

type A struct{ N int }

func F(ctx context.Context) (A, error) {
	var a A
	err := cff.Flow(ctx,
		cff.Results(&a),
		cff.Task(func() A { return A{} }, cff.Invoke(true)),
	)
	return a, err
}
