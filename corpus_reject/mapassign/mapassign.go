//go:build cff
// +build cff

package mapassign

import (
	"context"

	"go.uber.org/cff"
)

func F(ctx context.Context, m map[string]int) error {
	return cff.Parallel(ctx,
		cff.Map(func(k int, v int) {}, m),
	)
}
