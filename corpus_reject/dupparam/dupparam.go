//go:build cff
// +build cff

package dupparam

import (
	"context"

	"go.uber.org/cff"
)

type A struct{ N int }

func F(ctx context.Context, x, y int) (A, error) {
	var out A
	err := cff.Flow(ctx,
		cff.Params(x, y),
		cff.Results(&out),
		cff.Task(func(i int) A { return A{i} }),
	)
	return out, err
}
