//go:build cff
// +build cff

package mapoptvar

import (
	"context"

	"go.uber.org/cff"
)

// A Map option held in a variable.
func H(ctx context.Context, m map[string]int, o cff.MapOption) error {
	return cff.Parallel(ctx, cff.Map(func(string, int) {}, m, o))
}
