//go:build cff
// +build cff

package unusedparam

import (
	"context"

	"go.uber.org/cff"
)

type A struct{ N int }

func F(ctx context.Context, s string) (A, error) {
	var out A
	err := cff.Flow(ctx,
		cff.Params(s),
		cff.Results(&out),
		cff.Task(func() A { return A{1} }),
	)
	return out, err
}
