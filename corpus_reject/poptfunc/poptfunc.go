//go:build cff
// +build cff

package poptfunc

import (
	"context"

	"go.uber.org/cff"
)

// A Parallel option produced by a call cff cannot resolve to a cff function (a function value).
func F(ctx context.Context, mk func() cff.Option) error {
	return cff.Parallel(ctx, mk(), cff.Task(func() {}))
}
