//go:build cff
// +build cff

// A directive reached through a dot import of cff (finding F17): it must be reported, not skipped.
package dotimport

import (
	"context"

	. "go.uber.org/cff"
)

type A struct{ N int }

func F(ctx context.Context) (A, error) {
	var out A
	err := Flow(ctx,
		Results(&out),
		Task(func() A { return A{} }),
	)
	return out, err
}
