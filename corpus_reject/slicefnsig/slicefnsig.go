//go:build cff
// +build cff

package slicefnsig

import (
	"context"

	"go.uber.org/cff"
)

// The function of a Slice takes (index, element); a first parameter that is not an int is refused.
func F(ctx context.Context, xs []int) error {
	return cff.Parallel(ctx,
		cff.Slice(func(s string, x int) {}, xs),
	)
}
