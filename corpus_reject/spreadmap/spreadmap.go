//go:build cff
// +build cff

package spreadmap

import (
	"context"

	"go.uber.org/cff"
)

func pair() (func(string, int) error, map[string]int) {
	return func(string, int) error { return nil }, map[string]int{"a": 1}
}

// One multi-value call stands for both arguments of cff.Map (see spreadslice; F20).
func F(ctx context.Context) error {
	return cff.Parallel(ctx,
		cff.Map(pair()),
	)
}
