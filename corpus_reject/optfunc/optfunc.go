//go:build cff
// +build cff

package optfunc

import (
	"context"

	"go.uber.org/cff"
)

// Options produced by calls cff cannot resolve to a cff function: a function value and a user function.
func F(ctx context.Context, mk func() cff.Option) error {
	return cff.Parallel(ctx, mk(), cff.Task(func() {}))
}

func G(ctx context.Context, mk func() cff.Option) (int, error) {
	var n int
	err := cff.Flow(ctx, mk(), cff.Results(&n), cff.Task(func() int { return 1 }))
	return n, err
}
