//go:build cff
// +build cff

package optfunc

import (
	"context"

	"go.uber.org/cff"
)

// A Flow option produced by a call cff cannot resolve to a cff function (here a function value).
func G(ctx context.Context, mk func() cff.Option) (int, error) {
	var n int
	err := cff.Flow(ctx, mk(), cff.Results(&n), cff.Task(func() int { return 1 }))
	return n, err
}
