//go:build cff
// +build cff

// A predicate consumes a type that nothing provides.
package prednoprovider

import (
	"context"

	"go.uber.org/cff"
)

type A struct{ N int }
type B struct{ N int }

func F(ctx context.Context) (A, error) {
	var out A
	err := cff.Flow(ctx,
		cff.Results(&out),
		cff.Task(func() A { return A{1} }, cff.Predicate(func(b B) bool { return b.N > 0 })),
	)
	return out, err
}
