package tasks

type Item struct{ N int }
