//go:build cff
// +build cff

// A package called like a variable of the generated code (finding F15).
package capturedpkg

import (
	"context"

	"example.com/reject/capturedpkg/tasks"
	"go.uber.org/cff"
)

func mk() *tasks.Item       { return &tasks.Item{N: 2} }
func use(t *tasks.Item) int { return t.N }

func F(ctx context.Context) (int, error) {
	var out int
	err := cff.Flow(ctx,
		cff.Results(&out),
		cff.Task(mk),
		cff.Task(use),
	)
	return out, err
}
