//go:build cff
// +build cff

package predcycle

import (
	"context"

	"go.uber.org/cff"
)

type A struct{ N int }
type B struct{ N int }

func F(ctx context.Context) (B, error) {
	var out B
	err := cff.Flow(ctx,
		cff.Results(&out),
		cff.Task(func() A { return A{1} }, cff.Predicate(func(b B) bool { return b.N > 0 })),
		cff.Task(func(a A) B { return B{a.N} }),
	)
	return out, err
}
