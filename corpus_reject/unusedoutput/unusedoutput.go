//go:build cff
// +build cff

package unusedoutput

import (
	"context"

	"go.uber.org/cff"
)

type A struct{ N int }
type B struct{ N int }

func F(ctx context.Context) (A, error) {
	var out A
	err := cff.Flow(ctx,
		cff.Results(&out),
		cff.Task(func() A { return A{1} }),
		cff.Task(func(a A) B { return B{a.N} }),
	)
	return out, err
}
