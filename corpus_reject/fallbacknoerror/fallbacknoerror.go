//go:build cff
// +build cff

// FallbackWith on a task that cannot fail.
package fallbacknoerror

import (
	"context"

	"go.uber.org/cff"
)

type A struct{ N int }

func F(ctx context.Context) (A, error) {
	var a A
	err := cff.Flow(ctx,
		cff.Results(&a),
		cff.Task(func() A { return A{} }, cff.FallbackWith(A{})),
	)
	return a, err
}
