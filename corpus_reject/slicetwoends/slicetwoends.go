//go:build cff
// +build cff

package slicetwoends

import (
	"context"

	"go.uber.org/cff"
)

func F(ctx context.Context, xs []int) error {
	return cff.Parallel(ctx,
		cff.Slice(func(i, x int) {}, xs, cff.SliceEnd(func() {}), cff.SliceEnd(func() {})),
	)
}
