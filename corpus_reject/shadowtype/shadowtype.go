//go:build cff
// +build cff

// The name of a type that flows through the directive is redeclared where the directive is written (finding F12).
package shadowtype

import (
	"context"

	"go.uber.org/cff"
)

type T struct{ N int }

func mk() T       { return T{N: 2} }
func use(t T) int { return t.N }

func F(ctx context.Context) (int, error) {
	type T int
	var _ T
	var out int
	err := cff.Flow(ctx,
		cff.Results(&out),
		cff.Task(mk),
		cff.Task(use),
	)
	return out, err
}
