//go:build cff
// +build cff

package partaskparam

import (
	"context"

	"go.uber.org/cff"
)

// A parallel task may only take a context.
func F(ctx context.Context) error {
	return cff.Parallel(ctx, cff.Tasks(func(n int) {}))
}
