//go:build cff
// +build cff

// cff.Invoke with an argument that is not a constant (finding F7).
package invokevar

import (
	"context"

	"go.uber.org/cff"
)

func F(ctx context.Context, eager bool) error {
	return cff.Flow(ctx,
		cff.Task(func() {}, cff.Invoke(eager)),
	)
}
