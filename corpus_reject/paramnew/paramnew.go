//go:build cff
// +build cff

// Parameters called old and new around a directive: the generated new(...) would call the parameter (finding F16).
package paramnew

import (
	"context"

	"go.uber.org/cff"
)

type Old int
type New int

func Diff(ctx context.Context, old Old, new New) (int, error) {
	var out int
	err := cff.Flow(ctx,
		cff.Params(old, new),
		cff.Results(&out),
		cff.Task(func(a Old, b New) int { return int(b) - int(a) }),
	)
	return out, err
}
