//go:build cff
// +build cff

package ptaskbadoption

import (
	"context"

	"go.uber.org/cff"
)

func F(ctx context.Context) error {
	return cff.Parallel(ctx,
		cff.Task(func() {}, cff.Invoke(true)),
	)
}
