//go:build cff
// +build cff

// A predicate that does not return exactly one bool.
package predbadsig

import (
	"context"

	"go.uber.org/cff"
)

type A struct{ N int }

func F(ctx context.Context) (A, error) {
	var out A
	err := cff.Flow(ctx,
		cff.Results(&out),
		cff.Task(func() A { return A{1} }, cff.Predicate(func() (bool, error) { return true, nil })),
	)
	return out, err
}
