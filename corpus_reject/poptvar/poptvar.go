//go:build cff
// +build cff

package poptvar

import (
	"context"

	"go.uber.org/cff"
)

// An option of a Parallel held in a variable.
func F(ctx context.Context, o cff.Option) error {
	return cff.Parallel(ctx, o, cff.Task(func() {}))
}
