//go:build cff
// +build cff

package optvar

import (
	"context"

	"go.uber.org/cff"
)

// An option held in a variable is type-correct Go; cff cannot see what it is and must say so.
func F(ctx context.Context, o cff.Option) (int, error) {
	var n int
	err := cff.Flow(ctx, o, cff.Results(&n), cff.Task(func() int { return 1 }))
	return n, err
}
