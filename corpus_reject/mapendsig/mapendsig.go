//go:build cff
// +build cff

package mapendsig

import (
	"context"

	"go.uber.org/cff"
)

func F(ctx context.Context, m map[string]int) error {
	return cff.Parallel(ctx,
		cff.Map(func(k string, v int) {}, m, cff.MapEnd(func() int { return 0 })),
	)
}
