//go:build cff
// +build cff

// SliceEnd together with ContinueOnError.
package sliceendcoe

import (
	"context"

	"go.uber.org/cff"
)

func F(ctx context.Context, xs []int) error {
	return cff.Parallel(ctx,
		cff.ContinueOnError(true),
		cff.Slice(func(i, x int) {}, xs, cff.SliceEnd(func() {})),
	)
}
