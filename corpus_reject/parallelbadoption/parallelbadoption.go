//go:build cff
// +build cff

package parallelbadoption

import (
	"context"

	"go.uber.org/cff"
)

// An option of cff.Flow given to cff.Parallel.
func F(ctx context.Context) error {
	var out int
	return cff.Parallel(ctx,
		cff.Tasks(func() {}),
		cff.Results(&out),
	)
}
