//go:build cff
// +build cff

// cff.Instrument without an emitter.
package instrumentnoemitter

import (
	"context"

	"go.uber.org/cff"
)

type A struct{ N int }

func F(ctx context.Context) (A, error) {
	var a A
	err := cff.Flow(ctx,
		cff.Results(&a),
		cff.Task(func() A { return A{} }, cff.Instrument("mk")),
	)
	return a, err
}
