//go:build cff
// +build cff

package sliceoptvar

import (
	"context"

	"go.uber.org/cff"
)

// A Slice option held in a variable.
func G(ctx context.Context, xs []int, o cff.SliceOption) error {
	return cff.Parallel(ctx, cff.Slice(func(int, int) {}, xs, o))
}
