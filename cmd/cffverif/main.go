// cffverif: static verification of uber-go/cff (see /verif/DESIGN.md).
package main

import (
	"encoding/json"
	"flag"
	"fmt"
	"os"
	"path/filepath"
	"runtime/debug"
	"sort"
	"strconv"
	"strings"
	"time"

	"cffverif/internal/gen"
	"cffverif/internal/genlint"
	"cffverif/internal/lib"
	"cffverif/internal/load"
	"cffverif/internal/regen"
	"cffverif/internal/report"
	"cffverif/internal/sched"
	"cffverif/internal/variants"
)

func verifDir() string {
	if d := os.Getenv("CFFVERIF_DIR"); d != "" {
		return d
	}
	exe, err := os.Executable()
	if err == nil {
		d := filepath.Dir(filepath.Dir(exe))
		if _, err := os.Stat(filepath.Join(d, "properties.jsonl")); err == nil {
			return d
		}
	}
	return "/verif"
}

// homeDir is where the checker's own committed inputs live (corpus, selftest); unlike verifDir it is not redirected by CFFVERIF_DIR.
func homeDir() string {
	if exe, err := os.Executable(); err == nil {
		d := filepath.Dir(filepath.Dir(exe))
		if _, err := os.Stat(filepath.Join(d, "corpus")); err == nil {
			return d
		}
	}
	return "/verif"
}

func allRules() []report.Rule {
	var out []report.Rule
	out = append(out, sched.Rules...)
	out = append(out, gen.Rules...)
	out = append(out, variants.TRules...)
	out = append(out, genlint.Rules...)
	out = append(out, lib.Rules...)
	return out
}

func rulesFor(prop string) []report.Rule {
	var out []report.Rule
	for _, r := range allRules() {
		for _, p := range r.Props {
			if p == prop {
				out = append(out, r)
			}
		}
	}
	return out
}

func main() {
	if len(os.Args) < 2 {
		fmt.Fprintln(os.Stderr, "usage: cffverif check <Cxx> [--tier quick|thorough] | dump [engine]")
		os.Exit(2)
	}
	switch os.Args[1] {
	case "check":
		os.Exit(cmdCheck(os.Args[2:]))
	case "dump":
		os.Exit(cmdDump(os.Args[2:]))
	case "variants":
		os.Exit(cmdVariants(os.Args[2:]))
	case "rules":
		b, _ := json.Marshal(allRules())
		os.Stdout.Write(b)
	case "obligations":
		os.Exit(cmdObligations(os.Args[2:]))
	case "selftest":
		os.Exit(cmdSelftest(os.Args[2:]))
	default:
		fmt.Fprintln(os.Stderr, "unknown command")
		os.Exit(2)
	}
}

type engineSet struct {
	sched bool
	gen   bool
	lint  bool
	lib   bool

	noRegen bool // skip the Y front end (selftest of template-only mutants)
}

func parseEngines(s string) engineSet {
	es := engineSet{}
	for _, e := range strings.Split(s, ",") {
		switch e {
		case "sched":
			es.sched = true
		case "gen":
			es.gen = true
		case "genx":
			es.gen = true
			es.noRegen = true
		case "lint":
			es.lint = true
		case "lib":
			es.lib = true
		case "all":
			es.sched = true
			es.gen = true
			es.lint = true
			es.lib = true
		}
	}
	return es
}

// has reports whether rule id belongs to a selected engine.
func (es engineSet) has(id string) bool {
	switch id[0] {
	case 'S':
		return es.sched
	case 'L':
		if id == "L5" {
			return es.sched
		}
		return es.lib
	case 'V', 'T':
		return es.gen
	case 'G':
		return es.lint
	}
	return false
}

func runEngines(es engineSet, tier string, sink *report.Sink) (errs []string) {
	defer func() {
		if p := recover(); p != nil {
			if os.Getenv("CFFVERIF_TRACE") != "" {
				os.Stderr.Write(debug.Stack())
			}
			errs = append(errs, fmt.Sprintf("analyser panic: %v", p))
		}
	}()
	repo, err := load.Load(load.RepoDir())
	if err != nil {
		return []string{"load: " + err.Error()}
	}
	sink.SetFact("packages_loaded", len(repo.Pkgs))
	if es.sched {
		if err := sched.Run(repo, sink); err != nil {
			errs = append(errs, "sched: "+err.Error())
		}
	}
	if es.lib {
		if err := lib.Run(repo, sink); err != nil {
			errs = append(errs, "lib: "+err.Error())
		}
	}
	if es.lint {
		if err := genlint.Run(repo, sink); err != nil {
			errs = append(errs, "genlint: "+err.Error())
		}
	}
	if es.gen {
		// the two front ends are independent: a template interface the abstract expansion does not
		// model must not hide what the regenerated corpora show (and vice versa)
		var ins []*gen.Instance
		m, err := variants.ReadModel(repo)
		if err != nil {
			errs = append(errs, "variants: "+err.Error())
		} else if xs, err := m.Expand(tier == "thorough"); err != nil {
			errs = append(errs, "variants: "+err.Error())
		} else {
			ins = xs
			if err := m.ReportDecisions(sink); err != nil {
				errs = append(errs, "variants: "+err.Error())
			}
			m.ReportModes(sink, xs)
			m.ReportCapture(sink, xs, tier == "thorough")
		}
		if !es.noRegen {
			ys, yerr := regenInstances(repo.Dir, tier, sink)
			if yerr != nil {
				errs = append(errs, "regen: "+yerr.Error())
			}
			ins = append(ins, ys...)
		}
		sink.SetFact("variants.expanded", len(ins))
		if os.Getenv("CFFVERIF_DUMPCAP") != "" {
			dumpCapture(ins)
		}
		gen.Run(ins, sink)
	}
	return errs
}

// regenInstances runs the Y front end: /verif/corpus always; /repo's own cff-tagged test corpora in the thorough tier.
func regenInstances(repoDir, tier string, sink *report.Sink) ([]*gen.Instance, error) {
	vd := homeDir()
	corpora := []regen.Corpus{
		{Name: "corpus", Src: filepath.Join(vd, "corpus"), Module: "example.com/corpus", Cmds: [][]string{{".", "./..."}}, VRules: true},
		{Name: "corpus-modifier", Src: filepath.Join(vd, "corpus_mod"), Module: "example.com/corpusmod", Cmds: [][]string{{".", "-genmode", "modifier", "./..."}}, VRules: true, Modifier: true},
		{Name: "corpus-go122", Src: filepath.Join(vd, "corpus_go122"), Module: "example.com/corpusgo122", Go: "1.22", Cmds: [][]string{{".", "./..."}}, VRules: true},
		{Name: "corpus-sourcemap", Src: filepath.Join(vd, "corpus"), Module: "example.com/corpus", Cmds: [][]string{{".", "-genmode", "source-map", "./..."}}, VRules: tier == "thorough"},
		{Name: "corpus-reject", Src: filepath.Join(vd, "corpus_reject"), Module: "example.com/reject", Cmds: [][]string{{".", "./..."}}, Reject: true},
	}
	if tier == "thorough" {
		corpora = append(corpora,
			regen.Corpus{Name: "corpus-autoinstr", Src: filepath.Join(vd, "corpus"), Module: "example.com/corpus", Cmds: [][]string{{".", "-auto-instrument", "./..."}}, VRules: true},
			regen.Corpus{Name: "repo-tests", Src: filepath.Join(repoDir, "internal", "tests"), Cmds: [][]string{{".", "./..."}, {"modifier", "-genmode", "modifier", "./..."}}, VRules: false},
			regen.Corpus{Name: "repo-examples", Src: filepath.Join(repoDir, "examples"), Cmds: [][]string{{".", "-genmode", "source-map", "./..."}}, VRules: false},
		)
	}
	res, err := regen.Regenerate(repoDir, corpora)
	if err != nil {
		return nil, err
	}
	sink.SetFact("regen.generated_files", res.Files)
	sink.SetFact("regen.packages", res.Packages)
	sink.SetFact("regen.instances", len(res.Instances))
	for _, rc := range res.Rejects {
		sink.Check(rc.Bad == "", "V25", rc.Key+"|refused with a positioned diagnostic, nothing written", rc.Key, rc.How, "a program cff must refuse is not refused properly: "+rc.Bad)
	}
	for _, c := range corpora {
		if c.Reject {
			continue
		}
		failed := ""
		for _, e := range res.GenErrs {
			if strings.HasPrefix(e, c.Name+":") {
				failed = e
			}
		}
		sink.Check(failed == "", "V23", c.Name+"|cff succeeds on the corpus", "", "", "the generator built from the tree fails on a valid corpus: "+failed)
	}
	if len(res.PkgErrs) == 0 {
		sink.OK("V15", "regenerated packages type-check", "", fmt.Sprintf("%d packages", res.Packages))
	}
	for p, es := range res.PkgErrs {
		sink.Bad("V15", p+"|type-check of regenerated package", p, "generated code does not compile: "+es[0])
	}
	if len(res.Leftover) == 0 {
		sink.OK("V15", "no directive call left in regenerated packages", "", "")
	}
	for _, l := range res.Leftover {
		sink.Bad("V15", l+"|directive left unexpanded", l, "a call of a code-generation directive survives in the generated package: it panics at run time (\"not processed with cff\")")
	}
	// V19: outside directive sites the generated file is the source file
	for _, fc := range res.Outside {
		sink.Check(fc.Bad == "", "V19", fc.Key+"|identical to the source outside directive sites, imports only added", fc.Key, "", "the generated file differs from its source outside the directive call sites: "+fc.Bad)
	}
	for _, fc := range res.Tags {
		sink.Check(fc.Bad == "", "V21", fc.Key+"|generated file selected iff source selected with cff flipped", fc.Key, "all tag assignments enumerated", "build constraints are not exactly inverted: "+fc.Bad)
	}
	// V20: base and source-map outputs are the same token stream (comments and line directives aside)
	base, sm := res.Tokens["corpus"], res.Tokens["corpus-sourcemap"]
	for rel, bt := range base {
		st, ok := sm[rel]
		msg := ""
		switch {
		case !ok:
			msg = "no source-map output for this file"
		case len(bt) != len(st):
			msg = fmt.Sprintf("%d tokens in base mode, %d in source-map mode", len(bt), len(st))
		default:
			for i := range bt {
				if bt[i] != st[i] {
					msg = fmt.Sprintf("token %d: base `%s`, source-map `%s`", i, bt[i], st[i])
					break
				}
			}
		}
		sink.Check(msg == "", "V20", "corpus/"+rel+"|base and source-map outputs are token-identical modulo comments", rel, fmt.Sprintf("%d tokens", len(bt)), "source-map mode emits different code than base mode: "+msg)
	}
	return res.Instances, nil
}

func cmdDump(args []string) int {
	sink := report.NewSink()
	eng := "all"
	if len(args) > 0 {
		eng = args[0]
	}
	errs := runEngines(parseEngines(eng), "quick", sink)
	for _, o := range sink.Obligations() {
		fmt.Printf("%-10s %-4s %-60s %s  %s\n", o.St, o.Rule, o.Key, o.Pos, o.Msg)
	}
	for _, e := range errs {
		fmt.Println("ENGINE ERROR:", e)
	}
	counts := map[string]int{}
	for _, o := range sink.Obligations() {
		counts[o.Rule]++
	}
	var ks []string
	for k := range counts {
		ks = append(ks, k)
	}
	sort.Strings(ks)
	for _, k := range ks {
		fmt.Printf("%s=%d ", k, counts[k])
	}
	fmt.Println()
	return 0
}

func cmdCheck(args []string) int {
	fs := flag.NewFlagSet("check", flag.ExitOnError)
	tier := fs.String("tier", "", "quick|thorough")
	if len(args) < 1 {
		return 2
	}
	prop := args[0]
	fs.Parse(args[1:])
	if *tier == "" {
		*tier = os.Getenv("VERIF_TIER")
	}
	if *tier != "thorough" {
		*tier = "quick"
	}
	seed, _ := strconv.Atoi(os.Getenv("VERIF_SEED"))
	start := time.Now()
	rules := rulesFor(prop)
	if len(rules) == 0 {
		fmt.Fprintf(os.Stderr, "no rules for property %s\n", prop)
		return 2
	}
	es := engineSet{}
	for _, r := range rules {
		switch r.ID[0] {
		case 'S':
			es.sched = true
		case 'L':
			if r.ID == "L5" {
				es.sched = true
			} else {
				es.lib = true
			}
		case 'V', 'T':
			es.gen = true
		case 'G':
			es.lint = true
		}
	}
	sink := report.NewSink()
	errs := runEngines(es, *tier, sink)
	var ids []string
	for _, r := range rules {
		ids = append(ids, r.ID)
	}
	expl := fmt.Sprintf("Static rules %s decided on the source of %s as loaded by go/packages (types resolved, no code executed); see DESIGN.md §4/§5 for what each rule is a necessary condition of and what the property check does not cover.", strings.Join(ids, ", "), load.RepoDir())
	out := report.Finish(verifDir(), prop, *tier, seed, rules, sink, expl, []string{"go/types and go/parser are correct", "the hand argument from rule premises to the behavioural property (DESIGN §5) is not machine-checked"}, start, errs)
	return out.ExitCode
}

// dumpCapture prints, per instance kind, origin and site class, the union of the generated identifiers in scope.
func dumpCapture(ins []*gen.Instance) {
	u := map[string]map[string]string{}
	for _, in := range ins {
		for _, st := range gen.CaptureSites(in) {
			k := in.Origin + " " + in.Kind + " " + st.Class
			if u[k] == nil {
				u[k] = map[string]string{}
			}
			for _, v := range st.Visible {
				if _, ok := u[k][v]; !ok {
					u[k][v] = st.What + " @ " + st.Pos
				}
			}
		}
	}
	pre := map[string]map[string]bool{}
	for _, in := range ins {
		k := in.Origin + " " + in.Kind
		if pre[k] == nil {
			pre[k] = map[string]bool{}
		}
		for n := range gen.PredeclaredUsed(in) {
			pre[k][n] = true
		}
	}
	for k, m := range pre {
		var ns []string
		for n := range m {
			ns = append(ns, n)
		}
		sort.Strings(ns)
		fmt.Fprintf(os.Stderr, "PREDECLARED %s: %s\n", k, strings.Join(ns, " "))
	}
	for k, m := range u {
		var ns []string
		for n := range m {
			ns = append(ns, n)
		}
		sort.Strings(ns)
		fmt.Fprintf(os.Stderr, "CAPTURE %s: %s\n", k, strings.Join(ns, " "))
	}
}
