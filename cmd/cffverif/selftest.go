package main

import (
	"bytes"
	"encoding/json"
	"flag"
	"fmt"
	"os"
	"os/exec"
	"path/filepath"
	"sort"
	"strings"
	"sync"

	"cffverif/internal/load"
	"cffverif/internal/report"
)

// Mutant is one seeded edit of /repo used to test the checker both ways.
type Mutant struct {
	Name    string   `json:"name"`
	File    string   `json:"file"`
	Old     string   `json:"old"`
	New     string   `json:"new"`
	Edits   []Edit   `json:"edits,omitempty"` // additional edits
	Patch   string   `json:"patch,omitempty"` // path of a unified diff (relative to /verif) instead of Old/New
	Base    string   `json:"base,omitempty"`  // path of a (behaviour-preserving) diff applied before the edits: the mutant is made on the refactored tree
	Expect  []string `json:"expect"`          // rule ids that must report (violated or undecided); empty + Benign => must stay silent
	Benign  bool     `json:"benign,omitempty"`
	Known   bool     `json:"known_false_alarm,omitempty"` // benign edit on which the checker is known to raise an alarm (documented limitation)
	Engines string   `json:"engines"`                     // comma list
	NoBuild bool     `json:"nobuild,omitempty"`
	Why     string   `json:"why,omitempty"`
}

type Edit struct {
	File string `json:"file"`
	Old  string `json:"old"`
	New  string `json:"new"`
}

func cmdObligations(args []string) int {
	fs := flag.NewFlagSet("obligations", flag.ExitOnError)
	engines := fs.String("engines", "all", "comma list")
	tier := fs.String("tier", "quick", "")
	fs.Parse(args)
	sink := report.NewSink()
	errs := runEngines(parseEngines(*engines), *tier, sink)
	obs := sink.Obligations()
	for _, e := range errs {
		obs = append(obs, report.Obligation{Rule: "ENGINE", Key: e, St: "undecided", Msg: e})
	}
	// floors
	counts := map[string]int{}
	for _, o := range obs {
		counts[o.Rule]++
	}
	es := parseEngines(*engines)
	for _, r := range allRules() {
		if es.has(r.ID) && counts[r.ID] < r.Floor {
			obs = append(obs, report.Obligation{Rule: r.ID, Key: "floor", St: "undecided", Msg: fmt.Sprintf("%d instances < floor %d", counts[r.ID], r.Floor)})
		}
	}
	b, _ := json.Marshal(obs)
	os.Stdout.Write(b)
	return 0
}

func copyRepo(dst string) error {
	cmd := exec.Command("rsync", "-a", "--exclude", ".git", load.RepoDir()+"/", dst+"/")
	out, err := cmd.CombinedOutput()
	if err != nil {
		return fmt.Errorf("rsync: %v %s", err, out)
	}
	return nil
}

func applyEdit(dir string, e Edit) error {
	p := filepath.Join(dir, e.File)
	b, err := os.ReadFile(p)
	if err != nil {
		return err
	}
	if n := bytes.Count(b, []byte(e.Old)); n != 1 {
		return fmt.Errorf("%s: old text occurs %d times (want 1)", e.File, n)
	}
	b = bytes.Replace(b, []byte(e.Old), []byte(e.New), 1)
	return os.WriteFile(p, b, 0o644)
}

func obligationsOf(self, dir, engines string) ([]report.Obligation, error) {
	cmd := exec.Command(self, "obligations", "--engines", engines)
	cmd.Env = append(os.Environ(), "CFFVERIF_REPO="+dir)
	var out, errb bytes.Buffer
	cmd.Stdout = &out
	cmd.Stderr = &errb
	if err := cmd.Run(); err != nil {
		return nil, fmt.Errorf("%v: %s", err, errb.String())
	}
	var obs []report.Obligation
	if err := json.Unmarshal(out.Bytes(), &obs); err != nil {
		return nil, fmt.Errorf("bad json: %v: %.200s", err, out.String())
	}
	return obs, nil
}

func failing(obs []report.Obligation) map[string]report.Obligation {
	m := map[string]report.Obligation{}
	for _, o := range obs {
		if o.St != "discharged" {
			m[o.Rule+"|"+o.Key] = o
		}
	}
	return m
}

func cmdSelftest(args []string) int {
	fs := flag.NewFlagSet("selftest", flag.ExitOnError)
	filter := fs.String("filter", "", "substrings of mutant names, comma separated")
	par := fs.Int("j", 6, "parallelism")
	verbose := fs.Bool("v", false, "")
	fs.Parse(args)
	self, _ := os.Executable()
	vd := verifDir()
	files, _ := filepath.Glob(filepath.Join(vd, "selftest", "*.json"))
	var muts []Mutant
	for _, f := range files {
		b, err := os.ReadFile(f)
		if err != nil {
			fmt.Println(err)
			return 2
		}
		var ms []Mutant
		if err := json.Unmarshal(b, &ms); err != nil {
			fmt.Printf("%s: %v\n", f, err)
			return 2
		}
		muts = append(muts, ms...)
	}
	var sel []Mutant
	engineSets := map[string]bool{}
	for _, m := range muts {
		for _, f := range strings.Split(*filter, ",") {
			if strings.Contains(m.Name, f) {
				sel = append(sel, m)
				engineSets[m.Engines] = true
				break
			}
		}
	}
	// baselines per engine set
	base := map[string]map[string]report.Obligation{}
	for e := range engineSets {
		obs, err := obligationsOf(self, load.RepoDir(), e)
		if err != nil {
			fmt.Println("baseline:", err)
			return 2
		}
		base[e] = failing(obs)
	}
	tmpRoot, err := os.MkdirTemp("", "cffverif-selftest-")
	if err != nil {
		fmt.Println(err)
		return 2
	}
	defer os.RemoveAll(tmpRoot)
	type result struct {
		m    Mutant
		ok   bool
		info string
	}
	results := make([]result, len(sel))
	var wg sync.WaitGroup
	sem := make(chan struct{}, *par)
	for i, m := range sel {
		wg.Add(1)
		go func(i int, m Mutant) {
			defer wg.Done()
			sem <- struct{}{}
			defer func() { <-sem }()
			dir := filepath.Join(tmpRoot, fmt.Sprintf("m%d", i))
			defer os.RemoveAll(dir)
			res := result{m: m}
			defer func() { results[i] = res }()
			if err := copyRepo(dir); err != nil {
				res.info = err.Error()
				return
			}
			if m.Base != "" {
				cmd := exec.Command("patch", "-p1", "-s", "--no-backup-if-mismatch", "-i", filepath.Join(vd, m.Base))
				cmd.Dir = dir
				if out, err := cmd.CombinedOutput(); err != nil {
					res.info = fmt.Sprintf("base patch: %v %s", err, out)
					return
				}
			}
			edits := append([]Edit{}, m.Edits...)
			if m.File != "" {
				edits = append([]Edit{{m.File, m.Old, m.New}}, edits...)
			}
			for _, e := range edits {
				if err := applyEdit(dir, e); err != nil {
					res.info = "apply: " + err.Error()
					return
				}
			}
			if m.Patch != "" {
				cmd := exec.Command("patch", "-p1", "-s", "--no-backup-if-mismatch", "-i", filepath.Join(vd, m.Patch))
				cmd.Dir = dir
				if out, err := cmd.CombinedOutput(); err != nil {
					res.info = fmt.Sprintf("patch: %v %s", err, out)
					return
				}
			}
			if !m.NoBuild {
				cmd := exec.Command("go", "build", "./...")
				cmd.Dir = dir
				cmd.Env = load.Env()
				if out, err := cmd.CombinedOutput(); err != nil {
					res.info = fmt.Sprintf("mutant does not build: %s", out)
					return
				}
			}
			obs, err := obligationsOf(self, dir, m.Engines)
			if err != nil {
				res.info = err.Error()
				return
			}
			newFail := map[string]report.Obligation{}
			rulesHit := map[string]bool{}
			for k, o := range failing(obs) {
				if _, inBase := base[m.Engines][k]; !inBase {
					newFail[k] = o
					rulesHit[o.Rule] = true
				}
			}
			var hit []string
			for r := range rulesHit {
				hit = append(hit, r)
			}
			sort.Strings(hit)
			if m.Benign && m.Known {
				res.ok = true
				res.info = fmt.Sprintf("KNOWN LIMITATION: %d false alarm(s) on this benign edit (see DESIGN §10)", len(newFail))
				return
			}
			if m.Benign {
				res.ok = len(newFail) == 0
				if !res.ok {
					for k, o := range newFail {
						res.info += fmt.Sprintf("\n     false alarm %s: %s", k, o.Msg)
					}
				}
				return
			}
			missing := []string{}
			for _, e := range m.Expect {
				if !rulesHit[e] {
					missing = append(missing, e)
				}
			}
			res.ok = len(missing) == 0 && len(newFail) > 0
			res.info = "reported by " + strings.Join(hit, ",")
			if len(missing) > 0 {
				res.info += "; MISSING " + strings.Join(missing, ",")
			}
			if *verbose {
				for k, o := range newFail {
					res.info += fmt.Sprintf("\n     %s %s: %s", k, o.Pos, o.Msg)
				}
			}
		}(i, m)
	}
	wg.Wait()
	bad := 0
	for _, r := range results {
		st := "ok  "
		if !r.ok {
			st = "FAIL"
			bad++
		}
		kind := "mutant"
		if r.m.Benign {
			kind = "benign"
		}
		fmt.Printf("%s %s %-40s %s\n", st, kind, r.m.Name, r.info)
	}
	fmt.Printf("selftest: %d cases, %d failed\n", len(results), bad)
	if bad > 0 {
		return 1
	}
	return 0
}
