package main

import (
	"fmt"
	"os"
	"strings"

	"cffverif/internal/load"
	"cffverif/internal/variants"
)

func cmdVariants(args []string) int {
	repo, err := load.Load(load.RepoDir())
	if err != nil {
		fmt.Println(err)
		return 1
	}
	m, err := variants.ReadModel(repo)
	if err != nil {
		fmt.Println(err)
		return 1
	}
	ins, err := m.Expand(len(args) > 0 && args[0] == "thorough")
	if err != nil {
		fmt.Println(err)
		return 1
	}
	errKinds := map[string]int{}
	first := map[string]string{}
	for _, in := range ins {
		for _, e := range in.TypeErrs {
			k := e
			if i := strings.Index(e, ": "); i > 0 && strings.HasPrefix(e, "variant.go") {
				k = e[i+2:]
			}
			errKinds[k]++
			if first[k] == "" {
				first[k] = in.Key
			}
		}
	}
	fmt.Println("variants:", len(ins))
	for k, n := range errKinds {
		fmt.Printf("%5d  %s   e.g. %s\n", n, k, first[k])
	}
	if len(args) > 1 {
		for _, in := range ins {
			if strings.Contains(in.Key, args[1]) {
				fmt.Println("=====", in.Key)
				fmt.Println(in.Src)
				fmt.Println(in.TypeErrs)
				break
			}
		}
	}
	_ = os.Stdout
	return 0
}
