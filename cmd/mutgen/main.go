// Command mutgen lists single-point syntactic mutations of a Go source file as byte-range replacements
// (JSON on stdout). It is a development aid for sweeping the checkers for blind spots (tools/mutsweep.py);
// no registered check depends on it.
package main

import (
	"encoding/json"
	"fmt"
	"go/ast"
	"go/parser"
	"go/token"
	"os"
)

type mut struct {
	ID    int    `json:"id"`
	Kind  string `json:"kind"`
	Func  string `json:"func"`
	Line  int    `json:"line"`
	Start int    `json:"start"`
	End   int    `json:"end"`
	New   string `json:"new"`
	Old   string `json:"old"`
}

func main() {
	if len(os.Args) != 2 {
		fmt.Fprintln(os.Stderr, "usage: mutgen <file.go>")
		os.Exit(2)
	}
	src, err := os.ReadFile(os.Args[1])
	if err != nil {
		panic(err)
	}
	fset := token.NewFileSet()
	f, err := parser.ParseFile(fset, os.Args[1], src, parser.ParseComments)
	if err != nil {
		panic(err)
	}
	var out []mut
	off := func(p token.Pos) int { return fset.Position(p).Offset }
	add := func(kind, fn string, n ast.Node, s, e int, repl string) {
		out = append(out, mut{ID: len(out), Kind: kind, Func: fn, Line: fset.Position(n.Pos()).Line, Start: s, End: e, New: repl, Old: string(src[s:e])})
	}
	flip := map[token.Token]string{token.EQL: "!=", token.NEQ: "==", token.LSS: "<=", token.LEQ: "<", token.GTR: ">=", token.GEQ: ">", token.LAND: "||", token.LOR: "&&", token.ADD: "-", token.SUB: "+"}
	for _, d := range f.Decls {
		fd, ok := d.(*ast.FuncDecl)
		if !ok || fd.Body == nil {
			continue
		}
		name := fd.Name.Name
		if fd.Recv != nil && len(fd.Recv.List) == 1 {
			t := fd.Recv.List[0].Type
			if s, ok := t.(*ast.StarExpr); ok {
				t = s.X
			}
			if id, ok := t.(*ast.Ident); ok {
				name = id.Name + "." + name
			}
		}
		ast.Inspect(fd.Body, func(n ast.Node) bool {
			switch x := n.(type) {
			case *ast.ExprStmt:
				add("delete-stmt", name, x, off(x.Pos()), off(x.End()), "")
			case *ast.IncDecStmt:
				add("delete-stmt", name, x, off(x.Pos()), off(x.End()), "")
				if x.Tok == token.INC {
					add("incdec", name, x, off(x.TokPos), off(x.TokPos)+2, "--")
				} else {
					add("incdec", name, x, off(x.TokPos), off(x.TokPos)+2, "++")
				}
			case *ast.SendStmt:
				add("delete-stmt", name, x, off(x.Pos()), off(x.End()), "")
			case *ast.AssignStmt:
				if x.Tok != token.DEFINE {
					add("delete-stmt", name, x, off(x.Pos()), off(x.End()), "")
				}
			case *ast.DeferStmt:
				add("delete-stmt", name, x, off(x.Pos()), off(x.End()), "")
				add("undefer", name, x, off(x.Pos()), off(x.Call.Pos()), "")
			case *ast.GoStmt:
				add("ungo", name, x, off(x.Pos()), off(x.Call.Pos()), "")
			case *ast.IfStmt:
				add("negate-cond", name, x, off(x.Cond.Pos()), off(x.Cond.End()), "!("+string(src[off(x.Cond.Pos()):off(x.Cond.End())])+")")
				if x.Else != nil {
					add("drop-else", name, x, off(x.Body.End()), off(x.Else.End()), "")
				}
			case *ast.ForStmt:
				if x.Cond != nil {
					add("negate-cond", name, x, off(x.Cond.Pos()), off(x.Cond.End()), "!("+string(src[off(x.Cond.Pos()):off(x.Cond.End())])+")")
				}
			case *ast.BinaryExpr:
				if r, ok := flip[x.Op]; ok {
					add("flip-op", name, x, off(x.OpPos), off(x.OpPos)+len(x.Op.String()), r)
				}
			case *ast.ReturnStmt:
				if len(x.Results) == 1 {
					if id, ok := x.Results[0].(*ast.Ident); !ok || id.Name != "nil" {
						add("return-nil", name, x, off(x.Results[0].Pos()), off(x.Results[0].End()), "nil")
					}
				}
			case *ast.CommClause:
				if x.Comm != nil && len(x.Body) > 0 {
					add("empty-arm", name, x, off(x.Body[0].Pos()), off(x.Body[len(x.Body)-1].End()), "")
				}
			case *ast.BranchStmt:
				add("delete-stmt", name, x, off(x.Pos()), off(x.End()), "")
			case *ast.BasicLit:
				if x.Kind == token.INT && (x.Value == "0" || x.Value == "1") {
					add("const", name, x, off(x.Pos()), off(x.End()), map[string]string{"0": "1", "1": "0"}[x.Value])
				}
			case *ast.Ident:
				if x.Name == "true" || x.Name == "false" {
					add("const", name, x, off(x.Pos()), off(x.End()), map[string]string{"true": "false", "false": "true"}[x.Name])
				}
			}
			return true
		})
	}
	enc := json.NewEncoder(os.Stdout)
	enc.SetIndent("", " ")
	enc.Encode(out)
}
