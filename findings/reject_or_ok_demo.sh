#!/bin/sh
# usage: reject_or_ok_demo.sh <repo dir> <case dir> [cff flags...]
# For inputs cff may legitimately refuse: passes (exit 0) if cff fails with a diagnostic that names the
# case file and a line, or if it succeeds and the generated package builds and its tests pass. Fails if cff
# exits 0 and the output is broken (does not build, or misbehaves at run time).
set -e
REPO=$(cd "$1" && pwd); CASE=$(cd "$2" && pwd); shift 2
export GOFLAGS=-mod=mod GOPROXY=off GOSUMDB=off GOTOOLCHAIN=local GOWORK=off
T=$(mktemp -d); trap 'rm -rf "$T"' EXIT
(cd "$REPO" && go build -o "$T/cff" ./cmd/cff)
mkdir "$T/m"; cp -r "$CASE"/. "$T/m/"
cat > "$T/m/go.mod" <<EOM
module example.com/a

go 1.19

require go.uber.org/cff v0.0.0

replace go.uber.org/cff => $REPO
EOM
cp "$REPO/go.sum" "$T/m/go.sum"
cd "$T/m"
if ! "$T/cff" "$@" ./... > "$T/out" 2>&1; then
	cat "$T/out"
	if grep -Eq 'a\.go:[0-9]+:[0-9]+: ' "$T/out"; then echo "RESULT: refused with a positioned diagnostic"; exit 0; fi
	echo "RESULT: cff failed without a positioned diagnostic"; exit 1
fi
if ! go vet ./... ; then echo "RESULT: cff exited 0 but the generated code does not compile"; exit 1; fi
if ! go test -count=1 ./... ; then echo "RESULT: cff exited 0 but the generated code misbehaves"; exit 1; fi
echo "RESULT: ok"
