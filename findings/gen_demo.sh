#!/bin/sh
# usage: gen_demo.sh <repo dir> <case dir> [cff flags...]
# Builds cff from <repo dir>, runs it on a scratch copy of the case package and
# compiles the generated package without the cff tag. Exit 0 iff cff succeeded and the output builds.
set -e
REPO=$(cd "$1" && pwd); CASE=$(cd "$2" && pwd); shift 2
export GOFLAGS=-mod=mod GOPROXY=off GOSUMDB=off GOTOOLCHAIN=local GOWORK=off
T=$(mktemp -d); trap 'rm -rf "$T"' EXIT
(cd "$REPO" && go build -o "$T/cff" ./cmd/cff)
mkdir "$T/m"; cp -r "$CASE"/. "$T/m/"
cat > "$T/m/go.mod" <<EOM
module example.com/a

go 1.19

require go.uber.org/cff v0.0.0

replace go.uber.org/cff => $REPO
EOM
cp "$REPO/go.sum" "$T/m/go.sum"
cd "$T/m"
if ! "$T/cff" "$@" ./... ; then echo "RESULT: cff failed"; exit 1; fi
if ! go build ./... ; then echo "RESULT: generated code does not compile"; exit 1; fi
echo "RESULT: ok"
