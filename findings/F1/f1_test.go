// Demonstration of finding F1 (properties C06 and C19) against the real
// scheduler: with dispatch gated only on "ready list non-empty", workers
// that have posted a result take more work before the loop consumed it, so
// more than Concurrency results are outstanding; after a fail-fast exit the
// surplus workers block for ever on the full result channel, and state
// reports show IdleWorkers clamped at 0 while Pending-Ready-Waiting exceeds
// Concurrency.
//
// Run: go test -count=1 .   (fails on the tree before the fix, passes after)
package f1demo

import (
	"context"
	"errors"
	"runtime"
	"strings"
	"testing"
	"time"

	"go.uber.org/cff/scheduler"
)

type slowEmitter struct{ over int }

func (e *slowEmitter) Emit(s scheduler.State) {
	if exec := s.Pending - s.Ready - s.Waiting; exec > s.Concurrency {
		e.over++
	}
	time.Sleep(20 * time.Microsecond)
}

func TestNoWorkerLeakAndExecutingBounded(t *testing.T) {
	em := &slowEmitter{}
	boom := errors.New("boom")
	for i := 0; i < 2000; i++ {
		s := scheduler.Config{Concurrency: 2, Emitter: em, StateFlushFrequency: time.Microsecond}.New()
		for j := 0; j < 40; j++ {
			s.Enqueue(context.Background(), scheduler.Job{Run: func(context.Context) error { return boom }})
		}
		if err := s.Wait(context.Background()); err == nil {
			t.Fatal("expected error")
		}
	}
	time.Sleep(300 * time.Millisecond)
	buf := make([]byte, 64<<20)
	buf = buf[:runtime.Stack(buf, true)]
	leaked := 0
	for _, g := range strings.Split(string(buf), "\n\n") {
		if strings.Contains(g, "scheduler.worker") && strings.Contains(g, "chan send") {
			leaked++
		}
	}
	if leaked > 0 {
		t.Errorf("%d worker goroutines blocked for ever on the result channel after Wait returned", leaked)
	}
	if em.over > 0 {
		t.Errorf("%d state reports with executing > Concurrency", em.over)
	}
}
