module f1demo

go 1.19

require go.uber.org/cff v0.0.0

require go.uber.org/multierr v1.11.0 // indirect

replace go.uber.org/cff => /repo
