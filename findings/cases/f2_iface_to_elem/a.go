//go:build cff

package a

import (
	"bytes"
	"context"
	"io"

	"go.uber.org/cff"
)

// Ill-formed: an io.Reader element is not assignable to a *bytes.Buffer
// parameter. cff must reject it with a diagnostic (expected: RESULT: cff failed);
// accepting it produces code that does not compile.
func Run(ctx context.Context, rs []io.Reader) error {
	return cff.Parallel(ctx,
		cff.Slice(func(b *bytes.Buffer) { b.Reset() }, rs),
	)
}
