//go:build cff

package a

import (
	"context"

	"go.uber.org/cff"
)

// Slice function without index parameter + SliceEnd: the template indexes
// the job slice with `idx`, which the range clause does not bind.
func Run(ctx context.Context, xs []string) error {
	return cff.Parallel(ctx,
		cff.Slice(func(s string) {}, xs, cff.SliceEnd(func() {})),
	)
}
