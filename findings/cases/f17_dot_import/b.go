package dotimport

import "context"

// Use is compiled with and without the cff tag; without it, F must come from the generated file.
func Use(ctx context.Context) int {
	a, _ := F(ctx)
	return a.N
}
