//go:build cff
// +build cff

// Modifier mode: the generated top-level function declares `sched := cff.NewScheduler(...)` and then
// `var v2 sched.Job`.
package a

import (
	"context"

	"example.com/a/sched"
	"go.uber.org/cff"
)

func F(ctx context.Context) (int, error) {
	var out int
	err := cff.Flow(ctx,
		cff.Results(&out),
		cff.Task(func() *sched.Job { return &sched.Job{N: 1} }),
		cff.Task(func(j *sched.Job) int { return j.N }),
	)
	return out, err
}
