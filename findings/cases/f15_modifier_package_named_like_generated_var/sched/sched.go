package sched

type Job struct{ N int }
