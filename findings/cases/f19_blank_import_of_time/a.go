//go:build cff
// +build cff

package a

import (
	"context"
	_ "time"

	"go.uber.org/cff"
)

type A struct{ N int }

func F(ctx context.Context) (A, error) {
	var out A
	err := cff.Flow(ctx,
		cff.Results(&out),
		cff.Task(func() A { return A{} }),
	)
	return out, err
}
