//go:build cff
// +build cff

package a

import (
	"context"

	. "example.com/a/dep"
	"go.uber.org/cff"
)

func F(ctx context.Context) (int, error) {
	var out int
	err := cff.Flow(ctx,
		cff.Results(&out),
		cff.Task(Mk),
		cff.Task(Use),
	)
	return out, err
}

var _ Item
