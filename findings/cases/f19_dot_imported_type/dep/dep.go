package dep

type Item struct{ N int }

func Mk() Item        { return Item{N: 1} }
func Use(i Item) int { return i.N }
