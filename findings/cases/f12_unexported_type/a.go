//go:build cff
// +build cff

// A value of an unexported type of another package flows through the flow: the program type-checks (the
// type is never named), but generated code has to declare `var v1 b.hidden`.
package a

import (
	"context"

	"example.com/a/b"
	"go.uber.org/cff"
)

func F(ctx context.Context) (int, error) {
	var out int
	err := cff.Flow(ctx,
		cff.Params(b.New()),
		cff.Results(&out),
		cff.Task(b.Use),
	)
	return out, err
}
