// Package b hands out values of a type it does not export.
package b

type hidden struct{ N int }

// New returns a value whose type cannot be named outside this package.
func New() hidden { return hidden{N: 4} }

// Use consumes one.
func Use(h hidden) int { return h.N }
