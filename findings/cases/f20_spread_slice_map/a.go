//go:build cff
// +build cff

package a

import (
	"context"

	"go.uber.org/cff"
)

func pairSlice() (func(int, string) error, []string) {
	return func(int, string) error { return nil }, []string{"a"}
}

func pairMap() (func(string, int) error, map[string]int) {
	return func(string, int) error { return nil }, map[string]int{"a": 1}
}

// SpreadSlice passes both arguments of cff.Slice as one multi-value call.
func SpreadSlice(ctx context.Context) error {
	return cff.Parallel(ctx,
		cff.Slice(pairSlice()),
	)
}

// SpreadMap passes both arguments of cff.Map as one multi-value call.
func SpreadMap(ctx context.Context) error {
	return cff.Parallel(ctx,
		cff.Map(pairMap()),
	)
}
