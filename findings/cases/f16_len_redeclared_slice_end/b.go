//go:build cff
// +build cff

package a

import (
	"context"

	"go.uber.org/cff"
)

func EachThenDone(ctx context.Context, xs []int) error {
	len := len(xs)
	_ = len
	return cff.Parallel(ctx,
		cff.Slice(func(i int, x int) {}, xs, cff.SliceEnd(func() {})),
	)
}
