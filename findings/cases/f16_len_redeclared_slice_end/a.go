//go:build cff
// +build cff

// `len` is a variable where the directive is written. The code generated for cff.Slice uses len(...) only when
// there is a SliceEnd function: Each is generated as before, EachThenDone is refused.
package a

import (
	"context"

	"go.uber.org/cff"
)

func Each(ctx context.Context, xs []int) error {
	len := len(xs)
	_ = len
	return cff.Parallel(ctx,
		cff.Slice(func(i int, x int) {}, xs),
	)
}
