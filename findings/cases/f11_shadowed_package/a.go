//go:build cff

package a

import (
	"context"

	"go.uber.org/cff"
)

func Shadow(ctx context.Context, debug bool, time int, cff2 string, context2 int) (string, error) {
	var s string
	err := cff.Flow(ctx,
		cff.Params(time),
		cff.Results(&s),
		cff.Task(func(n int) string { _ = debug; return "" }),
	)
	return s, err
}

func ShadowCtxPkg(ctx context.Context) (string, error) {
	context := 1
	_ = context
	var s string
	err := cff.Flow(ctx,
		cff.Params(2),
		cff.Results(&s),
		cff.Task(func(n int) string { return "" }),
	)
	return s, err
}
