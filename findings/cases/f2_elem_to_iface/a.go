//go:build cff

package a

import (
	"bytes"
	"context"
	"io"

	"go.uber.org/cff"
)

// Well-formed: every *bytes.Buffer element is assignable to the io.Reader
// parameter. cff must accept it.
func Run(ctx context.Context, bufs []*bytes.Buffer) error {
	return cff.Parallel(ctx,
		cff.Slice(func(r io.Reader) { _, _ = io.Copy(io.Discard, r) }, bufs),
	)
}
