package c

const Yes = true
const Name = "flowname"
