//go:build cff
// +build cff

package a

import (
	"context"

	"example.com/a/c"
	"go.uber.org/cff"
)

func F(ctx context.Context) error {
	return cff.Flow(ctx, cff.Task(func() error { return nil }, cff.Invoke(c.Yes)))
}
