//go:build cff

package a

import (
	"context"
	"errors"

	"go.uber.org/cff"
)

// A task that takes an `error` value. `error` is a named type of the
// universe scope, so its Obj().Pkg() is nil.
func Describe(ctx context.Context) (string, error) {
	var out string
	err := cff.Flow(ctx,
		cff.Params(errors.New("boom")),
		cff.Results(&out),
		cff.Task(func(e error) string { return e.Error() }),
	)
	return out, err
}
