package a

import (
	"context"
	"testing"
)

func TestDescribe(t *testing.T) {
	out, err := Describe(context.Background())
	if err != nil || out != "boom" {
		t.Fatalf("got %q, %v", out, err)
	}
}
