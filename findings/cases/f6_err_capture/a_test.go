package a

import (
	"context"
	"testing"
)

func TestDescribe(t *testing.T) {
	out, err := Describe(context.Background())
	if err != nil || out != len("outer failure") {
		t.Fatalf("got %d, %v", out, err)
	}
}
