//go:build cff

package a

import (
	"context"
	"errors"

	"go.uber.org/cff"
)

// The directive argument mentions the caller's variable `err`. In the source
// (and under the cff tag, where cff.Flow is an ordinary function call) it is
// the outer variable. In the generated code the hoisted expression
// `_L_C := err.Error()` sits inside `func() (err error) {`, so `err` binds to
// the wrapper's nil result.
func Describe(ctx context.Context) (int, error) {
	err := errors.New("outer failure")
	var out int
	ferr := cff.Flow(ctx,
		cff.Params(err.Error()),
		cff.Results(&out),
		cff.Task(func(msg string) (int, error) { return len(msg), nil }),
	)
	_ = err // also used outside the directive
	return out, ferr
}
