//go:build cff
// +build cff

package a

import (
	"go.uber.org/cff"
)

func F() (int, error) {
	var out int
	err := cff.Flow(nil, cff.Results(&out), cff.Task(func() int { return 1 }))
	return out, err
}
