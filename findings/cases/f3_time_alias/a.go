//go:build cff

package a

import (
	"context"
	tm "time"

	"go.uber.org/cff"
)

// The file imports "time" under another name: cff's templates print the
// alias for time.Now() but a hard-coded `time.Since`.
func Run(ctx context.Context) (tm.Duration, error) {
	var d tm.Duration
	err := cff.Flow(ctx,
		cff.Results(&d),
		cff.Task(func() tm.Duration { return tm.Second }),
	)
	return d, err
}
