//go:build cff
// +build cff

package a

import (
	"context"

	"go.uber.org/cff"
)

func F(ctx context.Context) (int, error) {
	type local struct{ N int }
	var out int
	in := local{N: 3}
	err := cff.Flow(ctx,
		cff.Params(in),
		cff.Results(&out),
		cff.Task(func(l local) int { return l.N + 1 }),
	)
	return out, err
}
