package a

import (
	"context"

	"go.uber.org/cff"
)

// No `//go:build cff` tag AND a directive that does not compile (no task).
// Expected: positioned diagnostics and a non-zero exit. Never a Go panic.
func Run(ctx context.Context) error {
	return cff.Flow(ctx)
}
