//go:build cff
// +build cff

// The package-level type T flows through the flow, but inside F the name T means something else: the
// generated `var v1 T` would declare a variable of the local type.
package a

import (
	"context"

	"go.uber.org/cff"
)

type T struct{ N int }

func mk() T       { return T{N: 2} }
func use(t T) int { return t.N }

func F(ctx context.Context) (int, error) {
	type T int
	var _ T
	var out int
	err := cff.Flow(ctx,
		cff.Results(&out),
		cff.Task(mk),
		cff.Task(use),
	)
	return out, err
}
