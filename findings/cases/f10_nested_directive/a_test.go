package a

import (
	"context"
	"testing"
)

// On the pinned tree cff exits 0, leaves the inner cff.Flow in a_gen.go, and this test dies with
// "code not generated: run cff" - the run-time panic C13 calls unreachable. After the repair cff
// refuses the file with a positioned diagnostic.
func TestOuter(t *testing.T) {
	n, err := Outer(context.Background())
	if err != nil || n != 1 {
		t.Fatalf("got %d, %v", n, err)
	}
}
