//go:build cff

package a

import (
	"context"

	"go.uber.org/cff"
)

// Outer has a cff.Flow inside the function literal of one of its tasks.
func Outer(ctx context.Context) (int, error) {
	var n int
	err := cff.Flow(ctx,
		cff.Results(&n),
		cff.Task(func(ctx context.Context) (int, error) {
			var s string
			err := cff.Flow(ctx,
				cff.Results(&s),
				cff.Task(func() string { return "x" }),
			)
			return len(s), err
		}),
	)
	return n, err
}
