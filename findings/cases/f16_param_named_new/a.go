//go:build cff
// +build cff

// The parameters old and new are in scope where the generated code is placed: its `new(struct{...})` calls the
// parameter.
package a

import (
	"context"

	"go.uber.org/cff"
)

type Old int
type New int

func Diff(ctx context.Context, old Old, new New) (int, error) {
	var out int
	err := cff.Flow(ctx,
		cff.Params(old, new),
		cff.Results(&out),
		cff.Task(func(a Old, b New) int { return int(b) - int(a) }),
	)
	return out, err
}
