//go:build cff

package a

import (
	"context"

	"go.uber.org/cff"
)

// Type-correct input: cff.Invoke takes a bool; here it is not a constant.
// cff must succeed or fail with a positioned diagnostic, never with a Go panic.
func Run(ctx context.Context, enabled bool) error {
	return cff.Flow(ctx,
		cff.Task(func() {}, cff.Invoke(enabled)),
	)
}
