//go:build cff
// +build cff

// The package-level type emitter flows through the flow; the generated closure declares a variable named emitter
// ahead of `var v1 *emitter`, which then does not name the type.
package a

import (
	"context"

	"go.uber.org/cff"
)

type emitter struct{ N int }

func mk() *emitter       { return &emitter{N: 2} }
func use(t *emitter) int { return t.N }

func F(ctx context.Context) (int, error) {
	var out int
	err := cff.Flow(ctx,
		cff.Results(&out),
		cff.Task(mk),
		cff.Task(use),
	)
	return out, err
}
