//go:build cff
// +build cff

package a

import (
	"context"

	"go.uber.org/cff"
)

func G[T any](ctx context.Context, v T, f func(T) string) (string, error) {
	var out string
	err := cff.Flow(ctx,
		cff.Params(v),
		cff.Results(&out),
		cff.Task(f),
	)
	return out, err
}
