// Package dep is imported as "." by the corpus program next to it.
package dep

type Item struct{ N int }

func Mk() Item       { return Item{N: 1} }
func Use(i Item) int { return i.N }
