//go:build cff
// +build cff

// Package blankdot: imports that give no usable name. `time` - which the generated code refers to - is imported
// for its side effects only (_), and the package of a type that flows through the flow is imported as "."; the
// generated code has to import both (again) under names of its own (finding F19).
package blankdot

import (
	"context"
	_ "time"

	. "example.com/corpus/blankdot/dep"
	"go.uber.org/cff"
)

func Flow(ctx context.Context) (int, error) {
	var out int
	err := cff.Flow(ctx,
		cff.Results(&out),
		cff.Task(Mk),
		cff.Task(Use),
	)
	return out, err
}

func Par(ctx context.Context, xs []Item) error {
	return cff.Parallel(ctx,
		cff.Slice(func(i int, it Item) {}, xs),
	)
}
