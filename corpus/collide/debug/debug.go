// Package debug is a user package named like runtime/debug, which generated code imports.
package debug

import "strconv"

func Label(n int) string { return "[" + strconv.Itoa(n) + "]" }
