//go:build cff

// Package collide imports, without alias, user packages whose names collide with packages the generated code needs.
package collide

import (
	"context"

	"example.com/corpus/collide/debug"
	"example.com/corpus/collide/time"
	"go.uber.org/cff"
)

type em struct{ cff.Emitter }

// Labelled uses both colliding packages around an instrumented flow with a predicate (stack traces and timing in the generated code).
func Labelled(ctx context.Context, e cff.Emitter, name int) (string, time.Stamp, error) {
	var (
		out string
		at  time.Stamp
	)
	err := cff.Flow(ctx,
		cff.WithEmitter(e),
		cff.InstrumentFlow("labelled"),
		cff.Params(name),
		cff.Results(&out, &at),
		cff.Task(debug.Label, cff.Instrument("label"), cff.Predicate(func(n int) bool { return n > 0 })),
		cff.Task(time.Now, cff.Instrument("now")),
	)
	return out, at, err
}

// Par: the same in a Parallel.
func Par(ctx context.Context, e cff.Emitter, names []int) error {
	return cff.Parallel(ctx,
		cff.WithEmitter(e),
		cff.InstrumentParallel("par"),
		cff.Task(func() { _ = time.Now() }, cff.Instrument("t")),
		cff.Slice(func(i int, n int) { _ = debug.Label(n) }, names),
	)
}
