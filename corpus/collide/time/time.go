// Package time is a user package named like the standard time package, which generated code imports.
package time

type Stamp int

func Now() Stamp { return 42 }
