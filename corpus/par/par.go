//go:build cff

package par

import (
	"context"
	"sync"

	"go.uber.org/cff"
)

type names []string

// Slices: index and element forms, named slice type, SliceEnd in several signatures.
func Slices(ctx context.Context, xs names, ys []int, mu *sync.Mutex, got map[int]string) error {
	total := 0
	return cff.Parallel(ctx,
		cff.Concurrency(3),
		cff.Slice(
			func(ctx context.Context, i int, s string) error {
				mu.Lock()
				defer mu.Unlock()
				got[i] = s
				return nil
			},
			xs,
			cff.SliceEnd(func(ctx context.Context) error { return ctx.Err() }),
		),
		cff.Slice(
			func(v int) {
				mu.Lock()
				total += v
				mu.Unlock()
			},
			ys,
			cff.SliceEnd(func() {}),
		),
	)
}

// Maps with and without MapEnd; ContinueOnError as a constant.
func Maps(ctx context.Context, m map[string]int, out *sync.Map) error {
	if err := cff.Parallel(ctx,
		cff.Map(func(k string, v int) { out.Store(k, v) }, m, cff.MapEnd(func(context.Context) {})),
	); err != nil {
		return err
	}
	return cff.Parallel(ctx,
		cff.ContinueOnError(true),
		cff.Map(func(ctx context.Context, k string, v int) error { out.Store(k, v+1); return nil }, m),
		cff.Slice(func(i int, k string) {}, keys(m)),
	)
}

func keys(m map[string]int) []string {
	var out []string
	for k := range m {
		out = append(out, k)
	}
	return out
}
