package lib

type Pair[K comparable, V any] struct {
	Key K
	Val V
}

type List[T any] []T

func Make[K comparable, V any](k K, v V) Pair[K, V] { return Pair[K, V]{k, v} }
