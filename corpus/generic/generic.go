//go:build cff

package generic

import (
	"context"

	"example.com/corpus/generic/lib"
	"go.uber.org/cff"
)

type Box[T any] struct{ V T }

func first[T any](xs []T) T { return xs[0] }

func Generic(ctx context.Context) (lib.Pair[string, int], error) {
	var out lib.Pair[string, int]
	err := cff.Flow(ctx,
		cff.Params([]int{1}, "k"),
		cff.Results(&out),
		cff.Task(first[int]),
		cff.Task(func(s string, n int) Box[string] { return Box[string]{s} }),
		cff.Task(func(b Box[string], n int) lib.Pair[string, int] { return lib.Make(b.V, n) }),
	)
	return out, err
}

func Inside[T any, U comparable](ctx context.Context, t T, u U) (Box[T], map[U]T, error) {
	var b Box[T]
	var m map[U]T
	err := cff.Flow(ctx,
		cff.Params(t, u),
		cff.Results(&b, &m),
		cff.Task(func(t T) Box[T] { return Box[T]{t} }),
		cff.Task(func(u U, b Box[T]) map[U]T { return map[U]T{u: b.V} }),
	)
	return b, m, err
}

func ParGeneric[T any](ctx context.Context, xs lib.List[T], m map[string]Box[T]) error {
	return cff.Parallel(ctx,
		cff.Slice(func(i int, x T) {}, xs),
		cff.Map(func(k string, v Box[T]) {}, m),
	)
}

type Svc[T any] struct{ zero T }

func (s *Svc[T]) Run(ctx context.Context) (T, error) {
	var out T
	err := cff.Flow(ctx,
		cff.Results(&out),
		cff.Task(func() T { return s.zero }),
	)
	return out, err
}
