//go:build cff

package flows

import (
	"context"
	"errors"
	"strconv"

	"go.uber.org/cff"
)

type Req struct{ ID int }
type Row struct{ V string }
type Resp struct{ Body string }

func lookup(ctx context.Context, r *Req) (*Row, error) { return &Row{V: strconv.Itoa(r.ID)}, nil }

type svc struct{ prefix string }

func (s *svc) render(row *Row) *Resp { return &Resp{Body: s.prefix + row.V} }

// Chain: Params -> function -> method value -> Results.
func Chain(ctx context.Context, req *Req) (*Resp, error) {
	var out *Resp
	s := &svc{prefix: "row "}
	err := cff.Flow(ctx,
		cff.Params(req),
		cff.Results(&out),
		cff.Task(lookup),
		cff.Task(s.render),
	)
	return out, err
}

// Diamond with a multi-output task, a predicate with its own input, a fallback and an Invoke task.
func Diamond(ctx context.Context, n int, verbose bool) (string, int64, error) {
	var (
		s   string
		sum int64
	)
	calls := 0
	err := cff.Flow(ctx,
		cff.Concurrency(n+1),
		cff.Params(n, verbose),
		cff.Results(&s, &sum),
		cff.Task(func(i int) (int8, int16) { return int8(i), int16(i) }),
		cff.Task(
			func(ctx context.Context, a int8) (int32, error) {
				if a < 0 {
					return 0, errors.New("negative")
				}
				return int32(a), nil
			},
			cff.FallbackWith(int32(7)),
		),
		cff.Task(
			func(b int16) uint8 { return uint8(b) },
			cff.Predicate(func(v bool) bool { return v }),
		),
		cff.Task(func(x int32, y uint8) (string, int64) {
			return strconv.Itoa(int(x)), int64(x) + int64(y)
		}),
		cff.Task(func(int64) { calls++ }, cff.Invoke(true)),
	)
	return s, sum, err
}

// TwoInOne: two directives in one function, the second consuming the first's result.
func TwoInOne(ctx context.Context) (int, error) {
	var a int
	if err := cff.Flow(ctx,
		cff.Results(&a),
		cff.Task(func() int { return 20 }),
	); err != nil {
		return 0, err
	}
	var b int
	err := cff.Flow(ctx,
		cff.Params(int64(a)),
		cff.Results(&b),
		cff.Task(func(x int64) (int, error) { return int(x) + 22, nil }),
	)
	return b, err
}

// PredicateCtx: predicate that takes the context and an input provided by another task.
func PredicateCtx(ctx context.Context) (string, error) {
	var out string
	err := cff.Flow(ctx,
		cff.Results(&out),
		cff.Task(func() int { return 3 }),
		cff.Task(
			func(i int) (string, error) { return strconv.Itoa(i), nil },
			cff.Predicate(func(ctx context.Context, i int) bool { return ctx.Err() == nil && i > 0 }),
			cff.FallbackWith("fallback"),
		),
	)
	return out, err
}

// Generic enclosing function.
func Lift[T any](ctx context.Context, v T, f func(T) string) (string, error) {
	var out string
	err := cff.Flow(ctx,
		cff.Params(v),
		cff.Results(&out),
		cff.Task(f),
	)
	return out, err
}

type Raw []byte

// Fanin: consumers (a task and a predicate) that take two outputs of one
// multi-output provider, and functions whose parameter lists repeat a type
// before a different one (also with a later type assignable to the repeated one).
func Fanin(ctx context.Context, seed int) (string, string, error) {
	var (
		out  string
		out2 []string
	)
	err := cff.Flow(ctx,
		cff.Params(seed),
		cff.Results(&out, &out2),
		cff.Task(func(i int) (int8, int16) { return int8(i), int16(i) * 2 }),
		cff.Task(func(a int8, b int16) int32 { return int32(a) + int32(b) }),
		cff.Task(
			func(x int32) uint8 { return uint8(x) },
			cff.Predicate(func(a int8, b int16) bool { return int16(a) < b }),
		),
		cff.Task(func(x, y int32, u uint8) string { return strconv.Itoa(int(x) + int(y) + int(u)) }),
		cff.Task(func(s string) ([]byte, Raw) { return []byte(s), Raw(s + "!") }),
		cff.Task(func(a, b []byte, r Raw) []string { return []string{string(a), string(b), string(r)} }),
	)
	if len(out2) == 0 {
		return out, "", err
	}
	return out, out2[len(out2)-1], err
}
