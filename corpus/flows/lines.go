//go:build cff

package flows

import (
	"context"

	"go.uber.org/cff"
)

// This file places directives across the 99/100 line boundary and the 99/100 column boundary,
// where an ordering of hoisted expressions by anything but numeric position shows.
//
//
//
//
//
//
//
//
//
//
//
//
//
//
//
//
//
//
//
//
//
//
//
//
//
//
//
//
//
//
//
//
//
//
//
//
//
//
//
//
//
//
//
//
//
//
//
//
//
//
//
//
//
//
//
//
//
//
//
//
//
//
//
//
//
//
//
//
//
//
//
//
//
//
//
//
//
//
//
//

// Boundary spans lines 96-103.
func Boundary(ctx context.Context, a int, b string) (int64, error) {
	var out int64
	err := cff.Flow(
		ctx,
		cff.Params(a,
			b),
		cff.Results(&out),
		cff.Concurrency(a + 1),
		cff.Task(func(i int, s string) int64 { return int64(i + len(s)) }),
	)
	return out, err
}

// OneLine crosses column 100 within one line.
func OneLine(ctx context.Context, first func() error, second func(context.Context) error, n int) error {
	return cff.Parallel(ctx, cff.Tasks(first, second), cff.Concurrency(n), cff.ContinueOnError(n > 3), cff.Task(func() {}))
}
