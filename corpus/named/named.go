//go:build cff

package named

import (
	"context"

	"go.uber.org/cff"
)

type (
	Scores map[string]int     // named map type
	Check  func(n int) bool   // named function type
	IntPtr *int               // named pointer type
	Names  []string           // named slice type (was already accepted)
	Work   func(n int) string // named function type as a task (was already accepted)
)

// NamedMap: a cff.Map over a value of a named map type.
func NamedMap(ctx context.Context, m Scores) error {
	return cff.Parallel(ctx,
		cff.Map(func(k string, v int) {}, m),
	)
}

// NamedSlice is the sibling that cff has always accepted.
func NamedSlice(ctx context.Context, s Names) error {
	return cff.Parallel(ctx,
		cff.Slice(func(v string) {}, s),
	)
}

// NamedPredicate: a predicate whose function value has a named function type.
func NamedPredicate(ctx context.Context, c Check, w Work) (string, error) {
	var s string
	err := cff.Flow(ctx,
		cff.Params(1),
		cff.Results(&s),
		cff.Task(w, cff.Predicate(c)),
	)
	return s, err
}

// NamedPointer: a Results target whose pointer type is named.
func NamedPointer(ctx context.Context) (int, error) {
	var n int
	var p IntPtr = &n
	err := cff.Flow(ctx,
		cff.Results(p),
		cff.Task(func() int { return 1 }),
	)
	return n, err
}

// PrivateInputs: two gated tasks; the Params value B is consumed by the second predicate only and C by the
// first predicate only (a validator that examines only one predicate calls the other's input unused).
func PrivateInputs(ctx context.Context, a int, b int8, c int16) (string, uint, error) {
	var (
		s string
		u uint
	)
	err := cff.Flow(ctx,
		cff.Params(a, b, c),
		cff.Results(&s, &u),
		cff.Task(func(n int) string { return "" }, cff.Predicate(func(x int16) bool { return x > 0 })),
		cff.Task(func(n int) uint { return 0 }, cff.Predicate(func(x int8) bool { return x > 0 })),
	)
	return s, u, err
}
