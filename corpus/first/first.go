//go:build cff

// Package first holds a single flow that is the first directive of its package, so that the generator's
// per-package task numbers (task0, task1, ...) are as small as its per-flow predicate numbers (pred1,
// pred2): every gated task below consumes the output of the task whose number equals its predicate's.
package first

import (
	"context"

	"go.uber.org/cff"
)

type (
	A int
	B int
	C int
	D int
)

// Gated: task2 is gated by pred1 and fed by task1; task3 is gated by pred2 and fed by task2.
func Gated(ctx context.Context) (D, error) {
	var out D
	err := cff.Flow(ctx,
		cff.Results(&out),
		cff.Task(func() A { return A(1) }),
		cff.Task(func(a A) B { return B(a) }),
		cff.Task(func(b B) C { return C(b) }, cff.Predicate(func(a A) bool { return a > 0 })),
		cff.Task(func(c C) D { return D(c) }, cff.Predicate(func(a A, b B) bool { return int(a)+int(b) > 0 })),
	)
	return out, err
}
