// +build cff

package tags

import (
	"context"

	"go.uber.org/cff"
)

func Fg(ctx context.Context) (int, error) {
	var n int
	err := cff.Flow(ctx, cff.Results(&n), cff.Task(func() int { return 1 }))
	return n, err
}

