//go:build cff

// Some comment.


package tags

import (
	"context"

	"go.uber.org/cff"
)

func Fk(ctx context.Context) (int, error) {
	var n int
	err := cff.Flow(ctx, cff.Results(&n), cff.Task(func() int { return 1 }))
	return n, err
}

