//go:build !(!cff || never)

package tags

import (
	"context"

	"go.uber.org/cff"
)

// Fc is selected exactly when the constraint above holds.
func Fc(ctx context.Context) (int, error) {
	var out int
	err := cff.Flow(ctx, cff.Results(&out), cff.Task(func() int { return 1 }))
	return out, err
}
