//go:build cff && (cff || extra)

package tags

import (
	"context"

	"go.uber.org/cff"
)

// Fa is selected exactly when the constraint above holds.
func Fa(ctx context.Context) (int, error) {
	var out int
	err := cff.Flow(ctx, cff.Results(&out), cff.Task(func() int { return 1 }))
	return out, err
}
