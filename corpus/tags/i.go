// +build cff
// +build !never

package tags

import (
	"context"

	"go.uber.org/cff"
)

func Fi(ctx context.Context) (int, error) {
	var n int
	err := cff.Flow(ctx, cff.Results(&n), cff.Task(func() int { return 1 }))
	return n, err
}

