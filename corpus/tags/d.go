//go:build cff
// +build cff

package tags

import (
	"context"

	"go.uber.org/cff"
)

// Fd carries both constraint syntaxes.
func Fd(ctx context.Context) error {
	return cff.Parallel(ctx, cff.Task(func() {}))
}
