/*
Copyright (c) example.

A licence block comment precedes the build constraint in this file: go/build
still honours the constraint, so cff must invert it.
*/

//go:build cff && !windows

package tags

import (
	"context"

	"go.uber.org/cff"
)

func E(ctx context.Context) (int, error) {
	var out int
	err := cff.Flow(ctx, cff.Results(&out), cff.Task(func() int { return 5 }))
	return out, err
}
