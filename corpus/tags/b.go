//go:build (cff && !never) || (cff && other)

package tags

import (
	"context"

	"go.uber.org/cff"
)

// Fb is selected exactly when the constraint above holds.
func Fb(ctx context.Context) (int, error) {
	var out int
	err := cff.Flow(ctx, cff.Results(&out), cff.Task(func() int { return 1 }))
	return out, err
}
