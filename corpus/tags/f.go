//go:build cff
// Package doc attached directly to the build constraint (no blank line): the
// constraint is part of the package clause's comment group, and still a constraint.
package tags

import (
	"context"

	"go.uber.org/cff"
)

func F(ctx context.Context) (int, error) {
	var out int
	err := cff.Flow(ctx, cff.Results(&out), cff.Task(func() int { return 6 }))
	return out, err
}
