//go:build cff

// Package sites puts directives at every syntactic position a call expression can occupy.
package sites

import (
	"context"

	"go.uber.org/cff"
)

func one() int { return 1 }

func wrap(err error) error { return err }

// package-level variable initialised with a function literal that holds a directive
var pkgLevel = func(ctx context.Context) (int, error) {
	var out int
	err := cff.Flow(ctx, cff.Results(&out), cff.Task(one))
	return out, err
}

// VarDecl: `var x = directive` as a statement.
func VarDecl(ctx context.Context) (int, error) {
	var out int
	var err = cff.Flow(ctx, cff.Results(&out), cff.Task(one))
	return out, err
}

// VarDeclTyped: `var x T = directive`.
func VarDeclTyped(ctx context.Context) error {
	var err error = cff.Parallel(ctx, cff.Task(func() {}))
	return err
}

// IfInit: directive in the init statement of an if.
func IfInit(ctx context.Context) (int, error) {
	var out int
	if err := cff.Flow(ctx, cff.Results(&out), cff.Task(one)); err != nil {
		return 0, err
	}
	return out, nil
}

// Return: directive as a return operand.
func Return(ctx context.Context) error {
	return cff.Parallel(ctx, cff.Task(func() {}), cff.Task(func(context.Context) error { return nil }))
}

// Arg: directive as an argument of another call.
func Arg(ctx context.Context) error {
	var out int
	return wrap(cff.Flow(ctx, cff.Results(&out), cff.Task(one)))
}

// InClosure: directive inside a function literal.
func InClosure(ctx context.Context) error {
	f := func() error {
		var out int
		return cff.Flow(ctx, cff.Results(&out), cff.Task(one))
	}
	return f()
}

// InGo: directive on another goroutine.
func InGo(ctx context.Context) error {
	done := make(chan error, 1)
	go func() {
		done <- cff.Parallel(ctx, cff.Slice(func(i int, v string) {}, []string{"a", "b"}))
	}()
	return <-done
}

// InDefer: directive in a deferred function.
func InDefer(ctx context.Context) (err error) {
	defer func() {
		err = cff.Parallel(ctx, cff.Map(func(k string, v int) {}, map[string]int{"a": 1}))
	}()
	return nil
}

type T struct{ n int }

// Method: directive in a method, using the receiver.
func (t *T) Method(ctx context.Context) (int, error) {
	var out int64
	err := cff.Flow(ctx, cff.Params(t.n), cff.Results(&out), cff.Task(func(i int) (int64, error) { return int64(i + t.n), nil }))
	return int(out), err
}

func init() {
	var out int
	_ = cff.Flow(context.Background(), cff.Results(&out), cff.Task(one))
}

// Switch: directives in case clauses.
func Switch(ctx context.Context, k int) error {
	var out int
	switch k {
	case 0:
		return cff.Flow(ctx, cff.Results(&out), cff.Task(one))
	case 1:
		if err := cff.Parallel(ctx, cff.Task(func() {})); err != nil {
			return err
		}
		fallthrough
	default:
		return cff.Parallel(ctx, cff.Tasks(func() {}, func() error { return nil }))
	}
}

// Loop: directive in a loop body.
func Loop(ctx context.Context) (int, error) {
	sum := 0
	for i := 0; i < 3; i++ {
		var out int64
		if err := cff.Flow(ctx, cff.Params(i), cff.Results(&out), cff.Task(func(i int) int64 { return int64(i) * 2 })); err != nil {
			return 0, err
		}
		sum += int(out)
	}
	return sum, nil
}

type result struct{ err error }

// Composite: directives as elements of composite literals and operands of operators.
func Composite(ctx context.Context) (bool, []error, result) {
	var a, b int
	errs := []error{
		cff.Flow(ctx, cff.Results(&a), cff.Task(one)),
		cff.Parallel(ctx, cff.Task(func() {})),
	}
	r := result{err: cff.Flow(ctx, cff.Results(&b), cff.Task(one))}
	ok := cff.Parallel(ctx, cff.Task(func() {})) == nil && r.err == nil
	return ok, errs, r
}

// Assign: plain and tuple-free assignments, parenthesised.
func Assign(ctx context.Context) error {
	var out int
	var err error
	err = (cff.Flow(ctx, cff.Results(&out), cff.Task(one)))
	if err == nil {
		err = cff.Parallel(ctx, cff.Task(func() {}))
	}
	return err
}

// Select: directive in a communication clause body and as a sent value.
func Select(ctx context.Context, c chan error) {
	select {
	case c <- cff.Parallel(ctx, cff.Task(func() {})):
	default:
		c <- cff.Parallel(ctx, cff.Task(func() error { return nil }))
	}
}
