//go:build cff
// +build cff

// Package paren: every argument of the directives and of their options is written with redundant parentheses,
// which is legal and must not change what is generated (base and source-map mode; corpus_mod/mflows/paren.go is
// the modifier-mode counterpart).
package paren

import (
	"context"

	"go.uber.org/cff"
)

type (
	A int
	B int
	C int
)

func aToB(a A) B          { return B(a) }
func bToC(b B) (C, error) { return C(b), nil }
func big(b B) bool        { return b > 3 }

// Flow with parenthesised context, Params, Results, Concurrency, task, predicate, fallback and names.
func Flow(ctx context.Context, in A, em cff.Emitter) (C, error) {
	var out C
	err := cff.Flow((ctx),
		cff.Params((in)),
		cff.Results((&out)),
		cff.Concurrency((2)),
		cff.WithEmitter((em)),
		cff.InstrumentFlow(("paren")),
		cff.Task((aToB)),
		cff.Task((bToC), cff.Predicate((big)), cff.FallbackWith((C(7))), cff.Instrument(("b-to-c"))),
	)
	return out, err
}

// Par with parenthesised slice, map and functions.
func Par(ctx context.Context, xs []A, m map[string]B) error {
	return cff.Parallel((ctx),
		cff.ContinueOnError((true)),
		cff.Tasks((func() {})),
		cff.Slice((func(i int, a A) {}), (xs)),
		cff.Map((func(k string, b B) error { return nil }), (m)),
	)
}
