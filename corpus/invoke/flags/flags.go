// Package flags holds build-time switches that the directives of package invoke pass to cff.Invoke.
package flags

const (
	Eager = true
	Lazy  = false
)
