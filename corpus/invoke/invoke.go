//go:build cff
// +build cff

// Package invoke: the argument of cff.Invoke is a boolean constant that cff evaluates when it generates the
// code. Here it is never the literal true: it is a constant of another package that this file imports for
// nothing else (the generated file must still use the import), a local constant, a parenthesised or negated
// constant expression.
package invoke

import (
	"context"

	"example.com/corpus/invoke/flags"
	"go.uber.org/cff"
)

const always = true

// Notify runs two side-effect tasks next to the one that produces the result.
func Notify(ctx context.Context, id int, log func(string)) (string, error) {
	var name string
	err := cff.Flow(ctx,
		cff.Params(id),
		cff.Results(&name),
		cff.Task(func(i int) (string, error) { return "user", nil }),
		cff.Task(func(s string) error { log(s); return nil }, cff.Invoke(flags.Eager)),
		cff.Task(func(ctx context.Context, i int) { log("seen") }, cff.Invoke(always)),
	)
	return name, err
}

// Audit has only side-effect tasks.
func Audit(ctx context.Context, log func(string)) error {
	return cff.Flow(ctx,
		cff.Task(func() error { log("a"); return nil }, cff.Invoke((true))),
		cff.Task(func(ctx context.Context) { log("b") }, cff.Invoke(!flags.Lazy)),
		cff.Task(func() { log("c") }, cff.Invoke(flags.Eager && always)),
	)
}
