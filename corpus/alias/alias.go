//go:build cff

package alias

import (
	stdctx "context"
	tm "time"

	concur "go.uber.org/cff"
)

// Every package the templates refer to is imported under another name, and
// the caller has its own variables named like generated ones.
func Run(ctx stdctx.Context, emitter concur.Emitter) (tm.Duration, error) {
	err := stdctx.Canceled
	sched := tm.Second
	var tasks tm.Duration
	ferr := concur.Flow(ctx,
		concur.WithEmitter(emitter),
		concur.InstrumentFlow(err.Error()),
		concur.Params(int64(sched)),
		concur.Results(&tasks),
		concur.Task(func(d int64) (tm.Duration, error) { return tm.Duration(d * 2), nil }, concur.Instrument("double")),
	)
	_ = err
	return tasks, ferr
}
