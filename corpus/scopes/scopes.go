//go:build cff

// Package scopes: identifiers named like packages the generated code refers to, declared where they do NOT
// hide the package at the directive - after it, in a closed inner block, as struct fields, in other
// functions. All of this must be accepted and the output must compile (the counterpart of finding F11).
package scopes

import (
	"context"

	"go.uber.org/cff"
)

type T struct {
	time  int
	debug string
}

// After: declared after the directive.
func After(ctx context.Context) (int, error) {
	var n int
	err := cff.Flow(ctx, cff.Results(&n), cff.Task(func() int { return 1 }))
	time := n
	debug := time + 1
	return debug, err
}

// InnerBlock: the inner block is closed before the directive.
func InnerBlock(ctx context.Context) (int, error) {
	{
		time, debug := 1, 2
		_, _ = time, debug
	}
	var n int
	err := cff.Flow(ctx, cff.Results(&n), cff.Task(func() int { return 1 }))
	return n, err
}

// Fields are not in scope as bare names.
func (t T) Fields(ctx context.Context) (int, error) {
	var n int
	err := cff.Flow(ctx,
		cff.Params(t.debug),
		cff.Results(&n),
		cff.Task(func(s string) int { return len(s) + t.time }),
	)
	return n, err
}

// Sibling has parameters with those names, in another function.
func Sibling(time int, debug bool, context string) int {
	if debug {
		return time + len(context)
	}
	return 0
}

// InLiteral: the names are parameters of a task's own function literal, not of the enclosing function.
func InLiteral(ctx context.Context) error {
	return cff.Parallel(ctx,
		cff.Slice(func(time int, debug string) {}, []string{"a"}),
		cff.Task(func() { time := 1; _ = time }),
	)
}
