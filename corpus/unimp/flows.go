//go:build cff

package unimp

import (
	"context"

	"go.uber.org/cff"
)

// Page needs html/template.
func Page(ctx context.Context, src string) (HTMLPage, error) {
	var out HTMLPage
	err := cff.Flow(ctx,
		cff.Params(src),
		cff.Results(&out),
		cff.Task(ParseHTML),
		cff.Task(ExecHTML),
	)
	return out, err
}

// Mail needs text/template, in the same file.
func Mail(ctx context.Context, src string) (TextBody, error) {
	var out TextBody
	err := cff.Flow(ctx,
		cff.Params(src),
		cff.Results(&out),
		cff.Task(ParseText),
		cff.Task(ExecText),
	)
	return out, err
}

// Both needs both in one directive, and math/rand besides.
func Both(ctx context.Context, src string, seed int64) (HTMLPage, TextBody, Number, error) {
	var (
		h HTMLPage
		t TextBody
		n Number
	)
	err := cff.Flow(ctx,
		cff.Params(src, seed),
		cff.Results(&h, &t, &n),
		cff.Task(ParseText),
		cff.Task(ExecText),
		cff.Task(ParseHTML),
		cff.Task(ExecHTML),
		cff.Task(Source),
		cff.Task(Draw),
	)
	return h, t, n, err
}

// Collections: element types from unimported packages in Slice and Map.
func Collections(ctx context.Context) error {
	return cff.Parallel(ctx,
		cff.Slice(func(p *struct{ N int }) {}, []*struct{ N int }{}),
		cff.Map(func(name string, v interface{ Name() string }) {}, map[string]interface{ Name() string }{}),
	)
}
