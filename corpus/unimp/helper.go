// Package unimp: the directives in flows.go need types from packages that flows.go does not import - the
// generated file must import them itself, under names that collide neither with each other (two packages
// called template, two called rand) nor across the directives of the file.
package unimp

import (
	"bytes"
	crand "crypto/rand"
	ht "html/template"
	"io"
	mrand "math/rand"
	tt "text/template"
)

func ParseHTML(src string) (*ht.Template, error) { return ht.New("page").Parse(src) }

func ExecHTML(t *ht.Template) (HTMLPage, error) {
	var b bytes.Buffer
	err := t.Execute(&b, nil)
	return HTMLPage(b.String()), err
}

func ParseText(src string) (*tt.Template, error) { return tt.New("mail").Parse(src) }

func ExecText(t *tt.Template) (TextBody, error) {
	var b bytes.Buffer
	err := t.Execute(&b, nil)
	return TextBody(b.String()), err
}

func Source(seed int64) *mrand.Rand      { return mrand.New(mrand.NewSource(seed)) }
func Draw(r *mrand.Rand) Number          { return Number(r.Int()) }
func Entropy() io.Reader                 { return crand.Reader }
func Templates() map[string]*tt.Template { return map[string]*tt.Template{} }
func Pages() []*ht.Template              { return nil }

type (
	HTMLPage string
	TextBody string
	Number   int
)
