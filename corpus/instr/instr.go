//go:build cff

package instr

import (
	"context"
	"errors"

	"go.uber.org/cff"
)

// Instrumented flow with two emitters (one of them a nested stack), an
// instrumented task with predicate and fallback, and an uninstrumented one.
func Flow(ctx context.Context, e1, e2, e3 cff.Emitter, on bool) (string, error) {
	var out string
	err := cff.Flow(ctx,
		cff.WithEmitter(e1),
		cff.WithEmitter(cff.EmitterStack(e2, e3)),
		cff.InstrumentFlow("instr.Flow"),
		cff.Params(on),
		cff.Results(&out),
		cff.Task(
			func() (int, error) { return 0, errors.New("always") },
			cff.Instrument("load"),
			cff.FallbackWith(42),
			cff.Predicate(func(b bool) bool { return b }),
		),
		cff.Task(
			func(ctx context.Context, i int) string { return "n" },
			cff.Instrument("format"),
		),
	)
	return out, err
}

// Instrumented parallel with instrumented and plain tasks.
func Par(ctx context.Context, e cff.Emitter, keepGoing bool) error {
	return cff.Parallel(ctx,
		cff.WithEmitter(e),
		cff.InstrumentParallel("instr.Par"),
		cff.ContinueOnError(keepGoing),
		cff.Task(func() error { return nil }, cff.Instrument("first")),
		cff.Task(func(ctx context.Context) {}),
		cff.Tasks(func() {}, func(context.Context) error { return errors.New("x") }),
	)
}
