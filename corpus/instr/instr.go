//go:build cff

package instr

import (
	"context"
	"errors"

	"go.uber.org/cff"
)

// Instrumented flow with two emitters (one of them a nested stack), an
// instrumented task with predicate and fallback, and an uninstrumented one.
func Flow(ctx context.Context, e1, e2, e3 cff.Emitter, on bool) (string, error) {
	var out string
	err := cff.Flow(ctx,
		cff.WithEmitter(e1),
		cff.WithEmitter(cff.EmitterStack(e2, e3)),
		cff.InstrumentFlow("instr.Flow"),
		cff.Params(on),
		cff.Results(&out),
		cff.Task(
			func() (int, error) { return 0, errors.New("always") },
			cff.Instrument("load"),
			cff.FallbackWith(42),
			cff.Predicate(func(b bool) bool { return b }),
		),
		cff.Task(
			func(ctx context.Context, i int) string { return "n" },
			cff.Instrument("format"),
		),
	)
	return out, err
}

// Instrumented parallel with instrumented and plain tasks.
func Par(ctx context.Context, e cff.Emitter, keepGoing bool) error {
	return cff.Parallel(ctx,
		cff.WithEmitter(e),
		cff.InstrumentParallel("instr.Par"),
		cff.ContinueOnError(keepGoing),
		cff.Task(func() error { return nil }, cff.Instrument("first")),
		cff.Task(func(ctx context.Context) {}),
		cff.Tasks(func() {}, func(context.Context) error { return errors.New("x") }),
	)
}

// TaskOnly: tasks are instrumented but the flow itself is not (no InstrumentFlow); one task is gated
// off so that the skipped sweep matters.
func TaskOnly(ctx context.Context, e cff.Emitter, on bool) (int, error) {
	var out int
	err := cff.Flow(ctx,
		cff.WithEmitter(e),
		cff.Params(on),
		cff.Results(&out),
		cff.Task(func() int64 { return 1 }, cff.Instrument("seed")),
		cff.Task(
			func(v int64) (int, error) { return int(v) + 1, nil },
			cff.Predicate(func(b bool) bool { return b }),
			cff.Instrument("maybe"),
			cff.FallbackWith(0),
		),
	)
	return out, err
}

// FlowOnly: the flow is instrumented, no task is.
func FlowOnly(ctx context.Context, e cff.Emitter) (int, error) {
	var out int
	err := cff.Flow(ctx,
		cff.WithEmitter(e),
		cff.InstrumentFlow("instr.FlowOnly"),
		cff.Results(&out),
		cff.Task(func() int { return 7 }),
	)
	return out, err
}

// ParTaskOnly: instrumented parallel tasks without InstrumentParallel, plus un-instrumented Slice/Map.
func ParTaskOnly(ctx context.Context, e cff.Emitter, xs []int, m map[string]int) error {
	return cff.Parallel(ctx,
		cff.WithEmitter(e),
		cff.Task(func() error { return nil }, cff.Instrument("a")),
		cff.Task(func(context.Context) {}, cff.Instrument("b")),
		cff.Slice(func(i, v int) {}, xs),
		cff.Map(func(k string, v int) error { return nil }, m),
	)
}
