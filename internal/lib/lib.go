// Package lib implements the L-rules (DESIGN §4.2) on package cff: emitter
// stacks (L1-L3) and PanicError (L4).
package lib

import (
	"fmt"
	"go/ast"
	"go/token"
	"go/types"

	"cffverif/internal/astx"
	"cffverif/internal/load"
	"cffverif/internal/report"
)

var Rules = []report.Rule{
	{ID: "L1", Floor: 14, Props: []string{"C18"}, Text: "every method of a stack type (slice of an emitter interface that implements that interface) is one range over the receiver invoking the same-named method once on each element with all parameters in order, nothing else"},
	{ID: "L2", Floor: 4, Props: []string{"C18"}, Text: "every XInit of the emitter stack builds a stack with exactly one e.XInit(same arguments) per element, in order"},
	{ID: "L3", Floor: 3, Props: []string{"C18"}, Text: "EmitterStack: 0 -> no-op emitter, 1 -> the argument, n -> every argument exactly once (nested stacks spliced)"},
	{ID: "L4", Floor: 2, Props: []string{"C04"}, Text: "*PanicError implements error and has an exported interface-typed field Value"},
}

func Run(repo *load.Repo, s *report.Sink) error {
	p := repo.Pkgs[load.Module]
	if p == nil {
		return fmt.Errorf("package cff not loaded")
	}
	info := p.TypesInfo
	pos := func(n ast.Node) string { return repo.Rel(n.Pos()) }
	// stack types
	type stackT struct {
		named *types.Named
		iface *types.Named
	}
	var stacks []stackT
	sc := p.Types.Scope()
	for _, n := range sc.Names() {
		tn, ok := sc.Lookup(n).(*types.TypeName)
		if !ok {
			continue
		}
		nt, ok := tn.Type().(*types.Named)
		if !ok {
			continue
		}
		sl, ok := nt.Underlying().(*types.Slice)
		if !ok {
			continue
		}
		el, ok := sl.Elem().(*types.Named)
		if !ok {
			continue
		}
		if it, ok := el.Underlying().(*types.Interface); ok && types.Implements(nt, it) {
			stacks = append(stacks, stackT{nt, el})
		}
	}
	s.SetFact("lib.stack_types", len(stacks))
	for _, st := range stacks {
		it := st.iface.Underlying().(*types.Interface)
		for i := 0; i < it.NumMethods(); i++ {
			m := it.Method(i)
			fd := astx.FindFuncDecl(p.Syntax, st.named.Obj().Name(), m.Name())
			key := fmt.Sprintf("%s.%s", st.named.Obj().Name(), m.Name())
			if fd == nil {
				s.Unk("L1", key, "", "method declaration not found")
				continue
			}
			sig := m.Type().(*types.Signature)
			recv := info.Defs[fd.Recv.List[0].Names[0]]
			var params []types.Object
			for _, f := range fd.Type.Params.List {
				for _, nm := range f.Names {
					params = append(params, info.Defs[nm])
				}
			}
			if sig.Results().Len() == 0 {
				// L1: forwarders
				good := len(fd.Body.List) == 1
				var why string
				if good {
					rs, ok := fd.Body.List[0].(*ast.RangeStmt)
					good = ok && astx.IdentObj(info, rs.X) == recv && rs.Value != nil && len(rs.Body.List) == 1
					if good {
						ev := astx.IdentObj(info, rs.Value)
						es, ok := rs.Body.List[0].(*ast.ExprStmt)
						good = ok
						if good {
							call, ok := es.X.(*ast.CallExpr)
							good = ok
							if good {
								se, ok := call.Fun.(*ast.SelectorExpr)
								good = ok && astx.IdentObj(info, se.X) == ev && se.Sel.Name == m.Name() && len(call.Args) == len(params) && !call.Ellipsis.IsValid()
								if ok && se.Sel.Name != m.Name() {
									why = fmt.Sprintf("forwards to %s instead of %s", se.Sel.Name, m.Name())
								}
								for i := 0; good && i < len(params); i++ {
									if astx.IdentObj(info, call.Args[i]) != params[i] {
										good = false
										why = fmt.Sprintf("argument %d is not parameter %d", i, i)
									}
								}
							}
						}
					}
				}
				if why == "" {
					why = "body is not exactly `for _, e := range recv { e." + m.Name() + "(params...) }`"
				}
				s.Check(good, "L1", key, pos(fd), "forwards once to every element with all arguments", "stack method "+key+": "+why+": a stacked emitter would miss, double or receive altered events")
				continue
			}
			// L2: XInit on the emitter stack
			key2 := key
			var made types.Object
			var rng *ast.RangeStmt
			var ret *ast.ReturnStmt
			good := len(fd.Body.List) == 3
			if good {
				as, ok1 := fd.Body.List[0].(*ast.AssignStmt)
				r, ok2 := fd.Body.List[1].(*ast.RangeStmt)
				rt, ok3 := fd.Body.List[2].(*ast.ReturnStmt)
				good = ok1 && ok2 && ok3 && len(as.Lhs) == 1 && len(as.Rhs) == 1
				if good {
					made, rng, ret = astx.IdentObj(info, as.Lhs[0]), r, rt
					mk, ok := as.Rhs[0].(*ast.CallExpr)
					good = ok && astx.IsBuiltin(info, mk, "make") && astx.IdentObj(info, rng.X) == recv && len(ret.Results) == 1 && astx.IdentObj(info, ret.Results[0]) == made && len(rng.Body.List) == 1
					if good {
						// either append form (len 0) or index form (len = len(recv))
						st0, ok := rng.Body.List[0].(*ast.AssignStmt)
						good = ok && len(st0.Lhs) == 1 && len(st0.Rhs) == 1
						if good {
							var inner *ast.CallExpr
							ev := astx.IdentObj(info, rng.Value)
							switch l := st0.Lhs[0].(type) {
							case *ast.Ident:
								ap, ok := st0.Rhs[0].(*ast.CallExpr)
								good = ok && astx.IsBuiltin(info, ap, "append") && len(ap.Args) == 2 && astx.IdentObj(info, ap.Args[0]) == made && astx.ObjOf(info, l) == made && len(mk.Args) >= 2 && astx.IsIntConst(info, mk.Args[1], 0)
								if good {
									inner, _ = ap.Args[1].(*ast.CallExpr)
								}
							case *ast.IndexExpr:
								good = astx.IdentObj(info, l.X) == made && rng.Key != nil && astx.IdentObj(info, l.Index) == astx.IdentObj(info, rng.Key) && len(mk.Args) == 2 && isLenOf(info, mk.Args[1], recv)
								inner, _ = st0.Rhs[0].(*ast.CallExpr)
							default:
								good = false
							}
							if good {
								se, ok := inner.Fun.(*ast.SelectorExpr)
								good = inner != nil && ok && astx.IdentObj(info, se.X) == ev && se.Sel.Name == m.Name() && len(inner.Args) == len(params)
								for i := 0; good && i < len(params); i++ {
									if astx.IdentObj(info, inner.Args[i]) != params[i] {
										good = false
									}
								}
							}
						}
					}
				}
			}
			s.Check(good, "L2", key2, pos(fd), "one e."+m.Name()+"(args) per element, collected in order", "stack "+key2+" does not build exactly one initialised emitter per stacked emitter with the same arguments")
		}
	}
	// L3 EmitterStack
	if fd := astx.FindFuncDecl(p.Syntax, "", "EmitterStack"); fd != nil {
		var param types.Object
		if len(fd.Type.Params.List) == 1 && len(fd.Type.Params.List[0].Names) == 1 {
			param = info.Defs[fd.Type.Params.List[0].Names[0]]
		}
		var sw *ast.SwitchStmt
		if len(fd.Body.List) == 1 {
			sw, _ = fd.Body.List[0].(*ast.SwitchStmt)
		}
		ok0, ok1, okN := false, false, false
		if sw != nil && param != nil {
			if c, ok := sw.Tag.(*ast.CallExpr); ok && isLenOf(info, c, param) {
				for _, cl := range sw.Body.List {
					cc := cl.(*ast.CaseClause)
					switch {
					case len(cc.List) == 1 && astx.IsIntConst(info, cc.List[0], 0):
						if len(cc.Body) == 1 {
							if r, ok := cc.Body[0].(*ast.ReturnStmt); ok && len(r.Results) == 1 {
								if call, ok := r.Results[0].(*ast.CallExpr); ok {
									if fn := astx.Callee(info, call); fn != nil && fn.Name() == "NopEmitter" {
										ok0 = true
									}
								}
							}
						}
					case len(cc.List) == 1 && astx.IsIntConst(info, cc.List[0], 1):
						if len(cc.Body) == 1 {
							if r, ok := cc.Body[0].(*ast.ReturnStmt); ok && len(r.Results) == 1 {
								if ix, ok := r.Results[0].(*ast.IndexExpr); ok && astx.IdentObj(info, ix.X) == param && astx.IsIntConst(info, ix.Index, 0) {
									ok1 = true
								}
							}
						}
					case cc.List == nil:
						okN = checkSplice(info, cc.Body, param)
					}
				}
			}
		}
		s.Check(ok0, "L3", "EmitterStack|no emitters -> NopEmitter()", pos(fd), "", "EmitterStack() does not return the no-op emitter")
		s.Check(ok1, "L3", "EmitterStack|one emitter -> that emitter", pos(fd), "", "EmitterStack(e) does not return e itself")
		s.Check(okN, "L3", "EmitterStack|n emitters -> each exactly once, nested stacks spliced", pos(fd), "", "EmitterStack drops, duplicates or fails to flatten an argument: a stacked emitter receives too few or too many events")
	} else {
		s.Unk("L3", "EmitterStack", "", "function not found")
	}
	// L4
	if pe, ok := sc.Lookup("PanicError").(*types.TypeName); ok {
		errI := types.Universe.Lookup("error").Type().Underlying().(*types.Interface)
		s.Check(types.Implements(types.NewPointer(pe.Type()), errI), "L4", "*PanicError implements error", "", "", "*cff.PanicError does not implement error")
		good := false
		if st, ok := pe.Type().Underlying().(*types.Struct); ok {
			for i := 0; i < st.NumFields(); i++ {
				if f := st.Field(i); f.Name() == "Value" && f.Exported() {
					if it, ok := f.Type().Underlying().(*types.Interface); ok && it.NumMethods() == 0 {
						good = true
					}
				}
			}
		}
		s.Check(good, "L4", "PanicError.Value is an exported empty-interface field", "", "", "PanicError has no exported `Value any` field")
	} else {
		s.Unk("L4", "PanicError", "", "type not found")
	}
	return nil
}

func isLenOf(info *types.Info, e ast.Expr, obj types.Object) bool {
	c, ok := astx.Unparen(e).(*ast.CallExpr)
	return ok && astx.IsBuiltin(info, c, "len") && len(c.Args) == 1 && astx.IdentObj(info, c.Args[0]) == obj
}

// checkSplice: var stack T; for _, e := range param { if s, ok := e.(T); ok { stack = append(stack, s...) } else { stack = append(stack, e) } }; return stack
func checkSplice(info *types.Info, body []ast.Stmt, param types.Object) bool {
	if len(body) != 3 {
		return false
	}
	ds, ok1 := body[0].(*ast.DeclStmt)
	rs, ok2 := body[1].(*ast.RangeStmt)
	ret, ok3 := body[2].(*ast.ReturnStmt)
	if !ok1 || !ok2 || !ok3 || astx.IdentObj(info, rs.X) != param || rs.Value == nil || len(ret.Results) != 1 {
		return false
	}
	var stack types.Object
	if gd, ok := ds.Decl.(*ast.GenDecl); ok && gd.Tok == token.VAR && len(gd.Specs) == 1 {
		if vs, ok := gd.Specs[0].(*ast.ValueSpec); ok && len(vs.Names) == 1 && len(vs.Values) == 0 {
			stack = info.Defs[vs.Names[0]]
		}
	}
	if stack == nil || astx.IdentObj(info, ret.Results[0]) != stack {
		return false
	}
	ev := astx.IdentObj(info, rs.Value)
	isAppend := func(st ast.Stmt, arg types.Object, ellipsis bool) bool {
		as, ok := st.(*ast.AssignStmt)
		if !ok || len(as.Lhs) != 1 || len(as.Rhs) != 1 || astx.IdentObj(info, as.Lhs[0]) != stack {
			return false
		}
		c, ok := as.Rhs[0].(*ast.CallExpr)
		return ok && astx.IsBuiltin(info, c, "append") && len(c.Args) == 2 && astx.IdentObj(info, c.Args[0]) == stack && astx.IdentObj(info, c.Args[1]) == arg && c.Ellipsis.IsValid() == ellipsis
	}
	if len(rs.Body.List) != 1 {
		return false
	}
	is, ok := rs.Body.List[0].(*ast.IfStmt)
	if !ok || is.Else == nil || is.Init == nil || len(is.Body.List) != 1 {
		return false
	}
	init, ok := is.Init.(*ast.AssignStmt)
	if !ok || len(init.Lhs) != 2 || len(init.Rhs) != 1 {
		return false
	}
	ta, ok := init.Rhs[0].(*ast.TypeAssertExpr)
	if !ok || astx.IdentObj(info, ta.X) != ev || astx.IdentObj(info, is.Cond) != astx.IdentObj(info, init.Lhs[1]) {
		return false
	}
	sv := astx.IdentObj(info, init.Lhs[0])
	eb, ok := is.Else.(*ast.BlockStmt)
	return ok && len(eb.List) == 1 && isAppend(is.Body.List[0], sv, true) && isAppend(eb.List[0], ev, false)
}
