// Package lib implements the L-rules (DESIGN §4.2) on package cff: emitter
// stacks (L1-L3) and PanicError (L4).
package lib

import (
	"fmt"
	"go/types"

	"cffverif/internal/load"
	"cffverif/internal/report"
	"cffverif/internal/sched"
)

var Rules = []report.Rule{
	{ID: "L1", Floor: 14, Props: []string{"C18"}, Text: "every method of a stack type (slice of an emitter interface that implements that interface) is one range over the receiver invoking the same-named method once on each element with all parameters in order, nothing else"},
	{ID: "L2", Floor: 4, Props: []string{"C18"}, Text: "every XInit of the emitter stack builds a stack with exactly one e.XInit(same arguments) per element, in order"},
	{ID: "L3", Floor: 3, Props: []string{"C18", "C12"}, Text: "EmitterStack: 0 -> no-op emitter, 1 -> the argument, n -> every argument exactly once (nested stacks spliced)"},
	{ID: "L4", Floor: 3, Props: []string{"C04"}, Text: "*PanicError implements error, has an exported interface-typed field Value, and is opaque to errors.Is/As/Unwrap (the scheduler loop tests job errors with errors.Is on its own goroutine, where nothing recovers: the recovered value's methods must not be reachable from there)"},
}

func Run(repo *load.Repo, s *report.Sink) error {
	p := repo.Pkgs[load.Module]
	if p == nil {
		return fmt.Errorf("package cff not loaded")
	}
	sc := p.Types.Scope()
	if err := sched.RunStacks(repo, s); err != nil {
		return err
	}
	// L4
	if pe, ok := sc.Lookup("PanicError").(*types.TypeName); ok {
		errI := types.Universe.Lookup("error").Type().Underlying().(*types.Interface)
		s.Check(types.Implements(types.NewPointer(pe.Type()), errI), "L4", "*PanicError implements error", "", "", "*cff.PanicError does not implement error")
		good := false
		if st, ok := pe.Type().Underlying().(*types.Struct); ok {
			for i := 0; i < st.NumFields(); i++ {
				if f := st.Field(i); f.Name() == "Value" && f.Exported() {
					if it, ok := f.Type().Underlying().(*types.Interface); ok && it.NumMethods() == 0 {
						good = true
					}
				}
			}
		}
		s.Check(good, "L4", "PanicError.Value is an exported empty-interface field", "", "", "PanicError has no exported `Value any` field")
		// opaque to error-chain walks: errors.Is / errors.As call Unwrap, Is and As of every error in the chain; the
		// scheduler loop does that (errors.Is(err, sentinel)) with every job error on its own goroutine
		var chain []string
		for _, t := range []types.Type{pe.Type(), types.NewPointer(pe.Type())} {
			ms := types.NewMethodSet(t)
			for i := 0; i < ms.Len(); i++ {
				switch n := ms.At(i).Obj().Name(); n {
				case "Unwrap", "Is", "As":
					chain = append(chain, n)
				}
			}
		}
		s.Check(len(chain) == 0, "L4", "PanicError is opaque to errors.Is/As/Unwrap", "", "method set has no Unwrap/Is/As", fmt.Sprintf("PanicError declares %v: an error-chain walk (the scheduler loop's errors.Is on every job error, on a goroutine without recover) now runs methods of the value a user function panicked with; if one of them panics the process dies instead of the directive returning a *PanicError", chain))
	} else {
		s.Unk("L4", "PanicError", "", "type not found")
	}
	return nil
}
