package gen

import (
	"go/ast"
	"go/types"
	"sort"
)

// Capture sites (rule T6, package variants): the identifiers the generated code declares must not capture the names
// it uses for things declared outside it.
//
// The generated closure spells two kinds of names it does not declare itself and whose spelling the user's
// program decides: the names of the types that flow through the directive (`var v3 *emitter`) and the names
// packages are imported under (`tasks.Item`, `cff.Job{...}` when the file imports cff under another name). Go
// resolves such a name innermost-first, so a parameter or variable of the generated code with the same spelling,
// in scope at that site, captures it: the output does not compile, or means something else (finding F15). Which
// identifiers are in scope at which site is a fact about the templates alone; CaptureSites computes, for an
// instance, the set of generated identifiers in scope at each type-name site and each package-name site.
type CaptureSite struct {
	Class   string // "type" or "pkg"
	What    string // the outer name used
	Path    string // class pkg: the import path of the package
	Pos     string
	Visible []string // generated identifiers in scope at the site
}

// CaptureSites lists the sites of the instance.
func CaptureSites(in *Instance) []CaptureSite {
	if in.Wrapper == nil || in.Info == nil || in.Pkg == nil {
		return nil
	}
	lo, hi := in.Wrapper.Pos(), in.Wrapper.End()
	top := in.Info.Scopes[in.Wrapper.Type]
	if top == nil {
		return nil
	}
	var out []CaptureSite
	ast.Inspect(in.Wrapper.Body, func(n ast.Node) bool {
		// the field names of composite literals and selectors are not resolved through scopes
		id, ok := n.(*ast.Ident)
		if !ok {
			return true
		}
		obj := in.Info.Uses[id]
		if obj == nil {
			return true
		}
		class, path := "", ""
		switch o := obj.(type) {
		case *types.PkgName:
			class, path = "pkg", o.Imported().Path()
		case *types.TypeName:
			if o.Pkg() == nil {
				return true // predeclared
			}
			if o.Pos() >= lo && o.Pos() < hi {
				return true // declared by the generated code itself
			}
			if o.Parent() == nil {
				return true // a field or method's type parameter, not looked up
			}
			if o.Pkg() != in.Pkg {
				return true // qualified: the package name is the site
			}
			class = "type"
		default:
			return true
		}
		inner := top.Innermost(id.Pos())
		if inner == nil {
			inner = top
		}
		seen := map[string]bool{}
		for s := inner; s != nil; s = s.Parent() {
			for _, name := range s.Names() {
				if _, o := s.LookupParent(name, id.Pos()); o != nil && o.Parent() == s && name != "_" {
					seen[name] = true
				}
			}
			if s == top {
				break
			}
		}
		vis := make([]string, 0, len(seen))
		for k := range seen {
			vis = append(vis, k)
		}
		sort.Strings(vis)
		out = append(out, CaptureSite{Class: class, What: id.Name, Path: path, Pos: in.Pos(id.Pos()), Visible: vis})
		return true
	})
	return out
}

// DeclaredIn lists every identifier the generated closure of the instance declares, in any scope.
func DeclaredIn(in *Instance) []string {
	if in.Wrapper == nil || in.Info == nil {
		return nil
	}
	lo, hi := in.Wrapper.Pos(), in.Wrapper.End()
	seen := map[string]bool{}
	for id, obj := range in.Info.Defs {
		if obj == nil || id.Pos() < lo || id.Pos() >= hi || id.Name == "_" {
			continue
		}
		switch obj.(type) {
		case *types.Var, *types.Const, *types.TypeName, *types.Func:
			if v, ok := obj.(*types.Var); ok && v.IsField() {
				continue
			}
			seen[id.Name] = true
		}
	}
	out := make([]string, 0, len(seen))
	for k := range seen {
		out = append(out, k)
	}
	sort.Strings(out)
	return out
}

// PredeclaredUsed lists the predeclared identifiers (types, constants, nil, built-in functions) the generated
// closure of the instance refers to: a declaration of the user's program with such a name, visible where the
// directive is written, captures the reference.
func PredeclaredUsed(in *Instance) map[string]string {
	out := map[string]string{}
	if in.Wrapper == nil || in.Info == nil {
		return out
	}
	ast.Inspect(in.Wrapper, func(n ast.Node) bool {
		id, ok := n.(*ast.Ident)
		if !ok {
			return true
		}
		obj := in.Info.Uses[id]
		if obj == nil || obj.Parent() != types.Universe {
			return true
		}
		if _, ok := out[id.Name]; !ok {
			out[id.Name] = in.Pos(id.Pos())
		}
		return true
	})
	return out
}
