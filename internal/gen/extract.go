package gen

import (
	"fmt"
	"go/ast"
	"go/token"
	"go/types"
	"regexp"

	"cffverif/internal/astx"
)

var hoistedRe = regexp.MustCompile(`^_\d+_\d+$`)

// Job is one Enqueue site with its closure.
type Job struct {
	Enq      *ast.CallExpr
	Lit      *ast.FuncLit
	JobLit   *ast.CompositeLit
	Deps     ast.Expr
	ResLoc   string          // where the *ScheduledJob returned by Enqueue is stored ("" if dropped)
	Loop     ast.Stmt        // enclosing for/range inside the wrapper, if any
	Holder   types.Object    // the task struct variable (task0, pred1, sliceTask0...) if Run is <holder>.<field>
	Calls    []*ast.CallExpr // user calls directly in the closure
	Role     Role
	RoleName string
	ErrObj   types.Object // named error result of the closure
	CtxObj   types.Object // ctx parameter of the closure
}

// X is the extracted view of an instance.
type X struct {
	In       *Instance
	W        *ast.FuncLit // the closure holding the directive body (== In.Wrapper, or the closure it returns after the prologue)
	Par      astx.Parents
	Body     *ast.BlockStmt
	Prologue []*ast.AssignStmt
	Hoisted  map[types.Object]string // object -> name
	Sched    types.Object
	NewSched *ast.CallExpr
	Jobs     []*Job
	Wait     *ast.CallExpr
	WaitIf   *ast.IfStmt
	CtxObj   types.Object // the directive's ctx variable
	ErrObj   types.Object // wrapper's named result
	cffPath  string
	Problems []string // shape problems (=> undecided)
}

func (x *X) problem(f string, a ...any) { x.Problems = append(x.Problems, fmt.Sprintf(f, a...)) }

func isPkgFunc(info *types.Info, c *ast.CallExpr, pkgSuffix, name string) bool {
	fn := astx.Callee(info, c)
	return fn != nil && fn.Pkg() != nil && fn.Pkg().Path() == pkgSuffix && fn.Name() == name && fn.Type().(*types.Signature).Recv() == nil
}

func isMethod(info *types.Info, c *ast.CallExpr, pkgPath, recv, name string) bool {
	fn := astx.Callee(info, c)
	if fn == nil || fn.Name() != name {
		return false
	}
	sig := fn.Type().(*types.Signature)
	if sig.Recv() == nil {
		return false
	}
	t := sig.Recv().Type()
	if p, ok := t.(*types.Pointer); ok {
		t = p.Elem()
	}
	n, ok := t.(*types.Named)
	return ok && n.Obj().Pkg() != nil && n.Obj().Pkg().Path() == pkgPath && n.Obj().Name() == recv
}

const (
	cffPkg   = "go.uber.org/cff"
	schedPkg = "go.uber.org/cff/scheduler"
)

// Extract builds the view; shape problems are recorded, not fatal.
func Extract(in *Instance) *X {
	x := &X{In: in, Hoisted: map[types.Object]string{}}
	if in.Wrapper == nil || in.Info == nil {
		x.problem("no wrapper closure")
		return x
	}
	info := in.Info
	x.Par = astx.NewParents(in.Wrapper)
	x.W = in.Wrapper
	if !astx.NoGoto(in.Wrapper.Body) {
		x.problem("generated code uses goto/labels")
	}
	// prologue: leading `_L_C := expr` statements of the outermost closure
	outer := in.Wrapper.Body
	for i, st := range outer.List {
		// outer/inner shape: [prologue...] return func() (err error) { body }()
		if ret, ok := st.(*ast.ReturnStmt); ok && i == len(outer.List)-1 && len(ret.Results) == 1 {
			if c, ok := ret.Results[0].(*ast.CallExpr); ok && len(c.Args) == 0 {
				if fl, ok := c.Fun.(*ast.FuncLit); ok {
					x.W = fl
				}
			}
		}
	}
	x.Body = x.W.Body
	if r := x.W.Type.Results; r != nil && len(r.List) == 1 && len(r.List[0].Names) == 1 {
		x.ErrObj = info.Defs[r.List[0].Names[0]]
	}
	for _, st := range outer.List {
		as, ok := st.(*ast.AssignStmt)
		if !ok {
			break
		}
		if as.Tok == token.ASSIGN {
			// `_ = _L_C // possibly unused` lines of modifier mode
			blank := true
			for _, l := range as.Lhs {
				if id, ok := l.(*ast.Ident); !ok || id.Name != "_" {
					blank = false
				}
			}
			if blank {
				continue
			}
			break
		}
		if as.Tok != token.DEFINE || len(as.Rhs) != 1 {
			break
		}
		allHoisted := true
		for _, l := range as.Lhs {
			if id, ok := l.(*ast.Ident); !ok || !hoistedRe.MatchString(id.Name) {
				allHoisted = false
			}
		}
		if !allHoisted {
			break
		}
		x.Prologue = append(x.Prologue, as)
		for _, l := range as.Lhs {
			id := l.(*ast.Ident)
			if o := info.Defs[id]; o != nil {
				x.Hoisted[o] = id.Name
			}
		}
	}
	// ctx := <hoisted>
	ast.Inspect(x.Body, func(n ast.Node) bool {
		switch c := n.(type) {
		case *ast.CallExpr:
			switch {
			case isPkgFunc(info, c, cffPkg, "NewScheduler"):
				if x.NewSched != nil {
					x.problem("more than one NewScheduler call")
				}
				x.NewSched = c
				if as, ok := x.Par[c].(*ast.AssignStmt); ok && len(as.Lhs) == 1 {
					x.Sched = astx.IdentObj(info, as.Lhs[0])
				}
			case isMethod(info, c, schedPkg, "Scheduler", "Wait"):
				if x.Wait != nil {
					x.problem("more than one Wait call")
				}
				x.Wait = c
			case isMethod(info, c, schedPkg, "Scheduler", "Enqueue"):
				x.Jobs = append(x.Jobs, x.extractJob(c))
			}
		}
		return true
	})
	if x.NewSched == nil || x.Sched == nil {
		x.problem("no `sched := cff.NewScheduler(...)`")
	}
	if x.Wait == nil {
		x.problem("no Wait call")
	} else {
		if is, ok := x.Par.Enclosing(x.Wait, func(n ast.Node) bool { _, ok := n.(*ast.IfStmt); return ok }).(*ast.IfStmt); ok && is.Init != nil && x.Par.Within(x.Wait, is.Init) {
			x.WaitIf = is
		}
		if len(x.Wait.Args) == 1 {
			x.CtxObj = astx.IdentObj(info, x.Wait.Args[0])
		}
	}
	return x
}

func (x *X) extractJob(c *ast.CallExpr) *Job {
	info := x.In.Info
	j := &Job{Enq: c, Loop: x.loopWithinWrapper(c)}
	if len(c.Args) != 2 {
		x.problem("Enqueue with %d args", len(c.Args))
		return j
	}
	cl, ok := astx.Unparen(c.Args[1]).(*ast.CompositeLit)
	if !ok {
		x.problem("Enqueue's job is not a composite literal")
		return j
	}
	j.JobLit = cl
	var run ast.Expr
	for _, e := range cl.Elts {
		kv, ok := e.(*ast.KeyValueExpr)
		if !ok {
			x.problem("unkeyed Job literal")
			continue
		}
		switch kv.Key.(*ast.Ident).Name {
		case "Run":
			run = kv.Value
		case "Dependencies":
			j.Deps = kv.Value
		default:
			x.problem("unknown Job field %s", kv.Key.(*ast.Ident).Name)
		}
	}
	switch r := astx.Unparen(run).(type) {
	case *ast.FuncLit:
		j.Lit = r
	case *ast.SelectorExpr:
		holder := astx.IdentObj(info, r.X)
		j.Holder = holder
		n := 0
		astx.Writes(x.Body, func(l ast.Expr, at ast.Node) {
			se, ok := astx.Unparen(l).(*ast.SelectorExpr)
			if !ok || se.Sel.Name != r.Sel.Name || astx.IdentObj(info, se.X) != holder || holder == nil {
				return
			}
			n++
			if as, ok := at.(*ast.AssignStmt); ok && len(as.Rhs) == 1 {
				if fl, ok := as.Rhs[0].(*ast.FuncLit); ok {
					j.Lit = fl
				}
			}
		})
		if n != 1 {
			x.problem("job body %s assigned %d times", astx.Short(r), n)
			j.Lit = nil
		}
	default:
		x.problem("Job.Run is neither a closure nor <task>.<field>")
	}
	// where the result goes
	switch p := x.Par[c].(type) {
	case *ast.AssignStmt:
		if len(p.Lhs) == 1 {
			j.ResLoc = x.locOf(p.Lhs[0])
		}
	case *ast.CallExpr:
		// xJobs = append(xJobs, sched.Enqueue(...))
		if astx.IsBuiltin(info, p, "append") && len(p.Args) == 2 && p.Args[1] == ast.Expr(c) {
			if as, ok := x.Par[p].(*ast.AssignStmt); ok && len(as.Lhs) == 1 && astx.Same(info, as.Lhs[0], p.Args[0]) {
				j.ResLoc = x.locOf(as.Lhs[0]) + "[]"
			}
		}
	}
	if j.Lit != nil {
		ft := j.Lit.Type
		if ft.Results != nil && len(ft.Results.List) == 1 && len(ft.Results.List[0].Names) == 1 {
			j.ErrObj = info.Defs[ft.Results.List[0].Names[0]]
		}
		if ft.Params != nil && len(ft.Params.List) == 1 && len(ft.Params.List[0].Names) == 1 {
			j.CtxObj = info.Defs[ft.Params.List[0].Names[0]]
		}
		ast.Inspect(j.Lit.Body, func(n ast.Node) bool {
			if call, ok := n.(*ast.CallExpr); ok {
				if name, ok := x.hoistedCallee(call); ok {
					j.Calls = append(j.Calls, call)
					if role, ok := x.In.Roles[name]; ok && j.RoleName == "" {
						j.Role, j.RoleName = role, name
					}
				}
			}
			return true
		})
	}
	return j
}

// hoistedCallee: is c a call of a hoisted function variable?
func (x *X) hoistedCallee(c *ast.CallExpr) (string, bool) {
	o := astx.IdentObj(x.In.Info, c.Fun)
	if o == nil {
		return "", false
	}
	name, ok := x.Hoisted[o]
	return name, ok
}

func (x *X) loopWithinWrapper(n ast.Node) ast.Stmt {
	for p := x.Par[n]; p != nil && p != ast.Node(x.W); p = x.Par[p] {
		switch s := p.(type) {
		case *ast.ForStmt:
			return s
		case *ast.RangeStmt:
			return s
		}
	}
	return nil
}

// locOf canonicalises an lvalue: "task0.job", "sliceTask0Jobs[]".
func (x *X) locOf(e ast.Expr) string {
	switch v := astx.Unparen(e).(type) {
	case *ast.Ident:
		return v.Name
	case *ast.SelectorExpr:
		return x.locOf(v.X) + "." + v.Sel.Name
	case *ast.IndexExpr:
		return x.locOf(v.X) + "[]"
	}
	return "?"
}
