// Package gen implements the V-rules (DESIGN §4.4) over directive instances
// produced by the variants (X) and regen (Y) front ends.
package gen

import (
	"go/ast"
	"go/token"
	"go/types"
)

// Role describes what a hoisted user expression (`_L_C := <expr>`) is.
type Role struct {
	Kind     string // ctx, param, result, conc, coe, emitter, name, fallback, task, pred, ptask, slice, slicefn, sliceend, map, mapfn, mapend
	Task     int    // index of the task / slice / map the expression belongs to
	Index    int    // position within its group (param i, fallback i, ...)
	WantCtx  bool
	HasError bool
	NIn      int
	NOut     int
	HasIndex bool // slice function takes the index
	Fallback bool // task carries FallbackWith
	HasPred  bool // task carries a Predicate
	Instr    bool // task is instrumented
}

// SrcExpr is a user-written argument expression of the source directive (Y only).
type SrcExpr struct {
	Name      string // _<line>_<col>
	Text      string
	Line, Col int
}

// ModCheck is the result of the modifier-mode pass-through check made by the regen front end (V22).
type ModCheck struct {
	Checked  bool
	Exprs    int // argument expressions traced from the directive to their _L_C variable
	Problems []string
}

// Instance is one expanded directive: the wrapper closure and what is known about it.
type Instance struct {
	Key      string // semantic key: variant description or corpus file + directive position
	Origin   string // "X" or "Y"
	Kind     string // flow | parallel
	Fset     *token.FileSet
	File     *ast.File
	Info     *types.Info
	Pkg      *types.Package
	Wrapper  *ast.FuncLit
	Roles    map[string]Role // hoisted variable name -> role
	Src      string
	TypeErrs []string
	SrcExprs []SrcExpr // argument expressions of the source directive (Y only)
	Mod      *ModCheck // modifier-mode pass-through (Y, modflow only)
	T2       []string  // hoisting-discipline problems found while rendering (X only)
	// expectations from the description (X) / the source directive (Y)
	NTasks, NPreds     int
	Instrumented       bool // directive-level instrumentation
	HasConcurrency     bool
	HasContinueOnError bool
	NEmitters          int
	SourceMap          bool
	Anchors            []string // template files this instance was rendered from
	GoMinor            int      // minor version of the `go` directive governing the generated code (loop variable semantics)
}

// Pos renders a position inside the instance's source.
func (in *Instance) Pos(p token.Pos) string {
	if !p.IsValid() {
		return in.Key
	}
	pp := in.Fset.Position(p)
	return pp.String()
}
