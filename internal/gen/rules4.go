package gen

import (
	"fmt"
	"go/ast"
	"go/types"
	"sort"
	"strings"

	"cffverif/internal/astx"
)

// emitCall: is c a call of method m on a value whose type is the cff interface named iface?
func emitCall(info *types.Info, c *ast.CallExpr) (iface, method string, ok bool) {
	se, isSel := c.Fun.(*ast.SelectorExpr)
	if !isSel {
		return "", "", false
	}
	sel := info.Selections[se]
	if sel == nil || sel.Kind() != types.MethodVal {
		return "", "", false
	}
	nt, isN := types.Unalias(sel.Recv()).(*types.Named)
	if !isN || nt.Obj().Pkg() == nil || nt.Obj().Pkg().Path() != cffPkg {
		return "", "", false
	}
	if _, isI := nt.Underlying().(*types.Interface); !isI {
		return "", "", false
	}
	return nt.Obj().Name(), se.Sel.Name, true
}

type site struct {
	call  *ast.CallExpr
	conds []astx.Cond
	inLit *ast.FuncLit // innermost enclosing literal
}

// V13 event typestate (site/condition form, see DESIGN appendix).
func (rc *ruleCtx) events() {
	x, info := rc.x, rc.x.In.Info
	// ---------- directive level
	dirIface, pre := "FlowEmitter", "Flow"
	if x.In.Kind == "parallel" {
		dirIface, pre = "ParallelEmitter", "Parallel"
	}
	sites := map[string][]site{}
	ast.Inspect(x.Body, func(n ast.Node) bool {
		c, ok := n.(*ast.CallExpr)
		if !ok {
			return true
		}
		if ifc, m, ok := emitCall(info, c); ok {
			fl, _ := x.Par.EnclosingFunc(c).(*ast.FuncLit)
			sites[ifc+"."+m] = append(sites[ifc+"."+m], site{c, x.Par.Known(c, fl), fl})
		}
		return true
	})
	dkey := func(s string) string { return rc.key("directive: " + s) }
	// Done: first defer of the wrapper, unconditional
	var firstDefer *ast.DeferStmt
	for _, st := range x.Body.List {
		if d, ok := st.(*ast.DeferStmt); ok {
			firstDefer = d
			break
		}
	}
	done := sites[dirIface+"."+pre+"Done"]
	okDone := len(done) == 1 && firstDefer != nil && len(done[0].conds) == 0 && done[0].inLit != nil && firstDefer.Call.Fun == ast.Expr(done[0].inLit) &&
		x.NewSched != nil && firstDefer.Pos() < x.NewSched.Pos() && x.Par.InLoop(done[0].call) == nil
	rc.s.Check(okDone, "V13", dkey(pre+"Done deferred first, unconditional, once"), rc.pos(firstDefer), "runs last on every exit of the directive", pre+"Done is not emitted exactly once by the first-registered deferred function (it would be missing on some exit, doubled, or precede Success/Error)")
	// Error: in WaitIf body with Wait's error, then return that error
	errS, sucS := sites[dirIface+"."+pre+"Error"], sites[dirIface+"."+pre+"Success"]
	okErr := false
	if len(errS) == 1 && x.WaitIf != nil && x.Par.Within(errS[0].call, x.WaitIf.Body) && x.Par[x.Par[errS[0].call]] == ast.Node(x.WaitIf.Body) && len(errS[0].call.Args) == 2 {
		if as, ok := x.WaitIf.Init.(*ast.AssignStmt); ok {
			okErr = astx.IdentObj(info, errS[0].call.Args[1]) == astx.IdentObj(info, as.Lhs[0])
		}
	}
	rc.s.Check(okErr, "V13", dkey(pre+"Error(err) exactly on the Wait-failed edge with the returned error"), rc.pos(x.WaitIf), "", pre+"Error is not emitted exactly once on the failure edge carrying the error the directive returns")
	okSuc := len(sucS) == 1 && sucS[0].inLit == x.W && x.afterWaitOK(sucS[0].call) && x.Par[x.Par[sucS[0].call]] == ast.Node(x.Body)
	if okSuc {
		// nothing but the final `return nil` may follow; no return between WaitIf and Success
		after := false
		for _, st := range x.Body.List {
			if st.Pos() > sucS[0].call.End() {
				r, isRet := st.(*ast.ReturnStmt)
				if !isRet || len(r.Results) != 1 || !astx.IsNil(info, r.Results[0]) {
					okSuc = false
				}
				after = true
			} else if st.Pos() > x.WaitIf.End() {
				if _, isRet := st.(*ast.ReturnStmt); isRet {
					okSuc = false
				}
			}
		}
		okSuc = okSuc && after
	}
	rc.s.Check(okSuc, "V13", dkey(pre+"Success exactly before the final `return nil`"), "", "", pre+"Success is not emitted exactly once, unconditionally, on the path that returns nil (and only there)")
	// returns of the wrapper after NewScheduler: only the two
	nRet := 0
	ast.Inspect(x.Body, func(n ast.Node) bool {
		if _, ok := n.(*ast.FuncLit); ok {
			return false
		}
		if _, ok := n.(*ast.ReturnStmt); ok {
			nRet++
		}
		return true
	})
	rc.s.Check(nRet == 2, "V13", dkey("two exits: failure and success"), "", "", fmt.Sprintf("the directive body has %d return statements (want 2: `return err` after "+pre+"Error, `return nil` after "+pre+"Success)", nRet))
	// directive emitter construction
	if len(done) == 1 {
		if se, ok := done[0].call.Fun.(*ast.SelectorExpr); ok {
			if eo := astx.IdentObj(info, se.X); eo != nil {
				init := x.singleDef(eo)
				c, _ := init.(*ast.CallExpr)
				good := false
				if c != nil {
					if x.In.Origin == "X" && !x.In.Instrumented {
						good = isPkgFunc(info, c, cffPkg, "Nop"+dirIface)
					} else if _, m, ok := emitCall(info, c); ok && m == pre+"Init" {
						good = true
					} else if x.In.Origin == "Y" && isPkgFunc(info, c, cffPkg, "Nop"+dirIface) {
						good = true
					}
				}
				rc.s.Check(good, "V13", dkey("emitter = "+pre+"Init(info) iff instrumented"), "", "", "the directive emitter is not built by emitter."+pre+"Init (instrumented) / cff.Nop"+dirIface+"() (not instrumented)")
			}
		}
	}
	// ---------- skipped sweep
	skip := sites["TaskEmitter.TaskSkipped"]
	var tasksObj types.Object
	okSkip := false
	if len(skip) == 1 && skip[0].inLit != nil {
		s0 := skip[0]
		rs, _ := x.Par.InLoop(s0.call).(*ast.RangeStmt)
		if c, ok := x.Par[s0.inLit].(*ast.CallExpr); ok && rs != nil {
			if d, ok := x.Par[c].(*ast.DeferStmt); ok && x.Par[d] == ast.Node(x.Body) && firstDefer != nil && d.Pos() > firstDefer.Pos() && x.NewSched != nil {
				tasksObj = astx.IdentObj(info, rs.X)
				tv := types.Object(nil)
				if rs.Value != nil {
					tv = astx.IdentObj(info, rs.Value)
				}
				// condition: !t.ran.Load(); receiver t.emitter; arg err = wrapper result
				condOK := len(s0.conds) == 1 && !s0.conds[0].Pos && isRanLoad(info, s0.conds[0].E, tv)
				recvOK := false
				if se, ok := s0.call.Fun.(*ast.SelectorExpr); ok {
					if b, _, ok := astx.FieldSel(info, se.X); ok && astx.IdentObj(info, b) == tv {
						recvOK = true
					}
				}
				argOK := len(s0.call.Args) == 2 && astx.IdentObj(info, s0.call.Args[1]) == x.ErrObj
				firstJob := x.Wait.Pos()
				for _, j := range x.Jobs {
					if j.Enq.Pos() < firstJob {
						firstJob = j.Enq.Pos()
					}
				}
				okSkip = condOK && recvOK && argOK && tasksObj != nil && d.Pos() < firstJob
			}
		}
	}
	rc.s.Check(okSkip, "V13", dkey("skipped sweep: deferred `for t in tasks: if !t.ran.Load() { t.emitter.TaskSkipped(ctx, err) }`"), "", "", "the TaskSkipped sweep is missing, conditional, registered too late, or does not test each task's ran flag")
	// every task struct appended exactly once
	if tasksObj != nil {
		appended := map[types.Object]int{}
		badApp := false
		astx.Writes(x.Body, func(l ast.Expr, at ast.Node) {
			if astx.IdentObj(info, l) != tasksObj {
				return
			}
			as, ok := at.(*ast.AssignStmt)
			if !ok || len(as.Rhs) != 1 {
				badApp = true
				return
			}
			c, ok := as.Rhs[0].(*ast.CallExpr)
			if !ok || !astx.IsBuiltin(info, c, "append") || len(c.Args) != 2 || astx.IdentObj(info, c.Args[0]) != tasksObj || x.Par[as] != ast.Node(x.Body) {
				badApp = true
				return
			}
			appended[astx.IdentObj(info, c.Args[1])]++
		})
		for _, j := range x.Jobs {
			if j.RoleName == "" || (j.Role.Kind != "task" && j.Role.Kind != "ptask") {
				continue
			}
			rc.s.Check(!badApp && j.Holder != nil && appended[j.Holder] == 1, "V13", rc.key("task struct of "+rc.jobName(j)+" is swept"), rc.pos(j.Enq), "", "a task's struct is not appended exactly once to the swept list: a skipped task would not be reported (or reported twice)")
		}
	}

	// ---------- task level
	for _, j := range x.Jobs {
		if j.RoleName == "" || (j.Role.Kind != "task" && j.Role.Kind != "ptask") || j.Lit == nil || len(j.Calls) != 1 {
			continue
		}
		call := j.Calls[0]
		d, g, _, _ := rc.guardOf(j)
		if g == nil {
			continue // V2 reports
		}
		tk := func(s string) string { return rc.key(rc.jobName(j) + ": " + s) }
		ts := map[string][]site{}
		var ranStores []*ast.CallExpr
		ast.Inspect(j.Lit.Body, func(n ast.Node) bool {
			c, ok := n.(*ast.CallExpr)
			if !ok {
				return true
			}
			if ifc, m, ok := emitCall(info, c); ok && ifc == "TaskEmitter" {
				fl, _ := x.Par.EnclosingFunc(c).(*ast.FuncLit)
				ts[m] = append(ts[m], site{c, x.Par.Known(c, fl), fl})
			}
			if se, ok := c.Fun.(*ast.SelectorExpr); ok && se.Sel.Name == "Store" {
				if b, f, ok := astx.FieldSel(info, se.X); ok && f.Name() == "ran" && astx.IdentObj(info, b) == j.Holder {
					ranStores = append(ranStores, c)
				}
			}
			return true
		})
		// the emitter every event goes to: a variable defined from <holder>.emitter
		recvOK := true
		for _, ss := range ts {
			for _, s0 := range ss {
				se := s0.call.Fun.(*ast.SelectorExpr)
				eo := astx.IdentObj(info, se.X)
				init := ast.Expr(nil)
				if eo != nil {
					init = x.singleDef(eo)
				}
				if b, f, ok := astx.FieldSel(info, init); !ok || f.Name() != "emitter" || astx.IdentObj(info, b) != j.Holder {
					recvOK = false
				}
			}
		}
		rc.s.Check(recvOK, "V13", tk("events go to the task's own emitter"), rc.pos(j.Lit), "", "an event is emitted on something other than this task's emitter")
		// emitter construction
		if j.Holder != nil {
			var einit ast.Expr
			nE := 0
			astx.Writes(x.Body, func(l ast.Expr, at ast.Node) {
				if b, f, ok := astx.FieldSel(info, l); ok && f.Name() == "emitter" && astx.IdentObj(info, b) == j.Holder {
					nE++
					if as, ok := at.(*ast.AssignStmt); ok && len(as.Rhs) == 1 {
						einit = as.Rhs[0]
					}
				}
			})
			good := false
			if c, ok := einit.(*ast.CallExpr); ok && nE == 1 {
				_, m, isEmit := emitCall(info, c)
				switch {
				case x.In.Origin == "X" && j.Role.Instr:
					good = isEmit && m == "TaskInit" && rc.taskInfoNamed(c, j)
				case x.In.Origin == "X":
					good = isPkgFunc(info, c, cffPkg, "NopTaskEmitter")
				default:
					good = (isEmit && m == "TaskInit") || isPkgFunc(info, c, cffPkg, "NopTaskEmitter")
				}
			}
			rc.s.Check(good, "V13", tk("emitter = TaskInit(info with this task's name) iff instrumented"), rc.pos(j.Enq), "", "the task emitter is not emitter.TaskInit(&TaskInfo{Name: <this task's instrument name>}) when instrumented / NopTaskEmitter otherwise")
		}
		hasErr := j.Role.HasError
		fb := j.Role.Fallback
		if x.In.Origin == "Y" {
			if sig, ok := info.TypeOf(call.Fun).Underlying().(*types.Signature); ok && sig.Results().Len() > 0 {
				hasErr = types.Identical(sig.Results().At(sig.Results().Len()-1).Type(), types.Universe.Lookup("error").Type())
			}
			fb = len(ts["TaskErrorRecovered"])+len(ts["TaskPanicRecovered"]) > 0
		}
		// gate conditions are those established before the call
		mainConds := func(s0 site) (errNil, errNonNil bool, extra int) {
			for _, c := range s0.conds {
				if e, ok := astx.EqNil(info, c.E); ok && astx.IdentObj(info, e) == j.ErrObj {
					if c.Pos {
						errNil = true
					} else {
						errNonNil = true
					}
					continue
				}
				if c.At.Pos() < call.Pos() {
					continue
				}
				extra++
			}
			return
		}
		inMain := func(s0 site) bool {
			return s0.inLit == j.Lit && s0.call.Pos() > call.End() && x.Par.InLoop(s0.call) == nil
		}
		// Success
		okS := len(ts["TaskSuccess"]) == 1
		if okS {
			s0 := ts["TaskSuccess"][0]
			en, enn, extra := mainConds(s0)
			okS = inMain(s0) && !enn && extra == 0 && (en || !hasErr)
		}
		rc.s.Check(okS, "V13", tk("TaskSuccess exactly on the call-returned-without-error path"), rc.pos(call), "", "TaskSuccess is not emitted exactly once, after the user call, exactly when it returned no error")
		// Error / ErrorRecovered
		errName, otherErr := "TaskError", "TaskErrorRecovered"
		panName, otherPan := "TaskPanic", "TaskPanicRecovered"
		if fb {
			errName, otherErr = otherErr, errName
			panName, otherPan = otherPan, panName
		}
		if hasErr {
			okE := len(ts[errName]) == 1 && len(ts[otherErr]) == 0
			if okE {
				s0 := ts[errName][0]
				en, enn, extra := mainConds(s0)
				okE = inMain(s0) && enn && !en && extra == 0 && len(s0.call.Args) == 2 && astx.IdentObj(info, s0.call.Args[1]) == j.ErrObj
			}
			rc.s.Check(okE, "V13", tk(errName+"(err) exactly on the err != nil path"), rc.pos(call), "", errName+" is not emitted exactly once, with the user's error, exactly when the call returned an error (or the other error event is emitted too)")
		} else {
			rc.s.Check(len(ts["TaskError"])+len(ts["TaskErrorRecovered"]) == 0, "V13", tk("no error event for an error-less function"), rc.pos(call), "", "an error event exists for a function without error result")
		}
		// Panic / PanicRecovered: in the guard, exactly under recovered != nil, with the recovered value
		okP := len(ts[panName]) == 1 && len(ts[otherPan]) == 0
		if okP {
			s0 := ts[panName][0]
			okP = s0.inLit == g && len(s0.conds) == 1 && !s0.conds[0].Pos && len(s0.call.Args) == 2 && x.Par.InLoop(s0.call) == nil
			if okP {
				e, isNil := astx.EqNil(info, s0.conds[0].E)
				okP = isNil && astx.IdentObj(info, e) != nil && astx.IdentObj(info, e) == astx.IdentObj(info, s0.call.Args[1])
			}
		}
		rc.s.Check(okP, "V13", tk(panName+"(recovered) exactly on the recovered != nil path of the handler"), rc.pos(g), "", panName+" is not emitted exactly once in the recover handler, exactly when a panic was recovered, with the recovered value")
		// ran.Store(true): deferred (or plain) once, after the gate, before the call
		okR := len(ranStores) == 1
		if okR {
			c := ranStores[0]
			_, isDefer := x.Par[c].(*ast.DeferStmt)
			top := x.Par[x.Par[c]] == ast.Node(j.Lit.Body)
			okR = top && c.End() < call.Pos() && len(c.Args) == 1 && astx.IsBoolConst(info, c.Args[0], true) && (isDefer || true)
			// must come after the gate: every Known condition of the call is also known at the store
			kc, ks := x.Par.Known(call, j.Lit), x.Par.Known(c, j.Lit)
			okR = okR && len(kc) == len(ks)
		}
		rc.s.Check(okR, "V13", tk("ran.Store(true) once, past the gate, before the user call"), rc.pos(call), "", "the ran flag is not set exactly once on exactly the paths that enter the user function: TaskDone/TaskSkipped would be wrong")
		// TaskDone: deferred before the handler, guarded by ran.Load()
		okD := len(ts["TaskDone"]) == 1
		if okD {
			s0 := ts["TaskDone"][0]
			okD = s0.inLit != nil && s0.inLit != j.Lit && len(s0.conds) == 1 && s0.conds[0].Pos && isRanLoadOf(info, s0.conds[0].E, j.Holder)
			if c, ok := x.Par[s0.inLit].(*ast.CallExpr); okD && ok {
				dd, isD := x.Par[c].(*ast.DeferStmt)
				okD = isD && x.Par[dd] == ast.Node(j.Lit.Body) && dd.Pos() < d.Pos() && len(ranStores) == 1 && dd.Pos() < ranStores[0].Pos()
				// registered unconditionally (before the gate)
				okD = okD && len(x.Par.Known(dd, j.Lit)) == 0
			} else {
				okD = false
			}
		}
		rc.s.Check(okD, "V13", tk("TaskDone once iff the function was entered"), rc.pos(j.Lit), "deferred first (runs after the handler and after ran.Store), guarded by ran.Load()", "TaskDone is not emitted by a first-registered deferred function guarded by this task's ran flag")
		// no other TaskEmitter events in the closure
		var extraEv []string
		for m := range ts {
			switch m {
			case "TaskSuccess", "TaskError", "TaskErrorRecovered", "TaskPanic", "TaskPanicRecovered", "TaskDone":
			default:
				extraEv = append(extraEv, m)
			}
		}
		sort.Strings(extraEv)
		rc.s.Check(len(extraEv) == 0, "V13", tk("no other task event in the closure"), "", "", "unexpected events in the task closure: "+strings.Join(extraEv, ","))
	}
}

func isRanLoad(info *types.Info, e ast.Expr, base types.Object) bool {
	c, ok := astx.Unparen(e).(*ast.CallExpr)
	if !ok {
		return false
	}
	se, ok := c.Fun.(*ast.SelectorExpr)
	if !ok || se.Sel.Name != "Load" {
		return false
	}
	b, f, ok := astx.FieldSel(info, se.X)
	return ok && f.Name() == "ran" && base != nil && astx.IdentObj(info, b) == base
}

func isRanLoadOf(info *types.Info, e ast.Expr, holder types.Object) bool {
	return isRanLoad(info, e, holder)
}

// taskInfoNamed: TaskInit's first argument is &cff.TaskInfo{Name: <hoisted name of this task | synthetic literal>}.
func (rc *ruleCtx) taskInfoNamed(c *ast.CallExpr, j *Job) bool {
	x, info := rc.x, rc.x.In.Info
	if len(c.Args) < 1 {
		return false
	}
	u, ok := astx.Unparen(c.Args[0]).(*ast.UnaryExpr)
	if !ok {
		return false
	}
	cl, ok := u.X.(*ast.CompositeLit)
	if !ok {
		return false
	}
	for _, e := range cl.Elts {
		kv, ok := e.(*ast.KeyValueExpr)
		if !ok || kv.Key.(*ast.Ident).Name != "Name" {
			continue
		}
		if o := astx.IdentObj(info, kv.Value); o != nil {
			if hn, ok := x.Hoisted[o]; ok {
				r := x.In.Roles[hn]
				return r.Kind == "name" && r.Task == j.Role.Task
			}
			return false
		}
		_, isLit := kv.Value.(*ast.BasicLit)
		return isLit // auto-instrument: synthetic literal printed in place
	}
	return false
}
