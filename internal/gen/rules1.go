package gen

import (
	"fmt"
	"go/ast"
	"go/token"
	"go/types"
	"reflect"

	"cffverif/internal/astx"
	"cffverif/internal/report"
)

var funcRoles = map[string]bool{"task": true, "pred": true, "ptask": true, "slicefn": true, "mapfn": true, "sliceend": true, "mapend": true}

type ruleCtx struct {
	x *X
	s *report.Sink
}

func (rc *ruleCtx) key(what string) string { return rc.x.In.Key + "|" + what }
func (rc *ruleCtx) pos(n ast.Node) string {
	if n == nil || reflect.ValueOf(n).IsNil() {
		return "variant"
	}
	p := rc.x.In.Fset.Position(n.Pos())
	if rc.x.In.Origin == "Y" {
		return fmt.Sprintf("%s (regenerated, line %d of the generated file)", rc.x.In.Key, p.Line)
	}
	if rc.x.In.Origin == "X" {
		return fmt.Sprintf("templates(%v) rendered line %d", rc.x.In.Anchors, p.Line)
	}
	return p.String()
}

func (rc *ruleCtx) jobName(j *Job) string {
	if j.RoleName != "" {
		return fmt.Sprintf("%s#%d", j.Role.Kind, j.Role.Task)
	}
	return "job@" + rc.x.locOf(j.Enq.Fun)
}

// knownOK: cond list contains `e == nil` (pos) for identifier obj.
func condNil(info *types.Info, conds []astx.Cond, obj types.Object, wantNil bool) bool {
	for _, c := range conds {
		if x, ok := astx.EqNil(info, c.E); ok && astx.IdentObj(info, x) == obj && c.Pos == wantNil {
			return true
		}
	}
	return false
}

// V16
func (rc *ruleCtx) wellTyped() bool {
	in := rc.x.In
	if len(in.TypeErrs) > 0 {
		rc.s.Bad("V16", rc.key("type-check"), in.Key, "expanded directive does not compile: "+in.TypeErrs[0])
		return false
	}
	rc.s.OK("V16", rc.key("type-check"), "", "parses and type-checks under adversarial import aliases")
	return true
}

// V1 inventory.
func (rc *ruleCtx) inventory() {
	x := rc.x
	nGo := 0
	ast.Inspect(x.Body, func(n ast.Node) bool {
		if _, ok := n.(*ast.GoStmt); ok {
			nGo++
		}
		return true
	})
	rc.s.Check(nGo == 0, "V1", rc.key("no go statement"), rc.pos(x.Body), "", "generated code starts a goroutine itself: user functions run outside the scheduler's bound")
	lits := map[*ast.FuncLit]*Job{}
	for _, j := range x.Jobs {
		if j.Lit != nil {
			if lits[j.Lit] != nil {
				rc.s.Bad("V1", rc.key("closure enqueued twice"), rc.pos(j.Enq), "the same job closure is enqueued by two Enqueue calls")
			}
			lits[j.Lit] = j
		}
	}
	calls := map[string]int{}
	ast.Inspect(x.Body, func(n ast.Node) bool {
		c, ok := n.(*ast.CallExpr)
		if !ok {
			return true
		}
		name, ok := x.hoistedCallee(c)
		if !ok {
			return true
		}
		calls[name]++
		encl, _ := x.Par.EnclosingFunc(c).(*ast.FuncLit)
		j := lits[encl]
		_, isGo := x.Par[c].(*ast.GoStmt)
		_, isDefer := x.Par[c].(*ast.DeferStmt)
		rc.s.Check(j != nil && !isGo && !isDefer && x.Par.InLoop(c) == nil, "V1", rc.key("user call "+name+" inside a job closure"), rc.pos(c), "", "a user function is called outside a scheduler job closure (or under go/defer/a loop inside it): it escapes the concurrency bound, panic guard and dependency order")
		return true
	})
	for name, role := range x.In.Roles {
		if !funcRoles[role.Kind] {
			continue
		}
		rc.s.Check(calls[name] == 1, "V1", rc.key(fmt.Sprintf("%s#%d called from exactly one site", role.Kind, role.Task)), "", "", fmt.Sprintf("user function %s#%d has %d call sites in the generated code (want 1)", role.Kind, role.Task, calls[name]))
	}
	for _, j := range x.Jobs {
		rc.s.Check(j.Lit != nil && len(j.Calls) == 1, "V1", rc.key("job "+rc.jobName(j)+" has one user call"), rc.pos(j.Enq), "", fmt.Sprintf("a job closure contains %d user calls (want exactly 1)", len(j.Calls)))
	}
	nf := 0
	for _, r := range x.In.Roles {
		if funcRoles[r.Kind] {
			nf++
		}
	}
	rc.s.Check(len(x.Jobs) == nf, "V1", rc.key("one job per user function"), "", "", fmt.Sprintf("%d Enqueue sites for %d user functions", len(x.Jobs), nf))
}

// guardOf finds the deferred closure of job j that calls recover() directly.
func (rc *ruleCtx) guardOf(j *Job) (*ast.DeferStmt, *ast.FuncLit, *ast.CallExpr, int) {
	x, info := rc.x, rc.x.In.Info
	var d *ast.DeferStmt
	var g *ast.FuncLit
	var rcv *ast.CallExpr
	n := 0
	for _, st := range j.Lit.Body.List {
		ds, ok := st.(*ast.DeferStmt)
		if !ok {
			continue
		}
		fl, ok := ds.Call.Fun.(*ast.FuncLit)
		if !ok {
			continue
		}
		ast.Inspect(fl.Body, func(nn ast.Node) bool {
			if c, ok := nn.(*ast.CallExpr); ok && astx.IsBuiltin(info, c, "recover") && x.Par.EnclosingFunc(c) == ast.Node(fl) {
				if rcv == nil {
					d, g, rcv = ds, fl, c
				}
				n++
			}
			return true
		})
	}
	return d, g, rcv, n
}

// V2 panic guard (with V11 hand-over and V12 fallback shapes recognised).
func (rc *ruleCtx) panicGuard() {
	x, info := rc.x, rc.x.In.Info
	handover := map[types.Object]*Job{} // variable a predicate guard stores the recovered value into
	type pending struct {
		j    *Job
		read types.Object
	}
	var reads []pending
	for _, j := range x.Jobs {
		if j.Lit == nil {
			continue
		}
		key := rc.key("guard of " + rc.jobName(j))
		if j.ErrObj == nil || !types.Identical(j.ErrObj.Type(), types.Universe.Lookup("error").Type()) {
			rc.s.Bad("V2", key, rc.pos(j.Lit), "job closure has no named error result: a recovered panic cannot be reported")
			continue
		}
		d, g, rcv, n := rc.guardOf(j)
		if g == nil || n != 1 {
			rc.s.Bad("V2", key, rc.pos(j.Lit), fmt.Sprintf("job closure has %d top-level deferred functions calling recover() directly (want 1): a panic in the user function propagates and kills the process", n))
			continue
		}
		// registered before every user call and every return
		early := false
		ast.Inspect(j.Lit.Body, func(nn ast.Node) bool {
			if fl, ok := nn.(*ast.FuncLit); ok && fl != g {
				return false
			}
			switch v := nn.(type) {
			case *ast.ReturnStmt:
				if v.Pos() < d.Pos() && x.Par.EnclosingFunc(v) == ast.Node(j.Lit) {
					early = true
				}
			case *ast.CallExpr:
				if _, ok := x.hoistedCallee(v); ok && v.Pos() < d.End() {
					early = true
				}
			}
			return true
		})
		if early {
			rc.s.Bad("V2", key, rc.pos(d), "the recover handler is registered after a user call or an early return")
			continue
		}
		// recovered variable
		var r types.Object
		switch p := x.Par[rcv].(type) {
		case *ast.AssignStmt:
			if len(p.Lhs) == 1 && len(p.Rhs) == 1 {
				r = astx.IdentObj(info, p.Lhs[0])
			}
		}
		if r == nil {
			rc.s.Bad("V2", key, rc.pos(rcv), "the value of recover() is not bound to a variable")
			continue
		}
		// other writes to r: only `r = <wrapper-level interface var>` under r == nil (V11 fold)
		okW := true
		astx.Writes(g.Body, func(l ast.Expr, at ast.Node) {
			if astx.IdentObj(info, l) != r {
				return
			}
			as, ok := at.(*ast.AssignStmt)
			if !ok || len(as.Rhs) != 1 {
				okW = false
				return
			}
			if as.Rhs[0] == ast.Expr(rcv) {
				return
			}
			src := astx.IdentObj(info, as.Rhs[0])
			conds := x.Par.Known(at, g)
			if src != nil && condNil(info, conds, r, true) && condNil(info, conds, src, false) {
				reads = append(reads, pending{j, src})
				return
			}
			okW = false
		})
		if !okW {
			rc.s.Bad("V2", key, rc.pos(g), "the recovered value is overwritten in the handler")
			continue
		}
		// no re-panic
		repanic := false
		ast.Inspect(g.Body, func(nn ast.Node) bool {
			if c, ok := nn.(*ast.CallExpr); ok && astx.IsBuiltin(info, c, "panic") {
				repanic = true
			}
			return true
		})
		if repanic {
			rc.s.Bad("V2", key, rc.pos(g), "the handler re-panics")
			continue
		}
		// the `r != nil` region: find the routing statement
		routed := ""
		bad := ""
		astx.Writes(g.Body, func(l ast.Expr, at ast.Node) {
			as, ok := at.(*ast.AssignStmt)
			if !ok {
				return
			}
			conds := x.Par.Known(at, g)
			if !condNil(info, conds, r, false) {
				// writes not under r != nil: must not touch the error result
				if astx.IdentObj(info, l) == j.ErrObj {
					bad = "the handler writes the error result outside the `recovered != nil` branch"
				}
				return
			}
			if len(conds) != 1 {
				if astx.IdentObj(info, l) == j.ErrObj {
					bad = "the error result is routed under an extra condition"
				}
				return
			}
			lo := astx.IdentObj(info, l)
			switch {
			case lo == j.ErrObj && len(as.Lhs) == 1 && len(as.Rhs) == 1 && astx.IsNil(info, as.Rhs[0]) && j.Role.Kind == "task":
				// fallback of a task with zero outputs: `err = nil`; V12 decides that the task has FallbackWith
				routed = "fallback"
			case lo == j.ErrObj && len(as.Lhs) == 1 && len(as.Rhs) == 1:
				// (i) err = &cff.PanicError{Value: r}
				if u, ok := astx.Unparen(as.Rhs[0]).(*ast.UnaryExpr); ok && u.Op == token.AND {
					if cl, ok := u.X.(*ast.CompositeLit); ok {
						if nt, ok := info.TypeOf(cl).(*types.Named); ok && nt.Obj().Name() == "PanicError" && nt.Obj().Pkg().Path() == cffPkg {
							for _, e := range cl.Elts {
								if kv, ok := e.(*ast.KeyValueExpr); ok && kv.Key.(*ast.Ident).Name == "Value" && astx.IdentObj(info, kv.Value) == r {
									routed = "PanicError"
								}
							}
						}
					}
				}
				if routed == "" {
					bad = "on a recovered panic the error result is not set to &cff.PanicError{Value: <recovered value>}"
				}
			case lo == j.ErrObj && len(as.Lhs) > 1 && l == as.Lhs[len(as.Lhs)-1]:
				// (ii) fallback: outputs..., err = fallbacks..., nil
				if len(as.Rhs) == len(as.Lhs) && astx.IsNil(info, as.Rhs[len(as.Rhs)-1]) && j.Role.Kind == "task" {
					routed = "fallback"
				} else {
					bad = "multi-assignment to the error result in the handler is not the fallback form"
				}
			case lo != nil && lo != j.ErrObj && len(as.Lhs) == 1 && astx.IdentObj(info, as.Rhs[0]) == r && j.Role.Kind == "pred":
				// (iii) predicate hand-over
				handover[lo] = j
				routed = "handover"
			}
		})
		if bad != "" || routed == "" {
			if bad == "" {
				bad = "on a recovered panic nothing routes the value into the job's error result (PanicError, fallback, or predicate hand-over)"
			}
			rc.s.Bad("V2", key, rc.pos(g), bad)
			continue
		}
		rc.s.OK("V2", key, rc.pos(d), "recover() called directly in a handler deferred before the user call; non-nil value routed via "+routed)
	}
	// every hand-over variable is folded into the gated task's handler
	for v, pj := range handover {
		found := false
		for _, p := range reads {
			if p.read == v {
				found = true
			}
		}
		rc.s.Check(found, "V2", rc.key("hand-over of "+rc.jobName(pj)+" is read by a task handler"), rc.pos(pj.Lit), "predicate panic is folded into the gated task's recovered value", "a predicate's recovered panic is stored but no task handler reads it: the panic is silently dropped")
	}
	for _, p := range reads {
		rc.s.Check(handover[p.read] != nil, "V2", rc.key("fold in "+rc.jobName(p.j)+" reads a predicate hand-over"), rc.pos(p.j.Lit), "", "the task handler folds in a variable that no predicate handler writes")
	}
}

// V3 error passthrough.
func (rc *ruleCtx) errorPassthrough() {
	x, info := rc.x, rc.x.In.Info
	for _, j := range x.Jobs {
		if j.Lit == nil || len(j.Calls) != 1 || j.ErrObj == nil {
			continue
		}
		_, g, _, _ := rc.guardOf(j)
		call := j.Calls[0]
		key := rc.key("error of " + rc.jobName(j))
		as, _ := x.Par[call].(*ast.AssignStmt)
		hasErr := j.Role.HasError
		if rc.x.In.Origin == "Y" || j.RoleName == "" {
			// derive from the callee's signature
			if sig, ok := info.TypeOf(call.Fun).Underlying().(*types.Signature); ok && sig.Results().Len() > 0 {
				hasErr = types.Identical(sig.Results().At(sig.Results().Len()-1).Type(), types.Universe.Lookup("error").Type())
			}
		}
		if hasErr {
			if as == nil || len(as.Rhs) != 1 || astx.IdentObj(info, as.Lhs[len(as.Lhs)-1]) != j.ErrObj || as.Tok != token.ASSIGN {
				rc.s.Bad("V3", key, rc.pos(call), "the user function's error result is not assigned to the job's named error result")
				continue
			}
		}
		// writes to err outside the guard, other than the call statement
		bad := ""
		isFallback := false
		astx.Writes(j.Lit.Body, func(l ast.Expr, at ast.Node) {
			if astx.IdentObj(info, l) != j.ErrObj || (g != nil && x.Par.Within(at, g)) || at == ast.Node(as) {
				return
			}
			// allowed: fallback clearing under err != nil, after the call
			a2, ok := at.(*ast.AssignStmt)
			conds := x.Par.Known(at, j.Lit)
			if ok && at.Pos() > call.End() && condNil(info, conds, j.ErrObj, false) && astx.IsNil(info, a2.Rhs[len(a2.Rhs)-1]) {
				isFallback = true
				return
			}
			bad = "the job's error result is overwritten outside the user call, the recover handler and the fallback"
		})
		// returns after the call
		ast.Inspect(j.Lit.Body, func(n ast.Node) bool {
			if fl, ok := n.(*ast.FuncLit); ok && fl != j.Lit {
				return false
			}
			ret, ok := n.(*ast.ReturnStmt)
			if !ok || ret.Pos() < call.End() {
				return true
			}
			if len(ret.Results) == 0 {
				return true
			}
			if len(ret.Results) != 1 {
				bad = "unexpected return arity"
				return true
			}
			if astx.IdentObj(info, ret.Results[0]) == j.ErrObj {
				return true
			}
			conds := x.Par.Known(ret, j.Lit)
			if astx.IsNil(info, ret.Results[0]) && (!hasErr || condNil(info, conds, j.ErrObj, true)) {
				return true
			}
			bad = "after the user call the closure returns something other than the user's error (wrapped, replaced or dropped)"
			return true
		})
		if bad != "" {
			rc.s.Bad("V3", key, rc.pos(call), bad)
			continue
		}
		_ = isFallback
		rc.s.OK("V3", key, rc.pos(call), "user error flows unchanged to the scheduler")
	}
}

// V4 context.
func (rc *ruleCtx) context() {
	x, info := rc.x, rc.x.In.Info
	if x.CtxObj == nil {
		rc.s.Unk("V4", rc.key("directive ctx"), "", "Wait's argument is not a variable")
		return
	}
	// single definition from the hoisted ctx expression
	nW := 0
	okDef := false
	astx.Writes(x.Body, func(l ast.Expr, at ast.Node) {
		if astx.IdentObj(info, l) != x.CtxObj {
			return
		}
		nW++
		if as, ok := at.(*ast.AssignStmt); ok && as.Tok == token.DEFINE && len(as.Rhs) == 1 && x.Par[x.Par[as]] == ast.Node(x.W) {
			if o := astx.IdentObj(info, as.Rhs[0]); o != nil {
				if name, ok := x.Hoisted[o]; ok {
					if role, ok := x.In.Roles[name]; !ok || role.Kind == "ctx" {
						okDef = true
					}
				}
			}
		}
	})
	if x.In.Kind == "modflow" {
		// modifier mode: ctx is the first parameter of the generated function
		isParam := false
		if ps := x.W.Type.Params; ps != nil && len(ps.List) > 0 && len(ps.List[0].Names) == 1 {
			isParam = info.Defs[ps.List[0].Names[0]] == x.CtxObj
		}
		rc.s.Check(nW == 0 && isParam, "V4", rc.key("ctx is the generated function's first parameter, never reassigned"), "", "", "the modifier-mode flow function does not use its ctx parameter unchanged")
	} else {
		rc.s.Check(nW == 1 && okDef, "V4", rc.key("ctx := <directive's context argument>, once"), "", "", "the directive's ctx variable is not defined exactly once from the hoisted context argument")
	}
	for _, j := range x.Jobs {
		rc.s.Check(len(j.Enq.Args) == 2 && astx.IdentObj(info, j.Enq.Args[0]) == x.CtxObj, "V4", rc.key("Enqueue of "+rc.jobName(j)+" gets the directive ctx"), rc.pos(j.Enq), "", "Enqueue is not given the directive's context: cancellation would not stop this job")
		if j.Lit == nil || len(j.Calls) != 1 {
			continue
		}
		call := j.Calls[0]
		sig, _ := info.TypeOf(call.Fun).Underlying().(*types.Signature)
		wantCtx := sig != nil && sig.Params().Len() > 0 && isContextType(sig.Params().At(0).Type())
		if wantCtx {
			rc.s.Check(len(call.Args) > 0 && j.CtxObj != nil && astx.IdentObj(info, call.Args[0]) == j.CtxObj, "V4", rc.key("ctx passed to "+rc.jobName(j)), rc.pos(call), "the job's own context parameter", "a context-taking user function does not receive the job's context parameter")
		}
	}
	bad := false
	ast.Inspect(x.Body, func(n ast.Node) bool {
		if c, ok := n.(*ast.CallExpr); ok {
			if fn := astx.Callee(info, c); fn != nil && fn.Pkg() != nil && fn.Pkg().Path() == "context" && fn.Type().(*types.Signature).Recv() == nil {
				bad = true
			}
		}
		return true
	})
	rc.s.Check(!bad, "V4", rc.key("no context constructor"), "", "", "generated code builds its own context (context.Background/TODO/With*)")
}

func isContextType(t types.Type) bool {
	n, ok := t.(*types.Named)
	return ok && n.Obj().Pkg() != nil && n.Obj().Pkg().Path() == "context" && n.Obj().Name() == "Context"
}

// V8 Wait discipline.
func (rc *ruleCtx) waitDiscipline() {
	x := rc.x
	if x.Wait == nil || x.NewSched == nil {
		rc.s.Bad("V8", rc.key("one Wait"), "", "no Wait / NewScheduler call in the directive")
		return
	}
	top := x.WaitIf != nil && x.Par[x.WaitIf] == ast.Node(x.Body)
	if !top {
		// also accept `err := sched.Wait(ctx)` at top level
		if as, ok := x.Par[x.Wait].(*ast.AssignStmt); ok && x.Par[as] == ast.Node(x.Body) {
			top = true
		}
	}
	rc.s.Check(top, "V8", rc.key("Wait is unconditional"), rc.pos(x.Wait), "top-level statement of the directive body", "Wait is conditional or nested: some paths return without waiting (scheduler goroutines and Enqueue's drain never end)")
	early := false
	ast.Inspect(x.Body, func(n ast.Node) bool {
		if _, ok := n.(*ast.FuncLit); ok {
			return false
		}
		if r, ok := n.(*ast.ReturnStmt); ok && r.Pos() > x.NewSched.Pos() && r.Pos() < x.Wait.Pos() {
			early = true
		}
		return true
	})
	rc.s.Check(!early, "V8", rc.key("no return between NewScheduler and Wait"), "", "", "the directive can return after starting the scheduler without calling Wait")
	late := false
	for _, j := range x.Jobs {
		if j.Enq.Pos() > x.Wait.Pos() {
			late = true
		}
	}
	rc.s.Check(!late, "V8", rc.key("no Enqueue after Wait"), "", "", "Enqueue after Wait panics (send on closed channel)")
}
