package gen

import (
	"fmt"
	"runtime"
	"sync"

	"cffverif/internal/report"
)

// Rules is the V-rule catalogue.
var Rules = []report.Rule{
	{ID: "V1", Floor: 1000, Props: []string{"C03", "C04", "C10", "C09"}, Text: "every user call lies in exactly one job closure, at its top nesting level, each user function is called from exactly one site, and the directive contains no go statement (the worker's per-job gates - context not done, not invalidated - and its panic guard apply to exactly that call)"},
	{ID: "V2", Floor: 1000, Props: []string{"C04", "C11", "C07", "C10"}, Text: "every job closure has a named error result and, registered before any user call or return, exactly one deferred function calling recover() directly that routes a non-nil value into &cff.PanicError{Value: recovered} (or fallback / predicate hand-over read by the gated task's handler) and never re-panics"},
	{ID: "V3", Floor: 1000, Props: []string{"C07", "C08", "C10"}, Text: "the user function's error is assigned to the closure's named result and reaches the return unchanged (no wrapping, no overwrite outside handler/fallback)"},
	{ID: "V4", Floor: 1000, Props: []string{"C09"}, Text: "ctx is defined once from the directive's context argument; every Enqueue and Wait gets it; ctx-taking user functions get the job's context parameter; no context constructor"},
	{ID: "V5", Floor: 1000, Props: []string{"C01", "C02", "C11", "C12"}, Text: "every variable written inside a job closure has that job as its only writer; every job reading it has the writer among its transitive Dependencies; the caller reads it only after Wait() == nil (never from a deferred function); variables read by jobs are not written by the caller after the job's Enqueue"},
	{ID: "V6", Floor: 1000, Props: []string{"C02"}, Text: "a flow task/predicate call passes [ctx +] one distinct directive-level variable per parameter and assigns one directive-level variable per result [+ err], outside any loop"},
	{ID: "V7", Floor: 300, Props: []string{"C02", "C07"}, Text: "each Results target is assigned once, from a value variable, at top level strictly after a successful Wait; on failure the very error of Wait is returned and no target is written"},
	{ID: "V9", Floor: 1000, Props: []string{"C03", "C08", "C19"}, Text: "SchedulerParams: Concurrency / ContinueOnError are the directive's hoisted arguments iff given; Emitter derives from all directive emitters in order"},
	{ID: "V10", Floor: 100, Props: []string{"C10", "C01"}, Text: "Task: one unconditional Enqueue outside any loop. Slice/Map: one range loop over the directive's collection; per iteration one unconditional Enqueue of a closure created in that iteration, calling the function with per-iteration copies of (index/key, value); End job enqueued once after the loop with Dependencies = the slice that receives every iteration's job"},
	{ID: "V11", Floor: 300, Props: []string{"C11", "C04", "C07"}, Text: "predicate result stored by a never-failing predicate job; task call dominated by p == true; false edge is exactly `return nil`; recover handler registered before the gate"},
	{ID: "V12", Floor: 1000, Props: []string{"C11"}, Text: "task outputs are written only by the user call and, iff FallbackWith, by `outputs..., err = fallbacks..., nil` exactly on the err != nil edge after the call and on the recovered != nil edge of the handler"},
	{ID: "V13", Floor: 3000, Props: []string{"C18"}, Text: "event typestate in site/condition form: Done emitted once by the first-registered defer; Error(err) once on the Wait-failed edge with the returned error, Success once before the final return nil, no other exits; skipped sweep deferred before the first Enqueue, testing each task's ran flag, every task struct swept once; per task: Success iff call returned without error, Error/ErrorRecovered(err) iff err != nil, Panic/PanicRecovered(recovered) iff recovered != nil in the handler, ran.Store(true) once past the gate before the call, TaskDone by the first-registered defer guarded by ran.Load(); emitters built by XInit iff instrumented, with this task's name"},
	{ID: "V18", Floor: 40, Props: []string{"C20"}, Text: "every modifier-mode flow expansion (Params, Results, Concurrency, plain Tasks) discharges the same V1-V9/V16 obligations as its base-mode sibling: panic guard, error passthrough, ctx, dependency cover, wiring, results after Wait, Wait discipline"},
	{ID: "V17", Floor: 300, Props: []string{"C12", "C18"}, Text: "the ran flags are sync/atomic values used only through their methods"},
	{ID: "V8", Floor: 1000, Props: []string{"C05", "C06"}, Text: "exactly one unconditional Wait; no return between NewScheduler and Wait; no Enqueue after Wait"},
	{ID: "T2", Floor: 1000, Props: []string{"C15", "C13", "C12", "C14"}, Text: "in every expanded variant every argument expression of the directive is referenced by the generated code (none is dropped: what only it names, an import, would be left unused) and a user expression is printed only as its hoisted variable; the raw expression text appears only in the prologue, as `<variable> := <raw>` once per recorded expression; no ast.Expr/types.Type value is printed bare; a type handed to the checking type printer is spelled in the generated code, not only in a comment (its nameability obligations would refuse well-formed directives for nothing)"},
	{ID: "V14", Floor: 30, Props: []string{"C15", "C02"}, Text: "(regenerated corpora) the hoisted definitions at the head of the generated closure are exactly the argument expressions of the source directive — once each, in source order, with the source text — nothing else defines a hoisted name, and no generated identifier is in scope there"},
	{ID: "V22", Floor: 30, Props: []string{"C20", "C15", "C02"}, Text: "(regenerated modifier-mode corpus) every argument expression of the directive is passed at the call site with its source text and order, through a helper that returns its parameters unchanged, and is bound once in the generated function's prologue to the name its source position determines; no option's parameter is ignored"},
	{ID: "V15", Floor: 2, Props: []string{"C13"}, Text: "(regenerated corpora) every generated package type-checks without the cff tag, and no call of a code-generation directive remains in it"},
	{ID: "V23", Floor: 3, Props: []string{"C13", "C14"}, Text: "(regenerated corpora) cff succeeds on every corpus: every corpus flow is well-formed by construction, so a diagnostic is a wrongly rejected flow and a crash is a crash"},
	{ID: "V25", Floor: 15, Props: []string{"C14", "C13"}, Text: "(reject corpus) every program of the corpus - a flow ill-formed in one way (no provider, a type provided twice by tasks or by Params, a cycle through tasks or through a predicate, an unused parameter or output, an output-less task without Invoke, a Slice/Map whose elements are not assignable to the function's parameters; a predicate without provider or with the wrong signature, FallbackWith with the wrong count or on a task that cannot fail, Invoke on a task with results, Instrument without an emitter, a Parallel option in a Flow, SliceEnd with ContinueOnError) or a type-correct spelling cff cannot expand (the findings F7, F10-F13, F15-F17, F20; an option held in a variable or produced by a call that is not a cff function) - is refused: cff exits non-zero, prints a diagnostic positioned in that package, and writes no output file into it"},
	{ID: "V19", Floor: 4, Props: []string{"C16"}, Text: "(regenerated corpora) every top-level declaration of the source file re-appears in the generated file, textually identical (go/printer, whitespace-normalised) except at the directive call sites; every source import is kept"},
	{ID: "V21", Floor: 6, Props: []string{"C16"}, Text: "(regenerated corpora) for every assignment of the tags occurring in a file's //go:build and // +build lines, the generated file is selected exactly when the source file is selected with the cff tag flipped"},
	{ID: "V20", Floor: 4, Props: []string{"C20"}, Text: "(regenerated corpora) base-mode and source-map-mode outputs of the same file are the same token stream once comments (incl. line directives) are dropped"},
	{ID: "V16", Floor: 1000, Props: []string{"C13", "C20", "C10", "C02"}, Text: "every expanded directive parses and type-checks under adversarial import aliases"},
}

// Run applies the V-rules to all instances.
func Run(instances []*Instance, s *report.Sink) {
	var wg sync.WaitGroup
	ch := make(chan *Instance)
	for w := 0; w < runtime.NumCPU(); w++ {
		wg.Add(1)
		go func() {
			defer wg.Done()
			for in := range ch {
				runOne(in, s)
			}
		}()
	}
	for _, in := range instances {
		ch <- in
	}
	close(ch)
	wg.Wait()
	s.AddFact("gen.instances", len(instances))
}

func runOne(in *Instance, s *report.Sink) {
	defer func() {
		if r := recover(); r != nil {
			s.Unk("V1", in.Key+"|analyser panic", in.Key, fmt.Sprintf("the analyser failed on this instance: %v", r))
		}
	}()
	if in.Kind == "modflow" {
		// sibling agreement: a modifier-mode flow must meet the obligations of its base-mode sibling
		ls := report.NewSink()
		runOneInto(in, ls)
		bad := ""
		n := 0
		for _, o := range ls.Obligations() {
			n++
			s.Add(o)
			if o.Status != report.Discharged && bad == "" {
				bad = "[" + o.Rule + "] " + o.Msg
			}
		}
		if bad == "" {
			s.OK("V18", in.Key+"|meets the base sibling's obligations", "", fmt.Sprintf("%d obligations of V1-V9/V16 discharged on the modifier-mode expansion", n))
		} else {
			s.Bad("V18", in.Key+"|meets the base sibling's obligations", in.Key, "modifier-mode output violates an obligation its base-mode sibling meets: "+bad)
		}
		return
	}
	runOneInto(in, s)
}

func runOneInto(in *Instance, s *report.Sink) {
	x := Extract(in)
	rc := &ruleCtx{x: x, s: s}
	if in.Origin == "X" {
		if len(in.T2) > 0 {
			s.Bad("T2", rc.key("hoisting discipline"), in.Key, in.T2[0])
		} else {
			s.OK("T2", rc.key("hoisting discipline"), "", "user expressions appear only as hoisted variables; raw text only in the prologue definitions")
		}
	}
	if !rc.wellTyped() {
		return
	}
	for _, p := range x.Problems {
		s.Unk("V1", rc.key("shape: "+p), in.Key, "generated code shape not recognised: "+p)
	}
	if len(x.Problems) > 0 {
		return
	}
	rc.prologue()
	rc.inventory()
	rc.panicGuard()
	rc.errorPassthrough()
	rc.context()
	rc.waitDiscipline()
	rc.hbCover()
	rc.wiring()
	rc.schedParams()
	rc.parallelOnce()
	rc.predicateAndFallback()
	rc.atomicRan()
	if in.Kind != "modflow" {
		rc.events()
	}
	s.AddFact("gen.job_closures", len(x.Jobs))
}
