package gen

import (
	"fmt"
	"go/ast"
	"go/token"
	"go/types"
	"sort"
	"strings"

	"cffverif/internal/astx"
)

// loc is a storage location: a variable, optionally with a field path.
type loc struct {
	obj  types.Object
	path string
}

func (l loc) String() string {
	if l.path == "" {
		return l.obj.Name()
	}
	return l.obj.Name() + "." + l.path
}

// locOfExpr resolves x / x.f / x.f.g to a location; index expressions resolve to their base.
func locOfExpr(info *types.Info, e ast.Expr) (loc, bool) {
	switch v := astx.Unparen(e).(type) {
	case *ast.Ident:
		if o, ok := astx.ObjOf(info, v).(*types.Var); ok && !o.IsField() {
			return loc{o, ""}, true
		}
	case *ast.SelectorExpr:
		if sel := info.Selections[v]; sel != nil && sel.Kind() == types.FieldVal {
			if b, ok := locOfExpr(info, v.X); ok {
				p := v.Sel.Name
				if b.path != "" {
					p = b.path + "." + p
				}
				return loc{b.obj, p}, true
			}
		}
	case *ast.IndexExpr:
		return locOfExpr(info, v.X)
	case *ast.StarExpr:
		return locOfExpr(info, v.X)
	}
	return loc{}, false
}

type access struct {
	l     loc
	write bool
	at    ast.Node
}

// accesses lists reads and writes of variables under root. Method calls on
// sync/atomic values are skipped (they synchronise themselves).
func (x *X) accesses(root ast.Node) []access {
	info := x.In.Info
	var out []access
	written := map[ast.Expr]bool{}
	astx.Writes(root, func(l ast.Expr, at ast.Node) {
		if as, ok := at.(*ast.AssignStmt); ok && as.Tok == token.DEFINE {
			// a definition allocates a new variable; not a write to shared state
			written[astx.Unparen(l)] = true
			return
		}
		if rs, ok := at.(*ast.RangeStmt); ok && rs.Tok == token.DEFINE {
			written[astx.Unparen(l)] = true
			return
		}
		if lc, ok := locOfExpr(info, l); ok {
			out = append(out, access{lc, true, at})
			// x.f = v writes x.f only; mark the whole lhs chain as not-a-read
			var mark func(e ast.Expr)
			mark = func(e ast.Expr) {
				e = astx.Unparen(e)
				written[e] = true
				switch v := e.(type) {
				case *ast.SelectorExpr:
					mark(v.X)
				case *ast.StarExpr:
					mark(v.X)
				}
			}
			if _, isIdx := astx.Unparen(l).(*ast.IndexExpr); !isIdx {
				mark(l)
			}
		}
	})
	var visit func(n ast.Node) bool
	visit = func(n ast.Node) bool {
		switch v := n.(type) {
		case *ast.CallExpr:
			// atomic method call: t.ran.Load()
			if se, ok := v.Fun.(*ast.SelectorExpr); ok {
				if sel := info.Selections[se]; sel != nil && sel.Kind() == types.MethodVal {
					if rt := sel.Recv(); rt != nil {
						if p, ok := rt.(*types.Pointer); ok {
							rt = p.Elem()
						}
						if nt, ok := types.Unalias(rt).(*types.Named); ok && nt.Obj().Pkg() != nil && nt.Obj().Pkg().Path() == "sync/atomic" {
							for _, a := range v.Args {
								ast.Inspect(a, visit)
							}
							return false
						}
					}
				}
			}
		case *ast.SelectorExpr:
			if written[v] {
				return false
			}
			if lc, ok := locOfExpr(info, v); ok {
				out = append(out, access{lc, false, v})
				return false
			}
		case *ast.AssignStmt:
			// `_ = x` evaluates nothing observable: not a read
			allBlank := true
			for _, l := range v.Lhs {
				if id, ok := l.(*ast.Ident); !ok || id.Name != "_" {
					allBlank = false
				}
			}
			if allBlank {
				pure := true
				for _, r := range v.Rhs {
					if _, ok := locOfExpr(info, r); !ok {
						pure = false
					}
				}
				if pure {
					return false
				}
			}
		case *ast.ValueSpec:
			for _, val := range v.Values {
				ast.Inspect(val, visit)
			}
			if v.Type != nil {
				ast.Inspect(v.Type, visit)
			}
			return false
		case *ast.Ident:
			if written[v] || info.Defs[v] != nil {
				return false
			}
			if lc, ok := locOfExpr(info, v); ok {
				out = append(out, access{lc, false, v})
			}
		case *ast.KeyValueExpr:
			// field names in composite literals are not variable reads
			ast.Inspect(v.Value, visit)
			return false
		}
		return true
	}
	ast.Inspect(root, visit)
	return out
}

// declaredIn: is obj declared inside node n?
func declaredIn(obj types.Object, n ast.Node) bool {
	return obj.Pos() >= n.Pos() && obj.Pos() < n.End()
}

// depClosure computes, per job, the set of jobs it transitively depends on.
func (x *X) depClosure() (map[*Job]map[*Job]bool, []string) {
	info := x.In.Info
	byLoc := map[string][]*Job{}
	for _, j := range x.Jobs {
		if j.ResLoc != "" {
			byLoc[j.ResLoc] = append(byLoc[j.ResLoc], j)
		}
	}
	var problems []string
	direct := map[*Job][]*Job{}
	for _, j := range x.Jobs {
		if j.Deps == nil {
			continue
		}
		switch d := astx.Unparen(j.Deps).(type) {
		case *ast.CompositeLit:
			for _, e := range d.Elts {
				l := x.locOf(e)
				if js := byLoc[l]; len(js) == 1 {
					direct[j] = append(direct[j], js[0])
				} else {
					problems = append(problems, fmt.Sprintf("dependency %s resolves to %d Enqueue results", l, len(js)))
				}
			}
		case *ast.Ident:
			l := d.Name + "[]"
			js := byLoc[l]
			if len(js) == 0 {
				problems = append(problems, fmt.Sprintf("dependency slice %s holds no Enqueue result", d.Name))
			}
			direct[j] = append(direct[j], js...)
			_ = info
		default:
			problems = append(problems, "unrecognised Dependencies expression")
		}
	}
	clo := map[*Job]map[*Job]bool{}
	var walk func(j *Job, into map[*Job]bool)
	walk = func(j *Job, into map[*Job]bool) {
		for _, d := range direct[j] {
			if !into[d] {
				into[d] = true
				walk(d, into)
			}
		}
	}
	for _, j := range x.Jobs {
		clo[j] = map[*Job]bool{}
		walk(j, clo[j])
	}
	return clo, problems
}

// afterWaitOK: n executes only after Wait returned nil.
func (x *X) afterWaitOK(n ast.Node) bool {
	if x.WaitIf == nil || n.Pos() < x.WaitIf.End() {
		return false
	}
	if !astx.Terminates(x.WaitIf.Body) {
		return false
	}
	// must be in the wrapper's own straight-line code or nested under it, not inside a closure defined earlier
	if f := x.Par.EnclosingFunc(n); f != ast.Node(x.W) {
		return false
	}
	return true
}

// V5 happens-before cover.
func (rc *ruleCtx) hbCover() {
	x := rc.x
	clo, probs := x.depClosure()
	for _, p := range probs {
		rc.s.Unk("V5", rc.key("dependencies: "+p), "", p)
	}
	jobOf := func(n ast.Node) *Job {
		for _, j := range x.Jobs {
			if j.Lit != nil && x.Par.Within(n, j.Lit) {
				return j
			}
		}
		return nil
	}
	type info2 struct {
		writers map[*Job][]ast.Node
		readers map[*Job][]ast.Node
		outW    []ast.Node
		outR    []ast.Node
	}
	locs := map[loc]*info2{}
	get := func(l loc) *info2 {
		if locs[l] == nil {
			locs[l] = &info2{writers: map[*Job][]ast.Node{}, readers: map[*Job][]ast.Node{}}
		}
		return locs[l]
	}
	for _, a := range x.accesses(x.Body) {
		// only variables declared inside the wrapper, and not inside the closure that accesses them
		if !declaredIn(a.l.obj, x.W) {
			continue
		}
		j := jobOf(a.at)
		if j != nil && declaredIn(a.l.obj, j.Lit) {
			continue
		}
		i := get(a.l)
		switch {
		case j != nil && a.write:
			i.writers[j] = append(i.writers[j], a.at)
		case j != nil:
			i.readers[j] = append(i.readers[j], a.at)
		case a.write:
			i.outW = append(i.outW, a.at)
		default:
			i.outR = append(i.outR, a.at)
		}
	}
	// overlapping locations: x and x.f
	overlaps := func(a, b loc) bool {
		if a.obj != b.obj {
			return false
		}
		return a.path == b.path || a.path == "" || b.path == "" || strings.HasPrefix(a.path, b.path+".") || strings.HasPrefix(b.path, a.path+".")
	}
	var keys []loc
	for l := range locs {
		keys = append(keys, l)
	}
	sort.Slice(keys, func(i, j int) bool { return keys[i].String() < keys[j].String() })
	nShared := 0
	for _, l := range keys {
		i := locs[l]
		if len(i.writers) == 0 {
			// written only outside jobs (or never): every job reading it must be enqueued after the last outside write
			for j, rs := range i.readers {
				for _, l2 := range keys {
					if !overlaps(l, l2) {
						continue
					}
					for _, w := range locs[l2].outW {
						sameIter := x.loopWithinWrapper(w) == j.Loop
						if w.Pos() > j.Enq.Pos() && (j.Loop == nil || sameIter) && !x.insideDeferredLit(w) {
							rc.s.Bad("V5", rc.key(fmt.Sprintf("%s read by %s, written after its Enqueue", l, rc.jobName(j))), rc.pos(w), "a variable read by a running job is written by the caller after the job was enqueued (data race)")
						}
					}
				}
				_ = rs
			}
			continue
		}
		nShared++
		key := rc.key("shared variable " + l.String())
		if len(i.writers) > 1 {
			var ws []string
			for j := range i.writers {
				ws = append(ws, rc.jobName(j))
			}
			sort.Strings(ws)
			rc.s.Bad("V5", key, "", fmt.Sprintf("written by %d jobs (%s): not single-assignment", len(ws), strings.Join(ws, ", ")))
			continue
		}
		var W *Job
		for j := range i.writers {
			W = j
		}
		bad := ""
		// per-iteration variables: writer and variable in the same loop body => each iteration has its own
		for j := range i.readers {
			if j == W {
				continue
			}
			if !clo[j][W] {
				bad = fmt.Sprintf("job %s reads %s, which job %s writes, without depending on it (directly or transitively): it can run before the value exists and races with the write", rc.jobName(j), l, rc.jobName(W))
			}
		}
		for _, l2 := range keys {
			if !overlaps(l, l2) {
				continue
			}
			for _, r := range locs[l2].outR {
				if !x.afterWaitOK(r) && !x.insideDeferredLit(r) {
					bad = fmt.Sprintf("%s, written by job %s, is read by the caller at a point not dominated by Wait() == nil", l, rc.jobName(W))
				}
				if x.insideDeferredLit(r) {
					bad = fmt.Sprintf("%s, written by job %s, is read by a deferred function that also runs when Wait returned early (the writer may still be running)", l, rc.jobName(W))
				}
			}
			for _, w := range locs[l2].outW {
				if w.Pos() > W.Enq.Pos() {
					bad = fmt.Sprintf("%s is written both by job %s and by the caller after that job was enqueued", l, rc.jobName(W))
				}
			}
		}
		if bad != "" {
			rc.s.Bad("V5", key, rc.pos(W.Enq), bad)
		} else {
			rc.s.OK("V5", key, rc.pos(W.Enq), fmt.Sprintf("single writer %s; %d reading job(s) all depend on it; caller reads only after Wait succeeded", rc.jobName(W), len(i.readers)))
		}
	}
	if nShared == 0 {
		rc.s.OK("V5", rc.key("no cross-job variable"), "", "jobs of this directive share no variable")
	}
}

// insideDeferredLit: n lies in a func literal that is deferred at wrapper level (runs at wrapper return).
func (x *X) insideDeferredLit(n ast.Node) bool {
	for p := x.Par[n]; p != nil && p != ast.Node(x.W); p = x.Par[p] {
		if fl, ok := p.(*ast.FuncLit); ok {
			if c, ok := x.Par[fl].(*ast.CallExpr); ok {
				if _, ok := x.Par[c].(*ast.DeferStmt); ok && x.Par.EnclosingFunc(c) == ast.Node(x.W) {
					return true
				}
			}
		}
	}
	return false
}

// V6 wiring, V7 results.
func (rc *ruleCtx) wiring() {
	x, info := rc.x, rc.x.In.Info
	for _, j := range x.Jobs {
		if j.Lit == nil || len(j.Calls) != 1 {
			continue
		}
		k := j.Role.Kind
		if x.In.Origin == "X" && k != "task" && k != "pred" {
			continue
		}
		if x.In.Kind != "flow" && x.In.Kind != "modflow" {
			continue
		}
		call := j.Calls[0]
		key := rc.key("wiring of " + rc.jobName(j))
		bad := ""
		seen := map[types.Object]bool{}
		for i, a := range call.Args {
			o := astx.IdentObj(info, a)
			if o == nil {
				bad = fmt.Sprintf("argument %d is not a plain variable", i)
				break
			}
			if i == 0 && o == j.CtxObj {
				continue
			}
			if !declaredIn(o, x.W) || declaredIn(o, j.Lit) || x.Par.EnclosingFunc(x.declIdent(o)) != ast.Node(x.W) {
				bad = fmt.Sprintf("argument %d (%s) is not a directive-level value variable", i, o.Name())
				break
			}
			if seen[o] && x.In.Origin == "X" {
				// in the abstract expansion all parameter types are distinct
				bad = fmt.Sprintf("variable %s is passed twice", o.Name())
			}
			seen[o] = true
		}
		as, _ := x.Par[call].(*ast.AssignStmt)
		sig, _ := info.TypeOf(call.Fun).Underlying().(*types.Signature)
		if bad == "" && sig != nil && x.In.Origin != "X" {
			// concrete program: the generator keeps one variable per value type, so every parameter must
			// receive the variable whose type is identical to the parameter's (assignable is not enough:
			// that would be another provider's value)
			off := 0
			if len(call.Args) > 0 && astx.IdentObj(info, call.Args[0]) == j.CtxObj && j.CtxObj != nil {
				off = 1
			}
			if sig.Params().Len() != len(call.Args) {
				bad = "argument count differs from the user function's parameter count"
			} else {
				for i := off; i < len(call.Args); i++ {
					at, pt := info.TypeOf(call.Args[i]), sig.Params().At(i).Type()
					if at == nil || !types.Identical(at, pt) {
						bad = fmt.Sprintf("argument %d has type %v but the parameter has type %v: the parameter receives the value of another provider", i, at, pt)
						break
					}
				}
			}
		}
		if sig != nil && sig.Results().Len() > 0 {
			if as == nil || as.Tok != token.ASSIGN || len(as.Lhs) != sig.Results().Len() {
				bad = "results of the user call are not assigned one variable per result"
			} else {
				for i, l := range as.Lhs {
					o := astx.IdentObj(info, l)
					if o == nil {
						bad = "a result is assigned to something other than a plain variable"
						break
					}
					if o == j.ErrObj && i == len(as.Lhs)-1 {
						continue
					}
					if !declaredIn(o, x.W) || declaredIn(o, j.Lit) {
						bad = fmt.Sprintf("result %d goes to %s, which is not a directive-level value variable", i, o.Name())
					}
				}
			}
		}
		if x.Par.InLoop(call) != nil || j.Loop != nil {
			bad = "flow task is called inside a loop"
		}
		if bad != "" {
			rc.s.Bad("V6", key, rc.pos(call), bad)
		} else {
			rc.s.OK("V6", key, rc.pos(call), "arguments are the directive-level variables of the parameter types (type-checked, all abstract types distinct), each once, results assigned in order")
		}
	}
	// V7
	if x.In.Kind != "flow" && x.In.Kind != "modflow" {
		return
	}
	type tgt struct {
		name string
		n    int
		ok   bool
	}
	targets := map[types.Object]*tgt{}
	for o, name := range x.Hoisted {
		if r, ok := x.In.Roles[name]; ok && r.Kind == "result" {
			targets[o] = &tgt{name: name}
		}
	}
	astx.Writes(x.Body, func(l ast.Expr, at ast.Node) {
		st, ok := astx.Unparen(l).(*ast.StarExpr)
		if !ok {
			return
		}
		o := astx.IdentObj(info, st.X)
		t := targets[o]
		if t == nil {
			if o != nil {
				if _, isH := x.Hoisted[o]; isH && x.In.Origin == "Y" {
					t = &tgt{name: o.Name()}
					targets[o] = t
				}
			}
			if t == nil {
				return
			}
		}
		t.n++
		as, isAs := at.(*ast.AssignStmt)
		t.ok = isAs && len(as.Rhs) == 1 && astx.IdentObj(info, as.Rhs[0]) != nil && x.afterWaitOK(at) && x.Par[at] == ast.Node(x.Body)
	})
	for _, t := range targets {
		rc.s.Check(t.n == 1 && t.ok, "V7", rc.key("result "+t.name+" copied once, after Wait() == nil"), "", "", fmt.Sprintf("a cff.Results target is assigned %d time(s) / not from a value variable / not strictly after a successful Wait: Results change on failure or miss the value", t.n))
	}
	if x.WaitIf != nil {
		// error edge returns the very error of Wait and assigns nothing
		good := false
		var errObj types.Object
		if as, ok := x.WaitIf.Init.(*ast.AssignStmt); ok && len(as.Lhs) == 1 {
			errObj = astx.IdentObj(info, as.Lhs[0])
		}
		if n := len(x.WaitIf.Body.List); n > 0 && errObj != nil {
			if ret, ok := x.WaitIf.Body.List[n-1].(*ast.ReturnStmt); ok && len(ret.Results) == 1 && astx.IdentObj(info, ret.Results[0]) == errObj {
				good = true
			}
		}
		cond := false
		var cs []astx.Cond
		astx.Split(x.WaitIf.Cond, true, x.WaitIf, &cs)
		if len(cs) == 1 && !cs[0].Pos {
			if e, ok := astx.EqNil(info, cs[0].E); ok && astx.IdentObj(info, e) == errObj {
				cond = true
			}
		}
		deref := false
		astx.Writes(x.WaitIf.Body, func(l ast.Expr, at ast.Node) {
			if _, ok := astx.Unparen(l).(*ast.StarExpr); ok {
				deref = true
			}
		})
		rc.s.Check(good && cond && !deref, "V7", rc.key("Wait error returned unchanged, no target touched"), rc.pos(x.WaitIf), "", "on Wait() != nil the directive does not return that very error / writes a Results target")
	}
}

// declIdent returns the identifier that declares obj inside the wrapper.
func (x *X) declIdent(obj types.Object) ast.Node {
	var out ast.Node
	ast.Inspect(x.Body, func(n ast.Node) bool {
		if id, ok := n.(*ast.Ident); ok && x.In.Info.Defs[id] == obj {
			out = id
		}
		return out == nil
	})
	if out == nil {
		return x.Body
	}
	return out
}

// V9 scheduler params.
func (rc *ruleCtx) schedParams() {
	x, info := rc.x, rc.x.In.Info
	if x.NewSched == nil || len(x.NewSched.Args) != 1 {
		return
	}
	cl, ok := astx.Unparen(x.NewSched.Args[0]).(*ast.CompositeLit)
	if !ok {
		rc.s.Unk("V9", rc.key("SchedulerParams literal"), rc.pos(x.NewSched), "argument of NewScheduler is not a literal")
		return
	}
	vals := map[string]ast.Expr{}
	for _, e := range cl.Elts {
		if kv, ok := e.(*ast.KeyValueExpr); ok {
			vals[kv.Key.(*ast.Ident).Name] = kv.Value
		}
	}
	roleOf := func(e ast.Expr) string {
		if e == nil {
			return ""
		}
		o := astx.IdentObj(info, e)
		if o == nil {
			return "?"
		}
		if name, ok := x.Hoisted[o]; ok {
			if r, ok := x.In.Roles[name]; ok {
				return r.Kind
			}
			return "hoisted"
		}
		return "?"
	}
	if len(x.In.Roles) > 0 {
		want := ""
		if x.In.HasConcurrency {
			want = "conc"
		}
		rc.s.Check(roleOf(vals["Concurrency"]) == want, "V9", rc.key("Concurrency forwarded iff given"), rc.pos(cl), "", "SchedulerParams.Concurrency is not exactly the directive's Concurrency argument")
		want = ""
		if x.In.HasContinueOnError {
			want = "coe"
		}
		rc.s.Check(roleOf(vals["ContinueOnError"]) == want, "V9", rc.key("ContinueOnError forwarded iff given"), rc.pos(cl), "the expression as written (no constant folding)", "SchedulerParams.ContinueOnError is not exactly the directive's ContinueOnError argument: failures stop the run / are not collected")
	} else {
		for _, f := range []string{"Concurrency", "ContinueOnError"} {
			if v := vals[f]; v != nil {
				rc.s.Check(roleOf(v) == "hoisted", "V9", rc.key(f+" is a hoisted user expression"), rc.pos(v), "", f+" is not a hoisted user expression")
			}
		}
	}
	// Emitter: schedEmitter := emitter.SchedulerInit(...); emitter := cff.EmitterStack(hoisted...) | cff.NopEmitter()
	good := false
	if eo := astx.IdentObj(info, vals["Emitter"]); eo != nil {
		if init := x.singleDef(eo); init != nil {
			if c, ok := init.(*ast.CallExpr); ok {
				if se, ok := c.Fun.(*ast.SelectorExpr); ok && se.Sel.Name == "SchedulerInit" {
					if emo := astx.IdentObj(info, se.X); emo != nil {
						if i2 := x.singleDef(emo); i2 != nil {
							if c2, ok := i2.(*ast.CallExpr); ok {
								switch {
								case isPkgFunc(info, c2, cffPkg, "NopEmitter") && (x.In.Origin == "Y" || x.In.NEmitters == 0):
									good = true
								case isPkgFunc(info, c2, cffPkg, "EmitterStack") && (x.In.Origin == "Y" || len(c2.Args) == x.In.NEmitters):
									good = true
									for i, a := range c2.Args {
										o := astx.IdentObj(info, a)
										name, isH := x.Hoisted[o]
										if !isH {
											good = false
										} else if r, ok := x.In.Roles[name]; ok && (r.Kind != "emitter" || r.Index != i) {
											good = false
										}
									}
								}
							}
						}
					}
				}
			}
		}
	}
	rc.s.Check(good, "V9", rc.key("scheduler emitter derives from the directive's emitters"), rc.pos(cl), "", "SchedulerParams.Emitter is not emitter.SchedulerInit(...) of EmitterStack(<all directive emitters, in order>) / NopEmitter()")
}

// singleDef returns the initialiser of obj if it is defined once and never reassigned.
func (x *X) singleDef(obj types.Object) ast.Expr {
	info := x.In.Info
	var init ast.Expr
	n := 0
	astx.Writes(x.Body, func(l ast.Expr, at ast.Node) {
		if astx.IdentObj(info, l) != obj {
			return
		}
		n++
		if as, ok := at.(*ast.AssignStmt); ok && len(as.Lhs) == len(as.Rhs) {
			for i := range as.Lhs {
				if as.Lhs[i] == l {
					init = as.Rhs[i]
				}
			}
		}
	})
	if n == 0 {
		// var x = init
		ast.Inspect(x.Body, func(nn ast.Node) bool {
			if vs, ok := nn.(*ast.ValueSpec); ok {
				for i, id := range vs.Names {
					if info.Defs[id] == obj && i < len(vs.Values) {
						init = vs.Values[i]
						n = 1
					}
				}
			}
			return true
		})
	}
	if n != 1 {
		return nil
	}
	return init
}
