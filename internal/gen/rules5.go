package gen

import (
	"fmt"
	"go/ast"
	"go/token"
	"go/types"
	"strings"
)

// V14 prologue (Y instances): the hoisted definitions are exactly the user
// expressions of the source directive, once each, in source order, with the
// source text, ahead of everything else.
func (rc *ruleCtx) prologue() {
	x, in := rc.x, rc.x.In
	if in.Origin == "Y" && in.Kind == "modflow" && in.Mod != nil && in.Mod.Checked {
		// V22: modifier mode evaluates the directive's argument expressions at the call site (same text, same
		// order), hands each through a helper that returns it unchanged, and binds it in the prologue to the
		// name its source position determines
		if len(in.Mod.Problems) == 0 {
			rc.s.OK("V22", rc.key("argument expressions reach their hoisted names unchanged"), rc.pos(in.Wrapper), fmt.Sprintf("%d expressions traced through call site, helper and prologue", in.Mod.Exprs))
		} else {
			rc.s.Bad("V22", rc.key("argument expressions reach their hoisted names unchanged"), rc.pos(in.Wrapper), "modifier mode: "+strings.Join(in.Mod.Problems, "; "))
		}
	}
	if in.Origin != "Y" || in.Kind == "modflow" {
		return
	}
	want := map[string]SrcExpr{}
	for _, e := range in.SrcExprs {
		want[e.Name] = e
	}
	seen := map[string]int{}
	lastL, lastC := 0, 0
	ordered := true
	bad := ""
	norm := func(s string) string { return strings.Join(strings.Fields(s), " ") }
	for _, as := range x.Prologue {
		if len(as.Lhs) != 1 {
			bad = "multi-assignment in a base-mode prologue"
			continue
		}
		name := as.Lhs[0].(*ast.Ident).Name
		seen[name]++
		se, ok := want[name]
		if !ok {
			bad = fmt.Sprintf("%s is defined in the prologue but is no argument expression of the source directive", name)
			continue
		}
		if norm(types.ExprString(as.Rhs[0])) != norm(se.Text) {
			bad = fmt.Sprintf("%s is initialised with `%.60s`, the source says `%.60s`", name, types.ExprString(as.Rhs[0]), se.Text)
		}
		if se.Line < lastL || (se.Line == lastL && se.Col < lastC) {
			ordered = false
		}
		lastL, lastC = se.Line, se.Col
	}
	for n, e := range want {
		if seen[n] != 1 {
			bad = fmt.Sprintf("argument expression `%.60s` (%s) is evaluated %d times in the prologue (want 1)", e.Text, n, seen[n])
		}
	}
	// no hoisted definition outside the prologue
	inPro := map[ast.Node]bool{}
	for _, as := range x.Prologue {
		inPro[as] = true
	}
	ast.Inspect(in.Wrapper, func(n ast.Node) bool {
		if as, ok := n.(*ast.AssignStmt); ok && as.Tok == token.DEFINE && !inPro[as] {
			for _, l := range as.Lhs {
				if id, ok := l.(*ast.Ident); ok && hoistedRe.MatchString(id.Name) {
					bad = id.Name + " is defined outside the prologue"
				}
			}
		}
		return true
	})
	// the prologue is a prefix of the outermost closure and nothing generated is in scope there
	if len(x.Prologue) > 0 && in.Wrapper.Body.List[0] != ast.Stmt(x.Prologue[0]) {
		bad = "the prologue is not the first thing in the generated closure"
	}
	scoped := ""
	for _, fl := range []*ast.FieldList{in.Wrapper.Type.Params, in.Wrapper.Type.Results} {
		if fl != nil {
			for _, f := range fl.List {
				for _, nm := range f.Names {
					scoped = nm.Name
				}
			}
		}
	}
	rc.s.Check(bad == "", "V14", rc.key("prologue = the directive's argument expressions, once each, source text"), rc.pos(in.Wrapper), fmt.Sprintf("%d expressions hoisted", len(x.Prologue)), bad)
	rc.s.Check(ordered, "V14", rc.key("prologue in source order"), rc.pos(in.Wrapper), "", "hoisted argument expressions are not evaluated in source order")
	rc.s.Check(scoped == "", "V14", rc.key("no generated identifier in scope of the prologue"), rc.pos(in.Wrapper), "", "the closure that holds the prologue declares `"+scoped+"`, which captures user expressions using that name")
}
