package gen

import (
	"fmt"
	"go/ast"
	"go/token"
	"go/types"

	"cffverif/internal/astx"
)

func (rc *ruleCtx) jobsByRole(kind string, task int) []*Job {
	var out []*Job
	for _, j := range rc.x.Jobs {
		if j.RoleName != "" && j.Role.Kind == kind && j.Role.Task == task {
			out = append(out, j)
		}
	}
	return out
}

// perIterCopy: obj is declared in loop body by `obj := rv` where rv is the given range variable
// (or, when the governing go version has per-iteration loop variables, obj is rv itself).
func (rc *ruleCtx) perIterCopy(obj, rv types.Object, rs *ast.RangeStmt) bool {
	x, info := rc.x, rc.x.In.Info
	if obj == nil || rv == nil {
		return false
	}
	if obj == rv {
		return x.In.GoMinor >= 22
	}
	if !declaredIn(obj, rs.Body) {
		return false
	}
	init := x.singleDef(obj)
	if init == nil || astx.IdentObj(info, init) != rv {
		return false
	}
	// defined at the top level of the loop body
	d := x.declIdent(obj)
	as, ok := x.Par[d].(*ast.AssignStmt)
	return ok && as.Tok == token.DEFINE && x.Par[as] == ast.Node(rs.Body)
}

// V10 parallel once.
func (rc *ruleCtx) parallelOnce() {
	x, info := rc.x, rc.x.In.Info
	if x.In.Kind != "parallel" {
		return
	}
	for _, j := range x.Jobs {
		if j.RoleName == "" {
			continue
		}
		name := rc.jobName(j)
		switch j.Role.Kind {
		case "ptask":
			rc.s.Check(j.Loop == nil && len(x.Par.Known(j.Enq, x.W)) == 0, "V10", rc.key(name+" enqueued once, unconditionally"), rc.pos(j.Enq), "", "a Task function is enqueued in a loop or conditionally")
		case "slicefn", "mapfn":
			coll := "slice"
			endKind := "sliceend"
			if j.Role.Kind == "mapfn" {
				coll, endKind = "map", "mapend"
			}
			rs, _ := j.Loop.(*ast.RangeStmt)
			key := rc.key(name + " one job per element")
			if rs == nil || x.loopWithinWrapper(rs) != nil {
				rc.s.Bad("V10", key, rc.pos(j.Enq), "element function is not enqueued inside a single range loop over the collection")
				continue
			}
			// the ranged expression is (a single-def copy of) the hoisted collection
			ro := astx.IdentObj(info, rs.X)
			if ro != nil {
				if _, isH := x.Hoisted[ro]; !isH {
					if init := x.singleDef(ro); init != nil {
						ro = astx.IdentObj(info, init)
					}
				}
			}
			hn, isH := x.Hoisted[ro]
			role, hasRole := x.In.Roles[hn]
			if !isH || (hasRole && (role.Kind != coll || role.Task != j.Role.Task)) {
				rc.s.Bad("V10", key, rc.pos(rs), "the loop does not range over the directive's collection argument")
				continue
			}
			if len(x.Par.Known(j.Enq, rs)) != 0 || x.Par.InLoop(j.Enq) != ast.Stmt(rs) {
				rc.s.Bad("V10", key, rc.pos(j.Enq), "Enqueue is conditional within the iteration (or nested in another loop): some elements are skipped or enqueued repeatedly")
				continue
			}
			if j.Holder != nil && !declaredIn(j.Holder, rs.Body) {
				rc.s.Bad("V10", key, rc.pos(j.Enq), "the per-element task struct is shared between iterations: all jobs run the last closure")
				continue
			}
			if j.Lit == nil || len(j.Calls) != 1 || !x.Par.Within(j.Lit, rs.Body) {
				rc.s.Bad("V10", key, rc.pos(j.Enq), "the element closure is not created inside the loop body")
				continue
			}
			// arguments
			call := j.Calls[0]
			args := call.Args
			if len(args) > 0 && astx.IdentObj(info, args[0]) == j.CtxObj && j.CtxObj != nil {
				args = args[1:]
			}
			kObj, vObj := types.Object(nil), types.Object(nil)
			if rs.Key != nil {
				kObj = astx.IdentObj(info, rs.Key)
			}
			if rs.Value != nil {
				vObj = astx.IdentObj(info, rs.Value)
			}
			good := false
			switch {
			case coll == "map" && len(args) == 2:
				good = rc.perIterCopy(astx.IdentObj(info, args[0]), kObj, rs) && rc.perIterCopy(astx.IdentObj(info, args[1]), vObj, rs)
			case coll == "slice" && len(args) == 2:
				good = rc.perIterCopy(astx.IdentObj(info, args[0]), kObj, rs) && rc.perIterCopy(astx.IdentObj(info, args[1]), vObj, rs)
			case coll == "slice" && len(args) == 1:
				good = rc.perIterCopy(astx.IdentObj(info, args[0]), vObj, rs)
			}
			if !good {
				rc.s.Bad("V10", key, rc.pos(call), "the element function is not called with per-iteration copies of (index/key, value) of this loop, in that order: with go < 1.22 loop-variable semantics every job would see the last element")
				continue
			}
			rc.s.OK("V10", key, rc.pos(j.Enq), "one unconditional Enqueue per iteration, closure and arguments are per-iteration")
			// End hook
			ends := rc.jobsByRole(endKind, j.Role.Task)
			if len(ends) == 0 {
				continue
			}
			e := ends[0]
			ekey := rc.key(fmt.Sprintf("%s#%d runs once after all elements", endKind, e.Role.Task))
			d, _ := astx.Unparen(e.Deps).(*ast.Ident)
			switch {
			case e.Loop != nil || e.Enq.Pos() < rs.End() || len(x.Par.Known(e.Enq, x.W)) != 0:
				rc.s.Bad("V10", ekey, rc.pos(e.Enq), "the End job is not enqueued exactly once after the element loop")
			case d == nil || j.ResLoc != d.Name+"[]":
				rc.s.Bad("V10", ekey, rc.pos(e.Enq), "the End job's Dependencies is not the slice that receives every element job: the hook can run before (or despite a failure of) some element")
			default:
				// the store is the statement containing the Enqueue: unconditional (checked above). For the indexed form the index must be this loop's index.
				okStore := true
				if as, ok := x.Par[j.Enq].(*ast.AssignStmt); ok {
					if ix, ok := astx.Unparen(as.Lhs[0]).(*ast.IndexExpr); ok {
						io := astx.IdentObj(info, ix.Index)
						okStore = io != nil && (io == kObj || rc.perIterCopy(io, kObj, rs))
						// and the slice was made with len(collection)
						okStore = okStore && rc.madeWithLen(astx.IdentObj(info, ix.X), rs.X)
					}
				}
				// no other writes to the dependency slice
				dobj := info.Uses[d]
				nW := 0
				astx.Writes(x.Body, func(l ast.Expr, at ast.Node) {
					if lc, ok := locOfExpr(info, l); ok && lc.obj == dobj {
						if as, ok := at.(*ast.AssignStmt); ok && as.Tok == token.DEFINE {
							return
						}
						nW++
					}
				})
				rc.s.Check(okStore && nW == 1, "V10", ekey, rc.pos(e.Enq), "Dependencies holds the job of every iteration", "element jobs are not all stored (wrong index / extra writes) in the End job's dependency slice")
			}
		}
	}
}

// madeWithLen: obj := make([]T, len(<same collection>))
func (rc *ruleCtx) madeWithLen(obj types.Object, coll ast.Expr) bool {
	x, info := rc.x, rc.x.In.Info
	if obj == nil {
		return false
	}
	init := x.singleDefLoose(obj)
	c, ok := init.(*ast.CallExpr)
	if !ok || !astx.IsBuiltin(info, c, "make") || len(c.Args) != 2 {
		return false
	}
	lc, ok := c.Args[1].(*ast.CallExpr)
	return ok && astx.IsBuiltin(info, lc, "len") && len(lc.Args) == 1 && astx.Same(info, lc.Args[0], coll)
}

// singleDefLoose: the := initialiser, ignoring later element writes.
func (x *X) singleDefLoose(obj types.Object) ast.Expr {
	d := x.declIdent(obj)
	if as, ok := x.Par[d].(*ast.AssignStmt); ok && as.Tok == token.DEFINE && len(as.Lhs) == len(as.Rhs) {
		for i, l := range as.Lhs {
			if l == d {
				return as.Rhs[i]
			}
		}
	}
	return nil
}

// V11 predicate gate, V12 fallback.
func (rc *ruleCtx) predicateAndFallback() {
	x, info := rc.x, rc.x.In.Info
	if x.In.Kind != "flow" {
		return
	}
	for _, t := range x.Jobs {
		if t.RoleName == "" || t.Role.Kind != "task" || t.Lit == nil || len(t.Calls) != 1 {
			continue
		}
		call := t.Calls[0]
		d, g, _, _ := rc.guardOf(t)
		preds := rc.jobsByRole("pred", t.Role.Task)
		if t.Role.HasPred || len(preds) > 0 {
			key := rc.key("gate of " + rc.jobName(t))
			if len(preds) != 1 || preds[0].Lit == nil || len(preds[0].Calls) != 1 {
				rc.s.Bad("V11", key, rc.pos(t.Enq), "task with a predicate has no (single) predicate job")
			} else {
				p := preds[0]
				// predicate result variable
				var pv types.Object
				if as, ok := x.Par[p.Calls[0]].(*ast.AssignStmt); ok && len(as.Lhs) == 1 && as.Tok == token.ASSIGN {
					pv = astx.IdentObj(info, as.Lhs[0])
				}
				bad := ""
				if pv == nil || !types.Identical(pv.Type(), types.Typ[types.Bool]) || declaredIn(pv, p.Lit) {
					bad = "the predicate's result is not stored in a directive-level bool variable"
				}
				// predicate job never fails
				ast.Inspect(p.Lit.Body, func(n ast.Node) bool {
					if fl, ok := n.(*ast.FuncLit); ok && fl != p.Lit {
						return false
					}
					if r, ok := n.(*ast.ReturnStmt); ok && !(len(r.Results) == 0 || (len(r.Results) == 1 && astx.IsNil(info, r.Results[0]))) {
						bad = "the predicate job returns a non-nil error"
					}
					return true
				})
				astx.Writes(p.Lit.Body, func(l ast.Expr, _ ast.Node) {
					if astx.IdentObj(info, l) == p.ErrObj && p.ErrObj != nil {
						bad = "the predicate job assigns its error result: a predicate panic would fail the flow even with FallbackWith"
					}
				})
				// gate
				conds := x.Par.Known(call, t.Lit)
				gated := false
				var gateIf ast.Node
				for _, c := range conds {
					if c.Pos && astx.IdentObj(info, c.E) == pv && pv != nil {
						gated = true
						gateIf = c.At
					}
				}
				if bad == "" && !gated {
					bad = "the task's user call is not dominated by the predicate-true edge: the task runs although its predicate returned false"
				}
				if bad == "" {
					is, ok := gateIf.(*ast.IfStmt)
					if !ok || len(is.Body.List) != 1 || is.Else != nil {
						bad = "the predicate-false branch does more than `return nil`"
					} else if r, ok := is.Body.List[0].(*ast.ReturnStmt); !ok || !(len(r.Results) == 1 && astx.IsNil(info, r.Results[0])) {
						bad = "the predicate-false branch does not return nil (the flow must still succeed, outputs stay zero)"
					} else if d == nil || d.Pos() > is.Pos() {
						bad = "the recover handler is registered after the gate: a predicate panic cannot be folded into the task"
					}
				}
				_ = g
				if bad != "" {
					rc.s.Bad("V11", key, rc.pos(call), bad)
				} else {
					rc.s.OK("V11", key, rc.pos(call), "call dominated by p == true; false edge is `return nil`; handler registered before the gate; predicate job never fails")
				}
			}
		}
		// V12 fallback
		key := rc.key("fallback of " + rc.jobName(t))
		as, _ := x.Par[call].(*ast.AssignStmt)
		var outs []types.Object
		if as != nil {
			for _, l := range as.Lhs {
				if o := astx.IdentObj(info, l); o != nil && o != t.ErrObj {
					outs = append(outs, o)
				}
			}
		}
		isOut := func(o types.Object) bool {
			for _, q := range outs {
				if q == o {
					return true
				}
			}
			return false
		}
		// classify every assignment in the closure (other than the call statement) that writes an output or clears err
		nErrEdge, nPanicEdge := 0, 0
		bad := ""
		astx.Writes(t.Lit.Body, func(l ast.Expr, at ast.Node) {
			a2, ok := at.(*ast.AssignStmt)
			if !ok || at == ast.Node(as) || l != a2.Lhs[0] {
				return
			}
			touches := false
			for _, q := range a2.Lhs {
				o := astx.IdentObj(info, q)
				if isOut(o) {
					touches = true
				}
				if o == t.ErrObj && astx.IsNil(info, a2.Rhs[len(a2.Rhs)-1]) && len(a2.Rhs) == len(a2.Lhs) {
					touches = true
				}
			}
			if !touches {
				return
			}
			// shape: outs..., err = fb..., nil
			shape := len(a2.Lhs) == len(outs)+1 && len(a2.Rhs) == len(a2.Lhs) && astx.IdentObj(info, a2.Lhs[len(outs)]) == t.ErrObj && astx.IsNil(info, a2.Rhs[len(outs)])
			for i := 0; shape && i < len(outs); i++ {
				if astx.IdentObj(info, a2.Lhs[i]) != outs[i] {
					shape = false
				}
				ho := astx.IdentObj(info, a2.Rhs[i])
				hn, isH := x.Hoisted[ho]
				if !isH {
					shape = false
				} else if r, ok := x.In.Roles[hn]; ok && !(r.Kind == "fallback" && r.Task == t.Role.Task && r.Index == i) {
					shape = false
				}
			}
			if !shape {
				bad = "an assignment to the task's outputs is neither the user call nor `outputs..., err = fallbacks..., nil`"
				return
			}
			if g != nil && x.Par.Within(at, g) {
				conds := x.Par.Known(at, g)
				if len(conds) == 1 && !conds[0].Pos {
					if _, ok := astx.EqNil(info, conds[0].E); ok {
						nPanicEdge++
						return
					}
				}
				bad = "fallback in the recover handler is not exactly under `recovered != nil`"
				return
			}
			conds := x.Par.Known(at, t.Lit)
			okEdge := at.Pos() > call.End() && condNil(info, conds, t.ErrObj, false)
			extra := 0
			for _, c := range conds {
				if e, ok := astx.EqNil(info, c.E); ok && astx.IdentObj(info, e) == t.ErrObj {
					continue
				}
				if c.At.Pos() < call.Pos() {
					continue // the predicate gate
				}
				extra++
			}
			if okEdge && extra == 0 {
				nErrEdge++
			} else {
				bad = "fallback values are assigned on a path other than the task's `err != nil` edge (they would replace results of a successful task)"
			}
		})
		want := 0
		if t.Role.Fallback {
			want = 1
		}
		switch {
		case bad != "":
			rc.s.Bad("V12", key, rc.pos(call), bad)
		case x.In.Origin == "X" && (nErrEdge != want || nPanicEdge != want):
			rc.s.Bad("V12", key, rc.pos(call), fmt.Sprintf("FallbackWith=%v but fallback assignments: %d on the error edge, %d on the panic edge (want %d each)", t.Role.Fallback, nErrEdge, nPanicEdge, want))
		case nErrEdge != nPanicEdge && t.Role.HasError:
			rc.s.Bad("V12", key, rc.pos(call), fmt.Sprintf("fallback applied on %d error edge(s) but %d panic edge(s)", nErrEdge, nPanicEdge))
		default:
			rc.s.OK("V12", key, rc.pos(call), fmt.Sprintf("fallback assignments: error edge %d, panic edge %d; outputs written nowhere else", nErrEdge, nPanicEdge))
		}
	}
}

// V17 atomic ran.
func (rc *ruleCtx) atomicRan() {
	x, info := rc.x, rc.x.In.Info
	n := 0
	bad := ""
	ast.Inspect(x.Body, func(nn ast.Node) bool {
		se, ok := nn.(*ast.SelectorExpr)
		if !ok {
			return true
		}
		sel := info.Selections[se]
		if sel == nil || sel.Kind() != types.FieldVal {
			return true
		}
		nt, ok := types.Unalias(sel.Type()).(*types.Named)
		if !ok || nt.Obj().Pkg() == nil || nt.Obj().Pkg().Path() != "sync/atomic" {
			if se.Sel.Name == "ran" {
				bad = "the `ran` flag is not a sync/atomic type"
			}
			return true
		}
		n++
		p, ok := x.Par[se].(*ast.SelectorExpr)
		if !ok || p.X != ast.Expr(se) {
			bad = "an atomic field is used other than through its methods (copied or addressed)"
			return true
		}
		if c, ok := x.Par[p].(*ast.CallExpr); !ok || c.Fun != ast.Expr(p) {
			bad = "an atomic field's method is taken as a value"
		}
		return true
	})
	if n == 0 && bad == "" {
		return
	}
	rc.s.Check(bad == "", "V17", rc.key("atomic flags used only through Load/Store"), "", fmt.Sprintf("%d uses", n), bad)
}
