package goeval

import (
	"fmt"
	"os"
	"reflect"
	"testing"

	"golang.org/x/tools/go/packages"

	"cffverif/internal/goeval/testfuncs"
)

func loadTestfuncs(t *testing.T) *Interp {
	t.Helper()
	cfg := &packages.Config{Mode: packages.NeedName | packages.NeedFiles | packages.NeedSyntax | packages.NeedTypes | packages.NeedTypesInfo | packages.NeedImports | packages.NeedDeps,
		Env: append(os.Environ(), "GOFLAGS=-mod=mod", "GOPROXY=off", "GOSUMDB=off", "GOWORK=off")}
	pkgs, err := packages.Load(cfg, "cffverif/internal/goeval/testfuncs")
	if err != nil || len(pkgs) != 1 || len(pkgs[0].Errors) > 0 {
		t.Fatalf("load: %v %v", err, pkgs)
	}
	return New(pkgs[0])
}

func callNamed(t *testing.T, it *Interp, name string, args ...Value) []Value {
	t.Helper()
	fn := it.LookupFunc("cffverif/internal/goeval/testfuncs", "", name)
	if fn == nil {
		t.Fatalf("function %s not found", name)
	}
	it.Reset()
	vs, err := it.Call(it.FuncOf(fn, nil, false), args)
	if err != nil {
		t.Fatalf("%s: %v", name, err)
	}
	return vs
}

func strs(xs ...string) []any {
	out := make([]any, len(xs))
	for i, x := range xs {
		out[i] = x
	}
	return out
}

// The interpreted result of every function equals the compiled one.
func TestDifferential(t *testing.T) {
	it := loadTestfuncs(t)
	check := func(name string, got, want any) {
		t.Helper()
		if !reflect.DeepEqual(got, want) {
			t.Errorf("%s: interpreted %#v, compiled %#v", name, got, want)
		}
	}
	check("Boxes", callNamed(t, it, "Boxes", "a", "b", "a")[0], testfuncs.Boxes("a", "b", "a"))
	check("Boxes0", callNamed(t, it, "Boxes")[0], testfuncs.Boxes())
	check("Aliases", callNamed(t, it, "Aliases")[0], testfuncs.Aliases())
	for _, n := range []int{0, 3, 6} {
		check(fmt.Sprint("Labels", n), callNamed(t, it, "Labels", n)[0], testfuncs.Labels(n))
	}
	in := []string{"ccc", "a", "bb", "aa", "b"}
	got := callNamed(t, it, "Sorted", strs(in...))[0].([]any)
	check("Sorted", got, strs(testfuncs.Sorted(in)...))
	for _, s := range []string{"abc", "xaxbx", "xxxx", ""} {
		vs := callNamed(t, it, "Deferred", s)
		wout, werr := testfuncs.Deferred(s)
		check("Deferred out "+s, vs[0], wout)
		if (werr == nil) != (vs[1] == nil) {
			t.Errorf("Deferred(%q) error: interpreted %v, compiled %v", s, vs[1], werr)
		}
		if e, ok := vs[1].(*ErrV); ok && werr != nil && e.Msg != werr.Error() {
			t.Errorf("Deferred(%q) error text: %q vs %q", s, e.Msg, werr.Error())
		}
	}
	check("Generics", callNamed(t, it, "Generics", []any{1, 2, 12})[0], testfuncs.Generics([]int{1, 2, 12}))
	for _, k := range []int{1, 2, 3, 4, 12, -1} {
		check(fmt.Sprint("Switches", k), callNamed(t, it, "Switches", k)[0], testfuncs.Switches(k))
	}
	check("Dynamic", callNamed(t, it, "Dynamic")[0], testfuncs.Dynamic())
	check("Copies", callNamed(t, it, "Copies")[0], testfuncs.Copies())
	for _, s := range []string{"hello", "ab"} {
		check("Bytes "+s, callNamed(t, it, "Bytes", s)[0], testfuncs.Bytes(s))
	}
	check("Pointers", callNamed(t, it, "Pointers")[0], testfuncs.Pointers())
	for _, s := range []string{"ctx := new(T); x.err = v12 // c\n\"s\" len(q)", ""} {
		check("Library "+s, callNamed(t, it, "Library", s)[0], testfuncs.Library(s))
	}
}

// A branch on an unknown value stops the evaluation unless && / || absorb it.
func TestUnknown(t *testing.T) {
	it := loadTestfuncs(t)
	fn := it.LookupFunc("cffverif/internal/goeval/testfuncs", "", "Switches")
	it.Reset()
	if _, err := it.Call(it.FuncOf(fn, nil, false), []Value{&Unknown{"k"}}); err == nil {
		t.Fatal("a switch on an unknown tag was evaluated")
	}
	it.Assume = func(string) bool { return false }
	it.Reset()
	vs, err := it.Call(it.FuncOf(fn, nil, false), []Value{&Unknown{"k"}})
	if err != nil || vs[0] != "other" || it.Assumed == 0 {
		t.Fatalf("with assumptions: %v %v (%d assumed)", vs, err, it.Assumed)
	}
}
