package goeval

import (
	"fmt"
	"go/ast"
	"go/constant"
	"go/token"
	"go/types"
	"path/filepath"
	"strings"
	"text/template"

	"golang.org/x/tools/go/packages"
)

type declInfo struct {
	fd  *ast.FuncDecl
	pkg *packages.Package
}

type litInfo struct {
	lit *ast.FuncLit
	pkg *packages.Package
}

// Interp evaluates functions of the given packages.
type Interp struct {
	Pkgs    []*packages.Package
	decls   map[*types.Func]*declInfo
	Natives map[string]func(it *Interp, args []Value) ([]Value, error)             // functions of other packages, by FullName
	Methods map[string]func(it *Interp, recv Value, args []Value) ([]Value, error) // methods of other packages, by FullName
	Globals map[types.Object]Value
	// GlobalInit supplies the value of a package-level variable that cannot be evaluated (an embed.FS).
	GlobalInit func(v *types.Var) (Value, bool)
	// Zero supplies zero values of struct types of other packages (bytes.Buffer, typeutil.Map, ...).
	Zero func(t *types.Named) (Value, bool)
	// FieldDefault supplies the value of a field of a struct object that was never set (the client's configuration of
	// the generator); ok=false means: the zero value of the field's type.
	FieldDefault func(obj map[string]any, field *types.Var) (Value, bool)

	// Assume, if set, decides a branch whose condition the abstract input does not determine (the client explores
	// the alternatives); Assumed counts how often it was asked.
	Assume  func(why string) bool
	Assumed int

	steps    int
	MaxSteps int
	depth    int

	brkLabel  string // label of a pending labelled break/continue
	nextLabel string // label of the statement about to be executed

	execs      []Exec
	qualified  []string
	parsed     []string
	tmpls      []*template.Template
	methodKeys map[string]bool
	funcErr    error
}

// EvalError is any reason the evaluation cannot proceed.
type EvalError struct {
	Pos string
	Msg string
}

func (e *EvalError) Error() string {
	if e.Pos != "" {
		return e.Pos + ": " + e.Msg
	}
	return e.Msg
}

func New(pkgs ...*packages.Package) *Interp {
	it := &Interp{Pkgs: pkgs, decls: map[*types.Func]*declInfo{}, Natives: map[string]func(*Interp, []Value) ([]Value, error){}, Methods: map[string]func(*Interp, Value, []Value) ([]Value, error){}, Globals: map[types.Object]Value{}, MaxSteps: 400000}
	for _, p := range pkgs {
		for _, f := range p.Syntax {
			for _, d := range f.Decls {
				if fd, ok := d.(*ast.FuncDecl); ok && fd.Body != nil {
					if fn, ok := p.TypesInfo.Defs[fd.Name].(*types.Func); ok {
						it.decls[fn] = &declInfo{fd, p}
					}
				}
			}
		}
	}
	installNatives(it)
	return it
}

// Reset clears the step counter (call before each top-level evaluation).
func (it *Interp) Reset() { it.steps = 0; it.depth = 0 }

type cell struct{ v Value }

type env struct {
	vars   map[types.Object]*cell
	parent *env
	pkg    *packages.Package
	defers []func() error
	// named results of the function this env is the root activation of
	results []types.Object
	root    *env
}

func (e *env) lookup(o types.Object) *cell {
	for x := e; x != nil; x = x.parent {
		if c, ok := x.vars[o]; ok {
			return c
		}
	}
	return nil
}

func (e *env) define(o types.Object, v Value) {
	if o == nil {
		return
	}
	e.vars[o] = &cell{v}
}

func (it *Interp) errAt(e *env, n ast.Node, format string, a ...any) error {
	pos := ""
	if e != nil && e.pkg != nil && n != nil && n.Pos().IsValid() {
		p := e.pkg.Fset.Position(n.Pos())
		f := p.Filename
		if i := strings.LastIndex(f, "/internal/"); i >= 0 {
			f = f[i+1:]
		}
		pos = fmt.Sprintf("%s:%d", f, p.Line)
	}
	return &EvalError{Pos: pos, Msg: fmt.Sprintf(format, a...)}
}

// FuncOf returns the function value for a declared function or method (recv may be nil for functions).
func (it *Interp) FuncOf(fn *types.Func, recv Value, hasRecv bool) *Func {
	return &Func{Name: fn.FullName(), Obj: fn, decl: it.decls[fn], Recv: recv, hasRcv: hasRecv}
}

// LookupFunc finds a package-level function or a method ("T.m") by name in the loaded packages.
func (it *Interp) LookupFunc(pkgPath, recv, name string) *types.Func {
	for fn := range it.decls {
		if fn.Name() != name || fn.Pkg() == nil || fn.Pkg().Path() != pkgPath {
			continue
		}
		sig := fn.Type().(*types.Signature)
		if recv == "" {
			if sig.Recv() == nil {
				return fn
			}
			continue
		}
		if sig.Recv() == nil {
			continue
		}
		t := sig.Recv().Type()
		if p, ok := t.(*types.Pointer); ok {
			t = p.Elem()
		}
		if n, ok := t.(*types.Named); ok && n.Obj().Name() == recv {
			return fn
		}
	}
	return nil
}

// TypeByName finds a named type of the loaded packages.
func (it *Interp) TypeByName(name string) *types.Named {
	for _, p := range it.Pkgs {
		if tn, ok := p.Types.Scope().Lookup(name).(*types.TypeName); ok {
			if n, ok := tn.Type().(*types.Named); ok {
				return n
			}
		}
	}
	return nil
}

// Call calls a function value.
func (it *Interp) Call(f *Func, args []Value) ([]Value, error) {
	it.depth++
	defer func() { it.depth-- }()
	if it.depth > 200 {
		return nil, &EvalError{Msg: "call depth exceeded in " + f.Name}
	}
	if f.Native != nil {
		return f.Native(it, args)
	}
	switch {
	case f.decl != nil:
		fd := f.decl.fd
		e := &env{vars: map[types.Object]*cell{}, pkg: f.decl.pkg}
		e.root = e
		info := f.decl.pkg.TypesInfo
		if fd.Recv != nil && len(fd.Recv.List) == 1 && len(fd.Recv.List[0].Names) == 1 {
			rn := fd.Recv.List[0].Names[0]
			e.define(info.Defs[rn], it.byValue(info.TypeOf(rn), f.Recv))
		}
		return it.callBody(e, fd.Type, fd.Body, args, f.Name)
	case f.lit != nil:
		e := &env{vars: map[types.Object]*cell{}, pkg: f.lit.pkg, parent: f.env}
		e.root = e
		return it.callBody(e, f.lit.lit.Type, f.lit.lit.Body, args, f.Name)
	case f.Obj != nil:
		if f.hasRcv {
			return it.callMethodDynamic(nil, nil, f.Recv, f.Obj, args)
		}
		if nat, ok := it.Natives[f.Obj.FullName()]; ok {
			return nat(it, args)
		}
		return nil, &EvalError{Msg: "no summary for function " + f.Obj.FullName()}
	}
	return nil, &EvalError{Msg: "call of a function value without a body: " + f.Name}
}

func (it *Interp) callBody(e *env, ft *ast.FuncType, body *ast.BlockStmt, args []Value, name string) ([]Value, error) {
	info := e.pkg.TypesInfo
	// parameters
	var params []*ast.Ident
	variadic := false
	if ft.Params != nil {
		for _, f := range ft.Params.List {
			if _, ok := f.Type.(*ast.Ellipsis); ok {
				variadic = true
			}
			if len(f.Names) == 0 {
				params = append(params, nil)
			}
			for _, n := range f.Names {
				params = append(params, n)
			}
		}
	}
	for i, p := range params {
		var v Value
		switch {
		case variadic && i == len(params)-1:
			if len(args) == len(params) {
				if s, ok := args[i].(spread); ok {
					v = []any(s)
					break
				}
			}
			rest := []any{}
			if i < len(args) {
				rest = append(rest, args[i:]...)
			}
			v = rest
		case i < len(args):
			v = args[i]
		default:
			return nil, &EvalError{Msg: fmt.Sprintf("call of %s with %d arguments", name, len(args))}
		}
		if p != nil {
			e.define(info.Defs[p], it.byValue(info.TypeOf(p), v))
		}
	}
	nres := 0
	if ft.Results != nil {
		for _, f := range ft.Results.List {
			if len(f.Names) == 0 {
				nres++
			}
			for _, n := range f.Names {
				nres++
				o := info.Defs[n]
				e.define(o, it.zero(info.TypeOf(f.Type)))
				e.results = append(e.results, o)
			}
		}
	}
	c, vals, err := it.execBlock(e, body.List)
	// deferred calls, last first
	for i := len(e.defers) - 1; i >= 0; i-- {
		if derr := e.defers[i](); derr != nil && err == nil {
			err = derr
		}
	}
	if err != nil {
		return nil, err
	}
	if c == ctlReturn {
		if ft.Results != nil && len(e.results) == 0 {
			k := 0
			for _, f := range ft.Results.List {
				n := len(f.Names)
				if n == 0 {
					n = 1
				}
				for j := 0; j < n; j++ {
					if k < len(vals) {
						vals[k] = it.byValue(info.TypeOf(f.Type), vals[k])
					}
					k++
				}
			}
		}
		if len(e.results) > 0 {
			// named results: what the return statement stored there, as deferred functions left it
			vals = vals[:0]
			for _, o := range e.results {
				vals = append(vals, e.vars[o].v)
			}
		}
		return vals, nil
	}
	if nres == 0 {
		return nil, nil
	}
	if len(e.results) > 0 {
		for _, o := range e.results {
			vals = append(vals, e.vars[o].v)
		}
		return vals, nil
	}
	return nil, &EvalError{Msg: "function " + name + " ended without a return"}
}

type spread []any

type ctl int

const (
	ctlNone ctl = iota
	ctlBreak
	ctlContinue
	ctlReturn
)

func (it *Interp) tick(e *env, n ast.Node) error {
	it.steps++
	if it.steps > it.MaxSteps {
		return it.errAt(e, n, "evaluation budget exhausted")
	}
	return nil
}

func (it *Interp) execBlock(e *env, list []ast.Stmt) (ctl, []Value, error) {
	for _, s := range list {
		c, v, err := it.exec(e, s)
		if err != nil || c != ctlNone {
			return c, v, err
		}
	}
	return ctlNone, nil, nil
}

func (it *Interp) child(e *env) *env {
	return &env{vars: map[types.Object]*cell{}, parent: e, pkg: e.pkg, root: e.root}
}

func (it *Interp) truth(e *env, n ast.Node, v Value) (bool, error) {
	switch x := v.(type) {
	case bool:
		return x, nil
	case *Unknown:
		if it.Assume != nil {
			it.Assumed++
			return it.Assume(x.Why), nil
		}
		return false, it.errAt(e, n, "the branch depends on a value the abstract input does not determine (%s)", x.Why)
	}
	return false, it.errAt(e, n, "condition is not a boolean: %s", Show(v))
}

func (it *Interp) exec(e *env, s ast.Stmt) (ctl, []Value, error) {
	if err := it.tick(e, s); err != nil {
		return 0, nil, err
	}
	info := e.pkg.TypesInfo
	switch x := s.(type) {
	case *ast.BlockStmt:
		return it.execBlock(it.child(e), x.List)
	case *ast.ExprStmt:
		_, err := it.evalMulti(e, x.X)
		return ctlNone, nil, err
	case *ast.EmptyStmt:
		return ctlNone, nil, nil
	case *ast.DeclStmt:
		gd, ok := x.Decl.(*ast.GenDecl)
		if !ok {
			return 0, nil, it.errAt(e, s, "unsupported declaration")
		}
		for _, sp := range gd.Specs {
			vs, ok := sp.(*ast.ValueSpec)
			if !ok {
				continue // type and const declarations need no evaluation (constants are folded by the type checker)
			}
			if gd.Tok == token.CONST {
				continue
			}
			var vals []Value
			if len(vs.Values) == 1 && len(vs.Names) > 1 {
				var err error
				vals, err = it.evalMulti(e, vs.Values[0])
				if err != nil {
					return 0, nil, err
				}
			} else {
				for _, ve := range vs.Values {
					v, err := it.eval(e, ve)
					if err != nil {
						return 0, nil, err
					}
					vals = append(vals, v)
				}
			}
			for i, n := range vs.Names {
				if i < len(vals) {
					e.define(info.Defs[n], it.byValue(info.TypeOf(n), vals[i]))
				} else {
					e.define(info.Defs[n], it.zero(info.TypeOf(n)))
				}
			}
		}
		return ctlNone, nil, nil
	case *ast.AssignStmt:
		return ctlNone, nil, it.assign(e, x)
	case *ast.IncDecStmt:
		v, err := it.eval(e, x.X)
		if err != nil {
			return 0, nil, err
		}
		d := 1
		if x.Tok == token.DEC {
			d = -1
		}
		var nv Value
		switch n := v.(type) {
		case int:
			nv = n + d
		case *Unknown:
			nv = n
		default:
			return 0, nil, it.errAt(e, s, "++/-- on %s", Show(v))
		}
		return ctlNone, nil, it.store(e, x.X, nv)
	case *ast.ReturnStmt:
		var vals []Value
		if len(x.Results) == 1 {
			vs, err := it.evalMulti(e, x.Results[0])
			if err != nil {
				return 0, nil, err
			}
			vals = vs
		} else {
			for _, r := range x.Results {
				v, err := it.eval(e, r)
				if err != nil {
					return 0, nil, err
				}
				vals = append(vals, v)
			}
		}
		if len(x.Results) > 0 && e.root != nil && len(e.root.results) == len(vals) {
			// named results are visible to deferred functions
			for i, o := range e.root.results {
				e.root.vars[o].v = vals[i]
			}
		}
		return ctlReturn, vals, nil
	case *ast.IfStmt:
		ie := it.child(e)
		if x.Init != nil {
			if _, _, err := it.exec(ie, x.Init); err != nil {
				return 0, nil, err
			}
		}
		cv, err := it.eval(ie, x.Cond)
		if err != nil {
			return 0, nil, err
		}
		b, err := it.truth(ie, x.Cond, cv)
		if err != nil {
			return 0, nil, err
		}
		if b {
			return it.execBlock(it.child(ie), x.Body.List)
		}
		if x.Else != nil {
			return it.exec(ie, x.Else)
		}
		return ctlNone, nil, nil
	case *ast.ForStmt:
		myLabel := it.nextLabel
		it.nextLabel = ""
		fe := it.child(e)
		if x.Init != nil {
			if _, _, err := it.exec(fe, x.Init); err != nil {
				return 0, nil, err
			}
		}
		for {
			if x.Cond != nil {
				cv, err := it.eval(fe, x.Cond)
				if err != nil {
					return 0, nil, err
				}
				b, err := it.truth(fe, x.Cond, cv)
				if err != nil {
					return 0, nil, err
				}
				if !b {
					break
				}
			}
			c, v, err := it.execBlock(it.child(fe), x.Body.List)
			if err != nil {
				return 0, nil, err
			}
			if (c == ctlBreak || c == ctlContinue) && it.brkLabel != "" {
				if it.brkLabel != myLabel {
					return c, nil, nil // for an enclosing loop
				}
				it.brkLabel = ""
			}
			if c == ctlBreak {
				break
			}
			if c == ctlReturn {
				return c, v, nil
			}
			if x.Post != nil {
				if _, _, err := it.exec(fe, x.Post); err != nil {
					return 0, nil, err
				}
			}
		}
		return ctlNone, nil, nil
	case *ast.RangeStmt:
		return it.execRange(e, x)
	case *ast.BranchStmt:
		if x.Label != nil {
			if x.Tok != token.BREAK && x.Tok != token.CONTINUE {
				return 0, nil, it.errAt(e, s, "%s to a label is not supported", x.Tok)
			}
			it.brkLabel = x.Label.Name
		}
		switch x.Tok {
		case token.BREAK:
			return ctlBreak, nil, nil
		case token.CONTINUE:
			return ctlContinue, nil, nil
		}
		return 0, nil, it.errAt(e, s, "%s is not supported", x.Tok)
	case *ast.SwitchStmt:
		return it.execSwitch(e, x)
	case *ast.TypeSwitchStmt:
		return it.execTypeSwitch(e, x)
	case *ast.DeferStmt:
		call := x.Call
		fv, args, err := it.prepareCall(e, call)
		if err != nil {
			return 0, nil, err
		}
		root := e.root
		if root == nil {
			root = e
		}
		root.defers = append(root.defers, func() error {
			if fv == nil {
				return nil
			}
			_, err := it.Call(fv, args)
			return err
		})
		return ctlNone, nil, nil
	case *ast.LabeledStmt:
		it.nextLabel = x.Label.Name
		return it.exec(e, x.Stmt)
	}
	return 0, nil, it.errAt(e, s, "statement %T is not supported", s)
}

func (it *Interp) execRange(e *env, x *ast.RangeStmt) (ctl, []Value, error) {
	myLabel := it.nextLabel
	it.nextLabel = ""
	info := e.pkg.TypesInfo
	coll, err := it.eval(e, x.X)
	if err != nil {
		return 0, nil, err
	}
	type kv struct{ k, v Value }
	var items []kv
	switch c := coll.(type) {
	case nil:
	case []any:
		for i, v := range c {
			items = append(items, kv{i, v})
		}
	case *Map:
		for _, k := range c.Keys() {
			v, _ := c.Get(k)
			items = append(items, kv{k, v})
		}
	case string:
		for i, r := range c {
			items = append(items, kv{i, int(r)})
		}
	case int:
		for i := 0; i < c; i++ {
			items = append(items, kv{i, nil})
		}
	case spread:
		for i, v := range c {
			items = append(items, kv{i, v})
		}
	default:
		return 0, nil, it.errAt(e, x, "range over %s", Show(coll))
	}
	for _, item := range items {
		le := it.child(e)
		bind := func(ex ast.Expr, v Value) error {
			if ex == nil {
				return nil
			}
			if id, ok := ex.(*ast.Ident); ok && id.Name == "_" {
				return nil
			}
			if x.Tok == token.DEFINE {
				le.define(info.Defs[ex.(*ast.Ident)], v)
				return nil
			}
			return it.store(le, ex, v)
		}
		if err := bind(x.Key, item.k); err != nil {
			return 0, nil, err
		}
		if x.Value != nil {
			item.v = it.byValue(info.TypeOf(x.Value), item.v)
		}
		if err := bind(x.Value, item.v); err != nil {
			return 0, nil, err
		}
		c, v, err := it.execBlock(le, x.Body.List)
		if err != nil {
			return 0, nil, err
		}
		if (c == ctlBreak || c == ctlContinue) && it.brkLabel != "" {
			if it.brkLabel != myLabel {
				return c, nil, nil
			}
			it.brkLabel = ""
		}
		if c == ctlBreak {
			break
		}
		if c == ctlReturn {
			return c, v, nil
		}
	}
	return ctlNone, nil, nil
}

func (it *Interp) execSwitch(e *env, x *ast.SwitchStmt) (ctl, []Value, error) {
	se := it.child(e)
	if x.Init != nil {
		if _, _, err := it.exec(se, x.Init); err != nil {
			return 0, nil, err
		}
	}
	var tag Value = true
	if x.Tag != nil {
		v, err := it.eval(se, x.Tag)
		if err != nil {
			return 0, nil, err
		}
		tag = v
	}
	var deflt *ast.CaseClause
	for _, cs := range x.Body.List {
		cc := cs.(*ast.CaseClause)
		if cc.List == nil {
			deflt = cc
			continue
		}
		for _, ce := range cc.List {
			v, err := it.eval(se, ce)
			if err != nil {
				return 0, nil, err
			}
			eq := it.equal(tag, v)
			b, err := it.truth(se, ce, eq)
			if err != nil {
				return 0, nil, err
			}
			if b {
				return it.runClause(se, cc.Body)
			}
		}
	}
	if deflt != nil {
		return it.runClause(se, deflt.Body)
	}
	return ctlNone, nil, nil
}

func (it *Interp) runClause(e *env, body []ast.Stmt) (ctl, []Value, error) {
	for _, s := range body {
		if b, ok := s.(*ast.BranchStmt); ok && b.Tok == token.FALLTHROUGH {
			return 0, nil, it.errAt(e, s, "fallthrough is not supported")
		}
	}
	c, v, err := it.execBlock(it.child(e), body)
	if c == ctlBreak && it.brkLabel == "" {
		c = ctlNone
	}
	return c, v, err
}

func (it *Interp) execTypeSwitch(e *env, x *ast.TypeSwitchStmt) (ctl, []Value, error) {
	info := e.pkg.TypesInfo
	se := it.child(e)
	if x.Init != nil {
		if _, _, err := it.exec(se, x.Init); err != nil {
			return 0, nil, err
		}
	}
	var ta *ast.TypeAssertExpr
	switch a := x.Assign.(type) {
	case *ast.ExprStmt:
		ta, _ = a.X.(*ast.TypeAssertExpr)
	case *ast.AssignStmt:
		if len(a.Rhs) == 1 {
			ta, _ = a.Rhs[0].(*ast.TypeAssertExpr)
		}
	}
	if ta == nil {
		return 0, nil, it.errAt(e, x, "unsupported type switch")
	}
	v, err := it.eval(se, ta.X)
	if err != nil {
		return 0, nil, err
	}
	var deflt *ast.CaseClause
	for _, cs := range x.Body.List {
		cc := cs.(*ast.CaseClause)
		if cc.List == nil {
			deflt = cc
			continue
		}
		for _, te := range cc.List {
			var val Value
			var ok Value
			if id, isId := te.(*ast.Ident); isId && id.Name == "nil" {
				val, ok = nil, v == nil
			} else {
				val, ok = it.assert(v, info.TypeOf(te))
			}
			b, err := it.truth(se, te, ok)
			if err != nil {
				return 0, nil, err
			}
			if b {
				ce := it.child(se)
				if o := info.Implicits[cc]; o != nil {
					if len(cc.List) == 1 {
						ce.define(o, val)
					} else {
						ce.define(o, v)
					}
				}
				return it.runClause(ce, cc.Body)
			}
		}
	}
	if deflt != nil {
		ce := it.child(se)
		if o := info.Implicits[deflt]; o != nil {
			ce.define(o, v)
		}
		return it.runClause(ce, deflt.Body)
	}
	return ctlNone, nil, nil
}

// assign handles =, := and op=.
func (it *Interp) assign(e *env, x *ast.AssignStmt) error {
	info := e.pkg.TypesInfo
	if x.Tok != token.ASSIGN && x.Tok != token.DEFINE {
		// op=
		l, err := it.eval(e, x.Lhs[0])
		if err != nil {
			return err
		}
		r, err := it.eval(e, x.Rhs[0])
		if err != nil {
			return err
		}
		op := map[token.Token]token.Token{token.ADD_ASSIGN: token.ADD, token.SUB_ASSIGN: token.SUB, token.MUL_ASSIGN: token.MUL, token.QUO_ASSIGN: token.QUO, token.REM_ASSIGN: token.REM}[x.Tok]
		if op == 0 {
			return it.errAt(e, x, "operator %s is not supported", x.Tok)
		}
		v, err := it.binop(e, x, op, l, r)
		if err != nil {
			return err
		}
		return it.store(e, x.Lhs[0], v)
	}
	var vals []Value
	if len(x.Rhs) == 1 && len(x.Lhs) > 1 {
		vs, err := it.evalMulti(e, x.Rhs[0])
		if err != nil {
			return err
		}
		vals = vs
	} else {
		for _, r := range x.Rhs {
			v, err := it.eval(e, r)
			if err != nil {
				return err
			}
			vals = append(vals, v)
		}
	}
	if len(vals) != len(x.Lhs) {
		return it.errAt(e, x, "assignment of %d values to %d places", len(vals), len(x.Lhs))
	}
	if len(x.Rhs) == len(x.Lhs) {
		for i, r := range x.Rhs {
			vals[i] = it.byValue(info.TypeOf(r), vals[i])
		}
	} else if tup, ok := info.TypeOf(x.Rhs[0]).(*types.Tuple); ok && tup.Len() == len(vals) {
		for i := range vals {
			vals[i] = it.byValue(tup.At(i).Type(), vals[i])
		}
	}
	for i, l := range x.Lhs {
		if id, ok := l.(*ast.Ident); ok {
			if id.Name == "_" {
				continue
			}
			if x.Tok == token.DEFINE {
				if o := info.Defs[id]; o != nil {
					e.define(o, vals[i])
					continue
				}
			}
		}
		if err := it.store(e, l, vals[i]); err != nil {
			return err
		}
	}
	return nil
}

// fieldRef is a pointer to a field of a struct object that does not hold a reference-like value (&g.nextID).
type fieldRef struct {
	obj map[string]any
	f   *types.Var
}

func (it *Interp) store(e *env, l ast.Expr, v Value) error {
	info := e.pkg.TypesInfo
	switch x := l.(type) {
	case *ast.ParenExpr:
		return it.store(e, x.X, v)
	case *ast.Ident:
		if x.Name == "_" {
			return nil
		}
		o := info.ObjectOf(x)
		if c := e.lookup(o); c != nil {
			c.v = v
			return nil
		}
		if _, ok := o.(*types.Var); ok && o.Parent() == o.Pkg().Scope() {
			return it.errAt(e, l, "assignment to the package-level variable %s", x.Name)
		}
		return it.errAt(e, l, "assignment to undefined %s", x.Name)
	case *ast.SelectorExpr:
		base, err := it.eval(e, x.X)
		if err != nil {
			return err
		}
		if sel := info.Selections[x]; sel != nil && sel.Kind() == types.FieldVal {
			base, err = it.walkEmbedded(e, x, base, sel)
			if err != nil {
				return err
			}
		}
		o, ok := base.(map[string]any)
		if !ok {
			return it.errAt(e, l, "assignment to a field of %s", Show(base))
		}
		o[x.Sel.Name] = v
		return nil
	case *ast.IndexExpr:
		base, err := it.eval(e, x.X)
		if err != nil {
			return err
		}
		idx, err := it.eval(e, x.Index)
		if err != nil {
			return err
		}
		switch b := base.(type) {
		case []any:
			i, ok := idx.(int)
			if !ok || i < 0 || i >= len(b) {
				return it.errAt(e, l, "index %s out of range [0,%d)", Show(idx), len(b))
			}
			b[i] = v
			return nil
		case *Map:
			if IsUnknown(idx) {
				return it.errAt(e, l, "map key is not determined")
			}
			if b == nil {
				return it.errAt(e, l, "assignment to entry in nil map")
			}
			b.Set(idx, v)
			return nil
		case nil:
			return it.errAt(e, l, "assignment to entry in nil map or slice")
		}
		return it.errAt(e, l, "indexed assignment into %s", Show(base))
	case *ast.StarExpr:
		// *p = v where p refers to a struct object: copy the fields
		base, err := it.eval(e, x.X)
		if err != nil {
			return err
		}
		dst, ok1 := base.(map[string]any)
		src, ok2 := v.(map[string]any)
		if ok1 && ok2 {
			for k := range dst {
				delete(dst, k)
			}
			for k, val := range src {
				dst[k] = val
			}
			return nil
		}
		if c, ok := base.(*cell); ok {
			c.v = v
			return nil
		}
		if r, ok := base.(*fieldRef); ok {
			r.obj[r.f.Name()] = v
			return nil
		}
		return it.errAt(e, l, "assignment through a pointer to %s", Show(base))
	}
	return it.errAt(e, l, "assignment to %T is not supported", l)
}

// byValue gives v the value semantics of its static type t: a struct (or array) value is copied when it is
// assigned, passed or returned; everything else (pointers, maps, slices, interfaces) is shared.
func (it *Interp) byValue(t types.Type, v Value) Value {
	if t == nil || v == nil {
		return v
	}
	switch u := t.Underlying().(type) {
	case *types.Struct:
		o, ok := v.(map[string]any)
		if !ok {
			return v
		}
		c := make(map[string]any, len(o))
		for k, x := range o {
			c[k] = x
		}
		for i := 0; i < u.NumFields(); i++ {
			f := u.Field(i)
			if x, ok := c[f.Name()]; ok {
				c[f.Name()] = it.byValue(f.Type(), x)
			}
		}
		return c
	case *types.Array:
		xs, ok := v.([]any)
		if !ok {
			return v
		}
		c := make([]any, len(xs))
		for i, x := range xs {
			c[i] = it.byValue(u.Elem(), x)
		}
		return c
	}
	return v
}

// zero value of a type.
func (it *Interp) zero(t types.Type) Value {
	if t == nil {
		return nil
	}
	if n, ok := t.(*types.Named); ok && n.Obj().Pkg() != nil && n.Obj().Pkg().Path() == "go/token" && n.Obj().Name() == "Pos" {
		return Pos{}
	}
	switch u := t.Underlying().(type) {
	case *types.Basic:
		switch {
		case u.Info()&types.IsBoolean != 0:
			return false
		case u.Info()&types.IsInteger != 0:
			return 0
		case u.Info()&types.IsString != 0:
			return ""
		case u.Info()&types.IsFloat != 0:
			return &Unknown{"floating point"}
		}
		return nil
	case *types.Struct:
		if n, ok := t.(*types.Named); ok {
			if it.Zero != nil {
				if v, ok := it.Zero(n); ok {
					return v
				}
			}
			if v, ok := defaultZero(n); ok {
				return v
			}
			return map[string]any{TypeKey: n.Obj().Name()}
		}
		return map[string]any{TypeKey: ""}
	case *types.Array:
		out := make([]any, u.Len())
		for i := range out {
			out[i] = it.zero(u.Elem())
		}
		return out
	}
	return nil
}

func (it *Interp) structOf(name string) *types.Struct {
	if n := it.TypeByName(name); n != nil {
		s, _ := n.Underlying().(*types.Struct)
		return s
	}
	return nil
}

// field reads a field of a struct object; a field never set has the client's default or its zero value.
func (it *Interp) field(o map[string]any, f *types.Var) Value {
	if v, ok := o[f.Name()]; ok {
		return v
	}
	if it.FieldDefault != nil {
		if v, ok := it.FieldDefault(o, f); ok {
			o[f.Name()] = v
			return v
		}
	}
	v := it.zero(f.Type())
	o[f.Name()] = v
	return v
}

// walkEmbedded follows the implicit embedded-field steps of a selection and returns the struct that holds the
// selected field or method receiver.
func (it *Interp) walkEmbedded(e *env, n ast.Node, base Value, sel *types.Selection) (Value, error) {
	idx := sel.Index()
	t := sel.Recv()
	for _, i := range idx[:len(idx)-1] {
		if p, ok := t.Underlying().(*types.Pointer); ok {
			t = p.Elem()
		}
		st, ok := t.Underlying().(*types.Struct)
		if !ok {
			return nil, it.errAt(e, n, "embedded selection through %s", t)
		}
		f := st.Field(i)
		o, ok := base.(map[string]any)
		if !ok {
			if base == nil {
				return nil, it.errAt(e, n, "nil dereference selecting %s", f.Name())
			}
			return nil, it.errAt(e, n, "selection of %s in %s", f.Name(), Show(base))
		}
		base = it.field(o, f)
		t = f.Type()
	}
	return base, nil
}

func constValue(tv types.TypeAndValue) (Value, bool) {
	if tv.Value == nil {
		return nil, false
	}
	switch tv.Value.Kind() {
	case constant.Bool:
		return constant.BoolVal(tv.Value), true
	case constant.String:
		return constant.StringVal(tv.Value), true
	case constant.Int:
		if i, ok := constant.Int64Val(tv.Value); ok {
			return int(i), true
		}
	}
	return &Unknown{"constant " + tv.Value.String()}, true
}

// evalMulti evaluates an expression that may yield several values (a call, or a comma-ok form).
func (it *Interp) evalMulti(e *env, x ast.Expr) ([]Value, error) {
	info := e.pkg.TypesInfo
	switch y := ast.Unparen(x).(type) {
	case *ast.CallExpr:
		return it.call(e, y)
	case *ast.TypeAssertExpr:
		if tup, ok := info.TypeOf(x).(*types.Tuple); ok && tup.Len() == 2 {
			v, err := it.eval(e, y.X)
			if err != nil {
				return nil, err
			}
			val, ok := it.assert(v, info.TypeOf(y.Type))
			return []Value{val, ok}, nil
		}
	case *ast.IndexExpr:
		if tup, ok := info.TypeOf(x).(*types.Tuple); ok && tup.Len() == 2 {
			base, err := it.eval(e, y.X)
			if err != nil {
				return nil, err
			}
			idx, err := it.eval(e, y.Index)
			if err != nil {
				return nil, err
			}
			m, _ := base.(*Map)
			if base != nil && m == nil {
				return nil, it.errAt(e, x, "comma-ok index of %s", Show(base))
			}
			if IsUnknown(idx) {
				return []Value{idx, idx}, nil
			}
			v, ok := m.Get(idx)
			if !ok {
				mt, _ := info.TypeOf(y.X).Underlying().(*types.Map)
				if mt != nil {
					v = it.zero(mt.Elem())
				}
			}
			return []Value{v, ok}, nil
		}
	}
	v, err := it.eval(e, x)
	if err != nil {
		return nil, err
	}
	return []Value{v}, nil
}

func (it *Interp) global(e *env, n ast.Node, v *types.Var) (Value, error) {
	if val, ok := it.Globals[v]; ok {
		return val, nil
	}
	if it.GlobalInit != nil {
		if val, ok := it.GlobalInit(v); ok {
			it.Globals[v] = val
			return val, nil
		}
	}
	if v.Pkg() != nil && v.Pkg().Path() == "go/types" && v.Name() == "Universe" {
		return UniverseScope, nil
	}
	// evaluate the initialiser
	for _, p := range it.Pkgs {
		if p.Types != v.Pkg() {
			continue
		}
		if v.Type().String() == "embed.FS" {
			val := &FSV{Dir: filepath.Dir(p.Fset.Position(v.Pos()).Filename)}
			it.Globals[v] = val
			return val, nil
		}
		for _, f := range p.Syntax {
			for _, d := range f.Decls {
				gd, ok := d.(*ast.GenDecl)
				if !ok || gd.Tok != token.VAR {
					continue
				}
				for _, sp := range gd.Specs {
					vs := sp.(*ast.ValueSpec)
					for i, nm := range vs.Names {
						if p.TypesInfo.Defs[nm] != types.Object(v) {
							continue
						}
						ge := &env{vars: map[types.Object]*cell{}, pkg: p}
						ge.root = ge
						var val Value
						if i < len(vs.Values) && len(vs.Values) == len(vs.Names) {
							var err error
							val, err = it.eval(ge, vs.Values[i])
							if err != nil {
								return nil, err
							}
						} else if len(vs.Values) == 0 {
							val = it.zero(v.Type())
						} else {
							return nil, it.errAt(e, n, "package-level variable %s has a multi-value initialiser", v.Name())
						}
						it.Globals[v] = val
						return val, nil
					}
				}
			}
		}
	}
	return nil, it.errAt(e, n, "package-level variable %s.%s has no summary", v.Pkg().Path(), v.Name())
}

func (it *Interp) eval(e *env, x ast.Expr) (Value, error) {
	if err := it.tick(e, x); err != nil {
		return nil, err
	}
	info := e.pkg.TypesInfo
	if tv, ok := info.Types[x]; ok && tv.Value != nil {
		if v, ok := constValue(tv); ok {
			return v, nil
		}
	}
	switch y := x.(type) {
	case *ast.ParenExpr:
		return it.eval(e, y.X)
	case *ast.BasicLit:
		return nil, it.errAt(e, x, "literal %s", y.Value)
	case *ast.Ident:
		o := info.ObjectOf(y)
		switch ob := o.(type) {
		case *types.Nil:
			return nil, nil
		case *types.Var:
			if c := e.lookup(ob); c != nil {
				return c.v, nil
			}
			if ob.Pkg() != nil && ob.Parent() == ob.Pkg().Scope() {
				return it.global(e, x, ob)
			}
			return nil, it.errAt(e, x, "variable %s is not bound", y.Name)
		case *types.Func:
			return it.FuncOf(ob, nil, false), nil
		case *types.Builtin:
			return nil, it.errAt(e, x, "builtin %s used as a value", y.Name)
		case *types.Const:
			if v, ok := constValue(types.TypeAndValue{Value: ob.Val()}); ok {
				return v, nil
			}
		case *types.TypeName:
			return nil, it.errAt(e, x, "type %s used as a value", y.Name)
		}
		return nil, it.errAt(e, x, "identifier %s", y.Name)
	case *ast.FuncLit:
		return &Func{Name: "func literal", lit: &litInfo{y, e.pkg}, env: e}, nil
	case *ast.CompositeLit:
		return it.composite(e, y)
	case *ast.SelectorExpr:
		return it.selector(e, y)
	case *ast.CallExpr:
		vs, err := it.call(e, y)
		if err != nil {
			return nil, err
		}
		if len(vs) == 0 {
			return nil, nil
		}
		return vs[0], nil
	case *ast.StarExpr:
		v, err := it.eval(e, y.X)
		if err != nil {
			return nil, err
		}
		if c, ok := v.(*cell); ok {
			return c.v, nil
		}
		if r, ok := v.(*fieldRef); ok {
			return it.field(r.obj, r.f), nil
		}
		if v == nil {
			return nil, it.errAt(e, x, "nil pointer dereference")
		}
		return v, nil
	case *ast.UnaryExpr:
		if y.Op == token.AND {
			// &T{...} and &x for reference-like values are the value itself
			if _, ok := ast.Unparen(y.X).(*ast.CompositeLit); ok {
				return it.eval(e, y.X)
			}
			v, err := it.eval(e, y.X)
			if err != nil {
				return nil, err
			}
			switch v.(type) {
			case map[string]any, *Buf, *Map:
				return v, nil
			}
			if id, ok := ast.Unparen(y.X).(*ast.Ident); ok {
				if c := e.lookup(info.ObjectOf(id)); c != nil {
					return c, nil
				}
			}
			// &obj.field of a struct object: a reference to that field
			if se, ok := ast.Unparen(y.X).(*ast.SelectorExpr); ok {
				if sel := info.Selections[se]; sel != nil && sel.Kind() == types.FieldVal {
					base, err := it.eval(e, se.X)
					if err != nil {
						return nil, err
					}
					base, err = it.walkEmbedded(e, se, base, sel)
					if err != nil {
						return nil, err
					}
					if o, ok := base.(map[string]any); ok {
						return &fieldRef{obj: o, f: sel.Obj().(*types.Var)}, nil
					}
				}
			}
			return nil, it.errAt(e, x, "address of %s", Show(v))
		}
		v, err := it.eval(e, y.X)
		if err != nil {
			return nil, err
		}
		if IsUnknown(v) {
			return v, nil
		}
		switch y.Op {
		case token.NOT:
			if b, ok := v.(bool); ok {
				return !b, nil
			}
		case token.SUB:
			if i, ok := v.(int); ok {
				return -i, nil
			}
		case token.ADD:
			return v, nil
		}
		return nil, it.errAt(e, x, "unary %s on %s", y.Op, Show(v))
	case *ast.BinaryExpr:
		if y.Op == token.LAND || y.Op == token.LOR {
			l, err := it.eval(e, y.X)
			if err != nil {
				return nil, err
			}
			if b, ok := l.(bool); ok {
				if b == (y.Op == token.LOR) {
					return b, nil
				}
				return it.eval(e, y.Y)
			}
			if !IsUnknown(l) {
				return nil, it.errAt(e, x, "operand of %s is %s", y.Op, Show(l))
			}
			// unknown left operand: the right one decides if it is the absorbing value
			steps := it.steps
			r, err := it.eval(e, y.Y)
			if err != nil {
				it.steps = steps
				return l, nil
			}
			if b, ok := r.(bool); ok && b == (y.Op == token.LOR) {
				return b, nil
			}
			return l, nil
		}
		l, err := it.eval(e, y.X)
		if err != nil {
			return nil, err
		}
		r, err := it.eval(e, y.Y)
		if err != nil {
			return nil, err
		}
		return it.binop(e, x, y.Op, l, r)
	case *ast.IndexExpr:
		// generic instantiation f[T] is not supported
		base, err := it.eval(e, y.X)
		if err != nil {
			return nil, err
		}
		idx, err := it.eval(e, y.Index)
		if err != nil {
			return nil, err
		}
		switch b := base.(type) {
		case []any:
			i, ok := idx.(int)
			if !ok {
				if IsUnknown(idx) {
					return idx, nil
				}
				return nil, it.errAt(e, x, "index %s", Show(idx))
			}
			if i < 0 || i >= len(b) {
				return nil, it.errAt(e, x, "index %d out of range [0,%d)", i, len(b))
			}
			return b[i], nil
		case string:
			i, ok := idx.(int)
			if !ok || i < 0 || i >= len(b) {
				return nil, it.errAt(e, x, "string index %s", Show(idx))
			}
			return int(b[i]), nil
		case *Map, nil:
			m, _ := b.(*Map)
			if IsUnknown(idx) {
				return idx, nil
			}
			if v, ok := m.Get(idx); ok {
				return v, nil
			}
			if mt, ok := info.TypeOf(y.X).Underlying().(*types.Map); ok {
				return it.zero(mt.Elem()), nil
			}
			if base == nil {
				return nil, it.errAt(e, x, "index of nil")
			}
			return nil, nil
		case *Unknown:
			return b, nil
		}
		return nil, it.errAt(e, x, "index of %s", Show(base))
	case *ast.SliceExpr:
		base, err := it.eval(e, y.X)
		if err != nil {
			return nil, err
		}
		bound := func(ex ast.Expr, def int) (int, error) {
			if ex == nil {
				return def, nil
			}
			v, err := it.eval(e, ex)
			if err != nil {
				return 0, err
			}
			i, ok := v.(int)
			if !ok {
				return 0, it.errAt(e, ex, "slice bound %s", Show(v))
			}
			return i, nil
		}
		switch b := base.(type) {
		case []any:
			lo, err := bound(y.Low, 0)
			if err != nil {
				return nil, err
			}
			hi, err := bound(y.High, len(b))
			if err != nil {
				return nil, err
			}
			if lo < 0 || hi > cap(b) || lo > hi {
				return nil, it.errAt(e, x, "slice bounds out of range [%d:%d] with capacity %d", lo, hi, cap(b))
			}
			return b[lo:hi], nil
		case string:
			lo, err := bound(y.Low, 0)
			if err != nil {
				return nil, err
			}
			hi, err := bound(y.High, len(b))
			if err != nil {
				return nil, err
			}
			if lo < 0 || hi > len(b) || lo > hi {
				return nil, it.errAt(e, x, "slice bounds out of range [%d:%d] with length %d", lo, hi, len(b))
			}
			return b[lo:hi], nil
		case nil:
			return nil, nil
		case *Unknown:
			return b, nil
		}
		return nil, it.errAt(e, x, "slice of %s", Show(base))
	case *ast.TypeAssertExpr:
		v, err := it.eval(e, y.X)
		if err != nil {
			return nil, err
		}
		val, ok := it.assert(v, info.TypeOf(y.Type))
		b, isB := ok.(bool)
		if !isB {
			return nil, it.errAt(e, x, "type assertion on a value the abstract input does not determine")
		}
		if !b {
			return nil, it.errAt(e, x, "type assertion to %s fails on %s", info.TypeOf(y.Type), Show(v))
		}
		return val, nil
	case *ast.KeyValueExpr:
		return nil, it.errAt(e, x, "key-value outside a composite literal")
	}
	return nil, it.errAt(e, x, "expression %T is not supported", x)
}

func (it *Interp) composite(e *env, y *ast.CompositeLit) (Value, error) {
	info := e.pkg.TypesInfo
	t := info.TypeOf(y)
	if t == nil {
		return nil, it.errAt(e, y, "composite literal without a type")
	}
	if p, ok := t.Underlying().(*types.Pointer); ok {
		t = p.Elem() // elided &T in a slice of pointers
	}
	switch u := t.Underlying().(type) {
	case *types.Struct:
		name := ""
		if n, ok := t.(*types.Named); ok {
			name = n.Obj().Name()
			if it.Zero != nil {
				if v, ok := it.Zero(n); ok && len(y.Elts) == 0 {
					return v, nil
				}
			}
			if v, ok := defaultZero(n); ok && len(y.Elts) == 0 {
				return v, nil
			}
		}
		o := map[string]any{TypeKey: name}
		for i, el := range y.Elts {
			if kv, ok := el.(*ast.KeyValueExpr); ok {
				v, err := it.eval(e, kv.Value)
				if err != nil {
					return nil, err
				}
				o[kv.Key.(*ast.Ident).Name] = it.byValue(info.TypeOf(kv.Value), v)
				continue
			}
			v, err := it.eval(e, el)
			if err != nil {
				return nil, err
			}
			o[u.Field(i).Name()] = it.byValue(u.Field(i).Type(), v)
		}
		for i := 0; i < u.NumFields(); i++ {
			f := u.Field(i)
			if _, ok := o[f.Name()]; !ok {
				o[f.Name()] = it.zero(f.Type())
			}
		}
		return o, nil
	case *types.Slice, *types.Array:
		out := []any{}
		for _, el := range y.Elts {
			if kv, ok := el.(*ast.KeyValueExpr); ok {
				el = kv.Value // indices are assumed sequential
			}
			v, err := it.evalElt(e, el)
			if err != nil {
				return nil, err
			}
			out = append(out, it.byValue(elemOf(u), v))
		}
		return out, nil
	case *types.Map:
		m := NewMap()
		for _, el := range y.Elts {
			kv, ok := el.(*ast.KeyValueExpr)
			if !ok {
				return nil, it.errAt(e, el, "map literal element")
			}
			k, err := it.evalElt(e, kv.Key)
			if err != nil {
				return nil, err
			}
			v, err := it.evalElt(e, kv.Value)
			if err != nil {
				return nil, err
			}
			m.Set(k, v)
		}
		return m, nil
	}
	return nil, it.errAt(e, y, "composite literal of %s", t)
}

func elemOf(t types.Type) types.Type {
	switch u := t.(type) {
	case *types.Slice:
		return u.Elem()
	case *types.Array:
		return u.Elem()
	}
	return nil
}

func (it *Interp) evalElt(e *env, x ast.Expr) (Value, error) {
	if cl, ok := x.(*ast.CompositeLit); ok && cl.Type == nil {
		return it.composite(e, cl)
	}
	return it.eval(e, x)
}

func (it *Interp) selector(e *env, y *ast.SelectorExpr) (Value, error) {
	info := e.pkg.TypesInfo
	sel := info.Selections[y]
	if sel == nil {
		// qualified identifier
		switch ob := info.ObjectOf(y.Sel).(type) {
		case *types.Func:
			return it.FuncOf(ob, nil, false), nil
		case *types.Var:
			return it.global(e, y, ob)
		case *types.Const:
			if v, ok := constValue(types.TypeAndValue{Value: ob.Val()}); ok {
				return v, nil
			}
		}
		return nil, it.errAt(e, y, "qualified identifier %s", y.Sel.Name)
	}
	base, err := it.eval(e, y.X)
	if err != nil {
		return nil, err
	}
	switch sel.Kind() {
	case types.FieldVal:
		base, err = it.walkEmbedded(e, y, base, sel)
		if err != nil {
			return nil, err
		}
		switch o := base.(type) {
		case map[string]any:
			return it.field(o, sel.Obj().(*types.Var)), nil
		case *Unknown:
			return o, nil
		case nil:
			return nil, it.errAt(e, y, "nil dereference selecting %s", y.Sel.Name)
		}
		return nil, it.errAt(e, y, "field %s of %s", y.Sel.Name, Show(base))
	case types.MethodVal:
		if _, foreign := base.(Foreign); !foreign {
			base, err = it.walkEmbedded(e, y, base, sel)
			if err != nil {
				return nil, err
			}
		}
		return it.FuncOf(sel.Obj().(*types.Func), base, true), nil
	}
	return nil, it.errAt(e, y, "method expression %s", y.Sel.Name)
}

// equal compares two values: bool or *Unknown.
func (it *Interp) equal(a, b Value) Value {
	if u, ok := a.(*Unknown); ok {
		return u
	}
	if u, ok := b.(*Unknown); ok {
		return u
	}
	if a == nil || b == nil {
		return isNil(a) && isNil(b)
	}
	switch x := a.(type) {
	case map[string]any:
		y, ok := b.(map[string]any)
		return ok && hashKey(x) == hashKey(y)
	case []any:
		return false
	case *Func:
		return false
	}
	defer func() { recover() }()
	return a == b
}

func isNil(v Value) bool {
	switch x := v.(type) {
	case nil:
		return true
	case []any:
		return x == nil
	case *Map:
		return x == nil
	case map[string]any:
		return x == nil
	case *Func:
		return x == nil
	case *ErrV:
		return x == nil
	}
	return false
}

func (it *Interp) binop(e *env, n ast.Node, op token.Token, l, r Value) (Value, error) {
	switch op {
	case token.EQL:
		return it.equal(l, r), nil
	case token.NEQ:
		v := it.equal(l, r)
		if b, ok := v.(bool); ok {
			return !b, nil
		}
		return v, nil
	}
	if u, ok := l.(*Unknown); ok {
		return u, nil
	}
	if u, ok := r.(*Unknown); ok {
		return u, nil
	}
	switch a := l.(type) {
	case int:
		b, ok := r.(int)
		if !ok {
			break
		}
		switch op {
		case token.ADD:
			return a + b, nil
		case token.SUB:
			return a - b, nil
		case token.MUL:
			return a * b, nil
		case token.QUO:
			if b == 0 {
				return nil, it.errAt(e, n, "division by zero")
			}
			return a / b, nil
		case token.REM:
			if b == 0 {
				return nil, it.errAt(e, n, "division by zero")
			}
			return a % b, nil
		case token.LSS:
			return a < b, nil
		case token.LEQ:
			return a <= b, nil
		case token.GTR:
			return a > b, nil
		case token.GEQ:
			return a >= b, nil
		case token.AND:
			return a & b, nil
		case token.OR:
			return a | b, nil
		case token.SHL:
			return a << uint(b), nil
		case token.SHR:
			return a >> uint(b), nil
		}
	case string:
		b, ok := r.(string)
		if !ok {
			break
		}
		switch op {
		case token.ADD:
			if len(a)+len(b) > 1<<20 {
				return nil, it.errAt(e, n, "evaluation budget exhausted (a string grows without bound)")
			}
			return a + b, nil
		case token.LSS:
			return a < b, nil
		case token.LEQ:
			return a <= b, nil
		case token.GTR:
			return a > b, nil
		case token.GEQ:
			return a >= b, nil
		}
	case Pos:
		b, ok := r.(Pos)
		if !ok {
			break
		}
		ka, kb := a.Line*100000+a.Col, b.Line*100000+b.Col
		switch op {
		case token.LSS:
			return ka < kb, nil
		case token.LEQ:
			return ka <= kb, nil
		case token.GTR:
			return ka > kb, nil
		case token.GEQ:
			return ka >= kb, nil
		}
	}
	return nil, it.errAt(e, n, "operator %s on %s and %s", op, Show(l), Show(r))
}

// assert evaluates v.(t): the value and ok (bool or *Unknown).
func (it *Interp) assert(v Value, t types.Type) (Value, Value) {
	if u, ok := v.(*Unknown); ok {
		return u, u
	}
	if v == nil {
		return nil, false
	}
	if f, ok := v.(Foreign); ok {
		return f.AssertTo(t)
	}
	if _, isIface := t.Underlying().(*types.Interface); isIface {
		// to an interface: the dynamic type must have the methods; structural check by known kinds
		switch v.(type) {
		case *ErrV:
			return v, types.Identical(t, types.Universe.Lookup("error").Type())
		}
		return v, &Unknown{"whether " + Show(v) + " implements " + t.String()}
	}
	bt := t
	if p, ok := bt.(*types.Pointer); ok {
		bt = p.Elem()
	}
	if n, ok := bt.(*types.Named); ok {
		switch x := v.(type) {
		case map[string]any:
			return v, typeName(x) == n.Obj().Name()
		case *Buf:
			return v, n.Obj().Name() == "Buffer" || n.Obj().Name() == "Builder"
		case *ErrV:
			return v, false
		}
	}
	if b, ok := bt.Underlying().(*types.Basic); ok {
		switch v.(type) {
		case int:
			return v, b.Info()&types.IsInteger != 0
		case string:
			return v, b.Info()&types.IsString != 0
		case bool:
			return v, b.Info()&types.IsBoolean != 0
		}
	}
	return v, &Unknown{"whether " + Show(v) + " is a " + t.String()}
}
