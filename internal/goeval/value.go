// Package goeval is a small abstract interpreter for the Go source of /repo's generator packages. It evaluates
// the helper functions, FuncMap entries, data-struct methods and template-driving code of the generator over
// ABSTRACT inputs (see package variants): user expressions and types are opaque tokens, the go/ast, go/types and
// text/template APIs the generator calls are summarised by natives, and anything that would need a fact about a
// concrete program (a condition over an unknown value, an API without a summary) stops the evaluation with an
// error, which the caller reports as "undecided". Nothing of /repo is compiled or run: the evaluator walks the
// type-checked syntax trees loaded by go/packages.
package goeval

import (
	"fmt"
	"go/types"
	"reflect"
	"sort"
	"strings"
)

// Value is one of: nil, bool, int, string, []any (slices and arrays), map[string]any (a struct value or pointer to
// one; key "__type" holds the name of its type), *Map (a Go map), *Func, *Buf, *Unknown, *ErrV, Pos, or a foreign
// value supplied by the client (implementing Foreign).
type Value = any

const TypeKey = "__type"

// ProxyKey: a struct object that is a view of a foreign value through a concrete type (the result of a type
// assertion whose outcome is not determined) holds the foreign value under this key.
const ProxyKey = "$proxyOf"

// Unknown stands for a value the abstract inputs do not determine.
type Unknown struct{ Why string }

func (u *Unknown) String() string { return "UNKNOWN" }

// ErrV is a non-nil error value.
type ErrV struct{ Msg string }

func (e *ErrV) Error() string { return e.Msg }

// Pos is a go/token.Pos of an abstract node.
type Pos struct {
	Valid     bool
	Line, Col int
}

// Buf is a bytes.Buffer, strings.Builder or io.Writer.
type Buf struct {
	Name string
	B    []byte
}

// Map is a Go map with deterministic (insertion) order. Iterating one is an error unless the client allows it
// (the generator must not depend on map order; rule G1 checks that it sorts).
type Map struct {
	keys []any
	m    map[any]any
	orig map[any]any // hashed key -> original key
}

func NewMap() *Map { return &Map{m: map[any]any{}, orig: map[any]any{}} }

type ptrKey struct{ p uintptr }

func hashKey(k any) any {
	switch x := k.(type) {
	case map[string]any:
		return ptrKey{reflect.ValueOf(x).Pointer()}
	case []any:
		if len(x) == 0 {
			return ptrKey{0}
		}
		return ptrKey{reflect.ValueOf(x).Pointer()}
	}
	return k
}

func (m *Map) Get(k any) (any, bool) {
	if m == nil {
		return nil, false
	}
	v, ok := m.m[hashKey(k)]
	return v, ok
}

func (m *Map) Set(k, v any) {
	h := hashKey(k)
	if _, ok := m.m[h]; !ok {
		m.keys = append(m.keys, k)
		m.orig[h] = k
	}
	m.m[h] = v
}

func (m *Map) Delete(k any) {
	h := hashKey(k)
	if _, ok := m.m[h]; !ok {
		return
	}
	delete(m.m, h)
	delete(m.orig, h)
	for i, x := range m.keys {
		if hashKey(x) == h {
			m.keys = append(m.keys[:i:i], m.keys[i+1:]...)
			break
		}
	}
}

func (m *Map) Len() int {
	if m == nil {
		return 0
	}
	return len(m.keys)
}

// Keys returns the keys in REVERSE insertion order: code that (wrongly) relies on the order of a map range shows
// up as a difference from what the author saw.
func (m *Map) Keys() []any {
	if m == nil {
		return nil
	}
	out := make([]any, len(m.keys))
	for i, k := range m.keys {
		out[len(m.keys)-1-i] = k
	}
	return out
}

// Foreign is implemented by client values (abstract expressions and types).
type Foreign interface {
	// CallMethod evaluates a method of the Go interface the value stands for; handled=false if unknown.
	CallMethod(name string, args []any) (results []any, handled bool, err error)
	// AssertTo evaluates x.(T): the value seen through T, and ok as bool or *Unknown.
	AssertTo(t types.Type) (val any, ok any)
}

// PackageQualified is implemented by foreign types that are declared in a package other than the one the
// abstract program is written in: types.TypeString asks its qualifier how to spell that package.
type PackageQualified interface {
	TypePackage() Value // the *types.Package value, nil for the program's own package
}

// Real is a value of a standard-library type that the evaluated code creates itself and uses through its methods
// only (a go/scanner.Scanner, a *token.FileSet, a *token.File): the library's own implementation, driven by
// reflection. Nothing of /repo is involved in such a value.
type Real struct{ V reflect.Value }

// realTypes: the named library types whose zero value is a Real.
var realTypes = map[string]reflect.Type{}

// RegisterReal makes `var x T` of the library type named path.Name evaluate to a Real.
func RegisterReal(name string, zero any) { realTypes[name] = reflect.TypeOf(zero) }

// CallMethod implements Foreign by reflection.
func (r *Real) CallMethod(name string, args []any) ([]any, bool, error) {
	m := r.V.MethodByName(name)
	if !m.IsValid() && r.V.CanAddr() {
		m = r.V.Addr().MethodByName(name)
	}
	if !m.IsValid() {
		return nil, false, nil
	}
	mt := m.Type()
	var in []reflect.Value
	for i, a := range args {
		var pt reflect.Type
		switch {
		case mt.IsVariadic() && i >= mt.NumIn()-1:
			pt = mt.In(mt.NumIn() - 1).Elem()
		case i < mt.NumIn():
			pt = mt.In(i)
		default:
			return nil, true, &EvalError{Msg: "too many arguments in call of " + name}
		}
		if IsUnknown(a) {
			return nil, true, &EvalError{Msg: "argument of " + name + " is not determined by the abstract input"}
		}
		v, ok := goArg(a, pt)
		if !ok {
			return nil, true, &EvalError{Msg: fmt.Sprintf("argument %d of %s is %s", i+1, name, Show(a))}
		}
		in = append(in, v)
	}
	if len(in) < mt.NumIn()-1 || (!mt.IsVariadic() && len(in) != mt.NumIn()) {
		return nil, true, &EvalError{Msg: "wrong number of arguments in call of " + name}
	}
	var outs []any
	for _, o := range m.Call(in) {
		outs = append(outs, fromGo(o))
	}
	return outs, true, nil
}

// AssertTo implements Foreign: by the name of the dynamic type.
func (r *Real) AssertTo(t types.Type) (any, any) {
	if _, ok := t.Underlying().(*types.Interface); ok {
		return r, &Unknown{"whether a library value implements " + t.String()}
	}
	rt := r.V.Type()
	name := ""
	for rt.Kind() == reflect.Ptr {
		name += "*"
		rt = rt.Elem()
	}
	name += rt.PkgPath() + "." + rt.Name()
	return r, name == t.String()
}

// Func is a function value.
type Func struct {
	Name   string
	Obj    *types.Func
	decl   *declInfo
	lit    *litInfo
	env    *env
	Recv   Value
	hasRcv bool
	Native func(it *Interp, args []Value) ([]Value, error)
}

// IsUnknown reports whether v is an *Unknown.
func IsUnknown(v any) bool {
	_, ok := v.(*Unknown)
	return ok
}

func typeName(v any) string {
	if m, ok := v.(map[string]any); ok {
		if s, ok := m[TypeKey].(string); ok {
			return s
		}
	}
	return ""
}

// Show renders a value for diagnostics.
func Show(v any) string {
	switch x := v.(type) {
	case nil:
		return "nil"
	case map[string]any:
		return "{" + typeName(x) + "}"
	case []any:
		return fmt.Sprintf("[%d]", len(x))
	case *Map:
		return fmt.Sprintf("map[%d]", x.Len())
	case *Func:
		return "func " + x.Name
	case *Unknown:
		return "unknown(" + x.Why + ")"
	case *Real:
		return "library value " + x.V.Type().String()
	}
	return fmt.Sprint(v)
}

// sortedStrings is a helper for natives.
func sortedStrings(xs []any) bool {
	ss := make([]string, len(xs))
	for i, x := range xs {
		s, ok := x.(string)
		if !ok {
			return false
		}
		ss[i] = s
	}
	sort.Strings(ss)
	for i := range xs {
		xs[i] = ss[i]
	}
	return true
}

var _ = strings.Join

// UniverseScope is the value of go/types.Universe; UniverseObject(name) the object it holds for a predeclared
// identifier (nil if name is not predeclared). Both are singletons, so that identity comparisons work.
var UniverseScope = map[string]any{TypeKey: "Scope", "universe": true}

var universeObjs = map[string]map[string]any{}

func init() {
	for _, name := range types.Universe.Names() {
		universeObjs[name] = map[string]any{TypeKey: "Object", "name": name, "parent": UniverseScope}
	}
}

func UniverseObject(name string) Value {
	if o, ok := universeObjs[name]; ok {
		return o
	}
	return nil
}

// ScopeObject makes the types.Object of a declaration of the abstract program: name, declared in scope parent.
func ScopeObject(name string, parent Value) map[string]any {
	return map[string]any{TypeKey: "Object", "name": name, "parent": parent}
}
