package goeval

import (
	"go/ast"
	"go/types"
)

// prepareCall evaluates the callee and the arguments of a call without performing it (for defer). A nil function
// with nil error means a builtin that has no effect here (recover, close).
func (it *Interp) prepareCall(e *env, c *ast.CallExpr) (*Func, []Value, error) {
	info := e.pkg.TypesInfo
	if id, ok := ast.Unparen(c.Fun).(*ast.Ident); ok {
		if _, isB := info.ObjectOf(id).(*types.Builtin); isB {
			vs := c
			return &Func{Name: id.Name, Native: func(it *Interp, _ []Value) ([]Value, error) { return it.call(e, vs) }}, nil, nil
		}
	}
	fv, err := it.eval(e, c.Fun)
	if err != nil {
		return nil, nil, err
	}
	f, ok := fv.(*Func)
	if !ok {
		return nil, nil, it.errAt(e, c, "call of %s", Show(fv))
	}
	args, err := it.args(e, c)
	if err != nil {
		return nil, nil, err
	}
	return f, args, nil
}

func (it *Interp) args(e *env, c *ast.CallExpr) ([]Value, error) {
	var args []Value
	if len(c.Args) == 1 {
		// f(g()) with a multi-value g
		if inner, ok := ast.Unparen(c.Args[0]).(*ast.CallExpr); ok {
			if tup, ok := e.pkg.TypesInfo.TypeOf(inner).(*types.Tuple); ok && tup.Len() > 1 {
				return it.call(e, inner)
			}
		}
	}
	for i, a := range c.Args {
		v, err := it.eval(e, a)
		if err != nil {
			return nil, err
		}
		if c.Ellipsis.IsValid() && i == len(c.Args)-1 {
			s, _ := v.([]any)
			args = append(args, spread(s))
			continue
		}
		args = append(args, v)
	}
	return args, nil
}

func (it *Interp) call(e *env, c *ast.CallExpr) ([]Value, error) {
	info := e.pkg.TypesInfo
	fun := ast.Unparen(c.Fun)
	// explicit instantiation of a generic function: f[T](x) - the evaluator is untyped, the body is the same
	switch ix := fun.(type) {
	case *ast.IndexExpr:
		if id, ok := ast.Unparen(ix.X).(*ast.Ident); ok {
			if _, isInst := info.Instances[id]; isInst {
				fun = id
			}
		}
	case *ast.IndexListExpr:
		if id, ok := ast.Unparen(ix.X).(*ast.Ident); ok {
			if _, isInst := info.Instances[id]; isInst {
				fun = id
			}
		}
	}
	// conversion
	if tv, ok := info.Types[fun]; ok && tv.IsType() {
		if len(c.Args) != 1 {
			return nil, it.errAt(e, c, "conversion with %d arguments", len(c.Args))
		}
		v, err := it.eval(e, c.Args[0])
		if err != nil {
			return nil, err
		}
		cv, err := it.convert(e, c, v, tv.Type)
		return []Value{cv}, err
	}
	if id, ok := fun.(*ast.Ident); ok {
		if b, isB := info.ObjectOf(id).(*types.Builtin); isB {
			return it.builtin(e, c, b.Name())
		}
	}
	// method call: dispatch on the dynamic receiver
	if se, ok := fun.(*ast.SelectorExpr); ok {
		if sel := info.Selections[se]; sel != nil && sel.Kind() == types.MethodVal {
			recv, err := it.eval(e, se.X)
			if err != nil {
				return nil, err
			}
			if _, foreign := recv.(Foreign); !foreign {
				// (a foreign value answers for the methods of its embedded parts itself)
				recv, err = it.walkEmbedded(e, se, recv, sel)
				if err != nil {
					return nil, err
				}
			}
			args, err := it.args(e, c)
			if err != nil {
				return nil, err
			}
			return it.callMethodDynamic(e, c, recv, sel.Obj().(*types.Func), args)
		}
	}
	fv, err := it.eval(e, fun)
	if err != nil {
		return nil, err
	}
	args, err := it.args(e, c)
	if err != nil {
		return nil, err
	}
	switch f := fv.(type) {
	case *Func:
		vs, err := it.Call(f, args)
		if err != nil {
			if ee, ok := err.(*EvalError); ok && ee.Pos == "" {
				return nil, it.errAt(e, c, "%s", ee.Msg)
			}
			return nil, err
		}
		return vs, nil
	case *Unknown:
		return nil, it.errAt(e, c, "call of a function the abstract input does not determine (%s)", f.Why)
	case nil:
		return nil, it.errAt(e, c, "call of a nil function")
	}
	return nil, it.errAt(e, c, "call of %s", Show(fv))
}

// callMethodDynamic calls method fn on the dynamic value recv.
func (it *Interp) callMethodDynamic(e *env, n ast.Node, recv Value, fn *types.Func, args []Value) ([]Value, error) {
	wrap := func(vs []Value, err error) ([]Value, error) {
		if ee, ok := err.(*EvalError); ok && ee.Pos == "" && e != nil {
			return nil, it.errAt(e, n, "%s", ee.Msg)
		}
		return vs, err
	}
	if o, ok := recv.(map[string]any); ok {
		if f, ok := o[ProxyKey].(Foreign); ok {
			recv = f
		}
	}
	if f, ok := recv.(Foreign); ok {
		vs, handled, err := f.CallMethod(fn.Name(), args)
		if err != nil {
			return wrap(nil, err)
		}
		if handled {
			return vs, nil
		}
	}
	if d := it.decls[fn]; d != nil {
		return wrap(it.Call(&Func{Name: fn.FullName(), Obj: fn, decl: d, Recv: recv, hasRcv: true}, args))
	}
	// interface method on a struct object of the loaded packages: find the concrete method
	if o, ok := recv.(map[string]any); ok {
		if nt := it.TypeByName(typeName(o)); nt != nil {
			if m, _, _ := types.LookupFieldOrMethod(types.NewPointer(nt), true, nt.Obj().Pkg(), fn.Name()); m != nil {
				if mf, ok := m.(*types.Func); ok {
					if d := it.decls[mf]; d != nil {
						// the receiver may be an embedded part
						sel := types.NewMethodSet(types.NewPointer(nt)).Lookup(nt.Obj().Pkg(), fn.Name())
						r := Value(o)
						if sel != nil && len(sel.Index()) > 1 {
							var err error
							r, err = it.walkEmbedded(e, nil, o, sel)
							if err != nil {
								return nil, err
							}
						}
						return wrap(it.Call(&Func{Name: mf.FullName(), Obj: mf, decl: d, Recv: r, hasRcv: true}, args))
					}
					// promoted from an embedded interface field: call it on the field's value
					sel := types.NewMethodSet(types.NewPointer(nt)).Lookup(nt.Obj().Pkg(), fn.Name())
					if sel != nil && len(sel.Index()) > 1 {
						inner, err := it.walkEmbedded(e, nil, o, sel)
						if err != nil {
							return nil, err
						}
						return it.callMethodDynamic(e, n, inner, fn, args)
					}
				}
			}
		}
	}
	if m, ok := it.Methods[fn.FullName()]; ok {
		return wrap(m(it, recv, args))
	}
	if vs, ok, err := builtinMethod(it, recv, fn.Name(), args); ok {
		return wrap(vs, err)
	}
	if recv == nil {
		return wrap(nil, &EvalError{Msg: "method " + fn.FullName() + " called on nil"})
	}
	return wrap(nil, &EvalError{Msg: "no summary for method " + fn.FullName() + " on " + Show(recv)})
}

func (it *Interp) convert(e *env, n ast.Node, v Value, t types.Type) (Value, error) {
	if IsUnknown(v) {
		return v, nil
	}
	switch u := t.Underlying().(type) {
	case *types.Basic:
		switch {
		case u.Info()&types.IsString != 0:
			switch x := v.(type) {
			case string:
				return x, nil
			case int:
				return string(rune(x)), nil
			case []any:
				// []byte / []rune held as a slice
				bs := make([]byte, 0, len(x))
				for _, b := range x {
					i, ok := b.(int)
					if !ok {
						return nil, it.errAt(e, n, "conversion of %s to string", Show(v))
					}
					bs = append(bs, byte(i))
				}
				return string(bs), nil
			}
		case u.Info()&types.IsInteger != 0:
			if i, ok := v.(int); ok {
				return i, nil
			}
			if p, ok := v.(Pos); ok {
				if !p.Valid {
					return 0, nil
				}
				return p.Line*100000 + p.Col, nil
			}
		case u.Info()&types.IsBoolean != 0:
			if b, ok := v.(bool); ok {
				return b, nil
			}
		}
	case *types.Slice:
		if b, ok := u.Elem().Underlying().(*types.Basic); ok && (b.Kind() == types.Byte || b.Kind() == types.Uint8) {
			if s, ok := v.(string); ok {
				return s, nil // byte slices are kept as strings
			}
		}
		return v, nil
	default:
		return v, nil
	}
	return nil, it.errAt(e, n, "conversion of %s to %s", Show(v), t)
}

func (it *Interp) builtin(e *env, c *ast.CallExpr, name string) ([]Value, error) {
	info := e.pkg.TypesInfo
	switch name {
	case "make":
		t := info.TypeOf(c.Args[0])
		switch u := t.Underlying().(type) {
		case *types.Map:
			return []Value{NewMap()}, nil
		case *types.Slice:
			n := 0
			if len(c.Args) > 1 {
				v, err := it.eval(e, c.Args[1])
				if err != nil {
					return nil, err
				}
				i, ok := v.(int)
				if !ok {
					return nil, it.errAt(e, c, "make with length %s", Show(v))
				}
				n = i
			}
			capn := n
			if len(c.Args) > 2 {
				v, err := it.eval(e, c.Args[2])
				if err != nil {
					return nil, err
				}
				if i, ok := v.(int); ok && i > n {
					capn = i
				}
			}
			out := make([]any, n, capn)
			for i := range out {
				out[i] = it.zero(u.Elem())
			}
			return []Value{out}, nil
		}
		return nil, it.errAt(e, c, "make(%s)", t)
	case "new":
		t := info.TypeOf(c.Args[0])
		v := it.zero(t)
		switch v.(type) {
		case map[string]any, *Buf, *Map:
			return []Value{v}, nil
		}
		return []Value{&cell{v}}, nil
	}
	args, err := it.args(e, c)
	if err != nil {
		return nil, err
	}
	switch name {
	case "len", "cap":
		switch x := args[0].(type) {
		case nil:
			return []Value{0}, nil
		case []any:
			if name == "cap" {
				return []Value{cap(x)}, nil
			}
			return []Value{len(x)}, nil
		case string:
			return []Value{len(x)}, nil
		case *Map:
			return []Value{x.Len()}, nil
		case *Unknown:
			return []Value{x}, nil
		case spread:
			return []Value{len(x)}, nil
		}
		return nil, it.errAt(e, c, "%s of %s", name, Show(args[0]))
	case "append":
		var base []any
		switch x := args[0].(type) {
		case nil:
		case []any:
			base = x
		case string:
			// append([]byte, ...) on a byte slice held as string
			s := x
			for _, a := range args[1:] {
				switch y := a.(type) {
				case spread:
					for _, b := range y {
						s += string(rune(b.(int)))
					}
				case string:
					s += y
				case int:
					s += string(rune(y))
				}
			}
			return []Value{s}, nil
		default:
			return nil, it.errAt(e, c, "append to %s", Show(args[0]))
		}
		var et types.Type
		if st, ok := info.TypeOf(c).Underlying().(*types.Slice); ok {
			et = st.Elem()
		}
		for _, a := range args[1:] {
			if s, ok := a.(spread); ok {
				for _, x := range s {
					base = append(base, it.byValue(et, x))
				}
			} else {
				base = append(base, it.byValue(et, a))
			}
		}
		return []Value{base}, nil
	case "delete":
		if m, ok := args[0].(*Map); ok && m != nil {
			m.Delete(args[1])
		}
		return nil, nil
	case "copy":
		d, ok1 := args[0].([]any)
		s, ok2 := args[1].([]any)
		if ok1 && ok2 {
			return []Value{copy(d, s)}, nil
		}
		return nil, it.errAt(e, c, "copy(%s, %s)", Show(args[0]), Show(args[1]))
	case "panic":
		return nil, it.errAt(e, c, "panic: %s", Show(args[0]))
	case "recover":
		return []Value{nil}, nil
	case "close", "print", "println":
		return nil, nil
	case "min", "max":
		best, ok := args[0].(int)
		if !ok {
			return nil, it.errAt(e, c, "%s of %s", name, Show(args[0]))
		}
		for _, a := range args[1:] {
			i, ok := a.(int)
			if !ok {
				return nil, it.errAt(e, c, "%s of %s", name, Show(a))
			}
			if (name == "min" && i < best) || (name == "max" && i > best) {
				best = i
			}
		}
		return []Value{best}, nil
	}
	return nil, it.errAt(e, c, "builtin %s is not supported", name)
}
