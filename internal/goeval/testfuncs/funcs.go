// Package testfuncs holds plain Go functions that the evaluator's own test runs twice: compiled, and interpreted
// from their syntax trees. The results must agree.
package testfuncs

import (
	"fmt"
	"go/scanner"
	"go/token"
	"regexp"
	"sort"
	"strconv"
	"strings"
)

type pair struct {
	Name string
	N    int
}

type box struct {
	items []pair
	seen  map[string]int
}

func (b *box) add(name string) int {
	if b.seen == nil {
		b.seen = map[string]int{}
	}
	b.seen[name]++
	b.items = append(b.items, pair{Name: name, N: b.seen[name]})
	return len(b.items)
}

func (p pair) String() string { return p.Name + "#" + strconv.Itoa(p.N) }

// Boxes exercises methods, maps, slices of structs and lazy initialisation.
func Boxes(names ...string) string {
	b := &box{}
	for _, n := range names {
		b.add(n)
	}
	var parts []string
	for _, it := range b.items {
		parts = append(parts, it.String())
	}
	return strings.Join(parts, ",") + fmt.Sprintf("/%d", len(b.seen))
}

// Alias mimics printImportAlias: a loop that mangles a name until it is free.
func Alias(path, alias string, taken map[string]struct{}) string {
	for {
		if _, ok := taken[alias]; !ok {
			taken[alias] = struct{}{}
			return alias
		}
		alias = "_" + alias
	}
}

// Aliases calls Alias repeatedly over shared state.
func Aliases() string {
	taken := map[string]struct{}{"time": {}}
	var out []string
	for _, p := range []string{"time", "text/template", "html/template", "time"} {
		out = append(out, Alias(p, p[strings.LastIndex(p, "/")+1:], taken))
	}
	return strings.Join(out, " ")
}

// Labels exercises labelled break and continue.
func Labels(n int) string {
	var sb strings.Builder
outer:
	for i := 0; i < n; i++ {
		for j := 0; j < n; j++ {
			switch {
			case j > i:
				continue outer
			case i+j > 6:
				break outer
			}
			fmt.Fprintf(&sb, "%d%d ", i, j)
		}
	}
	return sb.String()
}

// Sorted sorts with a closure over the slice variable, as paramExprs does.
func Sorted(xs []string) []string {
	ys := append([]string(nil), xs...)
	sort.Slice(ys, func(i, j int) bool {
		if len(ys[i]) != len(ys[j]) {
			return len(ys[i]) < len(ys[j])
		}
		return ys[i] < ys[j]
	})
	return ys
}

// Deferred exercises defer with named results and closures capturing by reference.
func Deferred(s string) (out string, err error) {
	count := 0
	defer func() {
		out = out + "!" + strconv.Itoa(count)
	}()
	for _, r := range s {
		if r == 'x' {
			count++
			continue
		}
		out += strings.ToUpper(string(r))
	}
	if count > 2 {
		return out, fmt.Errorf("too many: %d", count)
	}
	return out, nil
}

// Generic helpers.
func mapSlice[T, U any](xs []T, f func(T) U) []U {
	out := make([]U, 0, len(xs))
	for _, x := range xs {
		out = append(out, f(x))
	}
	return out
}

// Generics exercises inferred and explicit instantiation.
func Generics(xs []int) string {
	a := mapSlice(xs, func(i int) string { return strconv.Itoa(i * i) })
	b := mapSlice[string, int](a, func(s string) int { return len(s) })
	return strings.Join(a, "+") + fmt.Sprint(b)
}

type kind int

const (
	kA kind = iota + 1
	kB
	kC
)

// Switches exercises tag switches, constants and fallthrough-free defaults.
func Switches(k int) string {
	switch kind(k) {
	case kA, kB:
		return "ab" + strconv.Itoa(int(kB))
	case kC:
		return "c"
	}
	if k%2 == 0 && k > 10 || k < 0 {
		return "odd one"
	}
	return "other"
}

type shape interface{ Area() int }
type rect struct{ w, h int }
type sq struct{ s int }

func (r rect) Area() int { return r.w * r.h }
func (s *sq) Area() int  { return s.s * s.s }

// Dynamic exercises interface dispatch and type switches on package types.
func Dynamic() string {
	shapes := []shape{rect{2, 3}, &sq{4}, rect{1, 1}}
	total := 0
	kinds := ""
	for _, s := range shapes {
		total += s.Area()
		switch v := s.(type) {
		case rect:
			kinds += "r" + strconv.Itoa(v.w)
		case *sq:
			kinds += "s" + strconv.Itoa(v.s)
		}
	}
	if r, ok := shapes[1].(rect); ok {
		kinds += "?" + strconv.Itoa(r.h)
	}
	return kinds + "=" + strconv.Itoa(total)
}

// Bytes exercises string/byte conversions and slicing.
func Bytes(s string) string {
	bs := []byte(s)
	out := make([]byte, 0, len(bs))
	for i := len(bs) - 1; i >= 0; i-- {
		out = append(out, bs[i])
	}
	head := s
	if len(s) > 3 {
		head = s[:3]
	}
	return string(out) + "|" + head + "|" + strings.Repeat(s[len(s)-1:], 2)
}

func (p pair) bumped() pair { p.N++; return p }
func (p *pair) bump()       { p.N++ }

func rename(p pair, name string) pair { p.Name = name; return p }

// Copies exercises value semantics of structs: assignment, parameters, value receivers, elements of slices.
func Copies() string {
	a := pair{"x", 1}
	b := a
	b.N = 2
	c := a.bumped()
	a.bump()
	d := rename(a, "y")
	ps := []pair{a, b}
	q := ps[0]
	q.Name = "q"
	for _, e := range ps {
		e.N = 100
	}
	pp := &ps[1]
	pp.N = 7
	return a.String() + b.String() + c.String() + d.String() + ps[0].String() + ps[1].String() + q.String()
}

type counters struct {
	next, other int
	name        string
}

func intern(seen map[string]int, next *int, k string) int {
	if v, ok := seen[k]; ok {
		return v
	}
	id := *next
	*next++
	seen[k] = id
	return id
}

// Pointers exercises pointers to fields and to local variables of basic type.
func Pointers() string {
	c := &counters{next: 1}
	seen := map[string]int{}
	a := intern(seen, &c.next, "a")
	b := intern(seen, &c.next, "b")
	a2 := intern(seen, &c.next, "a")
	local := 10
	d := intern(seen, &local, "d")
	p := &c.other
	*p = 5
	*p += 2
	return strconv.Itoa(a) + strconv.Itoa(b) + strconv.Itoa(a2) + strconv.Itoa(d) + ":" + strconv.Itoa(c.next) + ":" + strconv.Itoa(local) + ":" + strconv.Itoa(c.other)
}

var wordRe = regexp.MustCompile(`^(ctx|err|v\d+)$`)

// Library exercises the library values the evaluator drives by reflection: a scanner over a file set, a regexp.
func Library(src string) string {
	var (
		s    scanner.Scanner
		fset = token.NewFileSet()
		prev = token.ILLEGAL
		out  []string
	)
	s.Init(fset.AddFile("", fset.Base(), len(src)), []byte(src), nil, 0)
	for {
		_, tok, lit := s.Scan()
		if tok == token.EOF {
			break
		}
		if tok == token.IDENT && prev != token.PERIOD {
			mark := ""
			if wordRe.MatchString(lit) {
				mark = "!"
			}
			out = append(out, lit+mark)
		}
		prev = tok
	}
	return strings.Join(out, ",")
}
