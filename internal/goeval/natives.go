package goeval

import (
	"bytes"
	"fmt"
	"go/scanner"
	"go/token"
	"go/types"
	"os"
	"path"
	"path/filepath"
	"reflect"
	"regexp"
	"sort"
	"strconv"
	"strings"
	"text/template"
	"unicode"
	"unicode/utf8"
)

func init() {
	RegisterReal("go/scanner.Scanner", scanner.Scanner{})
}

// FSV is an fs.FS rooted at a directory of /repo (an embed.FS variable, or fs.Sub of one).
type FSV struct{ Dir string }

// Tmpl is a *template.Template built by the evaluated code.
type Tmpl struct{ T *template.Template }

// Regexp is a *regexp.Regexp compiled by the evaluated code.
type Regexp struct{ R *regexp.Regexp }

// Exec records one template execution performed by the evaluated code.
type Exec struct {
	Root string
	Out  string
	Data Value
}

// Execs lists the template executions since the last ResetExecs.
func (it *Interp) Execs() []Exec { return it.execs }
func (it *Interp) ResetExecs()   { it.execs, it.parsed, it.tmpls, it.qualified = nil, nil, nil, nil }

// Qualified lists what types.TypeString returned when it was called with a qualifier (a type printed as code,
// as opposed to the qualifier-less spelling meant for comments) since the last ResetExecs.
func (it *Interp) Qualified() []string { return it.qualified }

func defaultZero(n *types.Named) (Value, bool) {
	if n.Obj().Pkg() == nil {
		return nil, false
	}
	if rt, ok := realTypes[n.Obj().Pkg().Path()+"."+n.Obj().Name()]; ok {
		return &Real{reflect.New(rt).Elem()}, true
	}
	switch n.Obj().Pkg().Path() + "." + n.Obj().Name() {
	case "bytes.Buffer", "strings.Builder":
		return &Buf{}, true
	case "golang.org/x/tools/go/types/typeutil.Map":
		return NewMap(), true
	case "go/token.Position":
		return map[string]any{TypeKey: "Position", "Filename": "", "Line": 0, "Column": 0, "Offset": 0}, true
	case "sync.Mutex", "sync.RWMutex", "sync.Once":
		return map[string]any{TypeKey: n.Obj().Name()}, true
	}
	return nil, false
}

// goArg converts a Value to the reflect.Value a real Go function expects.
func goArg(v Value, t reflect.Type) (reflect.Value, bool) {
	if r, ok := v.(*Real); ok {
		switch {
		case r.V.Type().AssignableTo(t):
			return r.V, true
		case r.V.CanAddr() && r.V.Addr().Type().AssignableTo(t):
			return r.V.Addr(), true
		}
		return reflect.Value{}, false
	}
	switch t.Kind() {
	case reflect.Func, reflect.Ptr, reflect.Map:
		if v == nil {
			return reflect.Zero(t), true
		}
	case reflect.Uint, reflect.Uint16, reflect.Uint32, reflect.Uint64, reflect.Int8, reflect.Int16:
		if i, ok := v.(int); ok {
			return reflect.ValueOf(i).Convert(t), true
		}
	case reflect.String:
		if s, ok := v.(string); ok {
			return reflect.ValueOf(s).Convert(t), true
		}
	case reflect.Int, reflect.Int64, reflect.Int32, reflect.Uint8:
		if i, ok := v.(int); ok {
			return reflect.ValueOf(i).Convert(t), true
		}
	case reflect.Bool:
		if b, ok := v.(bool); ok {
			return reflect.ValueOf(b), true
		}
	case reflect.Slice:
		if t.Elem().Kind() == reflect.String {
			xs, ok := v.([]any)
			if !ok && v != nil {
				return reflect.Value{}, false
			}
			out := make([]string, len(xs))
			for i, x := range xs {
				s, ok := x.(string)
				if !ok {
					return reflect.Value{}, false
				}
				out[i] = s
			}
			return reflect.ValueOf(out), true
		}
		if t.Elem().Kind() == reflect.Uint8 {
			if s, ok := v.(string); ok {
				return reflect.ValueOf([]byte(s)), true
			}
		}
	case reflect.Interface:
		if v == nil {
			return reflect.Zero(t), true
		}
		return reflect.ValueOf(v), true
	}
	return reflect.Value{}, false
}

func fromGo(r reflect.Value) Value {
	switch r.Kind() {
	case reflect.String:
		return r.String()
	case reflect.Int, reflect.Int64, reflect.Int32, reflect.Uint8, reflect.Int8, reflect.Int16, reflect.Uint, reflect.Uint16, reflect.Uint32, reflect.Uint64:
		return int(r.Convert(reflect.TypeOf(int(0))).Int())
	case reflect.Ptr:
		if r.IsNil() {
			return nil
		}
		return &Real{r}
	case reflect.Struct:
		return &Real{r}
	case reflect.Bool:
		return r.Bool()
	case reflect.Slice:
		if r.Type().Elem().Kind() == reflect.Uint8 {
			return string(r.Bytes())
		}
		out := make([]any, r.Len())
		for i := range out {
			out[i] = fromGo(r.Index(i))
		}
		return out
	case reflect.Interface:
		if r.IsNil() {
			return nil
		}
		if err, ok := r.Interface().(error); ok {
			return &ErrV{err.Error()}
		}
		return fromGo(r.Elem())
	}
	return &Unknown{"result of kind " + r.Kind().String()}
}

// pure wraps a side-effect-free Go function over strings, ints, bools and string slices.
func pure(name string, fn any) func(it *Interp, args []Value) ([]Value, error) {
	rv := reflect.ValueOf(fn)
	rt := rv.Type()
	return func(it *Interp, args []Value) ([]Value, error) {
		// flatten a spread final argument
		if n := len(args); n > 0 {
			if s, ok := args[n-1].(spread); ok {
				if rt.IsVariadic() {
					args = append(append([]Value(nil), args[:n-1]...), []any(s)...)
				} else {
					args = append(append([]Value(nil), args[:n-1]...), []any(s))
				}
			}
		}
		for _, a := range args {
			if u, ok := a.(*Unknown); ok {
				out := make([]Value, rt.NumOut())
				for i := range out {
					out[i] = u
				}
				return out, nil
			}
		}
		var in []reflect.Value
		for i, a := range args {
			var pt reflect.Type
			switch {
			case rt.IsVariadic() && i >= rt.NumIn()-1:
				pt = rt.In(rt.NumIn() - 1).Elem()
			case i < rt.NumIn():
				pt = rt.In(i)
			default:
				return nil, &EvalError{Msg: fmt.Sprintf("too many arguments in call of %s", name)}
			}
			v, ok := goArg(a, pt)
			if !ok {
				return nil, &EvalError{Msg: fmt.Sprintf("argument %d of %s is %s", i+1, name, Show(a))}
			}
			in = append(in, v)
		}
		if len(in) < rt.NumIn()-1 || (!rt.IsVariadic() && len(in) != rt.NumIn()) {
			return nil, &EvalError{Msg: fmt.Sprintf("wrong number of arguments in call of %s", name)}
		}
		var outs []Value
		for _, r := range rv.Call(in) {
			outs = append(outs, fromGo(r))
		}
		return outs, nil
	}
}

func printable(args []Value) []any {
	var out []any
	for _, a := range args {
		switch x := a.(type) {
		case spread:
			out = append(out, printable([]Value(x))...)
		case Pos:
			out = append(out, x.Line*100000+x.Col)
		case map[string]any:
			out = append(out, "{"+typeName(x)+"}")
		default:
			out = append(out, a)
		}
	}
	return out
}

func writeTo(w Value, s string) error {
	b, ok := w.(*Buf)
	if !ok || b == nil {
		return &EvalError{Msg: "write to " + Show(w)}
	}
	b.B = append(b.B, s...)
	return nil
}

func bytesOf(v Value) (string, bool) {
	switch x := v.(type) {
	case string:
		return x, true
	case nil:
		return "", true
	case []any:
		bs := make([]byte, 0, len(x))
		for _, e := range x {
			i, ok := e.(int)
			if !ok {
				return "", false
			}
			bs = append(bs, byte(i))
		}
		return string(bs), true
	}
	return "", false
}

// builtinMethod: methods of the evaluator's own value kinds.
func builtinMethod(it *Interp, recv Value, name string, args []Value) ([]Value, bool, error) {
	switch r := recv.(type) {
	case *Buf:
		switch name {
		case "Write", "WriteString":
			s, ok := bytesOf(args[0])
			if !ok {
				return nil, true, &EvalError{Msg: "write of " + Show(args[0])}
			}
			r.B = append(r.B, s...)
			return []Value{len(s), nil}, true, nil
		case "WriteByte", "WriteRune":
			i, ok := args[0].(int)
			if !ok {
				return nil, true, &EvalError{Msg: "write of " + Show(args[0])}
			}
			r.B = append(r.B, string(rune(i))...)
			if name == "WriteByte" {
				return []Value{nil}, true, nil
			}
			return []Value{1, nil}, true, nil
		case "Bytes", "String":
			return []Value{string(r.B)}, true, nil
		case "Len":
			return []Value{len(r.B)}, true, nil
		case "Reset":
			r.B = nil
			return nil, true, nil
		case "WriteTo":
			if err := writeTo(args[0], string(r.B)); err != nil {
				return nil, true, err
			}
			n := len(r.B)
			r.B = nil
			return []Value{n, nil}, true, nil
		}
	case Pos:
		if name == "IsValid" {
			return []Value{r.Valid}, true, nil
		}
	case *ErrV:
		if name == "Error" {
			return []Value{r.Msg}, true, nil
		}
	case *Map:
		// golang.org/x/tools/go/types/typeutil.Map
		switch name {
		case "At":
			v, _ := r.Get(args[0])
			return []Value{v}, true, nil
		case "Set":
			prev, _ := r.Get(args[0])
			r.Set(args[0], args[1])
			return []Value{prev}, true, nil
		case "Delete":
			_, ok := r.Get(args[0])
			r.Delete(args[0])
			return []Value{ok}, true, nil
		case "Len":
			return []Value{r.Len()}, true, nil
		case "Keys":
			return []Value{r.Keys()}, true, nil
		}
	case *Tmpl:
		return tmplMethod(it, r, name, args)
	}
	return nil, false, nil
}

func (it *Interp) funcMapOf(v Value) (template.FuncMap, error) {
	m, ok := v.(*Map)
	if !ok {
		return nil, &EvalError{Msg: "template function map is " + Show(v)}
	}
	fm := template.FuncMap{}
	for _, k := range m.keys {
		name, ok := k.(string)
		if !ok {
			return nil, &EvalError{Msg: "template function name is " + Show(k)}
		}
		val, _ := m.Get(k)
		f, ok := val.(*Func)
		if !ok {
			return nil, &EvalError{Msg: "template function " + name + " is " + Show(val)}
		}
		fm[name] = func(args ...any) (any, error) {
			vs, err := it.Call(f, args)
			if err != nil {
				if it.funcErr == nil {
					it.funcErr = err
				}
				return nil, fmt.Errorf("template function %s: %w", name, err)
			}
			switch len(vs) {
			case 0:
				return "", nil
			case 1:
				return vs[0], nil
			default:
				if e, ok := vs[1].(*ErrV); ok && e != nil {
					return vs[0], e
				}
				return vs[0], nil
			}
		}
	}
	return fm, nil
}

func tmplMethod(it *Interp, t *Tmpl, name string, args []Value) ([]Value, bool, error) {
	switch name {
	case "Funcs":
		fm, err := it.funcMapOf(args[0])
		if err != nil {
			return nil, true, err
		}
		t.T.Funcs(fm)
		return []Value{t}, true, nil
	case "Option":
		return []Value{t}, true, nil
	case "New":
		s, _ := args[0].(string)
		return []Value{&Tmpl{t.T.New(s)}}, true, nil
	case "Name":
		return []Value{t.T.Name()}, true, nil
	case "Lookup":
		s, _ := args[0].(string)
		if l := t.T.Lookup(s); l != nil {
			return []Value{&Tmpl{l}}, true, nil
		}
		return []Value{nil}, true, nil
	case "Parse":
		s, ok := args[0].(string)
		if !ok {
			return nil, true, &EvalError{Msg: "template text is " + Show(args[0])}
		}
		if _, err := t.T.Parse(s); err != nil {
			return []Value{nil, &ErrV{err.Error()}}, true, nil
		}
		return []Value{t, nil}, true, nil
	case "ParseFS":
		fsys, ok := args[0].(*FSV)
		if !ok {
			return nil, true, &EvalError{Msg: "ParseFS on " + Show(args[0])}
		}
		var pats []string
		for _, a := range args[1:] {
			switch x := a.(type) {
			case string:
				pats = append(pats, x)
			case spread:
				for _, e := range x {
					s, ok := e.(string)
					if !ok {
						return nil, true, &EvalError{Msg: "ParseFS pattern " + Show(e)}
					}
					pats = append(pats, s)
				}
			default:
				return nil, true, &EvalError{Msg: "ParseFS pattern " + Show(a)}
			}
		}
		it.parsed = append(it.parsed, fmt.Sprintf("%v", pats))
		it.tmpls = append(it.tmpls, t.T)
		if _, err := t.T.ParseFS(os.DirFS(fsys.Dir), pats...); err != nil {
			return []Value{nil, &ErrV{err.Error()}}, true, nil
		}
		return []Value{t, nil}, true, nil
	case "ExecuteTemplate", "Execute":
		root := t.T.Name()
		var data Value
		if name == "ExecuteTemplate" {
			root, _ = args[1].(string)
			data = args[2]
		} else {
			data = args[1]
		}
		it.Finalize(data)
		var out bytes.Buffer
		var err error
		if name == "ExecuteTemplate" {
			err = t.T.ExecuteTemplate(&out, root, data)
		} else {
			err = t.T.Execute(&out, data)
		}
		if err != nil {
			if fe := it.funcErr; fe != nil {
				// not an error of the generator: a template function could not be evaluated
				it.funcErr = nil
				return nil, true, fe
			}
			return []Value{&ErrV{err.Error()}}, true, nil
		}
		it.execs = append(it.execs, Exec{Root: root, Out: out.String(), Data: data})
		if werr := writeTo(args[0], out.String()); werr != nil {
			return nil, true, werr
		}
		return []Value{nil}, true, nil
	}
	return nil, false, nil
}

// Templates lists the template sets filled by ParseFS since the last ResetExecs.
func (it *Interp) Templates() []*template.Template { return it.tmpls }

// Parsed lists the pattern sets passed to ParseFS since the last ResetExecs (for labels).
func (it *Interp) Parsed() []string { return it.parsed }

func installNatives(it *Interp) {
	n := it.Natives
	for name, fn := range map[string]any{
		"strings.Join": strings.Join, "strings.Split": strings.Split, "strings.HasPrefix": strings.HasPrefix, "strings.HasSuffix": strings.HasSuffix,
		"strings.TrimPrefix": strings.TrimPrefix, "strings.TrimSuffix": strings.TrimSuffix, "strings.TrimSpace": strings.TrimSpace, "strings.Trim": strings.Trim,
		"strings.TrimLeft": strings.TrimLeft, "strings.TrimRight": strings.TrimRight,
		"strings.ToUpper": strings.ToUpper, "strings.ToLower": strings.ToLower, "strings.Title": strings.Title, "strings.Replace": strings.Replace,
		"strings.ReplaceAll": strings.ReplaceAll, "strings.Contains": strings.Contains, "strings.Repeat": strings.Repeat, "strings.Index": strings.Index,
		"strings.LastIndex": strings.LastIndex, "strings.Fields": strings.Fields, "strings.Count": strings.Count, "strings.EqualFold": strings.EqualFold,
		"strings.ContainsRune": strings.ContainsRune, "strings.IndexByte": strings.IndexByte,
		"strconv.Itoa": strconv.Itoa, "strconv.Quote": strconv.Quote, "strconv.Atoi": strconv.Atoi, "strconv.Unquote": strconv.Unquote, "strconv.FormatInt": strconv.FormatInt,
		"strconv.FormatBool": strconv.FormatBool,
		"path.Join":          path.Join, "path.Base": path.Base, "path.Dir": path.Dir, "path.Ext": path.Ext, "path.Clean": path.Clean,
		"path/filepath.Join": filepath.Join, "path/filepath.Base": filepath.Base, "path/filepath.Dir": filepath.Dir, "path/filepath.Ext": filepath.Ext,
		"path/filepath.Clean": filepath.Clean, "path/filepath.ToSlash": filepath.ToSlash,
		"unicode.IsUpper": unicode.IsUpper, "unicode.IsLower": unicode.IsLower, "unicode.IsLetter": unicode.IsLetter, "unicode.IsDigit": unicode.IsDigit,
		"unicode.ToUpper": unicode.ToUpper, "unicode.ToLower": unicode.ToLower, "unicode.IsSpace": unicode.IsSpace, "unicode.IsPunct": unicode.IsPunct,
		"sort.SearchStrings": sort.SearchStrings, "sort.SearchInts": sort.SearchInts, "sort.StringsAreSorted": sort.StringsAreSorted,
		"strings.SplitN": strings.SplitN, "strings.TrimFunc": nil, "strings.IndexAny": strings.IndexAny, "strings.ContainsAny": strings.ContainsAny,
		"strings.IndexRune": strings.IndexRune, "strings.LastIndexByte": strings.LastIndexByte, "strings.Compare": strings.Compare,
		"strings.SplitAfter": strings.SplitAfter, "strings.ToTitle": strings.ToTitle,
		"strconv.ParseBool": strconv.ParseBool, "strconv.QuoteRune": strconv.QuoteRune,
		"path.IsAbs": path.IsAbs, "path.Split": path.Split, "path/filepath.IsAbs": filepath.IsAbs, "path/filepath.Split": filepath.Split,
		"path/filepath.FromSlash": filepath.FromSlash, "path/filepath.Rel": filepath.Rel,
		"unicode/utf8.RuneCountInString": utf8.RuneCountInString, "unicode/utf8.ValidString": utf8.ValidString,
		"go/token.IsIdentifier": token.IsIdentifier, "go/token.IsKeyword": token.IsKeyword, "go/token.IsExported": token.IsExported,
	} {
		if fn == nil {
			continue
		}
		n[name] = pure(name, fn)
	}
	n["fmt.Sprintf"] = func(it *Interp, args []Value) ([]Value, error) {
		f, ok := args[0].(string)
		if !ok {
			return []Value{&Unknown{"format string"}}, nil
		}
		return []Value{fmt.Sprintf(f, printable(args[1:])...)}, nil
	}
	n["fmt.Sprint"] = func(it *Interp, args []Value) ([]Value, error) { return []Value{fmt.Sprint(printable(args)...)}, nil }
	n["fmt.Sprintln"] = func(it *Interp, args []Value) ([]Value, error) { return []Value{fmt.Sprintln(printable(args)...)}, nil }
	n["fmt.Errorf"] = func(it *Interp, args []Value) ([]Value, error) {
		f, _ := args[0].(string)
		return []Value{&ErrV{fmt.Sprintf(strings.ReplaceAll(f, "%w", "%v"), printable(args[1:])...)}}, nil
	}
	n["errors.New"] = func(it *Interp, args []Value) ([]Value, error) {
		s, _ := args[0].(string)
		return []Value{&ErrV{s}}, nil
	}
	n["errors.Is"] = func(it *Interp, args []Value) ([]Value, error) {
		a, _ := args[0].(*ErrV)
		b, _ := args[1].(*ErrV)
		return []Value{a != nil && a == b}, nil
	}
	n["fmt.Fprintf"] = func(it *Interp, args []Value) ([]Value, error) {
		f, ok := args[1].(string)
		if !ok {
			return nil, &EvalError{Msg: "Fprintf with format " + Show(args[1])}
		}
		s := fmt.Sprintf(f, printable(args[2:])...)
		return []Value{len(s), nil}, writeTo(args[0], s)
	}
	n["fmt.Fprint"] = func(it *Interp, args []Value) ([]Value, error) {
		s := fmt.Sprint(printable(args[1:])...)
		return []Value{len(s), nil}, writeTo(args[0], s)
	}
	n["fmt.Fprintln"] = func(it *Interp, args []Value) ([]Value, error) {
		s := fmt.Sprintln(printable(args[1:])...)
		return []Value{len(s), nil}, writeTo(args[0], s)
	}
	n["fmt.Sscanf"] = func(it *Interp, args []Value) ([]Value, error) {
		str, ok1 := args[0].(string)
		format, ok2 := args[1].(string)
		if !ok1 || !ok2 {
			return []Value{&Unknown{"Sscanf input"}, &Unknown{"Sscanf input"}}, nil
		}
		var ptrs []any
		var cells []*cell
		for _, a := range args[2:] {
			c, ok := a.(*cell)
			if !ok {
				return nil, &EvalError{Msg: "Sscanf into " + Show(a)}
			}
			cells = append(cells, c)
			switch c.v.(type) {
			case int:
				ptrs = append(ptrs, new(int))
			case string:
				ptrs = append(ptrs, new(string))
			default:
				return nil, &EvalError{Msg: "Sscanf into a variable holding " + Show(c.v)}
			}
		}
		n, err := fmt.Sscanf(str, format, ptrs...)
		for i, p := range ptrs {
			if i >= n {
				break
			}
			switch x := p.(type) {
			case *int:
				cells[i].v = *x
			case *string:
				cells[i].v = *x
			}
		}
		if err != nil {
			return []Value{n, &ErrV{err.Error()}}, nil
		}
		return []Value{n, nil}, nil
	}
	n["io.WriteString"] = func(it *Interp, args []Value) ([]Value, error) {
		s, ok := args[1].(string)
		if !ok {
			return nil, &EvalError{Msg: "WriteString of " + Show(args[1])}
		}
		return []Value{len(s), nil}, writeTo(args[0], s)
	}
	n["sort.Strings"] = func(it *Interp, args []Value) ([]Value, error) {
		xs, _ := args[0].([]any)
		if !sortedStrings(xs) {
			return nil, &EvalError{Msg: "sort.Strings of " + Show(args[0])}
		}
		return nil, nil
	}
	sortSlice := func(stable bool) func(it *Interp, args []Value) ([]Value, error) {
		return func(it *Interp, args []Value) ([]Value, error) {
			xs, _ := args[0].([]any)
			less, ok := args[1].(*Func)
			if !ok {
				return nil, &EvalError{Msg: "sort.Slice with " + Show(args[1])}
			}
			// the less closure indexes the slice variable: sort a permutation and apply it through swaps that keep
			// the variable's backing array current (insertion sort: stable, and every comparison sees the live slice)
			var serr error
			for i := 1; i < len(xs) && serr == nil; i++ {
				for j := i; j > 0; j-- {
					vs, err := it.Call(less, []Value{j, j - 1})
					if err != nil {
						serr = err
						break
					}
					b, ok := vs[0].(bool)
					if !ok {
						serr = &EvalError{Msg: "sort order depends on a value the abstract input does not determine"}
						break
					}
					if !b {
						break
					}
					xs[j], xs[j-1] = xs[j-1], xs[j]
				}
			}
			return nil, serr
		}
	}
	for name, fn := range map[string]any{"strings.Cut": strings.Cut, "strings.CutPrefix": strings.CutPrefix, "strings.CutSuffix": strings.CutSuffix} {
		n[name] = pure(name, fn)
	}
	n["sort.Search"] = func(it *Interp, args []Value) ([]Value, error) {
		k, ok := args[0].(int)
		f, ok2 := args[1].(*Func)
		if !ok || !ok2 {
			return nil, &EvalError{Msg: "sort.Search with " + Show(args[0]) + ", " + Show(args[1])}
		}
		var ferr error
		i := sort.Search(k, func(i int) bool {
			if ferr != nil {
				return true
			}
			vs, err := it.Call(f, []Value{i})
			if err != nil {
				ferr = err
				return true
			}
			b, ok := vs[0].(bool)
			if !ok {
				ferr = &EvalError{Msg: "sort.Search: the predicate's answer is " + Show(vs[0])}
				return true
			}
			return b
		})
		if ferr != nil {
			return nil, ferr
		}
		return []Value{i}, nil
	}
	n["sort.Slice"] = sortSlice(false)
	n["sort.SliceStable"] = sortSlice(true)
	n["text/template.New"] = func(it *Interp, args []Value) ([]Value, error) {
		s, ok := args[0].(string)
		if !ok {
			return nil, &EvalError{Msg: "template name is " + Show(args[0])}
		}
		return []Value{&Tmpl{template.New(s).Option("missingkey=error")}}, nil
	}
	n["text/template.Must"] = func(it *Interp, args []Value) ([]Value, error) {
		if e, ok := args[1].(*ErrV); ok && e != nil {
			return nil, &EvalError{Msg: "template.Must: " + e.Msg}
		}
		return []Value{args[0]}, nil
	}
	n["io/fs.Sub"] = func(it *Interp, args []Value) ([]Value, error) {
		f, ok := args[0].(*FSV)
		d, ok2 := args[1].(string)
		if !ok || !ok2 {
			return nil, &EvalError{Msg: "fs.Sub of " + Show(args[0])}
		}
		return []Value{&FSV{Dir: filepath.Join(f.Dir, d)}, nil}, nil
	}
	n["go.uber.org/multierr.Append"] = func(it *Interp, args []Value) ([]Value, error) {
		for _, a := range args {
			if e, ok := a.(*ErrV); ok && e != nil {
				return []Value{e}, nil
			}
		}
		return []Value{nil}, nil
	}
	n["go.uber.org/multierr.Combine"] = n["go.uber.org/multierr.Append"]
	n["go/format.Node"] = func(it *Interp, args []Value) ([]Value, error) {
		f, ok := args[2].(Foreign)
		if o, isObj := args[2].(map[string]any); isObj && !ok {
			f, ok = o[ProxyKey].(Foreign)
		}
		if !ok {
			return nil, &EvalError{Msg: "format.Node of " + Show(args[2])}
		}
		vs, handled, err := f.CallMethod("$format", nil)
		if err != nil || !handled {
			return nil, &EvalError{Msg: "format.Node of " + Show(args[2])}
		}
		return []Value{nil}, writeTo(args[0], vs[0].(string))
	}
	n["go/types.TypeString"] = func(it *Interp, args []Value) ([]Value, error) {
		f, ok := args[0].(Foreign)
		if !ok {
			return nil, &EvalError{Msg: "types.TypeString of " + Show(args[0])}
		}
		vs, handled, err := f.CallMethod("$typestring", args[1:])
		if err != nil || !handled {
			return nil, &EvalError{Msg: "types.TypeString of " + Show(args[0])}
		}
		if len(args) > 1 && args[1] != nil && len(vs) == 1 {
			if name, ok := vs[0].(string); ok {
				it.qualified = append(it.qualified, name)
			}
		}
		// a type of another package is spelled with what the qualifier answers for that package
		if pq, ok := f.(PackageQualified); ok && len(args) > 1 && len(vs) == 1 {
			if pkg := pq.TypePackage(); pkg != nil {
				if qf, ok := args[1].(*Func); ok && qf != nil {
					rs, err := it.Call(qf, []Value{pkg})
					if err != nil {
						return nil, err
					}
					if q, ok := rs[0].(string); ok && q != "" {
						if name, ok := vs[0].(string); ok {
							vs = []Value{q + "." + name}
						}
					} else if !ok {
						return nil, &EvalError{Msg: "the qualifier's answer is " + Show(rs[0])}
					}
				}
			}
		}
		return vs, nil
	}
	n["golang.org/x/tools/go/ast/astutil.Unparen"] = func(it *Interp, args []Value) ([]Value, error) { return []Value{args[0]}, nil }
	n["go/ast.Unparen"] = n["golang.org/x/tools/go/ast/astutil.Unparen"]

	m := it.Methods
	nodePos := func(it *Interp, recv Value, args []Value) ([]Value, error) {
		if recv == nil {
			return []Value{Pos{}}, nil // a synthesised node without position
		}
		return nil, &EvalError{Msg: "position of " + Show(recv)}
	}
	for _, k := range []string{"(go/ast.Node).Pos", "(go/ast.Node).End", "(go/ast.Expr).Pos", "(go/ast.Expr).End"} {
		m[k] = nodePos
	}
	// a file set the evaluated code makes for itself (to scan or parse text it generated) is the library's own
	n["go/token.NewFileSet"] = func(it *Interp, args []Value) ([]Value, error) {
		return []Value{&Real{reflect.ValueOf(token.NewFileSet())}}, nil
	}
	// regular expressions over constant patterns: the library's own matcher
	for _, name := range []string{"regexp.MustCompile", "regexp.Compile", "regexp.MustCompilePOSIX"} {
		name := name
		n[name] = func(it *Interp, args []Value) ([]Value, error) {
			pat, ok := args[0].(string)
			if !ok {
				return nil, &EvalError{Msg: name + " of " + Show(args[0])}
			}
			r, err := regexp.Compile(pat)
			if name == "regexp.Compile" {
				if err != nil {
					return []Value{nil, &ErrV{Msg: err.Error()}}, nil
				}
				return []Value{&Regexp{r}, nil}, nil
			}
			if err != nil {
				return nil, &EvalError{Msg: name + ": " + err.Error()}
			}
			return []Value{&Regexp{r}}, nil
		}
	}
	n["regexp.MatchString"] = func(it *Interp, args []Value) ([]Value, error) {
		pat, ok1 := args[0].(string)
		str, ok2 := args[1].(string)
		if !ok1 || !ok2 {
			if IsUnknown(args[0]) || IsUnknown(args[1]) {
				return []Value{&Unknown{"match of an unknown string"}, nil}, nil
			}
			return nil, &EvalError{Msg: "regexp.MatchString of " + Show(args[0]) + ", " + Show(args[1])}
		}
		ok, err := regexp.MatchString(pat, str)
		if err != nil {
			return []Value{false, &ErrV{Msg: err.Error()}}, nil
		}
		return []Value{ok, nil}, nil
	}
	reMethod := func(name string, f func(r *regexp.Regexp, s string) Value) {
		m["(*regexp.Regexp)."+name] = func(it *Interp, recv Value, args []Value) ([]Value, error) {
			r, ok := recv.(*Regexp)
			if !ok || r == nil {
				return nil, &EvalError{Msg: name + " of " + Show(recv)}
			}
			if len(args) > 0 && IsUnknown(args[0]) {
				return []Value{args[0]}, nil
			}
			str, ok := args[0].(string)
			if !ok {
				return nil, &EvalError{Msg: name + " of " + Show(args[0])}
			}
			return []Value{f(r.R, str)}, nil
		}
	}
	reMethod("MatchString", func(r *regexp.Regexp, s string) Value { return r.MatchString(s) })
	reMethod("FindString", func(r *regexp.Regexp, s string) Value { return r.FindString(s) })
	reMethod("FindStringSubmatch", func(r *regexp.Regexp, s string) Value {
		var out []any
		for _, x := range r.FindStringSubmatch(s) {
			out = append(out, x)
		}
		return out
	})
	m["(*regexp.Regexp).String"] = func(it *Interp, recv Value, args []Value) ([]Value, error) {
		r, ok := recv.(*Regexp)
		if !ok || r == nil {
			return nil, &EvalError{Msg: "String of " + Show(recv)}
		}
		return []Value{r.R.String()}, nil
	}
	m["(*go/token.FileSet).Position"] = func(it *Interp, recv Value, args []Value) ([]Value, error) {
		p, ok := args[0].(Pos)
		if !ok {
			return nil, &EvalError{Msg: "Position of " + Show(args[0])}
		}
		return []Value{map[string]any{TypeKey: "Position", "Filename": "file.go", "Line": p.Line, "Column": p.Col, "Offset": &Unknown{"byte offset"}}}, nil
	}
	m["(*go/token.FileSet).PositionFor"] = m["(*go/token.FileSet).Position"]
	m["(*go/types.Package).Path"] = func(it *Interp, recv Value, args []Value) ([]Value, error) {
		if o, ok := recv.(map[string]any); ok {
			if s, ok := o["path"].(string); ok {
				return []Value{s}, nil
			}
		}
		return nil, &EvalError{Msg: "Path of " + Show(recv)}
	}
	m["(*go/types.Package).Name"] = func(it *Interp, recv Value, args []Value) ([]Value, error) {
		if o, ok := recv.(map[string]any); ok {
			if s, ok := o["path"].(string); ok {
				return []Value{path.Base(s)}, nil
			}
		}
		return nil, &EvalError{Msg: "Name of " + Show(recv)}
	}
	m["(*go/types.Package).Scope"] = func(it *Interp, recv Value, args []Value) ([]Value, error) {
		if o, ok := recv.(map[string]any); ok {
			if sc, ok := o["scope"]; ok {
				return []Value{sc}, nil // one scope object per package object
			}
		}
		return []Value{map[string]any{TypeKey: "Scope"}}, nil
	}
	// no declaration of the abstract package is visible at an abstract position
	m["(*go/types.Scope).Innermost"] = func(it *Interp, recv Value, args []Value) ([]Value, error) { return []Value{nil}, nil }
	m["(*go/types.Scope).LookupParent"] = func(it *Interp, recv Value, args []Value) ([]Value, error) { return []Value{nil, nil}, nil }
	m["(*go/types.Scope).Lookup"] = func(it *Interp, recv Value, args []Value) ([]Value, error) {
		if o, ok := recv.(map[string]any); ok && o["universe"] == true {
			if name, ok := args[0].(string); ok {
				return []Value{UniverseObject(name)}, nil
			}
			return nil, &EvalError{Msg: "Universe.Lookup of " + Show(args[0])}
		}
		return []Value{nil}, nil
	}
	// objects of the abstract program's scopes (ScopeObject, UniverseObject)
	objField := func(key string, dflt Value) func(it *Interp, recv Value, args []Value) ([]Value, error) {
		return func(it *Interp, recv Value, args []Value) ([]Value, error) {
			if o, ok := recv.(map[string]any); ok && (o[TypeKey] == "Object" || o[TypeKey] == "PkgName") {
				if v, ok := o[key]; ok {
					return []Value{v}, nil
				}
				return []Value{dflt}, nil
			}
			return nil, &EvalError{Msg: key + " of " + Show(recv)}
		}
	}
	m["(go/types.Object).Parent"] = objField("parent", nil)
	m["(go/types.Object).Name"] = objField("name", "")
	m["(go/types.Object).Pkg"] = objField("pkg", nil)
	m["(go/types.Object).Pos"] = objField("pos", Pos{Valid: true, Line: 1, Col: 1})
}

// Finalize makes the niladic methods of the data structs visible to text/template: the data objects are maps, so a
// method {{ .M }} is looked up as a key; its value is computed here from the method's source.
func (it *Interp) Finalize(data Value) {
	seen := map[uintptr]bool{}
	var walk func(v Value)
	walk = func(v Value) {
		switch x := v.(type) {
		case map[string]any:
			p := reflect.ValueOf(x).Pointer()
			if seen[p] {
				return
			}
			seen[p] = true
			for _, k := range sortedKeys(x) {
				walk(x[k])
			}
			it.addMethods(x)
		case []any:
			for _, e := range x {
				walk(e)
			}
		}
	}
	walk(data)
}

func sortedKeys(m map[string]any) []string {
	ks := make([]string, 0, len(m))
	for k := range m {
		ks = append(ks, k)
	}
	sort.Strings(ks)
	return ks
}

func (it *Interp) addMethods(o map[string]any) {
	n := it.TypeByName(typeName(o))
	if n == nil {
		return
	}
	ms := types.NewMethodSet(types.NewPointer(n))
	for i := 0; i < ms.Len(); i++ {
		sel := ms.At(i)
		fn, ok := sel.Obj().(*types.Func)
		if !ok || !fn.Exported() || len(sel.Index()) != 1 {
			continue
		}
		sig := fn.Type().(*types.Signature)
		if sig.Params().Len() != 0 || sig.Results().Len() < 1 || sig.Results().Len() > 2 {
			continue
		}
		d := it.decls[fn]
		if d == nil {
			continue
		}
		if _, exists := o[fn.Name()]; exists {
			if !it.methodKeys[n.Obj().Name()+"."+fn.Name()] {
				continue // a field of that name
			}
		}
		steps, depth := it.steps, it.depth
		vs, err := it.Call(&Func{Name: fn.FullName(), Obj: fn, decl: d, Recv: o, hasRcv: true}, nil)
		it.depth = depth
		if err != nil || len(vs) == 0 {
			it.steps = steps
			delete(o, fn.Name())
			continue
		}
		if it.methodKeys == nil {
			it.methodKeys = map[string]bool{}
		}
		it.methodKeys[n.Obj().Name()+"."+fn.Name()] = true
		o[fn.Name()] = vs[0]
	}
}
