package regen

import (
	"fmt"
	"go/ast"
	"go/token"
	"go/types"
	"sort"
	"strings"

	"cffverif/internal/astx"
	"cffverif/internal/gen"

	"golang.org/x/tools/go/packages"
)

// Modifier mode replaces every directive call by a call of a generated package-level function with the
// same argument list shape, and appends that function (and one pass-through helper per option) to the file:
//
//	err := _cffFlow<f>_<l>_<c>(ctx, _cffParams<..>(in0), _cffTask<..>(fn), ...)
//	func _cffFlow<..>(ctx context.Context, m1 func() A, m2 func() func(A) B, ...) error {
//		_L_C := m1(); ...            // prologue
//		<the same body as base mode>
//	}
//	func _cffParams<..>(p A) func() A { return func() A { return p } }
//
// modInstancesOf pairs the i-th directive of the source with the i-th call of an implementation function
// (a package-level function of the generated file that calls cff.NewScheduler) and presents the
// implementation as an instance of kind "modflow" to the V-rules; the call site and the helpers are
// checked by V22 (pass-through).
func modInstancesOf(corpus, rel string, gp *packages.Package, gf *ast.File, sp *packages.Package, sf *ast.File, sfset *token.FileSet) []*gen.Instance {
	info := gp.TypesInfo
	sites, impl, decls := modSites(gp, gf)
	ds := directiveCalls(sp, sf)
	var out []*gen.Instance
	if len(sites) != len(ds) {
		in := &gen.Instance{Key: fmt.Sprintf("%s/%s", corpus, rel), Origin: "Y", Kind: "modflow", Fset: gp.Fset, File: gf, Info: info, Pkg: gp.Types, Roles: map[string]gen.Role{}, GoMinor: 19}
		in.TypeErrs = append(in.TypeErrs, fmt.Sprintf("%d calls of generated flow functions for %d source directives", len(sites), len(ds)))
		return []*gen.Instance{in}
	}
	for i, site := range sites {
		d := ds[i]
		fd := impl[info.Uses[site.Fun.(*ast.Ident)]]
		in := &gen.Instance{Origin: "Y", Fset: gp.Fset, File: gf, Info: info, Pkg: gp.Types, Roles: map[string]gen.Role{}, GoMinor: 19,
			Wrapper: &ast.FuncLit{Type: fd.Type, Body: fd.Body}}
		in.Key = fmt.Sprintf("%s/%s:%d", corpus, strings.Replace(rel, "_gen", "", 1), sfset.Position(d.Pos()).Line)
		resolve(in, sp, sfset, d)
		if in.Kind == "flow" {
			in.Kind = "modflow"
		}
		in.Mod = passThrough(gp, sp, sfset, d, site, fd, decls)
		out = append(out, in)
	}
	return out
}

// passThrough checks the call site, the helpers and the implementation's prologue (V22). It returns the
// problems found and the number of argument expressions traced.
func passThrough(gp, sp *packages.Package, sfset *token.FileSet, d, site *ast.CallExpr, fd *ast.FuncDecl, decls map[types.Object]*ast.FuncDecl) *gen.ModCheck {
	mc := &gen.ModCheck{Checked: true}
	bad := func(f string, a ...interface{}) { mc.Problems = append(mc.Problems, fmt.Sprintf(f, a...)) }
	// (gofmt prints `((x))` as `(x)`: directly nested parentheses are collapsed before comparing)
	norm := func(e ast.Expr) string {
		s := strings.Join(strings.Fields(types.ExprString(e)), " ")
		for {
			t := collapseParens(s)
			if t == s {
				return s
			}
			s = t
		}
	}
	ginfo := gp.TypesInfo
	if len(site.Args) != len(d.Args) {
		bad("the generated call has %d arguments, the directive %d", len(site.Args), len(d.Args))
		return mc
	}
	if len(d.Args) == 0 {
		return mc
	}
	if norm(site.Args[0]) != norm(d.Args[0]) {
		bad("the context argument `%s` became `%s`", norm(d.Args[0]), norm(site.Args[0]))
	}
	// parameters of the implementation, flattened
	var params []*ast.Ident
	var ptypes []ast.Expr
	for _, f := range fd.Type.Params.List {
		if len(f.Names) == 0 {
			params = append(params, nil)
			ptypes = append(ptypes, f.Type)
		}
		for _, n := range f.Names {
			params = append(params, n)
			ptypes = append(ptypes, f.Type)
		}
	}
	if len(params) != len(d.Args) {
		bad("the generated function has %d parameters for %d directive arguments", len(params), len(d.Args))
		return mc
	}
	// prologue statements by the parameter they call
	calledBy := map[types.Object][]*ast.AssignStmt{}
	for _, st := range fd.Body.List {
		as, ok := st.(*ast.AssignStmt)
		if !ok || as.Tok != token.DEFINE || len(as.Rhs) != 1 {
			continue
		}
		c, ok := as.Rhs[0].(*ast.CallExpr)
		if !ok || len(c.Args) != 0 {
			continue
		}
		if id, ok := c.Fun.(*ast.Ident); ok {
			if o := ginfo.Uses[id]; o != nil {
				calledBy[o] = append(calledBy[o], as)
			}
		}
	}
	// every use of a parameter m_k other than its one prologue call is a second evaluation path
	for k := 1; k < len(d.Args); k++ {
		so, ok := astx.Unparen(d.Args[k]).(*ast.CallExpr)
		if !ok {
			bad("option %d of the directive is not a call", k)
			continue
		}
		go_, ok := astx.Unparen(site.Args[k]).(*ast.CallExpr)
		if !ok {
			bad("argument %d of the generated call is not a call (`%s`)", k, norm(site.Args[k]))
			continue
		}
		hid, ok := go_.Fun.(*ast.Ident)
		if !ok {
			// an option the modifier generator does not rewrite (outside the supported subset) is passed as is
			if norm(site.Args[k]) != norm(d.Args[k]) {
				bad("option %d `%s` became `%s`", k, norm(d.Args[k]), norm(site.Args[k]))
			}
			continue
		}
		helper := decls[ginfo.Uses[hid]]
		if helper == nil {
			if norm(site.Args[k]) != norm(d.Args[k]) {
				bad("option %d `%s` became `%s`", k, norm(d.Args[k]), norm(site.Args[k]))
			}
			continue
		}
		// (b) same expressions, same order
		if len(go_.Args) != len(so.Args) {
			bad("option %d: %d expressions passed to %s, the directive has %d", k, len(go_.Args), hid.Name, len(so.Args))
			continue
		}
		for i := range so.Args {
			if norm(go_.Args[i]) != norm(so.Args[i]) {
				bad("option %d: expression %d `%s` became `%s`", k, i, norm(so.Args[i]), norm(go_.Args[i]))
			}
			mc.Exprs++
		}
		// (c) the helper returns a closure returning its parameters, in order
		if msg := helperPassesThrough(gp, helper); msg != "" {
			bad("%s: %s", hid.Name, msg)
		}
		// (d) the implementation calls parameter k exactly once, in the prologue, binding the names of the
		// source positions in order
		if params[k] == nil || params[k].Name == "_" {
			bad("option %d (%s) is dropped: the generated function ignores its parameter", k, norm(so.Fun))
			continue
		}
		pobj := ginfo.Defs[params[k]]
		uses := 0
		ast.Inspect(fd.Body, func(n ast.Node) bool {
			if id, ok := n.(*ast.Ident); ok && ginfo.Uses[id] == pobj {
				uses++
			}
			return true
		})
		as := calledBy[pobj]
		if len(as) != 1 || uses != 1 {
			bad("parameter %s is called %d times in the prologue and used %d times in all (want 1 and 1)", params[k].Name, len(as), uses)
			continue
		}
		if len(as[0].Lhs) != len(so.Args) {
			bad("option %d: the prologue binds %d names for %d expressions", k, len(as[0].Lhs), len(so.Args))
			continue
		}
		for i, l := range as[0].Lhs {
			p := sfset.Position(so.Args[i].Pos())
			want := fmt.Sprintf("_%d_%d", p.Line, p.Column)
			if id, ok := l.(*ast.Ident); !ok || id.Name != want {
				bad("option %d: expression %d `%s` is bound to %s, its position says %s", k, i, norm(so.Args[i]), norm(l), want)
			}
		}
	}
	// order of the prologue calls = order of the parameters
	last := token.NoPos
	for k := 1; k < len(params); k++ {
		if params[k] == nil {
			continue
		}
		if as := calledBy[ginfo.Defs[params[k]]]; len(as) == 1 {
			if as[0].Pos() < last {
				bad("the prologue evaluates %s out of order", params[k].Name)
			}
			last = as[0].Pos()
		}
	}
	return mc
}

// helperPassesThrough: `func h(p1 T1, ..., pn Tn) func() (T1..Tn) { return func() (T1..Tn) { return p1, ..., pn } }`.
func helperPassesThrough(gp *packages.Package, h *ast.FuncDecl) string {
	info := gp.TypesInfo
	var ps []types.Object
	for _, f := range h.Type.Params.List {
		for _, n := range f.Names {
			ps = append(ps, info.Defs[n])
		}
	}
	if len(h.Body.List) != 1 {
		return "the helper does more than return a closure"
	}
	ret, ok := h.Body.List[0].(*ast.ReturnStmt)
	if !ok || len(ret.Results) != 1 {
		return "the helper does not return a single closure"
	}
	fl, ok := ret.Results[0].(*ast.FuncLit)
	if !ok || len(fl.Body.List) != 1 || fl.Type.Params.NumFields() != 0 {
		return "the helper does not return a parameterless closure with a single return"
	}
	r2, ok := fl.Body.List[0].(*ast.ReturnStmt)
	if !ok || len(r2.Results) != len(ps) {
		return fmt.Sprintf("the closure returns %d values for %d parameters", len(r2.Results), len(ps))
	}
	for i, e := range r2.Results {
		if astx.IdentObj(info, e) != ps[i] {
			return fmt.Sprintf("result %d of the closure is not parameter %d of the helper", i, i)
		}
	}
	return ""
}

// modSites: the calls of generated flow functions that replaced the directives (position order), the flow
// functions themselves and all package-level functions of the file by object.
func modSites(gp *packages.Package, gf *ast.File) ([]*ast.CallExpr, map[types.Object]*ast.FuncDecl, map[types.Object]*ast.FuncDecl) {
	info := gp.TypesInfo
	impl := map[types.Object]*ast.FuncDecl{}
	decls := map[types.Object]*ast.FuncDecl{}
	for _, d := range gf.Decls {
		fd, ok := d.(*ast.FuncDecl)
		if !ok || fd.Body == nil || fd.Recv != nil {
			continue
		}
		decls[info.Defs[fd.Name]] = fd
		found := false
		ast.Inspect(fd.Body, func(n ast.Node) bool {
			if c, ok := n.(*ast.CallExpr); ok {
				if fn := astx.Callee(info, c); fn != nil && fn.Pkg() != nil && fn.Pkg().Path() == cffPath && fn.Name() == "NewScheduler" {
					found = true
				}
			}
			return true
		})
		if found {
			impl[info.Defs[fd.Name]] = fd
		}
	}
	// call sites of implementation functions, outside the implementations, in position order
	var sites []*ast.CallExpr
	for _, d := range gf.Decls {
		fd, ok := d.(*ast.FuncDecl)
		if ok && impl[info.Defs[fd.Name]] != nil {
			continue
		}
		ast.Inspect(d, func(n ast.Node) bool {
			if c, ok := n.(*ast.CallExpr); ok {
				if id, ok := c.Fun.(*ast.Ident); ok && impl[info.Uses[id]] != nil {
					sites = append(sites, c)
				}
			}
			return true
		})
	}
	sort.Slice(sites, func(i, j int) bool { return sites[i].Pos() < sites[j].Pos() })
	return sites, impl, decls
}

// collapseParens rewrites one level of `((...))` (a parenthesised expression that is itself only a parenthesised
// expression) to `(...)`, outside string literals.
func collapseParens(s string) string {
	// match[i] = index of the parenthesis matching the one at i
	match := map[int]int{}
	var stack []int
	inStr := byte(0)
	for i := 0; i < len(s); i++ {
		c := s[i]
		if inStr != 0 {
			if c == '\\' && inStr != '`' {
				i++
			} else if c == inStr {
				inStr = 0
			}
			continue
		}
		switch c {
		case '"', '`', '\'':
			inStr = c
		case '(':
			stack = append(stack, i)
		case ')':
			if len(stack) > 0 {
				o := stack[len(stack)-1]
				stack = stack[:len(stack)-1]
				match[o] = i
			}
		}
	}
	for o, cl := range match {
		if o+1 < len(s) && s[o+1] == '(' && match[o+1] == cl-1 {
			// an argument list `f((x))` also looks like this; only collapse when the outer parenthesis does not follow a
			// callee (identifier, closing bracket or parenthesis)
			if o > 0 {
				p := s[o-1]
				if p == ')' || p == ']' || p == '}' || p == '_' || p >= '0' && p <= '9' || p >= 'a' && p <= 'z' || p >= 'A' && p <= 'Z' {
					continue
				}
			}
			return s[:o] + s[o+1:cl] + s[cl+1:]
		}
	}
	return s
}
