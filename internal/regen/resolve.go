package regen

import (
	"fmt"
	"go/ast"
	"go/token"
	"go/types"

	"cffverif/internal/astx"
	"cffverif/internal/gen"

	"golang.org/x/tools/go/packages"
)

// resolve reads the source directive independently of the generator: which
// argument expression plays which role, the signature facts of every
// function argument, and the directive-level options. Roles are keyed by the
// name the generator gives the hoisted expression (_<line>_<column>).
func resolve(in *gen.Instance, sp *packages.Package, fset *token.FileSet, d *ast.CallExpr) {
	info := sp.TypesInfo
	name := func(e ast.Expr) string {
		p := fset.Position(e.Pos())
		return fmt.Sprintf("_%d_%d", p.Line, p.Column)
	}
	set := func(e ast.Expr, r gen.Role) {
		if id, ok := astx.Unparen(e).(*ast.Ident); ok && id.Name == "nil" {
			return // printed in place
		}
		in.Roles[name(e)] = r
		in.SrcExprs = append(in.SrcExprs, gen.SrcExpr{Name: name(e), Text: types.ExprString(e), Line: fset.Position(e.Pos()).Line, Col: fset.Position(e.Pos()).Column})
	}
	callee := func(e ast.Expr) (string, *ast.CallExpr) {
		c, ok := astx.Unparen(e).(*ast.CallExpr)
		if !ok {
			return "", nil
		}
		fn := astx.Callee(info, c)
		if fn == nil || fn.Pkg() == nil || fn.Pkg().Path() != cffPath {
			return "", nil
		}
		return fn.Name(), c
	}
	sigRole := func(e ast.Expr, r gen.Role) gen.Role {
		if sig, ok := info.TypeOf(e).Underlying().(*types.Signature); ok {
			nIn := sig.Params().Len()
			if nIn > 0 && isCtx(sig.Params().At(0).Type()) {
				r.WantCtx = true
				nIn--
			}
			nOut := sig.Results().Len()
			if nOut > 0 && types.Identical(sig.Results().At(nOut-1).Type(), types.Universe.Lookup("error").Type()) {
				r.HasError = true
				nOut--
			}
			r.NIn, r.NOut = nIn, nOut
		}
		return r
	}
	fname, _ := callee(d)
	in.Kind = "flow"
	if fname == "Parallel" {
		in.Kind = "parallel"
	}
	if len(d.Args) == 0 {
		return
	}
	set(d.Args[0], gen.Role{Kind: "ctx"})
	nTask, nPTask, nSlice, nMap, nEm := 0, 0, 0, 0, 0
	for _, opt := range d.Args[1:] {
		on, oc := callee(opt)
		if oc == nil {
			continue
		}
		switch on {
		case "Params":
			for i, a := range oc.Args {
				set(a, gen.Role{Kind: "param", Index: i})
			}
		case "Results":
			for i, a := range oc.Args {
				set(a, gen.Role{Kind: "result", Index: i})
			}
		case "Concurrency":
			in.HasConcurrency = true
			set(oc.Args[0], gen.Role{Kind: "conc"})
		case "ContinueOnError":
			in.HasContinueOnError = true
			set(oc.Args[0], gen.Role{Kind: "coe"})
		case "WithEmitter":
			set(oc.Args[0], gen.Role{Kind: "emitter", Index: nEm})
			nEm++
		case "InstrumentFlow", "InstrumentParallel":
			in.Instrumented = true
			set(oc.Args[0], gen.Role{Kind: "name", Task: -1})
		case "Task":
			if in.Kind == "parallel" {
				r := sigRole(oc.Args[0], gen.Role{Kind: "ptask", Task: nPTask})
				for _, to := range oc.Args[1:] {
					if tn, tc := callee(to); tn == "Instrument" {
						r.Instr = true
						set(tc.Args[0], gen.Role{Kind: "name", Task: nPTask})
					}
				}
				set(oc.Args[0], r)
				nPTask++
				continue
			}
			r := sigRole(oc.Args[0], gen.Role{Kind: "task", Task: nTask})
			for _, to := range oc.Args[1:] {
				tn, tc := callee(to)
				switch tn {
				case "Predicate":
					r.HasPred = true
					set(tc.Args[0], sigRole(tc.Args[0], gen.Role{Kind: "pred", Task: nTask}))
				case "FallbackWith":
					r.Fallback = true
					for j, a := range tc.Args {
						set(a, gen.Role{Kind: "fallback", Task: nTask, Index: j})
					}
				case "Instrument":
					r.Instr = true
					set(tc.Args[0], gen.Role{Kind: "name", Task: nTask})
				case "Invoke":
					// a constant; the generated code refers to it all the same (an import used only here must stay
					// used) unless it is the predeclared true or false
					if id, ok := astx.Unparen(tc.Args[0]).(*ast.Ident); ok {
						if o := info.Uses[id]; o != nil && o.Parent() == types.Universe {
							break
						}
					}
					set(tc.Args[0], gen.Role{Kind: "invoke", Task: nTask})
				}
			}
			set(oc.Args[0], r)
			nTask++
		case "Tasks":
			for _, a := range oc.Args {
				set(a, sigRole(a, gen.Role{Kind: "ptask", Task: nPTask}))
				nPTask++
			}
		case "Slice":
			r := sigRole(oc.Args[0], gen.Role{Kind: "slicefn", Task: nSlice})
			r.HasIndex = r.NIn == 2
			set(oc.Args[0], r)
			set(oc.Args[1], gen.Role{Kind: "slice", Task: nSlice})
			for _, so := range oc.Args[2:] {
				if sn, sc := callee(so); sn == "SliceEnd" {
					set(sc.Args[0], sigRole(sc.Args[0], gen.Role{Kind: "sliceend", Task: nSlice}))
				}
			}
			nSlice++
		case "Map":
			set(oc.Args[0], sigRole(oc.Args[0], gen.Role{Kind: "mapfn", Task: nMap}))
			set(oc.Args[1], gen.Role{Kind: "map", Task: nMap})
			for _, mo := range oc.Args[2:] {
				if mn, mc := callee(mo); mn == "MapEnd" {
					set(mc.Args[0], sigRole(mc.Args[0], gen.Role{Kind: "mapend", Task: nMap}))
				}
			}
			nMap++
		}
	}
	in.NEmitters = nEm
	in.NTasks = nTask + nPTask + nSlice + nMap
	for _, r := range in.Roles {
		if r.Kind == "pred" {
			in.NPreds++
		}
	}
}

func isCtx(t types.Type) bool {
	n, ok := t.(*types.Named)
	return ok && n.Obj().Pkg() != nil && n.Obj().Pkg().Path() == "context" && n.Obj().Name() == "Context"
}
