package regen

import (
	"bytes"
	"fmt"
	"go/ast"
	"go/build/constraint"
	"go/scanner"
	"go/token"
	"go/types"
	"os"
	"sort"

	"golang.org/x/tools/go/packages"
)

// FileCmp is the outcome of comparing a source file with its generated counterpart.
type FileCmp struct {
	Key string
	Bad string
}

// tokens returns the token stream of a Go file without comments (and without the semicolons the scanner inserts after them).
func tokens(path string) ([]string, error) {
	b, err := os.ReadFile(path)
	if err != nil {
		return nil, err
	}
	fset := token.NewFileSet()
	f := fset.AddFile(path, -1, len(b))
	var s scanner.Scanner
	s.Init(f, b, nil, 0) // mode 0: comments are skipped
	var out []string
	for {
		_, tok, lit := s.Scan()
		if tok == token.EOF {
			break
		}
		if tok == token.SEMICOLON && lit == "\n" {
			out = append(out, ";")
			continue
		}
		if lit != "" {
			out = append(out, lit)
		} else {
			out = append(out, tok.String())
		}
	}
	return out, nil
}

// compareOutside checks that every top-level declaration of the source file re-appears in the
// generated file, identical except at directive call sites, and that imports are only added.
func compareOutside(key string, sp *packages.Package, sf *ast.File, sfset *token.FileSet, gp *packages.Package, gf *ast.File, modifier bool) FileCmp {
	res := FileCmp{Key: key}
	dcalls := directiveCalls(sp, sf)
	var gsites []*ast.CallExpr
	appended := map[ast.Decl]bool{} // modifier mode: generated functions added to the file
	if modifier {
		sites, impl, decls := modSites(gp, gf)
		gsites = sites
		used := map[types.Object]bool{}
		for _, c := range sites {
			// the flow function called, and the pass-through helper each option was wrapped in
			if id, ok := c.Fun.(*ast.Ident); ok {
				used[gp.TypesInfo.Uses[id]] = true
			}
			for _, a := range c.Args {
				if ac, ok := a.(*ast.CallExpr); ok {
					if id, ok := ac.Fun.(*ast.Ident); ok {
						if o := gp.TypesInfo.Uses[id]; o != nil {
							used[o] = true
						}
					}
				}
			}
		}
		for o, fd := range decls {
			if used[o] && (impl[o] != nil || helperPassesThrough(gp, fd) == "") {
				appended[fd] = true
			}
		}
	} else {
		gsites = wrapperCalls(gp, gf)
	}
	if len(dcalls) != len(gsites) {
		res.Bad = fmt.Sprintf("%d directives in the source, %d generated closures", len(dcalls), len(gsites))
		return res
	}
	// imports: every source import (path+name) is still there
	have := map[string]bool{}
	for _, im := range gf.Imports {
		n := ""
		if im.Name != nil {
			n = im.Name.Name
		}
		have[n+" "+im.Path.Value] = true
	}
	for _, im := range sf.Imports {
		n := ""
		if im.Name != nil {
			n = im.Name.Name
		}
		if !have[n+" "+im.Path.Value] {
			res.Bad = "import " + n + " " + im.Path.Value + " of the source is missing in the generated file"
			return res
		}
	}
	nonImport := func(f *ast.File) []ast.Decl {
		var out []ast.Decl
		for _, d := range f.Decls {
			if gd, ok := d.(*ast.GenDecl); ok && gd.Tok == token.IMPORT {
				continue
			}
			out = append(out, d)
		}
		return out
	}
	sd, gd := nonImport(sf), nonImport(gf)
	if modifier {
		// the generated functions (reached from the rewritten call sites) are additions; everything else must
		// be the source's declarations, in order
		var kept []ast.Decl
		for _, d := range gd {
			if !appended[d] {
				kept = append(kept, d)
			}
		}
		gd = kept
	}
	if len(sd) != len(gd) {
		res.Bad = fmt.Sprintf("%d declarations in the source, %d in the generated file", len(sd), len(gd))
		return res
	}
	// token stream of each declaration (comments dropped) with the directive / generated closure replaced by a marker
	srcBytes, err1 := os.ReadFile(sfset.PositionFor(sf.Pos(), false).Filename)
	genBytes, err2 := os.ReadFile(gp.Fset.PositionFor(gf.Pos(), false).Filename)
	if err1 != nil || err2 != nil {
		res.Bad = "cannot read files"
		return res
	}
	render := func(fset *token.FileSet, content []byte, d ast.Decl, sites []ast.Expr) []string {
		lo, hi := fset.PositionFor(d.Pos(), false).Offset, fset.PositionFor(d.End(), false).Offset
		var buf bytes.Buffer
		cur := lo
		for _, s := range sites {
			a, b := fset.PositionFor(s.Pos(), false).Offset, fset.PositionFor(s.End(), false).Offset
			if a < lo || b > hi || a < cur || b > len(content) {
				continue
			}
			buf.Write(content[cur:a])
			buf.WriteString(" __CFF_DIRECTIVE__ ")
			cur = b
		}
		buf.Write(content[cur:hi])
		fs := token.NewFileSet()
		f := fs.AddFile("d.go", -1, buf.Len())
		var sc scanner.Scanner
		sc.Init(f, buf.Bytes(), nil, 0)
		var toks []string
		for {
			_, tok, lit := sc.Scan()
			if tok == token.EOF {
				break
			}
			if tok == token.SEMICOLON {
				continue // automatic semicolons depend on line breaks, which gofmt may move
			}
			if lit != "" {
				toks = append(toks, lit)
			} else {
				toks = append(toks, tok.String())
			}
		}
		return toks
	}
	var ss, gs []ast.Expr
	for _, c := range dcalls {
		ss = append(ss, c)
	}
	for _, c := range gsites {
		gs = append(gs, c)
	}
	for i := range sd {
		a := render(sfset, srcBytes, sd[i], ss)
		b := render(gp.Fset, genBytes, gd[i], gs)
		n := len(a)
		if len(b) < n {
			n = len(b)
		}
		for j := 0; j < n; j++ {
			if a[j] != b[j] {
				res.Bad = fmt.Sprintf("declaration %d differs outside directive sites at token %d: source `%s`, generated `%s`", i, j, a[j], b[j])
				return res
			}
		}
		if len(a) != len(b) {
			res.Bad = fmt.Sprintf("declaration %d: %d tokens in the source, %d in the generated file", i, len(a), len(b))
			return res
		}
	}
	return res
}

// compareConstraints checks, for every assignment of the tags that occur, that the generated file
// is selected exactly when the source file would be selected with the cff tag flipped.
func compareConstraints(key string, sf, gf *ast.File) FileCmp {
	res := FileCmp{Key: key}
	parse := func(f *ast.File) ([]constraint.Expr, []constraint.Expr) {
		var gb, pb []constraint.Expr
		for _, cg := range f.Comments {
			if cg.Pos() >= f.Package {
				break
			}
			for _, c := range cg.List {
				e, err := constraint.Parse(c.Text)
				if err != nil {
					continue
				}
				if constraint.IsGoBuild(c.Text) {
					gb = append(gb, e)
				} else {
					pb = append(pb, e)
				}
			}
		}
		return gb, pb
	}
	sg, sp := parse(sf)
	gg, gp := parse(gf)
	tags := map[string]bool{}
	collect := func(es []constraint.Expr) {
		for _, e := range es {
			e.Eval(func(t string) bool { tags[t] = true; return true })
			e.Eval(func(t string) bool { tags[t] = true; return false })
		}
	}
	collect(sg)
	collect(sp)
	collect(gg)
	collect(gp)
	var names []string
	for t := range tags {
		names = append(names, t)
	}
	sort.Strings(names)
	if len(names) > 10 {
		res.Bad = "too many tags"
		return res
	}
	all := func(es []constraint.Expr, asg map[string]bool) bool {
		for _, e := range es {
			if !e.Eval(func(t string) bool { return asg[t] }) {
				return false
			}
		}
		return true
	}
	// what the go tool obeys: the //go:build line if there is one, the +build lines otherwise. Every syntax
	// present in the generated file must say the same as the source's effective constraint with cff flipped
	// (gofmt adds a //go:build line to a file that has +build lines only: an added syntax is fine, a syntax of
	// the source that disappears is not when it was the only one older toolchains read)
	effective := func(gb, pb []constraint.Expr) []constraint.Expr {
		if len(gb) > 0 {
			return gb
		}
		return pb
	}
	src := effective(sg, sp)
	if len(src) == 0 && (len(gg) > 0 || len(gp) > 0) {
		res.Bad = "the generated file carries a build constraint, the source none"
		return res
	}
	if len(sg) > 0 && len(gg) == 0 || len(sp) > 0 && len(gp) == 0 {
		res.Bad = "a constraint syntax present in the source is missing in the generated file"
		return res
	}
	for _, gen := range [][]constraint.Expr{gg, gp} {
		if len(gen) == 0 {
			continue
		}
		for m := 0; m < 1<<len(names); m++ {
			asg, flipped := map[string]bool{}, map[string]bool{}
			for i, n := range names {
				asg[n] = m&(1<<i) != 0
				flipped[n] = asg[n]
			}
			flipped["cff"] = !asg["cff"]
			if all(gen, asg) != all(src, flipped) {
				res.Bad = fmt.Sprintf("under %v the generated file is selected=%v but the source with cff flipped is selected=%v", asg, all(gen, asg), all(src, flipped))
				return res
			}
		}
	}
	res.Key = fmt.Sprintf("%s (%d tags, %d assignments)", key, len(names), 1<<len(names))
	return res
}
