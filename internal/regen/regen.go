// Package regen implements the Y front end (DESIGN §2): the generator built
// from /repo's current tree is run, as `go generate` would, on corpus
// programs copied to a scratch directory outside /repo and /verif; the
// generated sources are loaded (type-checked) and handed to the V-rules
// together with an independent reading of the source directives. The
// generated code is never compiled to a binary and never run.
package regen

import (
	"context"
	"fmt"
	"go/ast"
	"go/build/constraint"
	"go/parser"
	"go/token"
	"go/types"
	"os"
	"os/exec"
	"path/filepath"
	"sort"
	"strings"
	"time"

	"cffverif/internal/astx"
	"cffverif/internal/gen"
	"cffverif/internal/load"

	"golang.org/x/tools/go/packages"
)

const cffPath = load.Module

// Corpus is a directory of cff-tagged packages with the cff command lines to replay.
type Corpus struct {
	Name     string
	Src      string     // directory to copy
	Module   string     // module path for a synthesised go.mod ("" = the copy has its own go.mod whose replace is rewritten)
	Cmds     [][]string // argument lists for the cff binary, each with a working directory relative to the copy: first element is the directory
	VRules   bool       // extract base-mode instances and run the V-rules on them
	Modifier bool       // the corpus is generated in modifier mode: instances are the generated flow functions
	Go       string     // go directive of the synthesised go.mod ("" = 1.19)
	Reject   bool       // every package of the corpus that holds a cff-tagged file must be refused; nothing else is analysed
}

// RejectCheck is the outcome for one package of a reject corpus.
type RejectCheck struct {
	Key string // corpus/package
	Bad string // "" = refused with a diagnostic positioned in the package, no output written
	How string // the first diagnostic
}

// Result of regenerating the corpora.
type Result struct {
	Instances []*gen.Instance
	PkgErrs   map[string][]string // generated package -> type errors
	Leftover  []string            // directive calls left in generated code
	Files     int
	Packages  int
	Rejects   []RejectCheck                  // reject corpora: per package
	GenErrs   []string                       // cff invocations that failed
	Outside   []FileCmp                      // source vs generated outside directive sites
	Tags      []FileCmp                      // build-constraint inversion, per file
	Tokens    map[string]map[string][]string // corpus -> rel path -> comment-free token stream of the generated file
}

// runLimit bounds every child process (the build of cmd/cff, and cff on a corpus: seconds on the pinned tree). A
// generator that does not come to an end on a valid corpus is reported (V23), not waited for.
const runLimit = 5 * time.Minute

func run(dir string, env []string, name string, args ...string) (string, error) {
	ctx, cancel := context.WithTimeout(context.Background(), runLimit)
	defer cancel()
	cmd := exec.CommandContext(ctx, name, args...)
	cmd.Dir = dir
	cmd.Env = env
	cmd.WaitDelay = 5 * time.Second
	out, err := cmd.CombinedOutput()
	if ctx.Err() != nil {
		return string(out), fmt.Errorf("did not finish within %v and was stopped", runLimit)
	}
	return string(out), err
}

func copyTree(src, dst string) error {
	return filepath.Walk(src, func(p string, fi os.FileInfo, err error) error {
		if err != nil {
			return err
		}
		rel, _ := filepath.Rel(src, p)
		if fi.IsDir() {
			if fi.Name() == ".git" || fi.Name() == "failing_tests" {
				return filepath.SkipDir
			}
			return os.MkdirAll(filepath.Join(dst, rel), 0o755)
		}
		b, err := os.ReadFile(p)
		if err != nil {
			return err
		}
		return os.WriteFile(filepath.Join(dst, rel), b, 0o644)
	})
}

// Regenerate builds cff from repoDir and replays the corpora in a scratch directory.
func Regenerate(repoDir string, corpora []Corpus) (*Result, error) {
	tmp, err := os.MkdirTemp("", "cffverif-regen-")
	if err != nil {
		return nil, err
	}
	defer os.RemoveAll(tmp)
	// the generator dumps output it cannot parse into os.TempDir(): keep that inside the scratch directory
	scratchTmp := filepath.Join(tmp, "tmp")
	os.MkdirAll(scratchTmp, 0o755)
	env := append(load.Env(), "TMPDIR="+scratchTmp)
	cff := filepath.Join(tmp, "cff")
	if out, err := run(repoDir, env, "go", "build", "-o", cff, "./cmd/cff"); err != nil {
		return nil, fmt.Errorf("building cff from %s: %v: %s", repoDir, err, out)
	}
	res := &Result{PkgErrs: map[string][]string{}, Tokens: map[string]map[string][]string{}}
	directives := directiveFuncs(repoDir)
	for _, c := range corpora {
		dst := filepath.Join(tmp, c.Name)
		if err := copyTree(c.Src, dst); err != nil {
			return nil, err
		}
		// remove stale generated files so that only this run's output is analysed
		filepath.Walk(dst, func(p string, fi os.FileInfo, err error) error {
			if err == nil && !fi.IsDir() && (strings.HasSuffix(p, "_gen.go") || strings.HasSuffix(p, "_gen_test.go")) {
				os.Remove(p)
			}
			return nil
		})
		if c.Module != "" {
			gov := c.Go
			if gov == "" {
				gov = "1.19"
			}
			mod := fmt.Sprintf("module %s\n\ngo %s\n\nrequire go.uber.org/cff v0.0.0\n\nreplace go.uber.org/cff => %s\n", c.Module, gov, repoDir)
			os.WriteFile(filepath.Join(dst, "go.mod"), []byte(mod), 0o644)
			if b, err := os.ReadFile(filepath.Join(repoDir, "go.sum")); err == nil {
				os.WriteFile(filepath.Join(dst, "go.sum"), b, 0o644)
			}
		} else {
			// rewrite the relative replace to the repository under analysis
			gm := filepath.Join(dst, "go.mod")
			if b, err := os.ReadFile(gm); err == nil {
				lines := strings.Split(string(b), "\n")
				for i, l := range lines {
					if strings.HasPrefix(strings.TrimSpace(l), "replace go.uber.org/cff ") {
						lines[i] = "replace go.uber.org/cff => " + repoDir
					}
				}
				os.WriteFile(gm, []byte(strings.Join(lines, "\n")), 0o644)
			}
		}
		if c.Reject {
			rejectCorpus(res, c, dst, env, cff)
			continue
		}
		for _, cmdline := range c.Cmds {
			out, err := run(filepath.Join(dst, cmdline[0]), env, cff, cmdline[1:]...)
			if err != nil {
				res.GenErrs = append(res.GenErrs, fmt.Sprintf("%s: cff %s: %v: %.400s", c.Name, strings.Join(cmdline[1:], " "), err, out))
			}
		}
		if err := analyse(res, c, dst, env, directives); err != nil {
			return nil, err
		}
	}
	return res, nil
}

// directiveFuncs: exported functions of package cff whose body is a single panic (the code generation directives).
func directiveFuncs(repoDir string) map[string]bool {
	out := map[string]bool{}
	fset := token.NewFileSet()
	cfg := &packages.Config{Mode: packages.NeedSyntax | packages.NeedName | packages.NeedFiles, Dir: repoDir, Env: load.Env(), Fset: fset}
	pkgs, err := packages.Load(cfg, ".")
	if err != nil || len(pkgs) == 0 {
		return out
	}
	for _, f := range pkgs[0].Syntax {
		for _, d := range f.Decls {
			fd, ok := d.(*ast.FuncDecl)
			if !ok || fd.Recv != nil || fd.Body == nil || !fd.Name.IsExported() || len(fd.Body.List) != 1 {
				continue
			}
			if es, ok := fd.Body.List[0].(*ast.ExprStmt); ok {
				if c, ok := es.X.(*ast.CallExpr); ok {
					if id, ok := c.Fun.(*ast.Ident); ok && id.Name == "panic" {
						out[fd.Name.Name] = true
					}
				}
			}
		}
	}
	return out
}

func loadPkgs(dir string, env []string, tags string) ([]*packages.Package, *token.FileSet, error) {
	fset := token.NewFileSet()
	cfg := &packages.Config{
		Mode: packages.NeedName | packages.NeedFiles | packages.NeedCompiledGoFiles | packages.NeedImports | packages.NeedDeps | packages.NeedTypes | packages.NeedSyntax | packages.NeedTypesInfo,
		Dir:  dir, Env: env, Fset: fset, Tests: true,
	}
	if tags != "" {
		cfg.BuildFlags = []string{"-tags", tags}
	}
	pkgs, err := packages.Load(cfg, "./...")
	return pkgs, fset, err
}

func analyse(res *Result, c Corpus, dir string, env []string, directives map[string]bool) error {
	genPkgs, _, err := loadPkgs(dir, env, "")
	if err != nil {
		return err
	}
	srcPkgs, srcFset, err := loadPkgs(dir, env, "cff")
	if err != nil {
		return err
	}
	// source files by path
	type srcFile struct {
		pkg  *packages.Package
		file *ast.File
	}
	srcByPath := map[string]srcFile{}
	for _, p := range srcPkgs {
		for i, f := range p.Syntax {
			if i < len(p.CompiledGoFiles) {
				srcByPath[p.CompiledGoFiles[i]] = srcFile{p, f}
			}
		}
	}
	seenFile := map[string]bool{}
	for _, p := range genPkgs {
		if strings.HasSuffix(p.ID, ".test") {
			continue
		}
		res.Packages++
		for _, e := range p.Errors {
			res.PkgErrs[p.PkgPath] = append(res.PkgErrs[p.PkgPath], strings.ReplaceAll(e.Error(), dir+"/", ""))
		}
		for i, f := range p.Syntax {
			if i >= len(p.CompiledGoFiles) {
				continue
			}
			path := p.CompiledGoFiles[i]
			if seenFile[path] {
				continue
			}
			seenFile[path] = true
			rel, _ := filepath.Rel(dir, path)
			// V15: no directive call left anywhere in the package built without the cff tag
			ast.Inspect(f, func(n ast.Node) bool {
				call, ok := n.(*ast.CallExpr)
				if !ok {
					return true
				}
				if fn := astx.Callee(p.TypesInfo, call); fn != nil && fn.Pkg() != nil && fn.Pkg().Path() == cffPath && fn.Type().(*types.Signature).Recv() == nil && directives[fn.Name()] {
					res.Leftover = append(res.Leftover, fmt.Sprintf("%s/%s:%d cff.%s", c.Name, rel, p.Fset.PositionFor(call.Pos(), false).Line, fn.Name()))
				}
				return true
			})
			if !strings.HasSuffix(path, "_gen.go") && !strings.HasSuffix(path, "_gen_test.go") {
				continue
			}
			res.Files++
			if toks, err := tokens(path); err == nil {
				if res.Tokens[c.Name] == nil {
					res.Tokens[c.Name] = map[string][]string{}
				}
				res.Tokens[c.Name][rel] = toks
			}
			if !c.VRules {
				continue
			}
			srcPath := strings.Replace(strings.Replace(path, "_gen_test.go", "_test.go", 1), "_gen.go", ".go", 1)
			sf, ok := srcByPath[srcPath]
			if !ok {
				continue
			}
			var ins []*gen.Instance
			if c.Modifier {
				ins = modInstancesOf(c.Name, rel, p, f, sf.pkg, sf.file, srcFset)
			} else {
				ins = instancesOf(c.Name, rel, p, f, sf.pkg, sf.file, srcFset)
			}
			// the language version that governs the generated file: the module's go directive, or the go1.N
			// its own build constraint pins it to
			minor := 19
			if c.Go != "" {
				fmt.Sscanf(c.Go, "1.%d", &minor)
			}
			if fm := fileGoMinor(f); fm > 0 {
				minor = fm
			}
			for _, in := range ins {
				in.GoMinor = minor
			}
			res.Instances = append(res.Instances, ins...)
			res.Outside = append(res.Outside, compareOutside(c.Name+"/"+rel, sf.pkg, sf.file, srcFset, p, f, c.Modifier))
			res.Tags = append(res.Tags, compareConstraints(c.Name+"/"+rel, sf.file, f))
		}
	}
	if c.VRules {
		// every source file that is selected with the cff tag and holds a directive must have its generated
		// counterpart selected without the tag (otherwise the package loses that file's declarations, or keeps
		// the unexpanded source): pairing from the source side, so that a counterpart that was not written or
		// whose constraint was not inverted cannot go unnoticed
		var paths []string
		for path := range srcByPath {
			paths = append(paths, path)
		}
		sort.Strings(paths)
		for _, path := range paths {
			sf := srcByPath[path]
			if strings.HasSuffix(path, "_gen.go") || strings.HasSuffix(path, "_gen_test.go") || len(directiveCalls(sf.pkg, sf.file)) == 0 {
				continue
			}
			genPath := strings.TrimSuffix(path, ".go") + "_gen.go"
			if strings.HasSuffix(path, "_test.go") {
				genPath = strings.TrimSuffix(path, "_test.go") + "_gen_test.go"
			}
			if seenFile[genPath] {
				continue
			}
			rel, _ := filepath.Rel(dir, genPath)
			fc := FileCmp{Key: c.Name + "/" + rel}
			if gf, err := parser.ParseFile(token.NewFileSet(), genPath, nil, parser.ParseComments); err != nil {
				fc.Bad = "the source file is selected with the cff tag and holds a directive, but no generated counterpart was written"
			} else if cmp := compareConstraints(fc.Key, sf.file, gf); cmp.Bad != "" {
				fc.Bad = "the generated counterpart is not selected when the cff tag is off: " + cmp.Bad
			} else {
				fc.Bad = "the generated counterpart exists but is not part of the package built without the cff tag"
			}
			res.Tags = append(res.Tags, fc)
		}
	}
	return nil
}

// wrappersOf finds the generated closures: `func() ... { ... }()` whose body (or the closure it returns) calls cff.NewScheduler directly.
func wrappersOf(p *packages.Package, f *ast.File) []*ast.FuncLit {
	var out []*ast.FuncLit
	for _, c := range wrapperCalls(p, f) {
		out = append(out, c.Fun.(*ast.FuncLit))
	}
	return out
}

// wrapperCalls returns the call expressions `func() ... {...}()` that replaced directives.
func wrapperCalls(p *packages.Package, f *ast.File) []*ast.CallExpr {
	var out []*ast.CallExpr
	var inside []*ast.FuncLit
	// the generator's wrapper: func() error { <prologue>; return func() (err error) { ... cff.NewScheduler ... }() }()
	// (a user's own immediately-invoked literal around a directive - go func(){...}(), defer func(){...}() - is not one)
	isSched := func(fl *ast.FuncLit) bool {
		if fl.Type.Results == nil || len(fl.Type.Results.List) != 1 || len(fl.Body.List) == 0 {
			return false
		}
		ret, ok := fl.Body.List[len(fl.Body.List)-1].(*ast.ReturnStmt)
		if !ok || len(ret.Results) != 1 {
			return false
		}
		ic, ok := ret.Results[0].(*ast.CallExpr)
		if !ok || len(ic.Args) != 0 {
			return false
		}
		inner, ok := ic.Fun.(*ast.FuncLit)
		if !ok {
			return false
		}
		found := false
		ast.Inspect(inner.Body, func(n ast.Node) bool {
			if c, ok := n.(*ast.CallExpr); ok {
				if fn := astx.Callee(p.TypesInfo, c); fn != nil && fn.Pkg() != nil && fn.Pkg().Path() == cffPath && fn.Name() == "NewScheduler" {
					found = true
				}
			}
			return true
		})
		return found
	}
	ast.Inspect(f, func(n ast.Node) bool {
		c, ok := n.(*ast.CallExpr)
		if !ok || len(c.Args) != 0 {
			return true
		}
		fl, ok := c.Fun.(*ast.FuncLit)
		if !ok || fl.Type.Params.NumFields() != 0 {
			return true
		}
		for _, o := range inside {
			if fl.Pos() >= o.Pos() && fl.End() <= o.End() {
				return true
			}
		}
		if isSched(fl) {
			out = append(out, c)
			inside = append(inside, fl)
		}
		return true
	})
	sort.Slice(out, func(i, j int) bool { return out[i].Pos() < out[j].Pos() })
	return out
}

// directiveCalls lists cff.Flow / cff.Parallel calls of a source file, outermost only, in position order.
func directiveCalls(p *packages.Package, f *ast.File) []*ast.CallExpr {
	var out []*ast.CallExpr
	ast.Inspect(f, func(n ast.Node) bool {
		c, ok := n.(*ast.CallExpr)
		if !ok {
			return true
		}
		if fn := astx.Callee(p.TypesInfo, c); fn != nil && fn.Pkg() != nil && fn.Pkg().Path() == cffPath && (fn.Name() == "Flow" || fn.Name() == "Parallel") {
			out = append(out, c)
			return false
		}
		return true
	})
	return out
}

func instancesOf(corpus, rel string, gp *packages.Package, gf *ast.File, sp *packages.Package, sf *ast.File, sfset *token.FileSet) []*gen.Instance {
	ws := wrappersOf(gp, gf)
	ds := directiveCalls(sp, sf)
	var out []*gen.Instance
	for i, w := range ws {
		key := fmt.Sprintf("%s/%s#%d", corpus, rel, i)
		in := &gen.Instance{Key: key, Origin: "Y", Fset: gp.Fset, File: gf, Info: gp.TypesInfo, Pkg: gp.Types, Wrapper: w, Roles: map[string]gen.Role{}, GoMinor: 19}
		if len(ws) != len(ds) {
			in.TypeErrs = append(in.TypeErrs, fmt.Sprintf("%d generated closures for %d source directives", len(ws), len(ds)))
			out = append(out, in)
			continue
		}
		d := ds[i]
		in.Key = fmt.Sprintf("%s/%s:%d", corpus, strings.Replace(rel, "_gen", "", 1), sfset.Position(d.Pos()).Line)
		resolve(in, sp, sfset, d)
		out = append(out, in)
	}
	return out
}

// fileGoMinor: the go1.N a file's //go:build line pins its language version to (0 = none).
func fileGoMinor(f *ast.File) int {
	for _, cg := range f.Comments {
		if cg.Pos() >= f.Package {
			break
		}
		for _, c := range cg.List {
			if !constraint.IsGoBuild(c.Text) {
				continue
			}
			e, err := constraint.Parse(c.Text)
			if err != nil {
				continue
			}
			n := 0
			if _, err := fmt.Sscanf(constraint.GoVersion(e), "go1.%d", &n); err == nil {
				return n
			}
		}
	}
	return 0
}

// rejectCorpus runs cff on a corpus whose packages must all be refused and records, per package that holds a
// cff-tagged file: cff as a whole exited non-zero, printed a diagnostic positioned in a file of that package, and
// wrote no output file into it.
func rejectCorpus(res *Result, c Corpus, dst string, env []string, cff string) {
	// the source corpus must be type-correct under the cff tag: the refusals are about directives, not about Go
	if pkgs, _, err := loadPkgs(dst, env, "cff"); err != nil {
		res.Rejects = append(res.Rejects, RejectCheck{Key: c.Name, Bad: "the corpus cannot be loaded: " + err.Error()})
		return
	} else {
		for _, p := range pkgs {
			for _, e := range p.Errors {
				res.Rejects = append(res.Rejects, RejectCheck{Key: c.Name + "/" + filepath.Base(p.PkgPath), Bad: "the corpus package does not type-check under the cff tag (the corpus is wrong, not cff): " + e.Error()})
				return
			}
		}
	}
	var tagged []string // directories with a cff-tagged file
	filepath.Walk(dst, func(p string, fi os.FileInfo, err error) error {
		if err != nil || fi.IsDir() || !strings.HasSuffix(p, ".go") {
			return nil
		}
		b, err := os.ReadFile(p)
		if err != nil {
			return nil
		}
		for _, l := range strings.Split(string(b), "\n") {
			if strings.HasPrefix(l, "package ") {
				break
			}
			if strings.HasPrefix(l, "//go:build") && strings.Contains(l, "cff") && !strings.Contains(l, "!cff") {
				d := filepath.Dir(p)
				if len(tagged) == 0 || tagged[len(tagged)-1] != d {
					tagged = append(tagged, d)
				}
			}
		}
		return nil
	})
	for _, cmdline := range c.Cmds {
		out, err := run(filepath.Join(dst, cmdline[0]), env, cff, cmdline[1:]...)
		label := strings.Join(cmdline[1:], " ")
		crashed := strings.Contains(out, "goroutine ") && strings.Contains(out, "panic")
		for _, d := range tagged {
			rel, _ := filepath.Rel(dst, d)
			rc := RejectCheck{Key: c.Name + "/" + rel + " [cff " + label + "]"}
			diag := ""
			for _, l := range strings.Split(out, "\n") {
				if i := strings.Index(l, d+string(filepath.Separator)); i >= 0 && strings.Contains(l[i:], ".go:") {
					diag = strings.TrimSpace(strings.ReplaceAll(l, dst+string(filepath.Separator), ""))
					break
				}
			}
			var written []string
			ents, _ := os.ReadDir(d)
			for _, e := range ents {
				if strings.HasSuffix(e.Name(), "_gen.go") || strings.HasSuffix(e.Name(), "_gen_test.go") {
					written = append(written, e.Name())
				}
			}
			switch {
			case crashed:
				rc.Bad = "cff crashed: " + firstLines(out, 3)
			case err == nil:
				rc.Bad = "cff exited 0 on a corpus of programs it must refuse"
			case diag == "":
				rc.Bad = "cff printed no diagnostic positioned in this package: the program is accepted (or skipped) silently"
			case len(written) > 0:
				rc.Bad = "cff reported `" + diag + "` but still wrote " + strings.Join(written, ", ")
			}
			rc.How = diag
			res.Rejects = append(res.Rejects, rc)
			for _, w := range written {
				os.Remove(filepath.Join(d, w))
			}
		}
	}
}

func firstLines(s string, n int) string {
	ls := strings.Split(strings.TrimSpace(s), "\n")
	if len(ls) > n {
		ls = ls[:n]
	}
	return strings.Join(ls, " | ")
}
