// Package report holds obligations, verdicts, evidence files, known findings
// and the VIOLATION / KNOWN-FINDING output protocol.
package report

import (
	"encoding/json"
	"fmt"
	"os"
	"path/filepath"
	"sort"
	"strings"
	"sync"
	"time"
)

// Status of one obligation.
type Status int

const (
	Discharged Status = iota
	Violated
	Undecided
)

func (s Status) String() string {
	switch s {
	case Discharged:
		return "discharged"
	case Violated:
		return "violated"
	}
	return "undecided"
}

// Obligation is one instance of a rule on one construct. Key is semantic
// (function, role, variant description), never a line number.
type Obligation struct {
	Rule   string `json:"rule"`
	Key    string `json:"key"`
	Status Status `json:"-"`
	St     string `json:"status"`
	Pos    string `json:"pos,omitempty"`
	Msg    string `json:"msg,omitempty"`
}

// Rule describes a rule of the catalogue (DESIGN §4).
type Rule struct {
	ID    string
	Text  string
	Floor int      // minimum number of instances (obligations) expected on any tree where the rule is meaningful
	Props []string // properties the rule is a necessary condition of
}

// Sink collects obligations; safe for concurrent use.
type Sink struct {
	mu  sync.Mutex
	obs []Obligation
	// Facts are free-form counters reported in the evidence (functions analysed, variants, ...).
	Facts map[string]any
}

func NewSink() *Sink { return &Sink{Facts: map[string]any{}} }

func (s *Sink) add(o Obligation) {
	o.St = o.Status.String()
	s.mu.Lock()
	s.obs = append(s.obs, o)
	s.mu.Unlock()
}

// Add records a ready-made obligation.
func (s *Sink) Add(o Obligation) { s.add(o) }

// OK records a discharged obligation.
func (s *Sink) OK(rule, key, pos, msg string) {
	s.add(Obligation{Rule: rule, Key: key, Status: Discharged, Pos: pos, Msg: msg})
}

// Bad records a violated obligation.
func (s *Sink) Bad(rule, key, pos, msg string) {
	s.add(Obligation{Rule: rule, Key: key, Status: Violated, Pos: pos, Msg: msg})
}

// Unk records an undecided obligation (counts as failure).
func (s *Sink) Unk(rule, key, pos, msg string) {
	s.add(Obligation{Rule: rule, Key: key, Status: Undecided, Pos: pos, Msg: msg})
}

// Check is a convenience: OK if cond, else Bad.
func (s *Sink) Check(cond bool, rule, key, pos, okmsg, badmsg string) bool {
	if cond {
		s.OK(rule, key, pos, okmsg)
	} else {
		s.Bad(rule, key, pos, badmsg)
	}
	return cond
}

func (s *Sink) SetFact(k string, v any) {
	s.mu.Lock()
	s.Facts[k] = v
	s.mu.Unlock()
}

func (s *Sink) AddFact(k string, n int) {
	s.mu.Lock()
	if v, ok := s.Facts[k].(int); ok {
		s.Facts[k] = v + n
	} else {
		s.Facts[k] = n
	}
	s.mu.Unlock()
}

// Obligations returns a sorted copy.
func (s *Sink) Obligations() []Obligation {
	s.mu.Lock()
	defer s.mu.Unlock()
	out := append([]Obligation(nil), s.obs...)
	sort.SliceStable(out, func(i, j int) bool {
		if out[i].Rule != out[j].Rule {
			return ruleLess(out[i].Rule, out[j].Rule)
		}
		return out[i].Key < out[j].Key
	})
	return out
}

func ruleLess(a, b string) bool {
	if a[0] != b[0] {
		return a[0] < b[0]
	}
	var x, y int
	fmt.Sscanf(a[1:], "%d", &x)
	fmt.Sscanf(b[1:], "%d", &y)
	if x != y {
		return x < y
	}
	return a < b
}

// Known findings file.
type Finding struct {
	Property string `json:"property"`
	Rule     string `json:"rule"`
	Key      string `json:"key"` // exact obligation key, or prefix ending in '*'
	What     string `json:"what"`
}
type Fixed struct {
	Property string `json:"property"`
	Commit   string `json:"commit"`
	What     string `json:"what"`
	Line     string `json:"line"`
}
type KnownFile struct {
	Comment string    `json:"comment"`
	Known   []Finding `json:"known"`
	Fixed   []Fixed   `json:"fixed"`
}

func LoadKnown(path string) (*KnownFile, error) {
	b, err := os.ReadFile(path)
	if err != nil {
		if os.IsNotExist(err) {
			return &KnownFile{}, nil
		}
		return nil, err
	}
	var k KnownFile
	if err := json.Unmarshal(b, &k); err != nil {
		return nil, err
	}
	return &k, nil
}

func (k *KnownFile) match(prop string, o Obligation) *Finding {
	for i := range k.Known {
		f := &k.Known[i]
		if f.Property != prop || f.Rule != o.Rule {
			continue
		}
		if f.Key == o.Key || (strings.HasSuffix(f.Key, "*") && strings.HasPrefix(o.Key, strings.TrimSuffix(f.Key, "*"))) {
			return f
		}
	}
	return nil
}

// Outcome of finishing a property check.
type Outcome struct {
	Violations int
	Known      int
	ExitCode   int
}

// Finish filters obligations to the rules of the property, applies floors
// and known findings, writes evidence and replay files, prints protocol
// lines, and returns the exit code.
func Finish(verifDir, prop, tier string, seed int, rules []Rule, sink *Sink, explanation string, assumptions []string, start time.Time, engineErr []string) Outcome {
	ruleSet := map[string]Rule{}
	for _, r := range rules {
		ruleSet[r.ID] = r
	}
	var obs []Obligation
	counts := map[string]int{}
	for _, o := range sink.Obligations() {
		if _, ok := ruleSet[o.Rule]; !ok {
			continue
		}
		obs = append(obs, o)
		counts[o.Rule]++
	}
	// Floors: a rule with fewer instances than confirmed by hand is undecided.
	for _, r := range rules {
		if counts[r.ID] < r.Floor {
			o := Obligation{Rule: r.ID, Key: "floor", Status: Undecided,
				Msg: fmt.Sprintf("rule matched %d instance(s), floor is %d: the analyser no longer recognises the constructs this rule is about", counts[r.ID], r.Floor)}
			o.St = o.Status.String()
			obs = append(obs, o)
		}
	}
	for _, e := range engineErr {
		o := Obligation{Rule: "ENGINE", Key: e, Status: Undecided, Msg: e}
		o.St = o.Status.String()
		obs = append(obs, o)
	}
	known, kerr := LoadKnown(filepath.Join(verifDir, "known_findings.json"))
	if kerr != nil {
		o := Obligation{Rule: "ENGINE", Key: "known_findings.json", Status: Undecided, Msg: kerr.Error()}
		o.St = o.Status.String()
		obs = append(obs, o)
		known = &KnownFile{}
	}

	evDir := filepath.Join(verifDir, "evidence")
	vioDir := filepath.Join(evDir, "violations")
	os.MkdirAll(vioDir, 0o755)
	// remove stale replay files of this property
	if old, _ := filepath.Glob(filepath.Join(vioDir, prop+"-*.json")); old != nil {
		for _, f := range old {
			os.Remove(f)
		}
	}

	out := Outcome{}
	discharged := 0
	var knownLines []string
	var vioSamples []Obligation
	seenKnown := map[string]bool{}
	for _, o := range obs {
		if o.Status == Discharged {
			discharged++
			continue
		}
		if f := known.match(prop, o); f != nil && o.Status == Violated {
			out.Known++
			line := fmt.Sprintf("KNOWN-FINDING: property=%s %s [%s %s]", prop, f.What, o.Rule, o.Key)
			if !seenKnown[line] {
				seenKnown[line] = true
				fmt.Println(line)
				knownLines = append(knownLines, line)
			}
			continue
		}
		out.Violations++
		path := filepath.Join(vioDir, fmt.Sprintf("%s-%d.json", prop, out.Violations))
		rep := map[string]any{
			"property": prop, "rule": o.Rule, "rule_text": ruleSet[o.Rule].Text, "key": o.Key,
			"status": o.St, "pos": o.Pos, "msg": o.Msg, "tier": tier,
			"replay": fmt.Sprintf("cd /verif && bin/cffverif check %s --tier %s --only '%s'", prop, tier, o.Rule),
		}
		b, _ := json.MarshalIndent(rep, "", "  ")
		os.WriteFile(path, b, 0o644)
		fmt.Printf("%s %s [%s] %s: %s\n", strings.ToUpper(o.St), o.Pos, o.Rule, o.Key, o.Msg)
		fmt.Printf("VIOLATION property=%s replay=%s\n", prop, path)
		if len(vioSamples) < 20 {
			vioSamples = append(vioSamples, o)
		}
	}
	if out.Violations > 0 {
		out.ExitCode = 1
	}

	// Evidence.
	perRule := map[string]map[string]any{}
	var ruleIDs []string
	for _, r := range rules {
		ruleIDs = append(ruleIDs, r.ID)
		perRule[r.ID] = map[string]any{"text": r.Text, "floor": r.Floor, "instances": counts[r.ID]}
	}
	sort.Slice(ruleIDs, func(i, j int) bool { return ruleLess(ruleIDs[i], ruleIDs[j]) })
	// samples: up to 2 per rule, discharged ones, written out.
	var samples []any
	perRuleSeen := map[string]int{}
	for _, o := range obs {
		if perRuleSeen[o.Rule] >= 2 {
			continue
		}
		perRuleSeen[o.Rule]++
		samples = append(samples, o)
	}
	distinct := map[string]bool{}
	for _, o := range obs {
		distinct[o.Rule+"|"+o.Key] = true
	}
	cov := map[string]any{
		"explanation":         explanation,
		"obligations":         len(obs),
		"discharged":          discharged,
		"evaluations":         len(obs),
		"distinct_nontrivial": len(distinct),
		"rule":                "one obligation per (rule, construct key); distinct = distinct (rule,key) pairs; every obligation is a rule instance found in the analysed source, none is synthetic",
		"samples":             samples,
		"rules":               perRule,
		"rule_order":          ruleIDs,
		"facts":               sink.Facts,
		"known_findings":      knownLines,
		"violating":           vioSamples,
		"exhaustive":          true,
		"checker_cmd":         fmt.Sprintf("bin/cffverif check %s --tier %s", prop, tier),
	}
	ev := map[string]any{
		"property_id": prop,
		"tier":        tier,
		"seed":        seed,
		"level":       "other",
		"coverage":    cov,
		"assumptions": assumptions,
		"wall_s":      time.Since(start).Seconds(),
		"violations":  out.Violations,
	}
	b, _ := json.MarshalIndent(ev, "", " ")
	os.WriteFile(filepath.Join(evDir, prop+".json"), b, 0o644)
	fmt.Printf("%s tier=%s obligations=%d discharged=%d known=%d violations=%d wall=%.1fs\n", prop, tier, len(obs), discharged, out.Known, out.Violations, time.Since(start).Seconds())
	return out
}
