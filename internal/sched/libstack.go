package sched

import (
	"fmt"
	"go/token"
	"go/types"

	"cffverif/internal/load"
	"cffverif/internal/report"
	"cffverif/internal/ssax"

	"golang.org/x/tools/go/ssa"
)

// RunStacks evaluates L1-L3 (emitter stacks of package cff) on SSA, with the
// same value/loop/guard machinery as the scheduler rules: a stack method must
// call the same-named method exactly once on every element of the receiver,
// with its own parameters, and do nothing else.
func RunStacks(repo *load.Repo, s *report.Sink) (err error) {
	defer func() {
		if r := recover(); r != nil {
			err = fmt.Errorf("lib: analyser panic: %v", r)
		}
	}()
	repo.BuildSSA()
	m := &model{repo: repo, prog: repo.Prog, keyMemo: map[ssa.Value]string{}, guardMemo: map[*ssa.BasicBlock][]atom{}, tloops: map[*ssa.BasicBlock]*tloop{}}
	m.cffp = repo.SSA[load.Module]
	if m.cffp == nil {
		return fmt.Errorf("package cff not loaded")
	}
	m.pkg = m.cffp // helper call sites of package cff (single-site helpers are analysed in context)
	m.computeSites()
	tp := m.cffp.Pkg
	type stackT struct {
		named *types.Named
		iface *types.Named
	}
	var stacks []stackT
	sc := tp.Scope()
	for _, n := range sc.Names() {
		tn, ok := sc.Lookup(n).(*types.TypeName)
		if !ok {
			continue
		}
		nt, ok := tn.Type().(*types.Named)
		if !ok {
			continue
		}
		sl, ok := nt.Underlying().(*types.Slice)
		if !ok {
			continue
		}
		el, ok := sl.Elem().(*types.Named)
		if !ok {
			continue
		}
		if it, ok := el.Underlying().(*types.Interface); ok && types.Implements(nt, it) {
			stacks = append(stacks, stackT{nt, el})
		}
	}
	s.SetFact("lib.stack_types", len(stacks))
	for _, st := range stacks {
		it := st.iface.Underlying().(*types.Interface)
		for i := 0; i < it.NumMethods(); i++ {
			meth := it.Method(i)
			key := fmt.Sprintf("%s.%s", st.named.Obj().Name(), meth.Name())
			fn := m.cffMethod(st.named, false, meth.Name())
			if fn == nil || fn.Blocks == nil {
				s.Unk("L1", key, "", "method declaration not found")
				continue
			}
			sig := meth.Type().(*types.Signature)
			if sig.Results().Len() == 0 {
				ok, why := m.isForwarder(fn, meth.Name(), nil)
				s.Check(ok, "L1", key, m.pos(fn.Pos()), "forwards once to every element with all arguments", "stack method "+key+": "+why+": a stacked emitter would miss, double or receive altered events")
				continue
			}
			var results []ssa.Value
			ok, why := m.isForwarder(fn, meth.Name(), &results)
			if ok {
				ok, why = m.collectsResults(fn, results)
			} else if ok2, _ := m.viaCombinator(fn, meth.Name()); ok2 {
				ok, why = true, ""
			}
			s.Check(ok, "L2", key, m.pos(fn.Pos()), "one e."+meth.Name()+"(args) per element, collected in order", "stack "+key+" does not build exactly one initialised emitter per stacked emitter with the same arguments ("+why+")")
		}
	}
	// L3
	es := m.cffp.Func("EmitterStack")
	if es == nil || es.Blocks == nil {
		s.Unk("L3", "EmitterStack", "", "function not found")
		return nil
	}
	ok0, ok1, okN := m.emitterStack(es)
	pos := m.pos(es.Pos())
	s.Check(ok0, "L3", "EmitterStack|no emitters -> NopEmitter()", pos, "", "EmitterStack() does not return the no-op emitter")
	s.Check(ok1, "L3", "EmitterStack|one emitter -> that emitter", pos, "", "EmitterStack(e) does not return e itself")
	s.Check(okN, "L3", "EmitterStack|n emitters -> each exactly once, nested stacks spliced", pos, "", "EmitterStack drops, duplicates, aliases or fails to flatten an argument: a stacked emitter receives too few or too many events")
	return nil
}

// isForwarder: fn traverses its receiver completely and, in every iteration, unconditionally invokes
// method `name` on the element exactly once, passing fn's own parameters in order; nothing else with an
// effect happens in fn. If results != nil the values returned by the invocations are appended to it.
func (m *model) isForwarder(fn *ssa.Function, name string, results *[]ssa.Value) (bool, string) {
	return m.forwardShape(fn, name, nil, results)
}

// forwardShape is isForwarder with the per-element call either `elem.<name>(params...)` (apply == nil) or
// `apply(elem)` for a function-typed parameter `apply` of fn (a map-style helper).
func (m *model) forwardShape(fn *ssa.Function, name string, apply *ssa.Parameter, results *[]ssa.Value) (bool, string) {
	if len(fn.Params) == 0 {
		return false, "no receiver"
	}
	recvKey := m.key(fn.Params[0])
	params := fn.Params[1:]
	var calls []*ssa.Call
	bad := ""
	ssax.Instrs(fn, func(in ssa.Instruction) {
		switch x := in.(type) {
		case *ssa.Call:
			if _, isB := x.Call.Value.(*ssa.Builtin); isB {
				return
			}
			calls = append(calls, x)
		case *ssa.Go, *ssa.Defer, *ssa.Send, *ssa.Select, *ssa.Panic, *ssa.MapUpdate:
			bad = "contains an instruction with another effect (" + in.String() + ")"
		case *ssa.Store:
			// stores into locals of this function (result slice, spill cells) are fine
			switch a := x.Addr.(type) {
			case *ssa.Alloc:
			case *ssa.IndexAddr:
				_ = a
			default:
				bad = "stores through a pointer"
			}
		}
	})
	if bad != "" {
		return false, bad
	}
	if len(calls) != 1 {
		return false, fmt.Sprintf("%d calls (want exactly one forwarding call)", len(calls))
	}
	c := calls[0]
	var elem ssa.Value
	if apply != nil {
		if c.Call.IsInvoke() || ssax.Unspill(c.Call.Value) != ssa.Value(apply) || len(c.Call.Args) != 1 {
			return false, "the per-element call is not the function parameter applied to the element"
		}
		elem = c.Call.Args[0]
	} else {
		if !c.Call.IsInvoke() || c.Call.Method.Name() != name {
			got := "a non-method call"
			if c.Call.IsInvoke() {
				got = c.Call.Method.Name()
			}
			return false, fmt.Sprintf("forwards to %s instead of %s", got, name)
		}
		elem = c.Call.Value
	}
	tl := m.elemOf(ssax.Unspill(elem))
	if tl == nil {
		tl = m.elemOf(elem)
	}
	if tl == nil || tl.sliceKey != recvKey {
		return false, "the call is not made on the element of a traversal of the receiver"
	}
	if !tl.whole {
		return false, "the traversal of the receiver can be left early"
	}
	if len(m.atomsSince(c, tl.header)) != 0 || !m.mustPass(tl.body, func(b *ssa.BasicBlock) bool { return tl.blocks[b] && b != tl.header }, c) {
		return false, "the forwarding call is conditional"
	}
	// the loop itself is reached unconditionally and only once
	if len(userAtoms(m.localAtoms(tl.header))) != 0 {
		return false, "the traversal is conditional"
	}
	for _, b := range fn.Blocks {
		if l := naturalLoop(b); l != nil && b != tl.header && l[tl.header] {
			return false, "the traversal is nested in another loop"
		}
	}
	if apply == nil {
		if len(c.Call.Args) != len(params) {
			return false, "argument count differs from the parameter count"
		}
		for i, a := range c.Call.Args {
			if ssax.Unspill(a) != ssa.Value(params[i]) {
				return false, fmt.Sprintf("argument %d is not parameter %d", i, i)
			}
		}
	}
	if results != nil {
		*results = append(*results, c)
	}
	return true, ""
}

// collectsResults: fn returns a slice that receives, for every iteration, exactly the forwarded call's result.
func (m *model) collectsResults(fn *ssa.Function, results []ssa.Value) (bool, string) {
	if len(results) != 1 {
		return false, "no forwarded result"
	}
	res := results[0]
	tl := m.enclosingTraversal(res.(ssa.Instruction).Block(), func(*tloop) bool { return true })
	if tl == nil {
		return false, "no traversal"
	}
	var ret *ssa.Return
	n := 0
	ssax.Instrs(fn, func(in ssa.Instruction) {
		if r, ok := in.(*ssa.Return); ok && r.Block() != fn.Recover {
			ret = r
			n++
		}
	})
	if n != 1 || len(ret.Results) != 1 {
		return false, "not exactly one return"
	}
	out := ret.Results[0]
	if mi, ok := out.(*ssa.MakeInterface); ok {
		out = mi.X
	}
	if ct, ok := out.(*ssa.ChangeType); ok {
		out = ct.X
	}
	// the use of the result inside the loop
	var uses []ssa.Instruction
	for _, r := range *res.Referrers() {
		if _, ok := r.(*ssa.DebugRef); !ok {
			uses = append(uses, r)
		}
	}
	if len(uses) != 1 {
		return false, "the initialised emitter is used other than being collected once"
	}
	switch u := uses[0].(type) {
	case *ssa.Store:
		// index form: out[i] = res with out = make(T, len(recv))
		ia, ok := u.Addr.(*ssa.IndexAddr)
		if !ok {
			return false, "unexpected store"
		}
		if arr, isArr := ia.X.(*ssa.Alloc); isArr {
			if _, isA := ssax.Deref(arr.Type()).Underlying().(*types.Array); isA {
				// varargs array of append(acc, res)
				return m.appendForm(tl, u, out)
			}
		}
		cmp := tl.test.Cond.(*ssa.BinOp)
		if ia.Index != cmp.X {
			return false, "stored at an index other than the loop index"
		}
		mk, ok := ssax.Unspill(ia.X).(*ssa.MakeSlice)
		if !ok || ssax.Unspill(out) != ssa.Value(mk) && out != ia.X {
			return false, "the slice written is not the freshly made slice that is returned"
		}
		if m.key(mk.Len) != "len("+tl.sliceKey+")" {
			return false, "the result slice does not have the length of the receiver"
		}
		return true, ""
	}
	return false, "the initialised emitter is not stored into the result"
}

// appendForm: res is stored into the single-element varargs array of `acc = append(acc, res)`,
// acc starts empty, is carried around the loop and is what the function returns.
func (m *model) appendForm(tl *tloop, st *ssa.Store, out ssa.Value) (bool, string) {
	ia, ok := st.Addr.(*ssa.IndexAddr)
	if !ok {
		return false, "unexpected store"
	}
	arr, ok := ia.X.(*ssa.Alloc)
	if !ok {
		return false, "unexpected store"
	}
	var app *ssa.Call
	for _, r := range *arr.Referrers() {
		if sl, ok := r.(*ssa.Slice); ok {
			for _, rr := range *sl.Referrers() {
				if c, ok := rr.(*ssa.Call); ok {
					if _, isApp := isBuiltinCall(c, "append"); isApp {
						app = c
					}
				}
			}
		}
	}
	if app == nil {
		return false, "the initialised emitter is not appended"
	}
	acc, ok := app.Call.Args[0].(*ssa.Phi)
	if !ok || acc.Block() != tl.header {
		return false, "append does not extend the loop-carried accumulator"
	}
	for k, e := range acc.Edges {
		if tl.blocks[tl.header.Preds[k]] {
			if e != ssa.Value(app) {
				return false, "the accumulator is not carried as the appended slice"
			}
		} else if !m.isEmptySlice(e) {
			return false, "the accumulator does not start empty"
		}
	}
	o := out
	if ssax.Unspill(o) != ssa.Value(acc) && o != ssa.Value(acc) {
		return false, "the returned slice is not the accumulator"
	}
	return true, ""
}

func (m *model) isEmptySlice(v ssa.Value) bool {
	if ssax.IsNilConst(v) {
		return true
	}
	if mk, ok := v.(*ssa.MakeSlice); ok && ssax.IsConstInt(mk.Len, 0) {
		return true
	}
	return false
}

// emitterStack checks the three cases of EmitterStack(emitters...).
func (m *model) emitterStack(fn *ssa.Function) (ok0, ok1, okN bool) {
	if len(fn.Params) != 1 {
		return
	}
	p := fn.Params[0]
	pk := m.key(p)
	isLen := func(v ssa.Value) bool { return m.key(v) == "len("+pk+")" }
	lenIs := func(as []atom, n int64) bool {
		return find(as, func(a atom) bool { ok, pol := eqInt(a, n, isLen); return ok && pol }) != nil
	}
	lenNot := func(as []atom, n int64) bool {
		if find(as, func(a atom) bool { ok, pol := eqInt(a, n, isLen); return ok && !pol }) != nil {
			return true
		}
		// len > n / len >= n+1
		return find(as, func(a atom) bool {
			return less(a, func(v ssa.Value) bool { return ssax.IsConstInt(v, n) }, isLen)
		}) != nil
	}
	okN = false
	nN := 0
	ssax.Instrs(fn, func(in ssa.Instruction) {
		r, ok := in.(*ssa.Return)
		if !ok || r.Block() == fn.Recover || len(r.Results) != 1 {
			return
		}
		for _, lf := range m.expandPhi(r.Results[0], r.Block(), 0) {
			as := lf.atoms
			v := lf.val
			switch {
			case lenIs(as, 0):
				if c, ok := v.(*ssa.Call); ok && c.Call.StaticCallee() != nil && c.Call.StaticCallee().Name() == "NopEmitter" {
					ok0 = true
				}
			case lenIs(as, 1):
				// emitters[0]
				if u, ok := v.(*ssa.UnOp); ok && u.Op == token.MUL {
					if ia, ok := u.X.(*ssa.IndexAddr); ok && m.key(ia.X) == pk && ssax.IsConstInt(ia.Index, 0) {
						ok1 = true
					}
				}
			case lenNot(as, 0) && lenNot(as, 1) || find(as, func(a atom) bool { return less(a, func(x ssa.Value) bool { return ssax.IsConstInt(x, 1) }, isLen) }) != nil:
				nN++
				okN = m.isSplicedStack(fn, v, p)
			default:
				// a switch on len(): default case = neither 0 nor 1
				nN++
				okN = lenNot(as, 0) && lenNot(as, 1) && m.isSplicedStack(fn, v, p)
			}
		}
	})
	if nN != 1 {
		okN = false
	}
	return
}

// isSplicedStack: v = MakeInterface(acc) where acc is the loop-carried accumulator of a complete traversal
// of param p; it starts empty and every iteration appends either the element (when it is not itself a
// stack) or all elements of the nested stack.
func (m *model) isSplicedStack(fn *ssa.Function, v ssa.Value, p *ssa.Parameter) bool {
	if mi, ok := v.(*ssa.MakeInterface); ok {
		v = mi.X
	}
	v = m.resolve(v) // the stack may be built by a single-site helper
	acc, ok := v.(*ssa.Phi)
	if !ok {
		return false
	}
	var tl *tloop
	for _, t := range m.allTraversals(acc.Parent()) {
		if t.header == acc.Block() && t.sliceKey == m.key(p) {
			tl = t
		}
	}
	if tl == nil || !tl.whole || len(userAtoms(m.localAtoms(tl.header))) > 2 {
		return false
	}
	elemKey := m.elemKey(tl)
	var check func(e ssa.Value, pred *ssa.BasicBlock, depth int) bool
	check = func(e ssa.Value, pred *ssa.BasicBlock, depth int) bool {
		if depth > 4 {
			return false
		}
		if ph, ok := e.(*ssa.Phi); ok && ph != acc {
			for k, x := range ph.Edges {
				if !check(x, ph.Block().Preds[k], depth+1) {
					return false
				}
			}
			return true
		}
		c, ok := e.(*ssa.Call)
		if !ok {
			return false
		}
		cc, isApp := isBuiltinCall(c, "append")
		if !isApp || len(cc.Args) != 2 || cc.Args[0] != ssa.Value(acc) {
			return false
		}
		as := m.atomsSince(c, tl.header)
		// which kind?
		if x := m.appendedSingle(cc.Args[1]); x != nil {
			// append(acc, e): e is the element, on the path where it is not a nested stack
			if m.key(x) != elemKey {
				// a type switch binds e to a new value of the same dynamic value: accept the element itself only
				return false
			}
			return m.assertGuard(as, elemKey, acc.Type(), false)
		}
		// append(acc, s...): s is the element asserted to the stack type
		s := cc.Args[1]
		if ct, ok := s.(*ssa.ChangeType); ok {
			s = ct.X
		}
		ex, ok := s.(*ssa.Extract)
		var ta *ssa.TypeAssert
		if ok {
			ta, _ = ex.Tuple.(*ssa.TypeAssert)
		}
		if ta == nil || m.key(ta.X) != elemKey || !types.Identical(ta.AssertedType, acc.Type()) {
			return false
		}
		return m.assertGuard(as, elemKey, acc.Type(), true)
	}
	for k, e := range acc.Edges {
		pred := acc.Block().Preds[k]
		if tl.blocks[pred] {
			if !check(e, pred, 0) {
				return false
			}
		} else if !m.isEmptySlice(e) {
			return false
		}
	}
	return true
}

// appendedSingle: the single value of a varargs slice `[]T{x}[:]`.
func (m *model) appendedSingle(v ssa.Value) ssa.Value {
	sl, ok := v.(*ssa.Slice)
	if !ok {
		return nil
	}
	arr, ok := sl.X.(*ssa.Alloc)
	if !ok {
		return nil
	}
	at, ok := ssax.Deref(arr.Type()).Underlying().(*types.Array)
	if !ok || at.Len() != 1 {
		return nil
	}
	var val ssa.Value
	for _, r := range *arr.Referrers() {
		if ia, ok := r.(*ssa.IndexAddr); ok {
			for _, rr := range *ia.Referrers() {
				if st, ok := rr.(*ssa.Store); ok && st.Addr == ssa.Value(ia) {
					val = st.Val
				}
			}
		}
	}
	return val
}

// assertGuard: the atoms contain exactly the outcome `want` of the comma-ok assertion of the element to type t.
func (m *model) assertGuard(as []atom, elemKey string, t types.Type, want bool) bool {
	n := 0
	good := false
	for _, a := range as {
		n++
		if a.op != "bool" {
			continue
		}
		ex, ok := a.av.(*ssa.Extract)
		if !ok || ex.Index != 1 {
			continue
		}
		ta, ok := ex.Tuple.(*ssa.TypeAssert)
		if ok && ta.CommaOk && m.key(ta.X) == elemKey && types.Identical(ta.AssertedType, t) && a.pol == want {
			good = true
		}
	}
	return good && n == 1
}

// viaCombinator: fn is `return T(h(recv, func(e E) R { return e.<name>(params...) }))` where h is a map-style
// helper: it traverses its first parameter completely, applies its function parameter to every element
// exactly once, unconditionally, and returns the results collected in order.
func (m *model) viaCombinator(fn *ssa.Function, name string) (bool, string) {
	if len(fn.Params) == 0 {
		return false, "no receiver"
	}
	var calls []*ssa.Call
	bad := false
	ssax.Instrs(fn, func(in ssa.Instruction) {
		switch x := in.(type) {
		case *ssa.Call:
			if _, isB := x.Call.Value.(*ssa.Builtin); !isB {
				calls = append(calls, x)
			}
		case *ssa.Go, *ssa.Defer, *ssa.Send, *ssa.Select, *ssa.Panic, *ssa.MapUpdate:
			bad = true
		case *ssa.Store:
			if _, isAlloc := x.Addr.(*ssa.Alloc); !isAlloc {
				bad = true
			}
		}
	})
	if bad || len(calls) != 1 {
		return false, "not a single call of a helper"
	}
	c := calls[0]
	h := c.Call.StaticCallee()
	if h == nil || h.Blocks == nil || len(c.Call.Args) != 2 || len(h.Params) != 2 {
		return false, "not a call of a two-parameter helper"
	}
	recv := ssax.Unspill(c.Call.Args[0])
	if ct, ok := recv.(*ssa.ChangeType); ok {
		recv = ssax.Unspill(ct.X)
	}
	if recv != ssa.Value(fn.Params[0]) {
		return false, "the helper is not given the receiver"
	}
	mc, ok := c.Call.Args[1].(*ssa.MakeClosure)
	if !ok {
		return false, "the helper is not given a function literal"
	}
	g, _ := mc.Fn.(*ssa.Function)
	if g == nil || g.Parent() != fn || len(g.Params) != 1 {
		return false, "the function literal does not take the element"
	}
	// g: return e.<name>(params of fn, in order)
	var gcalls []*ssa.Call
	gbad := false
	ssax.Instrs(g, func(in ssa.Instruction) {
		switch x := in.(type) {
		case *ssa.Call:
			if _, isB := x.Call.Value.(*ssa.Builtin); !isB {
				gcalls = append(gcalls, x)
			}
		case *ssa.Go, *ssa.Defer, *ssa.Send, *ssa.Select, *ssa.Panic, *ssa.MapUpdate, *ssa.Store, *ssa.If:
			gbad = true
		}
	})
	if gbad || len(gcalls) != 1 {
		return false, "the function literal does more than forward"
	}
	gc := gcalls[0]
	if !gc.Call.IsInvoke() || gc.Call.Method.Name() != name || ssax.Unspill(gc.Call.Value) != ssa.Value(g.Params[0]) {
		return false, "the function literal does not call " + name + " on the element"
	}
	params := fn.Params[1:]
	if len(gc.Call.Args) != len(params) {
		return false, "argument count differs from the parameter count"
	}
	isParam := func(a ssa.Value, p *ssa.Parameter) bool {
		a = ssax.Unspill(a)
		if a == ssa.Value(p) {
			return true
		}
		var fv *ssa.FreeVar
		if u, ok := a.(*ssa.UnOp); ok && u.Op == token.MUL {
			fv, _ = u.X.(*ssa.FreeVar)
		} else {
			fv, _ = a.(*ssa.FreeVar)
		}
		if fv == nil {
			return false
		}
		b := ssax.BindingOf(fv)
		if b == ssa.Value(p) {
			return true
		}
		al, ok := b.(*ssa.Alloc)
		if !ok {
			return false
		}
		n, good := 0, false
		for _, r := range *al.Referrers() {
			if st, ok := r.(*ssa.Store); ok && st.Addr == ssa.Value(al) {
				n++
				good = st.Val == ssa.Value(p)
			}
		}
		return n == 1 && good
	}
	for i, a := range gc.Call.Args {
		if !isParam(a, params[i]) {
			return false, fmt.Sprintf("argument %d of the forwarded call is not parameter %d", i, i)
		}
	}
	var gret *ssa.Return
	ng := 0
	ssax.Instrs(g, func(in ssa.Instruction) {
		if r, ok := in.(*ssa.Return); ok && r.Block() != g.Recover {
			gret = r
			ng++
		}
	})
	if ng != 1 || len(gret.Results) != 1 || ssax.Unspill(gret.Results[0]) != ssa.Value(gc) {
		return false, "the function literal does not return the forwarded call's result"
	}
	// h: the map-style helper
	var results []ssa.Value
	if ok, why := m.forwardShape(h, "", h.Params[1], &results); !ok {
		return false, "helper " + h.Name() + ": " + why
	}
	if ok, why := m.collectsResults(h, results); !ok {
		return false, "helper " + h.Name() + ": " + why
	}
	// fn returns the helper's result
	var ret *ssa.Return
	n := 0
	ssax.Instrs(fn, func(in ssa.Instruction) {
		if r, ok := in.(*ssa.Return); ok && r.Block() != fn.Recover {
			ret = r
			n++
		}
	})
	if n != 1 || len(ret.Results) != 1 {
		return false, "not exactly one return"
	}
	out := ret.Results[0]
	for i := 0; i < 3; i++ {
		switch x := out.(type) {
		case *ssa.MakeInterface:
			out = x.X
		case *ssa.ChangeType:
			out = x.X
		}
	}
	if out != ssa.Value(c) {
		return false, "the helper's result is not what is returned"
	}
	return true, ""
}
