// Package sched implements the S-rules (DESIGN §4.1): structural rules on
// package go.uber.org/cff/scheduler and the plumbing in package cff.
package sched

import (
	"fmt"
	"go/ast"
	"go/token"
	"go/types"

	"cffverif/internal/astx"
	"cffverif/internal/load"
	"cffverif/internal/report"

	"golang.org/x/tools/go/packages"
)

const schedPath = load.Module + "/scheduler"

type roles struct {
	repo *load.Repo
	pkg  *packages.Package
	cff  *packages.Package
	info *types.Info
	par  astx.Parents // parents over all files of package scheduler

	SJ, Sched, JobT, Config, State, JobResult *types.Named
	EmitterIface                              *types.Named

	// Scheduler fields
	fENQ, fREADY, fDONE, fFIN, fErr, fConc, fCOE *types.Var
	// ScheduledJob fields
	sjCtx, sjRun, sjDeps, sjRemaining, sjConsumers, sjDone, sjErr, sjInvalid *types.Var
	// jobResult fields
	jrJob, jrErr *types.Var
	// Job fields
	jobRun, jobDeps *types.Var
	// Config fields
	cfgConc, cfgCOE, cfgEmitter *types.Var

	New, Enqueue, Wait, Loop, Worker *ast.FuncDecl
	Spawner                          *ast.FuncLit
	WorkerDefer                      *ast.FuncLit

	// inside Loop
	mainFor                     *ast.ForStmt
	sel                         *ast.SelectStmt
	armReady, armEnq, armDone   *ast.CommClause
	readyList                   types.Object // *list.List local
	sendCh, sendVal             types.Object // locals used in `case sendCh <- sendVal`
	enqLocal                    types.Object // local copy of the enqueue channel
	enqJob, enqOK               types.Object // job, ok := <-enqueuec
	doneRes                     types.Object // res := <-s.donec
	doneJob                     types.Object // job := res.Job (may be nil if res.Job is used directly)
	pending, ongoing, waiting   types.Object
	stateLit                    *ast.CompositeLit
	loopOnly                    map[*types.Func]bool // functions only ever called from the loop goroutine
	workerJob                   types.Object         // range variable in worker
	workerReadyParam, workerDoneParam types.Object
}

func (r *roles) pos(n ast.Node) string { return r.repo.Rel(n.Pos()) }

func named(p *types.Package, name string) *types.Named {
	o := p.Scope().Lookup(name)
	if o == nil {
		return nil
	}
	n, _ := o.Type().(*types.Named)
	return n
}

func structOf(n *types.Named) *types.Struct {
	if n == nil {
		return nil
	}
	s, _ := n.Underlying().(*types.Struct)
	return s
}

func fields(s *types.Struct, pred func(*types.Var) bool) []*types.Var {
	var out []*types.Var
	for i := 0; i < s.NumFields(); i++ {
		if pred(s.Field(i)) {
			out = append(out, s.Field(i))
		}
	}
	return out
}

func pick(cands []*types.Var, hint string) *types.Var {
	if len(cands) == 1 {
		return cands[0]
	}
	for _, c := range cands {
		if c.Name() == hint {
			return c
		}
	}
	return nil
}

func isPtrTo(t types.Type, n *types.Named) bool {
	p, ok := t.(*types.Pointer)
	return ok && types.Identical(p.Elem(), n)
}

func chanElem(t types.Type) types.Type {
	c, ok := t.Underlying().(*types.Chan)
	if !ok {
		return nil
	}
	return c.Elem()
}

func isErrorType(t types.Type) bool {
	return types.Identical(t, types.Universe.Lookup("error").Type())
}

func isContext(t types.Type) bool {
	n, ok := t.(*types.Named)
	return ok && n.Obj().Pkg() != nil && n.Obj().Pkg().Path() == "context" && n.Obj().Name() == "Context"
}

// discover resolves all roles; any failure is an error (=> undecided).
func discover(repo *load.Repo) (*roles, error) {
	r := &roles{repo: repo}
	r.pkg = repo.Pkgs[schedPath]
	r.cff = repo.Pkgs[load.Module]
	if r.pkg == nil || r.cff == nil {
		return nil, fmt.Errorf("packages scheduler/cff not loaded")
	}
	r.info = r.pkg.TypesInfo
	tp := r.pkg.Types
	r.SJ, r.Sched, r.JobT, r.Config, r.State, r.EmitterIface = named(tp, "ScheduledJob"), named(tp, "Scheduler"), named(tp, "Job"), named(tp, "Config"), named(tp, "State"), named(tp, "Emitter")
	for n, t := range map[string]*types.Named{"ScheduledJob": r.SJ, "Scheduler": r.Sched, "Job": r.JobT, "Config": r.Config, "State": r.State, "Emitter": r.EmitterIface} {
		if t == nil {
			return nil, fmt.Errorf("public type scheduler.%s not found", n)
		}
	}
	ss, sj, jb, cf := structOf(r.Sched), structOf(r.SJ), structOf(r.JobT), structOf(r.Config)
	if ss == nil || sj == nil || jb == nil || cf == nil {
		return nil, fmt.Errorf("Scheduler/ScheduledJob/Job/Config is not a struct")
	}
	// jobResult: element type of the channel field whose element is a named struct with *SJ and error fields.
	for i := 0; i < ss.NumFields(); i++ {
		if e := chanElem(ss.Field(i).Type()); e != nil {
			if n, ok := e.(*types.Named); ok {
				if st := structOf(n); st != nil && len(fields(st, func(v *types.Var) bool { return isPtrTo(v.Type(), r.SJ) })) == 1 &&
					len(fields(st, func(v *types.Var) bool { return isErrorType(v.Type()) })) == 1 {
					r.JobResult = n
					r.fDONE = ss.Field(i)
				}
			}
		}
	}
	if r.JobResult == nil {
		return nil, fmt.Errorf("no result channel (chan of struct{*ScheduledJob; error}) among Scheduler fields")
	}
	jr := structOf(r.JobResult)
	r.jrJob = fields(jr, func(v *types.Var) bool { return isPtrTo(v.Type(), r.SJ) })[0]
	r.jrErr = fields(jr, func(v *types.Var) bool { return isErrorType(v.Type()) })[0]
	r.fFIN = pick(fields(ss, func(v *types.Var) bool {
		e := chanElem(v.Type())
		if e == nil {
			return false
		}
		st, ok := e.Underlying().(*types.Struct)
		return ok && st.NumFields() == 0
	}), "finishedc")
	r.fErr = pick(fields(ss, func(v *types.Var) bool { return isErrorType(v.Type()) }), "err")
	if r.fFIN == nil || r.fErr == nil {
		return nil, fmt.Errorf("finish channel / error field of Scheduler not identified")
	}
	r.jobRun = pick(fields(jb, func(v *types.Var) bool { _, ok := v.Type().Underlying().(*types.Signature); return ok }), "Run")
	r.jobDeps = pick(fields(jb, func(v *types.Var) bool {
		s, ok := v.Type().Underlying().(*types.Slice)
		return ok && isPtrTo(s.Elem(), r.SJ)
	}), "Dependencies")
	r.cfgConc = pick(fields(cf, func(v *types.Var) bool { return v.Name() == "Concurrency" }), "Concurrency")
	r.cfgCOE = pick(fields(cf, func(v *types.Var) bool { return v.Name() == "ContinueOnError" }), "ContinueOnError")
	r.cfgEmitter = pick(fields(cf, func(v *types.Var) bool { return v.Name() == "Emitter" }), "Emitter")
	if r.jobRun == nil || r.jobDeps == nil || r.cfgConc == nil || r.cfgCOE == nil || r.cfgEmitter == nil {
		return nil, fmt.Errorf("public fields Job.Run/Job.Dependencies/Config.Concurrency/Config.ContinueOnError/Config.Emitter not all found")
	}

	r.par = astx.Parents{}
	for _, f := range r.pkg.Syntax {
		for k, v := range astx.NewParents(f) {
			r.par[k] = v
		}
	}
	r.New = astx.FindFuncDecl(r.pkg.Syntax, "Config", "New")
	r.Enqueue = astx.FindFuncDecl(r.pkg.Syntax, "Scheduler", "Enqueue")
	r.Wait = astx.FindFuncDecl(r.pkg.Syntax, "Scheduler", "Wait")
	if r.New == nil || r.Enqueue == nil || r.Wait == nil {
		return nil, fmt.Errorf("public methods Config.New / Scheduler.Enqueue / Scheduler.Wait not all found")
	}
	for _, fd := range []*ast.FuncDecl{r.New, r.Enqueue, r.Wait} {
		if !astx.NoGoto(fd) {
			return nil, fmt.Errorf("%s uses goto/labels: structured-code rules do not apply", fd.Name.Name)
		}
	}
	// ENQ: channel Enqueue sends on.
	ast.Inspect(r.Enqueue.Body, func(n ast.Node) bool {
		if s, ok := n.(*ast.SendStmt); ok {
			if _, f, ok := astx.FieldSel(r.info, s.Chan); ok && isPtrTo(chanElemOr(f.Type()), r.SJ) {
				r.fENQ = f
			}
		}
		return true
	})
	if r.fENQ == nil {
		return nil, fmt.Errorf("Enqueue does not send a *ScheduledJob on a Scheduler channel field")
	}
	r.fREADY = pick(fields(ss, func(v *types.Var) bool { return v != r.fENQ && isPtrTo(chanElemOr(v.Type()), r.SJ) }), "readyc")
	if r.fREADY == nil {
		return nil, fmt.Errorf("ready channel field of Scheduler not identified")
	}
	// LOOP, spawner, WORKER from the go statements in New.
	ast.Inspect(r.New.Body, func(n ast.Node) bool {
		g, ok := n.(*ast.GoStmt)
		if !ok {
			return true
		}
		if lit, ok := g.Call.Fun.(*ast.FuncLit); ok {
			if r.par.EnclosingFunc(g) == ast.Node(r.New) {
				r.Spawner = lit
			}
			return true
		}
		if fn := astx.Callee(r.info, g.Call); fn != nil {
			if sig := fn.Type().(*types.Signature); sig.Recv() != nil && isPtrTo(sig.Recv().Type(), r.Sched) {
				r.Loop = astx.DeclOfFunc(r.info, r.pkg.Syntax, fn)
			} else if sig.Recv() == nil {
				r.Worker = astx.DeclOfFunc(r.info, r.pkg.Syntax, fn)
			}
		}
		return true
	})
	if r.Loop == nil || r.Worker == nil {
		return nil, fmt.Errorf("Config.New does not start (with `go`) a *Scheduler method (loop) and a worker function")
	}
	if !astx.NoGoto(r.Loop) || !astx.NoGoto(r.Worker) {
		return nil, fmt.Errorf("loop/worker use goto/labels: structured-code rules do not apply")
	}
	// Scheduler literal in New: concurrency / continueOnError plumbing gives the field roles.
	ast.Inspect(r.New.Body, func(n ast.Node) bool {
		cl, ok := n.(*ast.CompositeLit)
		if !ok || !types.Identical(r.info.TypeOf(cl), r.Sched) {
			return true
		}
		for _, e := range cl.Elts {
			kv, ok := e.(*ast.KeyValueExpr)
			if !ok {
				continue
			}
			key, _ := r.info.Uses[kv.Key.(*ast.Ident)].(*types.Var)
			if _, f, ok := astx.FieldSel(r.info, kv.Value); ok {
				if f == r.cfgConc {
					r.fConc = key
				}
				if f == r.cfgCOE {
					r.fCOE = key
				}
			}
		}
		return true
	})
	if r.fConc == nil || r.fCOE == nil {
		return nil, fmt.Errorf("Config.New does not build a Scheduler{...} literal forwarding Config.Concurrency and Config.ContinueOnError")
	}
	// SJ fields.
	r.sjCtx = pick(fields(sj, func(v *types.Var) bool { return isContext(v.Type()) }), "ctx")
	r.sjRun = pick(fields(sj, func(v *types.Var) bool { _, ok := v.Type().Underlying().(*types.Signature); return ok }), "run")
	r.sjRemaining = pick(fields(sj, func(v *types.Var) bool { return types.Identical(v.Type(), types.Typ[types.Int]) }), "remaining")
	r.sjErr = pick(fields(sj, func(v *types.Var) bool { return isErrorType(v.Type()) }), "err")
	sliceSJ := fields(sj, func(v *types.Var) bool {
		s, ok := v.Type().Underlying().(*types.Slice)
		return ok && isPtrTo(s.Elem(), r.SJ)
	})
	// deps = the one initialised in Enqueue's literal.
	ast.Inspect(r.Enqueue.Body, func(n ast.Node) bool {
		cl, ok := n.(*ast.CompositeLit)
		if !ok || !types.Identical(r.info.TypeOf(cl), r.SJ) {
			return true
		}
		for _, e := range cl.Elts {
			if kv, ok := e.(*ast.KeyValueExpr); ok {
				key, _ := r.info.Uses[kv.Key.(*ast.Ident)].(*types.Var)
				for _, s := range sliceSJ {
					if s == key {
						r.sjDeps = key
					}
				}
			}
		}
		return true
	})
	for _, s := range sliceSJ {
		if s != r.sjDeps && len(sliceSJ) == 2 {
			r.sjConsumers = s
		}
	}
	bools := fields(sj, func(v *types.Var) bool { return types.Identical(v.Type(), types.Typ[types.Bool]) })
	// invalid = the bool the worker reads (name hint when that is not unique).
	readBools := map[*types.Var]bool{}
	ast.Inspect(r.Worker.Body, func(n ast.Node) bool {
		if e, ok := n.(ast.Expr); ok {
			if _, f, ok := astx.FieldSel(r.info, e); ok {
				for _, b := range bools {
					if b == f {
						readBools[f] = true
					}
				}
			}
		}
		return true
	})
	if len(readBools) == 1 {
		for f := range readBools {
			r.sjInvalid = f
		}
	} else {
		r.sjInvalid = pick(bools, "invalid")
	}
	for _, b := range bools {
		if b != r.sjInvalid && len(bools) == 2 {
			r.sjDone = b
		}
	}
	if r.sjCtx == nil || r.sjRun == nil || r.sjRemaining == nil || r.sjErr == nil || r.sjDeps == nil || r.sjConsumers == nil || r.sjInvalid == nil || r.sjDone == nil {
		return nil, fmt.Errorf("ScheduledJob field roles (ctx, run, deps, remaining, consumers, done, err, invalid) not uniquely identified")
	}
	if err := r.discoverLoop(); err != nil {
		return nil, err
	}
	if err := r.discoverWorker(); err != nil {
		return nil, err
	}
	r.computeLoopOnly()
	return r, nil
}

func chanElemOr(t types.Type) types.Type {
	if e := chanElem(t); e != nil {
		return e
	}
	return types.Typ[types.Invalid]
}

// recvOf returns the channel expression and the lhs identifiers of a comm clause's receive.
func recvOf(c *ast.CommClause) (ch ast.Expr, lhs []ast.Expr) {
	switch s := c.Comm.(type) {
	case *ast.ExprStmt:
		if u, ok := astx.Unparen(s.X).(*ast.UnaryExpr); ok && u.Op == token.ARROW {
			return u.X, nil
		}
	case *ast.AssignStmt:
		if len(s.Rhs) == 1 {
			if u, ok := astx.Unparen(s.Rhs[0]).(*ast.UnaryExpr); ok && u.Op == token.ARROW {
				return u.X, s.Lhs
			}
		}
	}
	return nil, nil
}

func (r *roles) discoverLoop() error {
	info := r.info
	// main for: the outermost ForStmt at top level of the loop body containing a select.
	for _, s := range r.Loop.Body.List {
		if f, ok := s.(*ast.ForStmt); ok {
			r.mainFor = f
		}
	}
	if r.mainFor == nil {
		return fmt.Errorf("scheduler loop has no top-level for statement")
	}
	var sels []*ast.SelectStmt
	ast.Inspect(r.mainFor.Body, func(n ast.Node) bool {
		if _, ok := n.(*ast.FuncLit); ok {
			return false
		}
		if s, ok := n.(*ast.SelectStmt); ok {
			sels = append(sels, s)
		}
		return true
	})
	if len(sels) != 1 || r.par[r.par[sels[0]]] != ast.Node(r.mainFor) {
		return fmt.Errorf("scheduler loop: expected exactly one select directly in the main for body, found %d", len(sels))
	}
	r.sel = sels[0]
	for _, c := range r.sel.Body.List {
		cc := c.(*ast.CommClause)
		if cc.Comm == nil {
			return fmt.Errorf("scheduler loop select has a default clause (would spin)")
		}
		if s, ok := cc.Comm.(*ast.SendStmt); ok {
			if isPtrTo(chanElemOr(info.TypeOf(s.Chan)), r.SJ) {
				if r.armReady != nil {
					return fmt.Errorf("two send arms on a *ScheduledJob channel")
				}
				r.armReady = cc
				r.sendCh = astx.IdentObj(info, s.Chan)
				r.sendVal = astx.IdentObj(info, s.Value)
			}
			continue
		}
		ch, lhs := recvOf(cc)
		if ch == nil {
			continue
		}
		el := chanElemOr(info.TypeOf(ch))
		switch {
		case isPtrTo(el, r.SJ):
			if r.armEnq != nil {
				return fmt.Errorf("two receive arms on a *ScheduledJob channel")
			}
			r.armEnq = cc
			r.enqLocal = astx.IdentObj(info, ch)
			if len(lhs) >= 1 {
				r.enqJob = astx.IdentObj(info, lhs[0])
			}
			if len(lhs) == 2 {
				r.enqOK = astx.IdentObj(info, lhs[1])
			}
		case types.Identical(el, r.JobResult):
			if r.armDone != nil {
				return fmt.Errorf("two receive arms on the result channel")
			}
			r.armDone = cc
			if len(lhs) >= 1 {
				r.doneRes = astx.IdentObj(info, lhs[0])
			}
		}
	}
	if r.armReady == nil || r.armEnq == nil || r.armDone == nil {
		return fmt.Errorf("scheduler loop select lacks one of: send on ready channel, receive of enqueued job, receive of result")
	}
	if r.enqJob == nil || r.enqOK == nil || r.doneRes == nil {
		return fmt.Errorf("scheduler loop select: enqueue arm must bind (job, ok) and result arm must bind the result")
	}
	// ready list: the *list.List local of the loop.
	var lists []types.Object
	ast.Inspect(r.Loop.Body, func(n ast.Node) bool {
		if id, ok := n.(*ast.Ident); ok {
			if o := info.Defs[id]; o != nil {
				if p, ok := o.Type().(*types.Pointer); ok {
					if nm, ok := p.Elem().(*types.Named); ok && nm.Obj().Pkg() != nil && nm.Obj().Pkg().Path() == "container/list" && nm.Obj().Name() == "List" {
						lists = append(lists, o)
					}
				}
			}
		}
		return true
	})
	if len(lists) != 1 {
		return fmt.Errorf("scheduler loop: expected exactly one *list.List local (ready list), found %d", len(lists))
	}
	r.readyList = lists[0]
	// doneJob alias: `job := res.Job` at top of done arm.
	for _, s := range r.armDone.Body {
		if as, ok := s.(*ast.AssignStmt); ok && as.Tok == token.DEFINE && len(as.Lhs) == 1 && len(as.Rhs) == 1 {
			if astx.IsFieldOf(info, as.Rhs[0], r.doneRes, r.jrJob) {
				r.doneJob = astx.IdentObj(info, as.Lhs[0])
			}
		}
	}
	// counters via the State literal handed to Emit.
	ast.Inspect(r.mainFor.Body, func(n ast.Node) bool {
		if cl, ok := n.(*ast.CompositeLit); ok && types.Identical(info.TypeOf(cl), r.State) {
			r.stateLit = cl
		}
		return true
	})
	if r.stateLit == nil {
		return fmt.Errorf("scheduler loop: no scheduler.State literal found (state report)")
	}
	for _, e := range r.stateLit.Elts {
		kv, ok := e.(*ast.KeyValueExpr)
		if !ok {
			return fmt.Errorf("State literal is not keyed")
		}
		switch kv.Key.(*ast.Ident).Name {
		case "Pending":
			r.pending = astx.IdentObj(info, kv.Value)
		case "Waiting":
			r.waiting = astx.IdentObj(info, kv.Value)
		case "IdleWorkers":
			// ongoing: the int local mentioned in the value expression
			ast.Inspect(kv.Value, func(n ast.Node) bool {
				if id, ok := n.(*ast.Ident); ok {
					if v, ok := info.Uses[id].(*types.Var); ok && !v.IsField() && types.Identical(v.Type(), types.Typ[types.Int]) && v.Parent() != nil && v.Pkg() == r.pkg.Types {
						if r.par.Within(r.declNode(v), r.Loop) {
							r.ongoing = v
						}
					}
				}
				return true
			})
		}
	}
	if r.pending == nil || r.waiting == nil || r.ongoing == nil {
		return fmt.Errorf("State literal: Pending/Waiting/IdleWorkers are not fed by loop-local counters")
	}
	return nil
}

// declNode returns the identifier node defining obj.
func (r *roles) declNode(obj types.Object) ast.Node {
	for id, o := range r.info.Defs {
		if o == obj {
			return id
		}
	}
	return nil
}

func (r *roles) discoverWorker() error {
	info := r.info
	ps := r.Worker.Type.Params.List
	var objs []types.Object
	for _, f := range ps {
		for _, n := range f.Names {
			objs = append(objs, info.Defs[n])
		}
	}
	for _, o := range objs {
		el := chanElemOr(o.Type())
		if isPtrTo(el, r.SJ) {
			r.workerReadyParam = o
		} else if types.Identical(el, r.JobResult) {
			r.workerDoneParam = o
		}
	}
	if r.workerReadyParam == nil || r.workerDoneParam == nil {
		return fmt.Errorf("worker does not take the ready and result channels as parameters")
	}
	for _, s := range r.Worker.Body.List {
		if rs, ok := s.(*ast.RangeStmt); ok && astx.IdentObj(info, rs.X) == r.workerReadyParam && rs.Key != nil {
			r.workerJob = astx.IdentObj(info, rs.Key)
		}
		if d, ok := s.(*ast.DeferStmt); ok && r.WorkerDefer == nil {
			if lit, ok := d.Call.Fun.(*ast.FuncLit); ok {
				r.WorkerDefer = lit
			}
		}
	}
	if r.workerJob == nil {
		return fmt.Errorf("worker does not range over its ready-channel parameter at top level")
	}
	return nil
}

// computeLoopOnly: package functions whose every reference is a call from
// the loop (or from another loop-only function).
func (r *roles) computeLoopOnly() {
	loopFn, _ := r.info.Defs[r.Loop.Name].(*types.Func)
	r.loopOnly = map[*types.Func]bool{loopFn: true}
	type ref struct {
		in *types.Func // enclosing declared function
		ok bool        // reference is the Fun of a call
	}
	refs := map[*types.Func][]ref{}
	for _, f := range r.pkg.Syntax {
		for _, d := range f.Decls {
			fd, ok := d.(*ast.FuncDecl)
			if !ok || fd.Body == nil {
				continue
			}
			encl, _ := r.info.Defs[fd.Name].(*types.Func)
			ast.Inspect(fd.Body, func(n ast.Node) bool {
				id, ok := n.(*ast.Ident)
				if !ok {
					return true
				}
				fn, ok := r.info.Uses[id].(*types.Func)
				if !ok || fn.Pkg() != r.pkg.Types {
					return true
				}
				// is this identifier the callee of a plain call (not go/defer-wrapped value use)?
				isCall := false
				var p ast.Node = id
				if se, ok := r.par[id].(*ast.SelectorExpr); ok && se.Sel == id {
					p = se
				}
				if c, ok := r.par[p].(*ast.CallExpr); ok && c.Fun == p {
					isCall = true
					if _, isGo := r.par[c].(*ast.GoStmt); isGo {
						isCall = false
					}
				}
				refs[fn] = append(refs[fn], ref{encl, isCall})
				return true
			})
		}
	}
	for changed := true; changed; {
		changed = false
		for fn, rs := range refs {
			if r.loopOnly[fn] || fn.Exported() {
				continue
			}
			all := len(rs) > 0
			for _, x := range rs {
				if !x.ok || !r.loopOnly[x.in] {
					all = false
				}
			}
			if all {
				r.loopOnly[fn] = true
				changed = true
			}
		}
	}
	// The loop itself must only be referenced by the go statement in New.
}

// enclosingDecl returns the *types.Func of the FuncDecl enclosing n.
func (r *roles) enclosingDecl(par astx.Parents, info *types.Info, n ast.Node) (*ast.FuncDecl, *types.Func) {
	for x := n; x != nil; x = par[x] {
		if fd, ok := x.(*ast.FuncDecl); ok {
			fn, _ := info.Defs[fd.Name].(*types.Func)
			return fd, fn
		}
	}
	return nil, nil
}

var _ = report.Rule{}
