package sched

import (
	"fmt"
	"go/token"
	"go/types"
	"sort"
	"strings"

	"cffverif/internal/report"
	"cffverif/internal/ssax"

	"golang.org/x/tools/go/ssa"
)

// listOps enumerates the operations on the ready list in the loop goroutine
// and checks that the list is used in no other way.
type listOp struct {
	in   ssa.Instruction
	name string
	args []ssa.Value
}

func (m *model) isReadyList(v ssa.Value) bool {
	return m.resolve(v) == m.readyList
}

func (m *model) readyOps(s *report.Sink) []listOp {
	var out []listOp
	for _, fn := range m.loopFuncs() {
		ssax.Instrs(fn, func(in ssa.Instruction) {
			if recv, name, args, ok := listCall(in); ok && m.isReadyList(recv) {
				out = append(out, listOp{in, name, args})
				return
			}
			// any other use of the list value (directly)
			var ops []*ssa.Value
			for _, op := range in.Operands(ops) {
				if op == nil || *op == nil || *op != m.readyList {
					continue
				}
				if c, ok := in.(ssa.CallInstruction); ok {
					if callee := c.Common().StaticCallee(); callee != nil && m.site[callee] == c {
						continue // passed to a single-site helper: followed through the parameter
					}
				}
				if _, ok := in.(*ssa.DebugRef); ok {
					continue
				}
				if st, ok := in.(*ssa.Store); ok && st.Val == m.readyList && m.storedOnce(st.Addr) == m.readyList {
					continue // kept in a local bookkeeping struct, written once: reads of that field resolve to the list
				}
				if s != nil {
					s.Unk("S5", "ready list|escapes", m.ipos(in), "the ready list is used other than as receiver of a list method (or argument of a single-site helper); insertions can no longer be enumerated")
				}
			}
		})
	}
	return out
}

// insertedJob: the *ScheduledJob put on the list by an insertion.
func (m *model) insertedJob(op listOp) ssa.Value {
	if len(op.args) == 0 {
		return nil
	}
	v := m.resolve(op.args[0])
	if mi, ok := v.(*ssa.MakeInterface); ok {
		v = m.resolve(mi.X)
	}
	if isPtrTo(v.Type(), m.SJ) {
		return v
	}
	return nil
}

func isInsert(name string) bool {
	switch name {
	case "PushBack", "PushFront", "InsertBefore", "InsertAfter":
		return true
	}
	return false
}

// storesTo: all stores to field f of ScheduledJob in package scheduler.
func (m *model) storesTo(f *types.Var) []access {
	var out []access
	for _, fn := range m.funcs {
		for _, a := range fieldAccesses(fn, m.SJ) {
			if a.f == f && a.write {
				out = append(out, a)
			}
		}
	}
	return out
}

// S5 admission, S6 dispatch-once, S27 dispatch gate.
func (m *model) ruleAdmissionDispatch(s *report.Sink) {
	ops := m.readyOps(s)
	for _, l := range m.extraLists {
		s.Bad("S5", "ready list|second list created in the loop", m.ipos(l), "a second list is created inside the scheduler loop: jobs queued on (or moved to) it are not the ones the dispatch considers")
	}
	inserts := 0
	remStores := m.storesTo(m.sjRemaining)
	for _, op := range ops {
		switch {
		case op.name == "Len" || op.name == "Front" || op.name == "Remove" || op.name == "Back":
			continue
		case isInsert(op.name):
		default:
			s.Unk("S5", "ready list|"+op.name, m.ipos(op.in), "unmodelled list operation on the ready list")
			continue
		}
		inserts++
		arm := m.armOf(op.in)
		key := fmt.Sprintf("loop|%s#%s", op.name, arm)
		x := m.insertedJob(op)
		if x == nil {
			s.Unk("S5", key, m.ipos(op.in), "inserted value is not a *ScheduledJob")
			continue
		}
		xk := m.key(x)
		g := find(m.atomsOf(op.in), func(a atom) bool {
			ok, pol := eqInt(a, 0, func(v ssa.Value) bool { return m.isFieldOf(v, xk, m.sjRemaining) })
			return ok && pol
		})
		if g == nil {
			s.Bad("S5", key, m.ipos(op.in), "a job is put on the ready list without a dominating test <job>.remaining == 0 on that same job: it could run before its dependencies finished")
			continue
		}
		// no write to remaining between the load that was tested and the insertion
		var load ssa.Instruction
		for _, v := range []ssa.Value{g.av, g.bv} {
			if u, ok := v.(*ssa.UnOp); ok {
				load = u
			}
		}
		dirty := false
		for _, st := range remStores {
			if load != nil && st.in.Parent() == load.Parent() && op.in.Parent() == load.Parent() && between(load, st.in, op.in) {
				dirty = true
			}
		}
		if dirty {
			s.Bad("S5", key, m.ipos(op.in), "remaining is modified between the == 0 test and the insertion")
			continue
		}
		s.OK("S5", key, m.ipos(op.in), "guarded by remaining == 0 of the inserted job")
	}
	if inserts == 0 {
		s.Unk("S5", "loop|no insertion", m.pos(m.fnLoop.Pos()), "no insertion into the ready list found")
	}

	// S6: what is sent, when, and that it is removed.
	st := m.armReady.state
	selPos := m.ipos(m.sel)
	type alt struct {
		ch, val ssa.Value
		pred    *ssa.BasicBlock // block whose conditions govern this alternative (nil = select block)
		ret     *ssa.Return     // alternative = this return statement of the dispatch helper
	}
	var alts []alt
	chPhi, _ := st.Chan.(*ssa.Phi)
	chEx, _ := st.Chan.(*ssa.Extract)
	switch {
	case chPhi != nil && m.loopBlocks[chPhi.Block()] && chPhi.Block() != m.header && chPhi.Block().Dominates(m.sel.Block()):
		for k, e := range chPhi.Edges {
			v := st.Send
			if vp, ok := st.Send.(*ssa.Phi); ok && vp.Block() == chPhi.Block() {
				v = vp.Edges[k]
			}
			alts = append(alts, alt{ch: e, val: v, pred: chPhi.Block().Preds[k]})
		}
	case chEx != nil:
		// (channel, element, job) returned together by a single-site helper: one alternative per return statement
		call, _ := chEx.Tuple.(*ssa.Call)
		valEx, _ := st.Send.(*ssa.Extract)
		if call != nil && valEx != nil && valEx.Tuple == chEx.Tuple {
			if rets, _ := m.helperReturns(call, chEx.Index); rets != nil {
				for _, r := range rets {
					if valEx.Index < len(r.Results) {
						alts = append(alts, alt{ch: r.Results[chEx.Index], val: r.Results[valEx.Index], ret: r})
					}
				}
			}
		}
		if len(alts) == 0 {
			alts = append(alts, alt{ch: st.Chan, val: st.Send})
		}
	default:
		alts = append(alts, alt{ch: st.Chan, val: st.Send})
	}
	enabled := 0
	okFront, okGate, okNonEmpty := true, true, true
	var frontCalls []ssa.Value
	for _, a := range alts {
		if ssax.IsNilConst(a.ch) {
			continue
		}
		enabled++
		if !m.isField(a.ch, m.fREADY) {
			okFront = false
			continue
		}
		// value: front element's Value asserted to *ScheduledJob
		fc := m.frontOf(a.val)
		if fc == nil {
			okFront = false
			continue
		}
		frontCalls = append(frontCalls, fc)
		var atoms []atom
		if a.ret != nil {
			atoms = m.atomsOf(a.ret)
		} else if a.pred != nil {
			atoms = m.localAtoms(a.pred)
			// the edge pred->select block itself may be conditional
			if i := ssax.IfOf(a.pred); i != nil {
				for k, succ := range a.pred.Succs {
					if succ == m.sel.Block() && a.pred.Succs[0] != a.pred.Succs[1] {
						atoms = append(atoms, m.mkAtom(i.Cond, k == 0))
					}
				}
			}
		} else {
			atoms = m.localAtoms(m.sel.Block())
		}
		// the front element must have been taken on this path, in this iteration
		if root := m.rootSite(fc.(ssa.Instruction)); root.Parent() != m.fnLoop || !m.loopBlocks[root.Block()] {
			okFront = false
		}
		isOngoing := func(v ssa.Value) bool {
			if m.cOngoing == nil || m.counterOf(v) != m.cOngoing {
				return false
			}
			if m.cOngoing.phi != nil {
				return true
			}
			// memory counter: the value compared must still be the cell's content at the select
			_, ld := m.cellKey(m.resolve(v))
			if ld == nil {
				return false
			}
			if a.pred == nil {
				return m.freshAt(m.cOngoing.cell, ld, m.sel)
			}
			// the fact holds for the paths entering the select block from a.pred: no store between the
			// load and the end of that block, and none in the select block before the select itself
			for _, st := range m.cellStores(m.cOngoing.cell) {
				if st.Block() == m.sel.Block() && ssax.Before(st, m.sel) {
					return false
				}
			}
			return m.freshAt(m.cOngoing.cell, ld, a.pred.Instrs[len(a.pred.Instrs)-1])
		}
		isConc := func(v ssa.Value) bool { return m.isField(v, m.fConc) }
		if find(atoms, func(x atom) bool { return less(x, isOngoing, isConc) }) == nil {
			okGate = false
		}
		isLen := func(v ssa.Value) bool {
			c, ok := m.resolve(v).(*ssa.Call)
			if !ok {
				return false
			}
			recv, name, _, ok := listCall(c)
			return ok && name == "Len" && m.isReadyList(recv)
		}
		isZero := func(v ssa.Value) bool { return ssax.IsConstInt(v, 0) }
		nonEmpty := find(atoms, func(x atom) bool {
			if less(x, isZero, isLen) {
				return true
			}
			if ok, pol := eqInt(x, 0, isLen); ok && !pol {
				return true
			}
			// front element tested non-nil
			if ok, pol := eqNil(x, func(v ssa.Value) bool { return m.resolve(v) == fc }); ok && !pol {
				return true
			}
			return false
		})
		if nonEmpty == nil {
			okNonEmpty = false
		}
	}
	s.Check(enabled > 0 && okFront, "S6", "loop|sent job is ready.Front()", selPos, "whenever the dispatch send is enabled, the job offered to workers is the front element of the ready list taken in this iteration", "the dispatch send can be enabled with a value that is not the front element of the ready list taken in this iteration (stale, arbitrary or nil job)")
	s.Check(enabled > 0 && okNonEmpty, "S6", "loop|send enabled only with a job chosen", selPos, "the send channel is non-nil only on paths where the ready list was found non-empty", "the ready-channel send can be enabled without a freshly chosen front job (list possibly empty)")
	if m.cOngoing == nil {
		s.Unk("S27", "loop|dispatch enabled only while ongoing < concurrency", selPos, m.counterErr)
	} else {
		s.Check(enabled > 0 && okGate, "S27", "loop|dispatch enabled only while ongoing < concurrency", selPos,
			"outstanding results never exceed the result buffer: every worker can post its last result after the loop has gone, and executing <= Concurrency in every report",
			"the ready-channel send is enabled on a path that does not establish ongoing < concurrency: a worker that has posted its result takes another job before the loop consumed the result, so `ongoing` exceeds the concurrency (state reports show executing > Concurrency) and up to N-1 workers block for ever on the full result channel after a fail-fast exit")
	}
	// removal: exactly one Remove, in the dispatch arm, unconditional, of the element that was sent
	nRem := 0
	for _, op := range ops {
		if op.name != "Remove" {
			continue
		}
		good := m.armOf(op.in) == m.armReady.name && len(op.args) == 1 && m.mustPass(m.armReady.entry, m.armReady.inside, op.in) && !inAnyLoopWithin(op.in.Block(), m.armReady)
		if good {
			// the removed element: phi of Front calls / the Front call
			el := m.resolve(op.args[0])
			good = m.isFrontElement(el, frontCalls)
		}
		if good {
			nRem++
		} else {
			s.Bad("S6", "loop|ready.Remove elsewhere#"+m.armOf(op.in), m.ipos(op.in), "removal from the ready list that is not the unconditional removal of the dispatched element in the dispatch arm (a ready job would be dropped or dispatched twice)")
		}
	}
	s.Check(nRem == 1, "S6", "loop|dispatch removes the sent element", selPos, "send arm removes exactly the element it sent", fmt.Sprintf("send arm removes the sent element %d times (want 1): job could be dispatched twice or lost", nRem))

	// all channel sends of the package are classified
	for _, fn := range m.funcs {
		ssax.Instrs(fn, func(in ssa.Instruction) {
			var ch ssa.Value
			isMain := false
			switch x := in.(type) {
			case *ssa.Send:
				ch = x.Chan
			case *ssa.Select:
				for _, stt := range x.States {
					if stt.Dir == types.SendOnly {
						ch = stt.Chan
						isMain = x == m.sel && stt == m.armReady.state
						m.classifySend(s, fn, in, ch, isMain)
					}
				}
				return
			default:
				return
			}
			m.classifySend(s, fn, in, ch, isMain)
		})
	}
}

func inAnyLoopWithin(b *ssa.BasicBlock, a *arm) bool {
	for _, s := range b.Succs {
		if a.inside(s) && reachWithin(s, b, a) {
			return true
		}
	}
	return false
}

func reachWithin(from, to *ssa.BasicBlock, a *arm) bool {
	seen := map[*ssa.BasicBlock]bool{from: true}
	stack := []*ssa.BasicBlock{from}
	for len(stack) > 0 {
		x := stack[len(stack)-1]
		stack = stack[:len(stack)-1]
		if x == to {
			return true
		}
		for _, s := range x.Succs {
			if !seen[s] && a.inside(s) {
				seen[s] = true
				stack = append(stack, s)
			}
		}
	}
	return false
}

func (m *model) classifySend(s *report.Sink, fn *ssa.Function, in ssa.Instruction, ch ssa.Value, isMain bool) {
	el := chanElemOr(ch.Type())
	k := fmt.Sprintf("%s|send of %s", fnName(fn), types.TypeString(el, func(*types.Package) string { return "" }))
	switch {
	case isMain:
		s.OK("S6", k, m.ipos(in), "the dispatch send")
	case m.rootSite(in).Parent() == m.fnEnqueue && isPtrTo(el, m.SJ) && m.isField(ch, m.fENQ):
		s.OK("S6", k, m.ipos(in), "Enqueue's hand-over to the loop")
	case (top(fn) == m.fnWorker || fn == m.fnWorkerDefer) && types.Identical(el, m.JobResult):
		s.OK("S6", k, m.ipos(in), "worker posting a result")
	case isPtrTo(el, m.SJ):
		s.Bad("S6", k, m.ipos(in), "another send of a *ScheduledJob: jobs can reach workers bypassing the ready list")
	default:
		s.Unk("S6", k, m.ipos(in), "unclassified channel send in package scheduler")
	}
}

// frontOf: v is ready.Front().Value.(*ScheduledJob); returns the Front call.
func (m *model) frontOf(v ssa.Value) ssa.Value {
	v = m.resolve(v)
	ta, ok := v.(*ssa.TypeAssert)
	if !ok {
		return nil
	}
	base, f, ok := m.fieldLoad(ta.X)
	if !ok || f.Name() != "Value" {
		return nil
	}
	c, ok := m.resolve(base).(*ssa.Call)
	if !ok {
		return nil
	}
	recv, name, _, ok := listCall(c)
	if !ok || name != "Front" || !m.isReadyList(recv) {
		return nil
	}
	return c
}

// isFrontElement: el is one of the Front calls, or a phi merging them with nil.
func (m *model) isFrontElement(el ssa.Value, fronts []ssa.Value) bool {
	in := func(v ssa.Value) bool {
		for _, f := range fronts {
			if v == f {
				return true
			}
		}
		return false
	}
	if in(el) {
		return true
	}
	if p, ok := el.(*ssa.Phi); ok {
		n := 0
		for _, e := range p.Edges {
			e = m.resolve(e)
			switch {
			case ssax.IsNilConst(e):
			case in(e):
				n++
			default:
				return false
			}
		}
		return n > 0
	}
	// element returned by the dispatch helper next to the channel and the job
	if ex, ok := el.(*ssa.Extract); ok {
		if call, ok := ex.Tuple.(*ssa.Call); ok {
			if rets, _ := m.helperReturns(call, ex.Index); rets != nil {
				n := 0
				for _, r := range rets {
					e := m.resolve(r.Results[ex.Index])
					switch {
					case ssax.IsNilConst(e):
					case in(e):
						n++
					default:
						return false
					}
				}
				return n > 0
			}
		}
	}
	return false
}

// classify a store to an int field as +1 / -1 on its own previous value.
func (m *model) incdecStore(a access) int {
	if a.store == nil {
		return 0
	}
	b, ok := a.store.Val.(*ssa.BinOp)
	if !ok || !ssax.IsConstInt(b.Y, 1) {
		return 0
	}
	base, f, ok := m.fieldLoad(b.X)
	if !ok || f != a.f || m.key(base) != m.key(a.base) {
		return 0
	}
	switch b.Op {
	case token.ADD:
		return 1
	case token.SUB:
		return -1
	}
	return 0
}

// isAppendOf: v = append(<load of loc>, x) with a single appended value; returns x.
func (m *model) appendedTo(v ssa.Value, baseKey string, f *types.Var) ssa.Value {
	c, ok := v.(*ssa.Call)
	if !ok {
		return nil
	}
	cc, ok := isBuiltinCall(c, "append")
	if !ok || len(cc.Args) != 2 || !m.isFieldOf(cc.Args[0], baseKey, f) {
		return nil
	}
	// varargs: slice t[:] of new [1]T with one store
	sl, ok := cc.Args[1].(*ssa.Slice)
	if !ok {
		return nil
	}
	arr, ok := sl.X.(*ssa.Alloc)
	if !ok {
		return nil
	}
	at, ok := ssax.Deref(arr.Type()).Underlying().(*types.Array)
	if !ok || at.Len() != 1 {
		return nil
	}
	var val ssa.Value
	for _, r := range *arr.Referrers() {
		if ia, ok := r.(*ssa.IndexAddr); ok {
			for _, rr := range *ia.Referrers() {
				if st, ok := rr.(*ssa.Store); ok && st.Addr == ssa.Value(ia) {
					val = st.Val
				}
			}
		}
	}
	return val
}

func (m *model) doneJobKey() string {
	// res.Job of the received result
	return "(" + m.key(m.armDone.recv) + ")." + m.jrJob.Name()
}

func (m *model) isDoneJob(v ssa.Value) bool { return m.key(v) == m.doneJobKey() }

func (m *model) resErrKey() string { return "(" + m.key(m.armDone.recv) + ")." + m.jrErr.Name() }

func (m *model) isResErr(v ssa.Value) bool { return m.key(v) == m.resErrKey() }

// S7 countdown pairing, S8 done flag, S23 late enqueue.
func (m *model) ruleCountdown(s *report.Sink) {
	enqKey := m.key(m.armEnq.recv)
	nInc, nDec := 0, 0
	type site struct {
		a     access
		tl    *tloop
		atoms string
	}
	var incSites []site
	for _, a := range m.storesTo(m.sjRemaining) {
		d := m.incdecStore(a)
		arm := m.armOf(a.in)
		switch {
		case a.kind != "write":
			s.Bad("S7", "loop|remaining address taken#"+arm, m.ipos(a.in), "the address of remaining escapes: its writes can no longer be enumerated")
		case d == 1:
			key := "loop|remaining+1#" + arm
			tl := m.enclosingTraversal(a.in.Block(), func(t *tloop) bool { return m.sliceIsField(t, enqKey, m.sjDeps) })
			if arm != m.armEnq.name || m.key(a.base) != enqKey || tl == nil {
				s.Bad("S7", key, m.ipos(a.in), "remaining is incremented outside the registration loop over the new job's dependencies")
				nInc++
				continue
			}
			depKey := m.elemKey(tl)
			conds := m.atomsSince(a.in, tl.header)
			notDone := find(conds, func(x atom) bool {
				ok, val := boolIs(x, func(v ssa.Value) bool { return m.isFieldOf(v, depKey, m.sjDone) })
				return ok && !val
			})
			switch {
			case !tl.whole:
				s.Bad("S7", key, m.ipos(a.in), "the registration loop over the new job's dependencies can be left early: some dependencies are never registered")
			case notDone == nil:
				s.Bad("S7", key, m.ipos(a.in), "registration on a dependency is not guarded by !dep.done: a finished dependency would never notify and the job waits for ever")
			case len(conds) != 1 || !m.alwaysFrom(notDone, a.in, func(b *ssa.BasicBlock) bool { return tl.blocks[b] && b != tl.header }):
				s.Bad("S7", key, m.ipos(a.in), "the +1 is subject to a further condition beyond !dep.done ("+atomStrings(conds)+"): the countdown and the notifications it will receive diverge, so the job can become ready while a dependency is still running")
			default:
				incSites = append(incSites, site{a, tl, atomStrings(conds)})
				s.OK("S7", key, m.ipos(a.in), "one +1 per registration in a not-yet-finished dependency's consumer list")
			}
			nInc++
		case d == -1:
			key := "loop|remaining-1#" + arm
			tl := m.elemOf(ssax.Unspill(a.base))
			if tl == nil {
				tl = m.elemOf(a.base)
			}
			if arm != m.armDone.name || tl == nil || !m.sliceIsField(tl, m.doneJobKey(), m.sjConsumers) {
				s.Bad("S7", key, m.ipos(a.in), "remaining is decremented outside the notification loop over the finished job's consumers")
				nDec++
				continue
			}
			switch {
			case !tl.whole:
				s.Bad("S7", key, m.ipos(a.in), "the notification loop can be left early: some consumers would never become ready")
			case len(m.atomsSince(a.in, tl.header)) != 0 || !m.mustPass(tl.body, func(b *ssa.BasicBlock) bool { return tl.blocks[b] && b != tl.header }, a.in):
				s.Bad("S7", key, m.ipos(a.in), "decrement is conditional within the iteration: some consumers would never become ready")
			case !m.mustPassOrReturn(m.armDone.entry, m.armDone.inside, tl.test):
				s.Bad("S7", key, m.ipos(a.in), "notification loop is conditional: consumers of some finished jobs are never notified")
			default:
				s.OK("S7", key, m.ipos(a.in), "one -1 per consumer of the finished job")
			}
			nDec++
		default:
			s.Bad("S7", "loop|remaining other write#"+arm, m.ipos(a.in), "remaining is written by something other than +1/-1 on its own value")
		}
	}
	s.Check(nInc == 1 && nDec == 1, "S7", "loop|exactly one +1 site and one -1 site", m.pos(m.fnLoop.Pos()), "pairing is one-to-one", fmt.Sprintf("%d increment and %d decrement sites (want 1 and 1)", nInc, nDec))
	// every write to consumers is the registration paired with the +1
	for _, a := range m.storesTo(m.sjConsumers) {
		arm := m.armOf(a.in)
		good := false
		why := "consumer list modified without the matching remaining+1 under the same condition (countdown and notifications diverge)"
		if a.kind == "write" && arm == m.armEnq.name {
			tl := m.enclosingTraversal(a.in.Block(), func(t *tloop) bool { return m.sliceIsField(t, enqKey, m.sjDeps) })
			if tl != nil && m.key(a.base) == m.elemKey(tl) {
				x := m.appendedTo(a.store.Val, m.elemKey(tl), m.sjConsumers)
				if x != nil && m.key(x) == enqKey {
					conds := m.atomsSince(a.in, tl.header)
					as := atomStrings(conds)
					always := len(conds) == 1 && m.alwaysFrom(&conds[0], a.in, func(b *ssa.BasicBlock) bool { return tl.blocks[b] && b != tl.header })
					for _, is := range incSites {
						if is.tl == tl && is.atoms == as && a.in.Parent() == is.a.in.Parent() && always {
							good = true
						}
					}
				} else {
					why = "the consumer list of a dependency is not extended by exactly the new job"
				}
			}
		}
		s.Check(good, "S7", "loop|consumers write#"+arm, m.ipos(a.in), "dep.consumers = append(dep.consumers, job) paired with remaining+1, both exactly under !dep.done", why)
	}

	// S8
	doneStores := m.storesTo(m.sjDone)
	for _, a := range doneStores {
		arm := m.armOf(a.in)
		good := a.kind == "write" && arm == m.armDone.name && m.isDoneJob(a.base) && ssax.IsConstBool(a.store.Val, true) &&
			m.mustPass(m.armDone.entry, m.armDone.inside, a.in)
		s.Check(good, "S8", "loop|write of done#"+arm, m.ipos(a.in), "the finished job is marked done unconditionally on entry of the result arm, which always goes on to notify its consumers", "a job is marked done other than unconditionally in the result arm (for the job whose result was received): it finishes without the notification of its consumers (their countdown never reaches zero: Wait hangs), or a finished job is never seen as done by later enqueues")
	}
	s.Check(len(doneStores) == 1, "S8", "loop|single done site", m.bpos(m.armDone.entry), "", fmt.Sprintf("%d writes to ScheduledJob.done (want 1)", len(doneStores)))
	// done must be set before the job's consumers are notified / anything can observe it: before any branch
	if len(doneStores) == 1 {
		first := true
		st := doneStores[0].in
		if st.Parent() == m.fnLoop {
			for b := st.Block(); b != m.armDone.entry; {
				if len(b.Preds) != 1 {
					first = false
					break
				}
				b = b.Preds[0]
				if len(b.Succs) != 1 {
					first = false
					break
				}
			}
		}
		s.Check(first, "S8", "loop|done=true at arm entry", m.ipos(st), "set before any branch of the result arm", "result arm does not mark the finished job done before branching: later enqueues would wait on it for ever")
	}

	// S23
	var invalEnq []access
	for _, a := range m.storesTo(m.sjInvalid) {
		if m.armOf(a.in) == m.armEnq.name {
			invalEnq = append(invalEnq, a)
		}
	}
	ok23 := false
	pos23 := m.bpos(m.armEnq.entry)
	for _, a := range invalEnq {
		tl := m.enclosingTraversal(a.in.Block(), func(t *tloop) bool { return m.sliceIsField(t, enqKey, m.sjDeps) })
		if tl == nil || a.kind != "write" || m.key(a.base) != enqKey || !ssax.IsConstBool(a.store.Val, true) {
			continue
		}
		depKey := m.elemKey(tl)
		conds := m.atomsSince(a.in, tl.header)
		d := find(conds, func(x atom) bool {
			ok, val := boolIs(x, func(v ssa.Value) bool { return m.isFieldOf(v, depKey, m.sjDone) })
			return ok && val
		})
		e := find(conds, func(x atom) bool {
			ok, pol := eqNil(x, func(v ssa.Value) bool { return m.isFieldOf(v, depKey, m.sjErr) })
			return ok && !pol
		})
		pos23 = m.ipos(a.in)
		body := func(b *ssa.BasicBlock) bool { return tl.blocks[b] && b != tl.header }
		if d != nil && e != nil && len(conds) == 2 && tl.whole && m.alwaysFrom(e, a.in, body) {
			ok23 = true
		} else if e != nil && len(conds) == 1 && tl.whole && m.alwaysFrom(e, a.in, body) {
			// `if dep.err != nil` alone is equivalent: err is only set on done jobs
			ok23 = true
		}
	}
	s.Check(ok23, "S23", "loop|late enqueue invalidation", pos23, "a job enqueued after a dependency failed is marked invalid (exactly when dep.done && dep.err != nil)", "a job enqueued after its dependency failed is not (exactly) invalidated")
}

func (m *model) sliceIsField(tl *tloop, baseKey string, f *types.Var) bool {
	return tl != nil && m.isFieldOf(tl.slice, baseKey, f)
}

func (m *model) elemKey(tl *tloop) string {
	return fmt.Sprintf("elem(%s)@%s#%d", tl.sliceKey, tl.header.Parent().String(), tl.header.Index)
}

// S16 exit duties.
func (m *model) ruleExitDuties(s *report.Sink) {
	fn := m.fnLoop
	var closeFin, closeReady, drain bool
	var tickerNew, tickerStop ssa.Instruction
	unconditional := func(in ssa.Instruction) bool {
		// registered before the loop on every path: dominates the loop header, no user condition
		return in.Block().Dominates(m.header) && !m.loopBlocks[in.Block()] && len(userAtoms(m.localAtoms(in.Block()))) == 0
	}
	// tickers created by a helper of the loop (`tickerC, stop := stateTicker(emitter, freq); defer stop()`)
	for _, hf := range m.funcs {
		if hf == fn {
			continue
		}
		ssax.Instrs(hf, func(in ssa.Instruction) {
			c, ok := in.(*ssa.Call)
			if !ok || calleeName(&c.Call) != "time.NewTicker" {
				return
			}
			s.Check(m.helperTickerStopped(hf, c, unconditional), "S16", "loop|ticker stopped#"+hf.Name(), m.ipos(c), "the helper hands the ticker's Stop to the loop, which defers it before looping", "time.NewTicker in a helper whose Stop does not reach an unconditional deferred call of the loop: ticker leaks per directive")
		})
	}
	ssax.Instrs(fn, func(in ssa.Instruction) {
		if c, ok := in.(*ssa.Call); ok && calleeName(&c.Call) == "time.NewTicker" {
			tickerNew = c
		}
		d, ok := in.(*ssa.Defer)
		if !ok {
			return
		}
		if cc, ok := isBuiltinCall(d, "close"); ok && len(cc.Args) == 1 && unconditional(d) {
			if m.isField(cc.Args[0], m.fFIN) {
				closeFin = true
			}
			if m.isField(cc.Args[0], m.fREADY) {
				closeReady = true
			}
		}
		if calleeName(&d.Call) == "(*time.Ticker).Stop" {
			tickerStop = d
		}
		var body *ssa.Function
		if mc, ok := d.Call.Value.(*ssa.MakeClosure); ok {
			body, _ = mc.Fn.(*ssa.Function)
		} else if callee := d.Call.StaticCallee(); callee != nil && callee.Pkg == m.pkg {
			body = callee
		}
		if body != nil && unconditional(d) {
			if m.isDrain(body) {
				drain = true
			}
			// closes performed inside a deferred function
			ssax.Instrs(body, func(x ssa.Instruction) {
				if cc, ok := isBuiltinCall(x, "close"); ok && len(cc.Args) == 1 && len(userAtoms(m.localAtoms(x.Block()))) == 0 {
					if _, isCall := x.(*ssa.Call); isCall {
						if m.isField(cc.Args[0], m.fFIN) {
							closeFin = true
						}
						if m.isField(cc.Args[0], m.fREADY) {
							closeReady = true
						}
					}
				}
			})
		}
	})
	s.Check(closeFin, "S16", "loop|defer close(finished)", m.pos(fn.Pos()), "Wait is released on every exit of the loop (incl. panics)", "the finish channel is not closed by an unconditional deferred call registered before the loop: Wait can block for ever")
	s.Check(closeReady, "S16", "loop|defer close(ready)", m.pos(fn.Pos()), "idle workers terminate on every exit of the loop", "the ready channel is not closed by an unconditional deferred call registered before the loop: workers leak")
	s.Check(drain, "S16", "loop|deferred drain of the enqueue channel", m.pos(fn.Pos()), "Enqueue calls issued after an early exit still complete", "no unconditional deferred `for range s.enqueuec {}`: Enqueue blocks for ever after a fail-fast exit")
	if tickerNew != nil {
		good := tickerStop != nil && tickerStop.Block() == tickerNew.Block() && ssax.Before(tickerNew, tickerStop)
		if good {
			good = tickerStop.(*ssa.Defer).Call.Args[0] == tickerNew.(ssa.Value)
		}
		s.Check(good, "S16", "loop|ticker stopped", m.ipos(tickerNew), "ticker is stopped on exit", "time.NewTicker without a deferred Stop of that ticker right after it: ticker leaks per directive")
	}
}

// helperTickerStopped: helper hf creates ticker t and either defers t.Stop() itself right away (it then cannot
// hand the ticker out, which S31/S26 would notice) or returns, together with it, the bound method t.Stop as one
// of its results on every path that returns after the creation; the loop function calls hf once and defers a call
// of that result unconditionally before the loop.
func (m *model) helperTickerStopped(hf *ssa.Function, t *ssa.Call, unconditional func(ssa.Instruction) bool) bool {
	site, ok := m.bindSite[hf]
	if !ok || site.Parent() != m.fnLoop {
		return false
	}
	siteVal, ok := site.(ssa.Value)
	if !ok {
		return false
	}
	// which result carries t.Stop
	idx := -1
	good := true
	ssax.Instrs(hf, func(in ssa.Instruction) {
		r, isRet := in.(*ssa.Return)
		if !isRet || !t.Block().Dominates(r.Block()) {
			return
		}
		found := -1
		for k, res := range r.Results {
			if mc, ok := res.(*ssa.MakeClosure); ok && len(mc.Bindings) == 1 && mc.Bindings[0] == ssa.Value(t) {
				if f, ok := mc.Fn.(*ssa.Function); ok && strings.HasPrefix(f.Name(), "Stop$bound") {
					found = k
				}
			}
		}
		if found < 0 || (idx >= 0 && idx != found) {
			good = false
		}
		idx = found
	})
	if !good || idx < 0 {
		return false
	}
	// the loop defers a call of that result
	var stopVal ssa.Value
	if hf.Signature.Results().Len() == 1 {
		stopVal = siteVal
	} else if refs := siteVal.Referrers(); refs != nil {
		for _, r := range *refs {
			if ex, ok := r.(*ssa.Extract); ok && ex.Index == idx {
				stopVal = ex
			}
		}
	}
	if stopVal == nil || stopVal.Referrers() == nil {
		return false
	}
	for _, r := range *stopVal.Referrers() {
		if d, ok := r.(*ssa.Defer); ok && d.Call.Value == stopVal && unconditional(d) {
			return true
		}
	}
	return false
}

// isDrain: the function receives from the enqueue channel until it is closed and does nothing else.
func (m *model) isDrain(fn *ssa.Function) bool {
	var recv *ssa.UnOp
	clean := true
	ssax.Instrs(fn, func(in ssa.Instruction) {
		switch x := in.(type) {
		case *ssa.UnOp:
			if x.Op == token.ARROW {
				if recv != nil || !m.isField(x.X, m.fENQ) || !x.CommaOk {
					clean = false
				}
				recv = x
			}
		case *ssa.Send, *ssa.Go, *ssa.Select, *ssa.Defer, *ssa.Store, *ssa.Panic:
			clean = false
		case *ssa.Call:
			clean = false
		}
	})
	if recv == nil || !clean {
		return false
	}
	// loop continues iff ok; exits only when !ok
	var okv ssa.Value
	for _, r := range *recv.Referrers() {
		if e, isE := r.(*ssa.Extract); isE && e.Index == 1 {
			okv = e
		}
	}
	i := ssax.IfOf(recv.Block())
	if okv == nil || i == nil || i.Cond != okv {
		return false
	}
	b := recv.Block()
	if !ssax.Reachable(b.Succs[0], b) || ssax.Reachable(b.Succs[1], b) {
		return false
	}
	// reached unconditionally from entry
	return len(userAtoms(m.localAtoms(b))) == 0
}

// versions of a loop-carried value: the header phi and everything that flows into it around the loop.
func (m *model) versions(phi *ssa.Phi) map[ssa.Value]bool {
	out := map[ssa.Value]bool{phi: true}
	var add func(v ssa.Value, d int)
	add = func(v ssa.Value, d int) {
		if v == nil || out[v] || d > 12 {
			return
		}
		switch x := v.(type) {
		case *ssa.Phi:
			out[v] = true
			for _, e := range x.Edges {
				add(e, d+1)
			}
		case *ssa.BinOp:
			out[v] = true
			add(x.X, d+1)
		}
	}
	for k, e := range phi.Edges {
		if m.loopBlocks[phi.Block().Preds[k]] {
			add(e, 0)
		}
	}
	return out
}

// current: v is the version of the loop-carried phi that would be carried into
// the next iteration from block b: on every back edge reachable from b
// (without leaving the loop), the phi operand is v.
func (m *model) current(phi *ssa.Phi, v ssa.Value, b *ssa.BasicBlock) bool {
	if phi == nil || phi.Block() != m.header {
		return false
	}
	found := false
	ok := true
	seen := map[*ssa.BasicBlock]bool{b: true}
	stack := []*ssa.BasicBlock{b}
	for len(stack) > 0 {
		x := stack[len(stack)-1]
		stack = stack[:len(stack)-1]
		for _, su := range x.Succs {
			if su == m.header {
				for k, p := range m.header.Preds {
					if p == x {
						found = true
						if phi.Edges[k] != v {
							ok = false
						}
					}
				}
				continue
			}
			if !seen[su] && m.loopBlocks[su] {
				seen[su] = true
				stack = append(stack, su)
			}
		}
	}
	return found && ok
}

// S17 loop exits, S18 closed enqueue, S19 arms never starved, S30 blocking, S22 continue mode.
func (m *model) ruleLoopExits(s *report.Sink) {
	fn := m.fnLoop
	nFail, nDone := 0, 0
	enqPhi, _ := m.enqPhi.(*ssa.Phi)
	var exitTests []*ssa.BasicBlock
	ssax.Instrs(fn, func(in ssa.Instruction) {
		ret, ok := in.(*ssa.Return)
		if !ok || ret.Block() == fn.Recover {
			return
		}
		conds := userAtoms(m.localAtoms(ret.Block()))
		// (b) pending == 0 && enqueue channel closed, both on the current versions
		p0 := find(conds, func(a atom) bool {
			if m.cPending == nil {
				return false
			}
			isCur := func(v ssa.Value) bool {
				if m.cPending.phi != nil {
					return m.versions(m.cPending.phi)[v] && m.current(m.cPending.phi, v, a.cond.(ssa.Instruction).Block())
				}
				k, ld := m.cellKey(m.resolve(v))
				return k == m.cPending.cell && m.freshAt(k, ld, ret)
			}
			ok, pol := eqInt(a, 0, isCur)
			if ok && pol {
				return true
			}
			// pending <= 0 is the same fact for a counter that is never negative
			if a.op == "<=" && a.pol && ssax.IsConstInt(a.bv, 0) && isCur(a.av) {
				return true
			}
			return false
		})
		closed := find(conds, func(a atom) bool {
			ok, pol := eqNil(a, func(v ssa.Value) bool {
				if enqPhi == nil {
					return false
				}
				return m.versions(enqPhi)[v] && m.current(enqPhi, v, a.cond.(ssa.Instruction).Block())
			})
			return ok && pol
		})
		if p0 != nil && closed != nil {
			nDone++
			exitTests = append(exitTests, p0.cond.(ssa.Instruction).Block(), closed.cond.(ssa.Instruction).Block())
			s.OK("S17", "loop|exit on pending==0 && closed", m.ipos(ret), "normal completion: nothing in flight and no more enqueues")
			return
		}
		// (a) fail-fast
		failed := find(conds, func(a atom) bool {
			ok, pol := eqNil(a, m.isResErr)
			return ok && !pol
		})
		notCont := find(conds, func(a atom) bool {
			ok, val := boolIs(a, func(v ssa.Value) bool { return m.isField(v, m.fCOE) })
			return ok && !val
		})
		stored := false
		isFail := func(x atom) bool { ok, pol := eqNil(x, m.isResErr); return ok && !pol }
		for _, a := range fieldAccesses(fn, m.Sched) {
			if a.f == m.fErr && a.kind == "write" && m.isResErr(a.store.Val) && ssax.Before(a.in, ret) {
				// stored under the failure condition, i.e. inside the region where err != nil
				if find(userAtoms(m.localAtoms(a.in.Block())), isFail) != nil {
					stored = true
				}
			}
		}
		// ... or in the helper whose boolean result selects this exit, before the return that reports it
		if notCont != nil && notCont.via != nil {
			for _, a := range fieldAccesses(notCont.via.Parent(), m.Sched) {
				if a.f == m.fErr && a.kind == "write" && m.isResErr(a.store.Val) && ssax.Before(a.in, notCont.via) && find(userAtoms(m.atomsOf(a.in)), isFail) != nil {
					stored = true
				}
			}
		}
		if failed != nil && notCont != nil && stored && m.armDone.inside(ret.Block()) {
			nFail++
			s.OK("S17", "loop|exit on first failure (fail-fast)", m.ipos(ret), "the failing job's error is stored before leaving")
			return
		}
		s.Bad("S17", "loop|unjustified exit#"+m.armOf(ret), m.ipos(ret), "the loop returns neither on (pending == 0 && enqueue channel closed) nor on (job failed && !continueOnError with the error stored): Wait could report nil with work outstanding, or lose the error")
	})
	if m.cPending == nil {
		s.Unk("S17", "loop|has a completion exit", m.pos(fn.Pos()), m.counterErr)
	} else {
		s.Check(nDone >= 1, "S17", "loop|has a completion exit", m.pos(fn.Pos()), "", "no exit under pending == 0 && closed")
	}
	s.Check(nFail >= 1, "S17", "loop|has a fail-fast exit", m.pos(fn.Pos()), "", "no fail-fast exit storing the error")
	// every way round the loop passes the completion test (a `continue` that skips it would park the loop for ever)
	skip := false
	if len(exitTests) > 0 {
		for _, p := range m.header.Preds {
			if !m.loopBlocks[p] {
				continue
			}
			dominated := false
			for _, t := range exitTests {
				if t.Dominates(p) {
					dominated = true
				}
			}
			if !dominated {
				skip = true
			}
		}
	}
	s.Check(!skip && len(exitTests) > 0, "S17", "loop|main for has no other way round", m.bpos(m.header), "every iteration ends with the completion test", "an iteration can start over without evaluating the completion test (continue/goto): after the last job the loop would block for ever")

	// S30: the loop goroutine blocks only in its select (and in the deferred drain)
	nOps := 0
	for _, f := range m.loopFuncs() {
		if f != fn && top(f) == fn {
			continue // deferred closures: S16
		}
		ssax.Instrs(f, func(in ssa.Instruction) {
			var what string
			switch v := in.(type) {
			case *ssa.UnOp:
				if v.Op == token.ARROW {
					what = "receive from " + shortKey(m.key(v.X))
				}
			case *ssa.Send:
				what = "send on " + shortKey(m.key(v.Chan))
			case *ssa.Select:
				if v != m.sel {
					if v.Blocking {
						what = "another blocking select"
					}
				} else {
					nOps++
					s.OK("S30", "loop|the select", m.ipos(in), "the loop's single blocking point")
				}
			case ssa.CallInstruction:
				switch n := calleeName(v.Common()); n {
				case "time.Sleep", "(*sync.WaitGroup).Wait", "(*sync.Mutex).Lock", "(*sync.RWMutex).Lock", "(*sync.RWMutex).RLock", "(*sync.Cond).Wait":
					if _, isDefer := in.(*ssa.Defer); !isDefer {
						what = "blocking call " + n
					}
				}
			}
			if what == "" {
				return
			}
			nOps++
			s.Bad("S30", "loop|"+what+"#"+m.armOf(in), m.ipos(in), "the scheduler loop blocks outside its select ("+what+"): while it does, Enqueue and Wait are not served and a fail-fast or cancelled run does not return promptly")
		})
	}
	if nOps == 0 {
		s.Unk("S30", "loop|channel operations", m.pos(fn.Pos()), "no channel operation found in the loop")
	}

	// S18: the !ok branch of the enqueue arm has no effect other than disabling the arm
	var okIf *ssa.If
	for _, r := range *m.enqOK.Referrers() {
		if i, isIf := r.(*ssa.If); isIf {
			okIf = i
		}
	}
	enqPos := m.bpos(m.armEnq.entry)
	if okIf == nil || !m.armEnq.inside(okIf.Block()) {
		s.Bad("S18", "loop|closed enqueue channel handled first", enqPos, "the enqueue arm does not test the closed flag of its receive: a nil job from the closed channel would be processed")
	} else {
		// every use of the received job is under ok == true
		usesGuarded := true
		if refs := m.armEnq.recv.Referrers(); refs != nil {
			for _, r := range *refs {
				if _, isDbg := r.(*ssa.DebugRef); isDbg {
					continue
				}
				if !okIf.Block().Succs[0].Dominates(r.Block()) || okIf.Block().Succs[0] == okIf.Block().Succs[1] {
					usesGuarded = false
				}
			}
		}
		s.Check(usesGuarded, "S18", "loop|closed enqueue channel handled first", m.ipos(okIf), "the received job is used only when the channel was open", "the job received from a closed enqueue channel (nil) is used")
		closedEntry := okIf.Block().Succs[1]
		clean := true
		for _, b := range fn.Blocks {
			if !closedEntry.Dominates(b) || !m.armEnq.inside(b) {
				continue
			}
			for _, in := range b.Instrs {
				switch in.(type) {
				case *ssa.Store, *ssa.Call, *ssa.Go, *ssa.Defer, *ssa.Send, *ssa.Return, *ssa.Panic, *ssa.MapUpdate:
					clean = false
				}
			}
		}
		// the enqueue local becomes nil on that path
		nilOnClosed := false
		if enqPhi != nil {
			for v := range m.versions(enqPhi) {
				if p, isPhi := v.(*ssa.Phi); isPhi {
					for k, e := range p.Edges {
						pred := p.Block().Preds[k]
						if ssax.IsNilConst(e) && closedEntry.Dominates(pred) {
							nilOnClosed = true
						}
					}
				}
			}
		}
		s.Check(clean && nilOnClosed, "S18", "loop|closed enqueue channel only disables the arm", m.bpos(closedEntry), "`enqueuec = nil` and on to the exit test", "the !ok branch does something other than disabling the arm and falling to the exit test")
	}
	// S19
	s.Check(m.isField(m.armDone.state.Chan, m.fDONE), "S19", "loop|result arm reads s.donec directly", m.ipos(m.sel), "the result arm can never be disabled", "result arm receives from a value that is not the scheduler's result channel itself (could be nil): results would be ignored and workers block")
	good19 := false
	if enqPhi != nil && enqPhi.Block() == m.header {
		good19 = m.enqDirect // receiving from a further-gated copy disables the arm for reasons other than close
		closedEntry := (*ssa.BasicBlock)(nil)
		if okIf != nil {
			closedEntry = okIf.Block().Succs[1]
		}
		for v := range m.versions(enqPhi) {
			p, isPhi := v.(*ssa.Phi)
			if !isPhi {
				good19 = false
				continue
			}
			for k, e := range p.Edges {
				pred := p.Block().Preds[k]
				switch {
				case m.versions(enqPhi)[e]:
				case p == enqPhi && !m.loopBlocks[pred] && m.isField(e, m.fENQ):
				case ssax.IsNilConst(e) && closedEntry != nil && closedEntry.Dominates(pred):
				default:
					good19 = false
				}
			}
		}
	} else if m.isField(m.enqPhi, m.fENQ) {
		// arm reads s.enqueuec directly and is never disabled: after close it would fire for ever
		good19 = false
	}
	s.Check(good19, "S19", "loop|enqueue arm disabled only on close", m.ipos(m.sel), "local enqueue channel = s.enqueuec until closed", "the local enqueue channel is reassigned elsewhere (or never disabled): Enqueue could block while the loop is alive, or the closed channel spins the loop")

	m.ruleContinue(s)
}

func shortKey(k string) string {
	if i := strings.LastIndex(k, "."); i >= 0 && i+1 < len(k) {
		return k[i+1:]
	}
	return k
}

// S22 continue mode.
func (m *model) ruleContinue(s *report.Sink) {
	fn := m.fnLoop
	isFailed := func(as []atom) *atom {
		return find(as, func(a atom) bool { ok, pol := eqNil(a, m.isResErr); return ok && !pol })
	}
	// failure region entry: the true edge of `res.Err != nil`
	var failEntry *ssa.BasicBlock
	for _, b := range fn.Blocks {
		if !m.armDone.inside(b) {
			continue
		}
		i := ssax.IfOf(b)
		if i == nil {
			continue
		}
		a := m.mkAtom(i.Cond, true)
		if ok, pol := eqNil(a, m.isResErr); ok {
			if pol {
				failEntry = b.Succs[1]
			} else {
				failEntry = b.Succs[0]
			}
		}
	}
	if failEntry == nil {
		s.Unk("S22", "loop|failure branch", m.bpos(m.armDone.entry), "no test of the received result's error in the result arm")
		return
	}
	inFail := func(b *ssa.BasicBlock) bool { return failEntry.Dominates(b) }
	// job.err = err on every path of the failure region
	var errStores []access
	for _, a := range m.storesTo(m.sjErr) {
		errStores = append(errStores, a)
	}
	first := false
	var inRegion []ssa.Instruction
	for _, a := range errStores {
		good := a.kind == "write" && m.isDoneJob(a.base) && m.isResErr(a.store.Val) && m.armOf(a.in) == m.armDone.name
		rb := m.rootSite(a.in).Block() // where the store happens as seen from the loop (the call, for a store in a helper)
		if good && inFail(rb) {
			inRegion = append(inRegion, a.in)
		}
		if good && inFail(rb) && m.mustPass(failEntry, inFail, a.in) {
			first = true
		}
		if good && !inFail(rb) && m.mustPass(m.armDone.entry, m.armDone.inside, a.in) {
			first = true // recorded unconditionally (nil for successes): also fine
		}
		if !good {
			s.Bad("S22", "loop|other write of job.err#"+m.armOf(a.in), m.ipos(a.in), "ScheduledJob.err is written with something other than the received result's error of that job")
		}
	}
	if !first && len(inRegion) > 1 && m.mustPassAny(failEntry, inFail, inRegion) {
		first = true // recorded separately on each branch of the failure handling: every path passes one of the stores
	}
	s.Check(first, "S22", "loop|job.err recorded before the mode branch", m.bpos(failEntry), "late enqueues see the failure", "the failed job's err is not recorded on every path of the failure branch (fail-fast exit, sentinel, ...): a dependent enqueued later would run")
	// multierr.Append
	nApp := 0
	for _, f := range m.funcs {
		ssax.Instrs(f, func(in ssa.Instruction) {
			c, ok := in.(*ssa.Call)
			if !ok || calleeName(&c.Call) != "go.uber.org/multierr.Append" {
				return
			}
			nApp++
			conds := m.atomsSince(c, m.armDone.entry)
			g := find(conds, func(a atom) bool {
				ok, val := boolIs(a, func(v ssa.Value) bool {
					ic, isCall := v.(*ssa.Call)
					return isCall && calleeName(&ic.Call) == "errors.Is" && len(ic.Call.Args) == 2 && m.isResErr(ic.Call.Args[0]) && m.isSentinelLoad(ic.Call.Args[1])
				})
				return ok && !val
			})
			cont := find(conds, func(a atom) bool {
				ok, val := boolIs(a, func(v ssa.Value) bool { return m.isField(v, m.fCOE) })
				return ok && val
			})
			shape := len(c.Call.Args) == 2 && m.isField(c.Call.Args[0], m.fErr) && m.isResErr(c.Call.Args[1])
			stored := false
			for _, r := range *c.Referrers() {
				if st, isSt := r.(*ssa.Store); isSt && st.Val == ssa.Value(c) {
					if _, f2, ok := ssax.FieldAddrOf(st.Addr); ok && f2 == m.fErr {
						stored = true
					}
				}
			}
			okConds := g != nil && cont != nil && isFailed(conds) != nil && len(conds) == 3 && m.armOf(c) == m.armDone.name &&
				m.alwaysFrom(g, c, m.armDone.inside) && g.ifi != nil && m.alwaysFrom(cont, g.ifi, m.armDone.inside)
			s.Check(okConds && shape && stored, "S22", "loop|s.err = multierr.Append(s.err, err) iff !sentinel", m.ipos(c), "every real failure is appended exactly once, the sentinel never", "multierr.Append is not exactly `s.err = multierr.Append(s.err, err)` under err != nil && continueOnError && !errors.Is(err, sentinel) (found: "+atomStrings(conds)+")")
		})
	}
	s.Check(nApp == 1, "S22", "loop|one append site", m.bpos(failEntry), "", fmt.Sprintf("%d multierr.Append sites (want 1)", nApp))
	// invalidation of every consumer
	inval := false
	for _, a := range m.storesTo(m.sjInvalid) {
		if m.armOf(a.in) != m.armDone.name {
			continue
		}
		tl := m.elemOf(ssax.Unspill(a.base))
		if tl == nil {
			tl = m.elemOf(a.base)
		}
		if tl == nil || !m.sliceIsField(tl, m.doneJobKey(), m.sjConsumers) || a.kind != "write" || !ssax.IsConstBool(a.store.Val, true) {
			s.Bad("S22", "loop|other invalidation#result-arm", m.ipos(a.in), "invalid is set in the result arm on something other than the consumers of the finished job")
			continue
		}
		loopConds := m.atomsSince(tl.test, m.armDone.entry)
		cont := find(loopConds, func(x atom) bool {
			ok, val := boolIs(x, func(v ssa.Value) bool { return m.isField(v, m.fCOE) })
			return ok && val
		})
		inIter := m.atomsSince(a.in, tl.header)
		if tl.whole && isFailed(loopConds) != nil && (cont != nil && len(loopConds) == 2 || cont == nil && len(loopConds) == 1) && len(inIter) == 0 &&
			m.mustPass(tl.body, func(b *ssa.BasicBlock) bool { return tl.blocks[b] && b != tl.header }, a.in) {
			inval = true
		}
	}
	s.Check(inval, "S22", "loop|every consumer of a failed job is invalidated", m.bpos(failEntry), "for real errors and for the sentinel alike (transitive)", "under continueOnError the consumers of a failed/invalid job are not all unconditionally marked invalid: tasks downstream of a failure run")
}

func (m *model) isSentinelLoad(v ssa.Value) bool {
	u, ok := v.(*ssa.UnOp)
	if !ok || u.Op != token.MUL {
		return false
	}
	g, ok := u.X.(*ssa.Global)
	return ok && g.Pkg == m.pkg && isErrorType(ssax.Deref(g.Type()))
}

// ---------------------------------------------------------------------------
// S25 conservation: path enumeration over the loop body with symbolic counter offsets.

type pathState struct {
	off   map[ssa.Value]int // value -> offset from its counter's value at the start of the iteration
	ctr   map[ssa.Value]*counter
	cell  map[string]int // memory counters: cell key -> offset of the cell's current content
	list  int            // insertions - removals on the ready list so far
	extra int            // residual contributed by helpers summarised as a whole (helperEffect)
	// symbolic part: a helper that returns exactly the number of elements it put on the ready list
	// contributes its (unknown) result n once to the list and, where that result is added to or
	// subtracted from a counter, +-n to that counter
	symList map[ssa.Value]int               // call -> coefficient of n in the list delta
	symOff  map[ssa.Value]map[ssa.Value]int // value -> call -> coefficient of n in the value
}

func (p *pathState) clone() *pathState {
	q := &pathState{off: map[ssa.Value]int{}, ctr: map[ssa.Value]*counter{}, cell: map[string]int{}, list: p.list, extra: p.extra, symList: map[ssa.Value]int{}, symOff: map[ssa.Value]map[ssa.Value]int{}}
	for k, v := range p.cell {
		q.cell[k] = v
	}
	for k, v := range p.off {
		q.off[k] = v
	}
	for k, v := range p.ctr {
		q.ctr[k] = v
	}
	for k, v := range p.symList {
		q.symList[k] = v
	}
	for k, v := range p.symOff {
		c := map[ssa.Value]int{}
		for k2, v2 := range v {
			c[k2] = v2
		}
		q.symOff[k] = c
	}
	return q
}

type consResult struct {
	bad   map[string][]string // arm -> messages
	unk   map[string][]string
	paths map[string]int
}

func (m *model) ruleConservation(s *report.Sink) {
	if m.cPending == nil {
		s.Unk("S25", "loop|counters", m.pos(m.fnLoop.Pos()), m.counterErr)
		return
	}
	counters := []*counter{m.cPending, m.cOngoing, m.cWaiting}
	sign := map[*counter]int{m.cPending: 1, m.cOngoing: -1, m.cWaiting: -1}
	cellCtr := map[string]*counter{}
	res := &consResult{bad: map[string][]string{}, unk: map[string][]string{}, paths: map[string]int{}}
	init := &pathState{off: map[ssa.Value]int{}, ctr: map[ssa.Value]*counter{}, cell: map[string]int{}, symList: map[ssa.Value]int{}, symOff: map[ssa.Value]map[ssa.Value]int{}}
	for _, c := range counters {
		if c.phi != nil {
			init.off[c.phi] = 0
			init.ctr[c.phi] = c
		} else {
			init.cell[c.cell] = 0
			cellCtr[c.cell] = c
		}
	}
	type frame struct {
		b     *ssa.BasicBlock
		st    *pathState
		entry map[*ssa.BasicBlock]*pathState // inner loop headers on the current path
		arm   string
	}
	budget := 20000
	effMemo := map[*ssa.Function]*helperEff{}
	var walk func(b *ssa.BasicBlock, pred *ssa.BasicBlock, st *pathState, entries map[*ssa.BasicBlock]*pathState, arm string)
	// summary of list effects of a helper call (all paths must agree)
	var calleeList func(fn *ssa.Function, depth int) (int, bool)
	calleeList = func(fn *ssa.Function, depth int) (int, bool) {
		if depth > 3 {
			return 0, false
		}
		total := 0
		ok := true
		for _, b := range fn.Blocks {
			for _, in := range b.Instrs {
				if recv, name, _, isList := listCall(in); isList && m.isReadyList(recv) {
					d := 0
					if isInsert(name) {
						d = 1
					} else if name == "Remove" {
						d = -1
					}
					if d != 0 {
						if inAnyLoop(b) || len(userAtoms(m.localAtoms(b))) != 0 {
							ok = false // conditional effect inside a helper: not summarised
						}
						total += d
					}
				}
				if c, isCall := in.(*ssa.Call); isCall {
					if callee := c.Call.StaticCallee(); callee != nil && callee.Pkg == m.pkg && callee.Blocks != nil && callee != fn {
						d, k := calleeList(callee, depth+1)
						if !k {
							ok = false
						}
						if d != 0 && (inAnyLoop(b) || len(userAtoms(m.localAtoms(b))) != 0) {
							ok = false
						}
						total += d
					}
				}
			}
		}
		return total, ok
	}
	offsetOf := func(st *pathState, v ssa.Value) (*counter, int, bool) {
		if c, ok := st.ctr[v]; ok {
			return c, st.off[v], true
		}
		return nil, 0, false
	}
	residual := func(a, b *pathState) int {
		// change of pending - ready - waiting - ongoing between two states is computed by the caller
		return 0
	}
	_ = residual
	walk = func(b *ssa.BasicBlock, pred *ssa.BasicBlock, st *pathState, entries map[*ssa.BasicBlock]*pathState, arm string) {
		budget--
		if budget < 0 {
			res.unk["outside-select"] = append(res.unk["outside-select"], "path enumeration budget exhausted")
			return
		}
		for _, a := range m.arms {
			if a.inside(b) {
				arm = a.name
			}
		}
		// phis
		for _, in := range b.Instrs {
			p, ok := in.(*ssa.Phi)
			if !ok {
				break
			}
			if pred == nil {
				continue
			}
			for k, e := range p.Edges {
				if b.Preds[k] != pred {
					continue
				}
				if c, off, ok := offsetOf(st, e); ok {
					st.ctr[p] = c
					st.off[p] = off
					if so, ok := st.symOff[e]; ok {
						st.symOff[p] = so
					} else {
						delete(st.symOff, p)
					}
				} else {
					delete(st.ctr, p)
					delete(st.off, p)
					delete(st.symOff, p)
				}
				break
			}
		}
		// back to the main header: an iteration is complete
		if b == m.header && pred != nil {
			r := 0
			for _, c := range counters {
				if c.phi == nil {
					// memory counter: what the cell holds now, relative to the start of the iteration
					r += sign[c] * st.cell[c.cell]
					continue
				}
				// the header phi's operand along this edge
				var opnd ssa.Value
				for k, p := range m.header.Preds {
					if p == pred {
						opnd = c.phi.Edges[k]
					}
				}
				cc, off, ok := offsetOf(st, opnd)
				if !ok || cc != c {
					res.unk[arm] = append(res.unk[arm], fmt.Sprintf("%s: counter %s is carried into the next iteration as something other than itself ± constant", m.bpos(pred), c.name))
					return
				}
				r += sign[c] * off
				for call, k := range st.symOff[opnd] {
					st.symList[call] -= sign[c] * k // fold into one symbolic residual per call
				}
			}
			r += st.extra - st.list
			res.paths[arm]++
			for call, k := range st.symList {
				if k != 0 {
					res.bad[arm] = append(res.bad[arm], fmt.Sprintf("%s: the count returned by %s is not applied to the counters in step with the elements it puts on the ready list", m.ipos(call.(ssa.Instruction)), call.(*ssa.Call).Call.StaticCallee().Name()))
				}
			}
			if r != 0 {
				res.bad[arm] = append(res.bad[arm], fmt.Sprintf("a path through this arm leaves pending %+d off the sum ready+waiting+ongoing", r))
			}
			return
		}
		// inner loop header revisited: the iteration just walked must be balanced
		if e, ok := entries[b]; ok && pred != nil {
			r := (st.extra - e.extra) - (st.list - e.list)
			for k, c := range cellCtr {
				r += sign[c] * (st.cell[k] - e.cell[k])
			}
			for _, in := range b.Instrs {
				p, isPhi := in.(*ssa.Phi)
				if !isPhi {
					break
				}
				c, off, ok := offsetOf(st, p)
				c0, off0, ok0 := offsetOf(e, p)
				if ok != ok0 || (ok && c != c0) {
					res.unk[arm] = append(res.unk[arm], fmt.Sprintf("%s: a counter changes identity inside an inner loop", m.bpos(b)))
					return
				}
				if ok {
					r += sign[c] * (off - off0)
				}
			}
			res.paths[arm]++
			if r != 0 {
				res.bad[arm] = append(res.bad[arm], fmt.Sprintf("%s: an iteration of this inner loop changes pending by %+d more than ready+waiting+ongoing", m.bpos(b), r))
			}
			return
		}
		isInnerHeader := b != m.header && naturalLoop(b) != nil
		if isInnerHeader {
			entries2 := map[*ssa.BasicBlock]*pathState{}
			for k, v := range entries {
				entries2[k] = v
			}
			entries2[b] = st.clone()
			entries = entries2
		}
		for _, in := range b.Instrs {
			switch x := in.(type) {
			case *ssa.UnOp:
				if x.Op == token.MUL && len(cellCtr) > 0 {
					if c, ok := cellCtr[m.key(x.X)]; ok {
						st.ctr[x] = c
						st.off[x] = st.cell[c.cell]
					}
				}
			case *ssa.Store:
				if len(cellCtr) > 0 {
					if c, ok := cellCtr[m.key(x.Addr)]; ok {
						cc, off, ok := offsetOf(st, x.Val)
						if !ok || cc != c {
							res.unk[arm] = append(res.unk[arm], fmt.Sprintf("%s: counter %s is assigned something other than itself ± constant", m.ipos(x), c.name))
							return
						}
						st.cell[c.cell] = off
					}
				}
			case *ssa.BinOp:
				if c, off, ok := offsetOf(st, x.X); ok && (x.Op == token.ADD || x.Op == token.SUB) {
					if k, isC := x.Y.(*ssa.Const); isC && k.Value != nil {
						n := int(k.Int64())
						if x.Op == token.SUB {
							n = -n
						}
						st.ctr[x] = c
						st.off[x] = off + n
						if so, ok := st.symOff[x.X]; ok {
							st.symOff[x] = so
						}
					} else if call, isCall := x.Y.(*ssa.Call); isCall {
						if _, tracked := st.symList[call]; tracked {
							st.ctr[x] = c
							st.off[x] = off
							so := map[ssa.Value]int{}
							for k2, v2 := range st.symOff[x.X] {
								so[k2] = v2
							}
							if x.Op == token.ADD {
								so[call]++
							} else {
								so[call]--
							}
							st.symOff[x] = so
						}
					}
				}
			case *ssa.Call:
				if recv, name, _, ok := listCall(x); ok && m.isReadyList(recv) {
					if isInsert(name) {
						st.list++
					} else if name == "Remove" {
						st.list--
					}
				} else if callee := x.Call.StaticCallee(); callee != nil && callee.Pkg == m.pkg && callee.Blocks != nil {
					eff := m.helperEffect(callee, cellCtr, sign, 0, effMemo)
					if eff.ok {
						// the helper as a whole: the same residual on each of its paths; what the caller
						// loaded from a counter the helper writes is stale from here on
						st.extra += eff.r
						for v, c := range st.ctr {
							if c.phi == nil && eff.touched[c.cell] {
								delete(st.ctr, v)
								delete(st.off, v)
								delete(st.symOff, v)
							}
						}
						break
					}
					if m.returnsListDelta(callee) {
						// n elements inserted, n returned: symbolic
						st.symList[x]++
						break
					}
					if eff.definite {
						res.bad[arm] = append(res.bad[arm], eff.why)
					} else {
						res.unk[arm] = append(res.unk[arm], fmt.Sprintf("%s: helper %s is not summarised: %s", m.ipos(x), callee.Name(), eff.why))
					}
					return
				}
			case *ssa.Return:
				return // exits are S17's business
			case *ssa.Panic:
				return
			}
		}
		for _, su := range b.Succs {
			if !m.loopBlocks[su] && su != m.header {
				// leaving the loop (to a return block outside): not an iteration
				walkOut := false
				for _, in := range su.Instrs {
					if _, ok := in.(*ssa.Return); ok {
						walkOut = true
					}
				}
				if walkOut || len(su.Succs) == 0 {
					continue
				}
			}
			walk(su, b, st.clone(), entries, arm)
		}
	}
	walk(m.header, nil, init, map[*ssa.BasicBlock]*pathState{}, "outside-select")
	names := []string{"outside-select"}
	for _, a := range m.arms {
		names = append(names, a.name)
	}
	for _, n := range names {
		key := "loop|Δpending = Δready+Δwaiting+Δongoing#" + n
		pos := m.bpos(m.header)
		if a := m.armByName(n); a != nil {
			pos = m.bpos(a.entry)
		}
		switch {
		case len(res.unk[n]) > 0:
			sort.Strings(res.unk[n])
			s.Unk("S25", key, pos, res.unk[n][0])
		case len(res.bad[n]) > 0:
			sort.Strings(res.bad[n])
			s.Bad("S25", key, pos, res.bad[n][0])
		default:
			s.OK("S25", key, pos, fmt.Sprintf("%d path(s), all balanced", res.paths[n]))
		}
	}
	// base case: counters start at 0
	for _, c := range counters {
		init0 := true
		pos := m.bpos(m.header)
		if c.phi != nil {
			pos = m.ipos(c.phi)
			for k, e := range c.phi.Edges {
				if !m.loopBlocks[m.header.Preds[k]] && !ssax.IsConstInt(e, 0) {
					init0 = false
				}
			}
		} else {
			// memory counter: every store before the loop stores 0 (the zero value of a fresh struct counts)
			for _, st := range m.cellStores(c.cell) {
				if st.Parent() == m.fnLoop && !m.loopBlocks[st.Block()] && !ssax.IsConstInt(st.Val, 0) {
					init0 = false
				}
			}
		}
		s.Check(init0, "S25", "loop|counter "+c.name+" starts at 0", pos, "base case of the invariant", "counter is not initialised to 0 before the loop")
	}
	// the list starts empty: list.New() before the loop, no operation before the header
	pre := 0
	for _, op := range m.readyOps(nil) {
		if op.in.Parent() == m.fnLoop && !m.loopBlocks[op.in.Block()] && (isInsert(op.name) || op.name == "Remove") {
			pre++
		}
	}
	s.Check(pre == 0 && !m.loopBlocks[m.readyList.(ssa.Instruction).Block()], "S25", "loop|ready list starts empty", m.ipos(m.readyList.(ssa.Instruction)), "created once before the loop", "the ready list is created inside the loop or modified before it")
}

// returnsListDelta: on every path through fn the single int result equals the number of insertions into the
// ready list minus the removals performed by fn (fn does not call further helpers that touch the list).
func (m *model) returnsListDelta(fn *ssa.Function) bool {
	if fn.Signature.Results().Len() != 1 || !isInt(fn.Signature.Results().At(0).Type()) {
		return false
	}
	type st struct {
		off  map[ssa.Value]int
		list int
	}
	clone := func(a *st) *st {
		b := &st{off: map[ssa.Value]int{}, list: a.list}
		for k, v := range a.off {
			b.off[k] = v
		}
		return b
	}
	okAll, nRet := true, 0
	budget := 5000
	var walk func(b, pred *ssa.BasicBlock, s *st, entries map[*ssa.BasicBlock]*st)
	walk = func(b, pred *ssa.BasicBlock, s *st, entries map[*ssa.BasicBlock]*st) {
		budget--
		if budget < 0 || !okAll {
			okAll = false
			return
		}
		for _, in := range b.Instrs {
			p, ok := in.(*ssa.Phi)
			if !ok {
				break
			}
			if pred == nil {
				continue
			}
			for k, e := range p.Edges {
				if b.Preds[k] != pred {
					continue
				}
				if c, isC := e.(*ssa.Const); isC && c.Value != nil && isInt(p.Type()) {
					s.off[p] = int(c.Int64())
				} else if o, ok := s.off[e]; ok {
					s.off[p] = o
				} else {
					delete(s.off, p)
				}
			}
		}
		if e, ok := entries[b]; ok && pred != nil {
			// one more iteration of an inner loop: every tracked phi must have moved in step with the list
			for _, in := range b.Instrs {
				p, isPhi := in.(*ssa.Phi)
				if !isPhi {
					break
				}
				o, ok1 := s.off[p]
				o0, ok0 := e.off[p]
				if ok1 != ok0 {
					okAll = false
				}
				if ok1 && isInt(p.Type()) && p.Comment != "rangeindex" && o-o0 != s.list-e.list {
					// a phi that is not the result accumulator would fail here; only accumulators that are returned matter,
					// they are checked at the return: record nothing
					_ = o
				}
			}
			// the accumulators are checked at return time using absolute values; loops are cut after one iteration more
			return
		}
		if naturalLoop(b) != nil {
			e2 := map[*ssa.BasicBlock]*st{}
			for k, v := range entries {
				e2[k] = v
			}
			e2[b] = clone(s)
			entries = e2
		}
		for _, in := range b.Instrs {
			switch x := in.(type) {
			case *ssa.BinOp:
				if o, ok := s.off[x.X]; ok && (x.Op == token.ADD || x.Op == token.SUB) {
					if k, isC := x.Y.(*ssa.Const); isC && k.Value != nil {
						n := int(k.Int64())
						if x.Op == token.SUB {
							n = -n
						}
						s.off[x] = o + n
					}
				}
			case *ssa.Call:
				if recv, name, _, ok := listCall(x); ok && m.isReadyList(recv) {
					if isInsert(name) {
						s.list++
					} else if name == "Remove" {
						s.list--
					}
				} else if callee := x.Call.StaticCallee(); callee != nil && callee.Pkg == m.pkg {
					if d, ok := m.plainListDelta(callee); !ok || d != 0 {
						okAll = false
					}
				}
			case *ssa.Return:
				nRet++
				var o int
				var ok bool
				if c, isC := x.Results[0].(*ssa.Const); isC && c.Value != nil {
					o, ok = int(c.Int64()), true
				} else {
					o, ok = s.off[x.Results[0]]
				}
				if !ok || o != s.list {
					okAll = false
				}
				return
			}
		}
		for _, su := range b.Succs {
			walk(su, b, clone(s), entries)
		}
	}
	walk(fn.Blocks[0], nil, &st{off: map[ssa.Value]int{}}, map[*ssa.BasicBlock]*st{})
	// the path walk unrolls every inner loop once (0 and 1 iterations, each branch): together with the
	// accumulator being carried by a phi that is only ever incremented next to an insertion this covers
	// all iteration counts; require that structure explicitly
	if !okAll || nRet == 0 {
		return false
	}
	for _, b := range fn.Blocks {
		for _, in := range b.Instrs {
			if recv, name, _, ok := listCall(in); ok && m.isReadyList(recv) && (isInsert(name) || name == "Remove") {
				// an accumulator update in the same block
				paired := false
				for _, in2 := range b.Instrs {
					if bo, ok := in2.(*ssa.BinOp); ok && (bo.Op == token.ADD || bo.Op == token.SUB) && ssax.IsConstInt(bo.Y, 1) {
						if _, isPhi := bo.X.(*ssa.Phi); isPhi {
							paired = true
						}
					}
				}
				if !paired {
					return false
				}
			}
		}
	}
	return true
}

// plainListDelta: unconditional list effect of a helper (0 when it does not touch the list).
func (m *model) plainListDelta(fn *ssa.Function) (int, bool) {
	if fn.Blocks == nil {
		return 0, true
	}
	total, ok := 0, true
	ssax.Instrs(fn, func(in ssa.Instruction) {
		if recv, name, _, isList := listCall(in); isList && m.isReadyList(recv) {
			if isInsert(name) || name == "Remove" {
				ok = false
			}
		}
	})
	return total, ok
}

// S26 state literal, S28 emit sites.
func (m *model) ruleState(s *report.Sink) {
	m.ruleEmitSites(s)
	if m.cPending == nil {
		s.Unk("S26", "State|counters", m.pos(m.fnLoop.Pos()), m.counterErr)
		return
	}
	if m.emitCall == nil {
		s.Unk("S26", "State|construction", m.pos(m.fnLoop.Pos()), "the loop goroutine does not call Emitter.Emit at exactly one site")
		return
	}
	pos := m.ipos(m.emitCall)
	vals, err := m.stateFields(m.emitCall.Common().Args[0])
	if err != nil {
		s.Unk("S26", "State|construction", pos, err.Error())
		return
	}
	distinct := func(a, b *counter) bool {
		return a != b && (a.phi == nil || a.phi != b.phi) && (a.cell == "" || a.cell != b.cell)
	}
	s.Check(vals["Pending"] != nil && m.counterOf(vals["Pending"]) == m.cPending, "S26", "State.Pending <- pending", pos, "", "Pending is not the pending counter")
	s.Check(vals["Waiting"] != nil && m.counterOf(vals["Waiting"]) == m.cWaiting && distinct(m.cWaiting, m.cPending) && distinct(m.cWaiting, m.cOngoing) && distinct(m.cPending, m.cOngoing), "S26", "State.Waiting <- waiting", pos, "", "Waiting is not a counter distinct from pending/ongoing")
	rl := false
	if c, ok := m.resolve(vals["Ready"]).(*ssa.Call); ok {
		if recv, name, _, ok := listCall(c); ok && name == "Len" && m.isReadyList(recv) {
			rl = true
		}
	}
	s.Check(rl, "S26", "State.Ready <- ready.Len()", pos, "", "Ready is not the length of the ready list")
	s.Check(vals["Concurrency"] != nil && m.isConcField(vals["Concurrency"]), "S26", "State.Concurrency <- s.concurrency", pos, "", "Concurrency is not the scheduler's concurrency field")
	s.Check(m.isIdle(vals["IdleWorkers"], 0), "S26", "State.IdleWorkers <- s.concurrency - ongoing", pos, "directly or via a helper returning p0 - p1 (clamped at 0)", "IdleWorkers is not concurrency minus the number of executing jobs")

}

// S28 emit sites.
func (m *model) ruleEmitSites(s *report.Sink) {
	// S28
	n := 0
	for _, p := range m.repo.SSA {
		for _, fn := range sourceFuncs(p) {
			ssax.Instrs(fn, func(in ssa.Instruction) {
				c, ok := in.(ssa.CallInstruction)
				if !ok || !c.Common().IsInvoke() || c.Common().Method.Name() != "Emit" || !types.Identical(c.Common().Value.Type(), m.EmitterIface) {
					return
				}
				n++
				root := m.rootSite(in)
				_, isCall := in.(*ssa.Call)
				_, rootCall := root.(*ssa.Call)
				good := isCall && rootCall && root.Parent() == m.fnLoop && m.loopBlocks[root.Block()]
				s.Check(good, "S28", "Emit call site", m.ipos(in), "state is reported only from inside the loop body (never after the loop returned)", "scheduler.Emitter.Emit is called outside the loop body (or asynchronously): reports can be inconsistent or arrive after Wait returned")
			})
		}
	}
	if n == 0 {
		s.Unk("S28", "Emit call site", "", "no call of scheduler.Emitter.Emit found")
	}
}

func (m *model) isConcField(v ssa.Value) bool {
	v = m.resolve(v)
	if m.isField(v, m.fConc) {
		return true
	}
	// a field of the State under construction that itself holds s.concurrency (st.Concurrency)
	if base, f, ok := m.fieldLoad(v); ok && fieldOfStruct(m.State, f) && f.Name() == "Concurrency" {
		if a, ok := base.(*ssa.Alloc); ok {
			for _, fs := range m.structFieldStores(a, f, 0) {
				if fs.val != nil && m.isField(m.resolve(fs.val), m.fConc) {
					return true
				}
			}
		}
	}
	return false
}

// isIdle: v == concurrency - ongoing, optionally clamped at zero, directly or through a helper.
func (m *model) isIdle(v ssa.Value, depth int) bool {
	if v == nil || depth > 4 {
		return false
	}
	v = m.resolve(v)
	switch x := v.(type) {
	case *ssa.BinOp:
		return x.Op == token.SUB && m.isConcField(x.X) && m.counterOf(x.Y) == m.cOngoing && m.cOngoing != nil
	case *ssa.Phi:
		// clamp: phi[diff, 0] where the 0 edge is taken under diff < 0
		nDiff := 0
		for k, e := range x.Edges {
			switch {
			case m.isIdle(e, depth+1):
				nDiff++
			case ssax.IsConstInt(e, 0):
				pred := x.Block().Preds[k]
				as := m.localAtoms(pred)
				if i := ssax.IfOf(pred); i != nil {
					for j, su := range pred.Succs {
						if su == x.Block() && pred.Succs[0] != pred.Succs[1] {
							as = append(as, m.mkAtom(i.Cond, j == 0))
						}
					}
				}
				neg := find(as, func(a atom) bool {
					return atMost(a, func(y ssa.Value) bool { return m.isIdle(y, depth+1) }, func(y ssa.Value) bool { return ssax.IsConstInt(y, 0) })
				})
				if neg == nil {
					return false
				}
			default:
				return false
			}
		}
		return nDiff > 0
	case *ssa.Call:
		callee := x.Call.StaticCallee()
		if callee == nil || callee.Pkg != m.pkg || callee.Blocks == nil {
			if cc, ok := isBuiltinCall(x, "max"); ok && len(cc.Args) == 2 {
				return m.isIdle(cc.Args[0], depth+1) && ssax.IsConstInt(cc.Args[1], 0) || m.isIdle(cc.Args[1], depth+1) && ssax.IsConstInt(cc.Args[0], 0)
			}
			return false
		}
		// helper(a, b) returning a - b (clamped): evaluate its return values with parameters bound to the arguments
		bind := map[*ssa.Parameter]ssa.Value{}
		for k, p := range callee.Params {
			if k < len(x.Call.Args) {
				bind[p] = x.Call.Args[k]
			}
		}
		good := true
		nret, ndiff := 0, 0
		ssax.Instrs(callee, func(in ssa.Instruction) {
			r, ok := in.(*ssa.Return)
			if !ok || r.Block() == callee.Recover {
				return
			}
			nret++
			if len(r.Results) != 1 {
				good = false
				return
			}
			switch {
			case m.isIdleIn(r.Results[0], bind, 0):
				ndiff++
			case ssax.IsConstInt(r.Results[0], 0):
				// clamp written as an early return: only under (a - b) < 0
				neg := find(m.localAtoms(r.Block()), func(a atom) bool {
					return atMost(a, func(y ssa.Value) bool { return m.isIdleIn(y, bind, 0) }, func(y ssa.Value) bool { return ssax.IsConstInt(y, 0) })
				})
				if neg == nil {
					good = false
				}
			default:
				good = false
			}
		})
		return good && ndiff > 0
	}
	return false
}

// isIdleIn: like isIdle but inside a helper whose parameters are bound to caller values.
func (m *model) isIdleIn(v ssa.Value, bind map[*ssa.Parameter]ssa.Value, depth int) bool {
	if depth > 4 {
		return false
	}
	sub := func(y ssa.Value) ssa.Value {
		y = ssax.Unspill(y)
		if p, ok := y.(*ssa.Parameter); ok {
			if b, ok := bind[p]; ok {
				return b
			}
		}
		return y
	}
	v = ssax.Unspill(v)
	switch x := v.(type) {
	case *ssa.BinOp:
		return x.Op == token.SUB && m.isConcField(sub(x.X)) && m.counterOf(sub(x.Y)) == m.cOngoing && m.cOngoing != nil
	case *ssa.Phi:
		nDiff := 0
		for k, e := range x.Edges {
			switch {
			case m.isIdleIn(e, bind, depth+1):
				nDiff++
			case ssax.IsConstInt(e, 0):
				pred := x.Block().Preds[k]
				as := m.localAtoms(pred)
				if i := ssax.IfOf(pred); i != nil {
					for j, su := range pred.Succs {
						if su == x.Block() && pred.Succs[0] != pred.Succs[1] {
							as = append(as, m.mkAtom(i.Cond, j == 0))
						}
					}
				}
				if find(as, func(a atom) bool {
					return atMost(a, func(y ssa.Value) bool { return m.isIdleIn(y, bind, depth+1) }, func(y ssa.Value) bool { return ssax.IsConstInt(y, 0) })
				}) == nil {
					return false
				}
			default:
				return false
			}
		}
		return nDiff > 0
	case *ssa.Call:
		if cc, ok := isBuiltinCall(x, "max"); ok && len(cc.Args) == 2 {
			return m.isIdleIn(cc.Args[0], bind, depth+1) && ssax.IsConstInt(cc.Args[1], 0) || m.isIdleIn(cc.Args[1], bind, depth+1) && ssax.IsConstInt(cc.Args[0], 0)
		}
	}
	return false
}
