package sched

import (
	"fmt"
	"go/token"
	"go/types"
	"os"
	"strings"

	"cffverif/internal/load"
	"cffverif/internal/report"
	"cffverif/internal/ssax"

	"golang.org/x/tools/go/ssa"
)

func sourceFuncs(p *ssa.Package) []*ssa.Function { return load.SourceFuncs(p) }

// isJobCtxErr: v is <job>.ctx.Err() for the job with key jobKey.
func (m *model) isJobCtxErr(v ssa.Value, jobKey string) bool {
	c, ok := v.(*ssa.Call)
	if !ok || !c.Call.IsInvoke() || c.Call.Method.Name() != "Err" || len(c.Call.Args) != 0 {
		return false
	}
	return m.isFieldOf(c.Call.Value, jobKey, m.sjCtx)
}

// workerBody: the first block of an iteration of the worker's receive loop.
func (m *model) workerBody() *ssa.BasicBlock {
	i := ssax.IfOf(m.wRecv.Block())
	if i == nil || i.Cond != m.wOK {
		return nil
	}
	return m.wRecv.Block().Succs[0]
}

// inAnyLoopOf: in (inside a helper) lies in a loop of its own function, when it is not the root itself.
func inAnyLoopOf(in, root ssa.Instruction) bool {
	return in != root && inAnyLoop(in.Block())
}

func (m *model) inWorkerIter(b *ssa.BasicBlock) bool {
	body := m.workerBody()
	return body != nil && body.Dominates(b)
}

// S11 one job at a time, S13 gates before run, S14 result integrity, S15 death path, S24 sentinel.
func (m *model) ruleWorker(s *report.Sink) {
	fn := m.fnWorker
	jobKey := m.key(m.wJob)
	body := m.workerBody()
	if body == nil {
		s.Unk("S11", "worker|receive loop", m.ipos(m.wRecv), "the worker's receive is not followed by the closed test")
		return
	}
	// S11: call sites of ScheduledJob.run
	type runCall struct {
		in ssa.Instruction
		cc *ssa.CallCommon
	}
	var runCalls []runCall
	for _, f := range m.funcs {
		ssax.Instrs(f, func(in ssa.Instruction) {
			c, ok := in.(ssa.CallInstruction)
			if !ok {
				return
			}
			if m.isField(c.Common().Value, m.sjRun) {
				runCalls = append(runCalls, runCall{in, c.Common()})
			}
		})
		// run stored/loaded elsewhere (escape) is covered by S1 accesses; here only calls
	}
	if len(runCalls) != 1 {
		s.Bad("S11", "worker|single call of job.run", m.pos(fn.Pos()), fmt.Sprintf("%d call sites of ScheduledJob.run (want exactly 1, in the worker)", len(runCalls)))
		m.ruleSentinel(s, nil)
		m.ruleDeathPath(s, nil, nil)
		return
	}
	rc := runCalls[0]
	_, isPlain := rc.in.(*ssa.Call)
	rcRoot := m.rootSite(rc.in)
	_, rootPlain := rcRoot.(*ssa.Call)
	good := isPlain && rootPlain && rcRoot.Parent() == fn && m.inWorkerIter(rcRoot.Block()) && m.isFieldOf(rc.cc.Value, jobKey, m.sjRun) && !inAnyLoopOf(rc.in, rcRoot)
	if good {
		// not inside a nested loop of the iteration (once per received job)
		for _, su := range rcRoot.Block().Succs {
			if su != m.wLoopHdr && ssax.ReachableAvoiding(su, rcRoot.Block(), map[*ssa.BasicBlock]bool{m.wLoopHdr: true}) {
				good = false
			}
		}
	}
	s.Check(good, "S11", "worker|job.run called synchronously once per received job", m.ipos(rc.in), "plain call inside the receive loop over the ready channel", "job.run is not a plain synchronous call on the received job inside the worker's receive loop (go/defer/nested closure/other function/inner loop)")

	// S13
	conds := m.atomsSince(rc.in, body)
	ctxOK := find(conds, func(a atom) bool {
		ok, pol := eqNil(a, func(v ssa.Value) bool { return m.isJobCtxErr(v, jobKey) })
		return ok && pol
	})
	s.Check(ctxOK != nil, "S13", "worker|run dominated by ctx.Err() == nil", m.ipos(rc.in), "a job whose context is already done is not started", "job.run is reachable without a dominating `j.ctx.Err() == nil` test: tasks start after cancellation")
	inv := find(conds, func(a atom) bool {
		ok, val := boolIs(a, func(v ssa.Value) bool { return m.isFieldOf(v, jobKey, m.sjInvalid) })
		return ok && !val
	})
	s.Check(inv != nil, "S13", "worker|run dominated by !invalid", m.ipos(rc.in), "an invalidated job is not started", "job.run is reachable for an invalidated job: tasks downstream of a failure run under ContinueOnError")
	s.Check(len(rc.cc.Args) == 1 && m.isFieldOf(rc.cc.Args[0], jobKey, m.sjCtx), "S13", "worker|run receives the job's own ctx", m.ipos(rc.in), "run(j.ctx)", "job.run is not called with the context given to Enqueue")
	// the ctx gate must not have been narrowed: the only condition on running is (ctx.Err()==nil && !invalid)
	iterReg := func(b *ssa.BasicBlock) bool {
		if b.Parent() != fn {
			return true // inside a helper: its whole body belongs to the iteration
		}
		return body.Dominates(b) && b != m.wLoopHdr
	}
	exact := ctxOK == nil || inv == nil || (len(conds) == 2 && (m.alwaysFrom(inv, rc.in, iterReg) || m.alwaysFrom(ctxOK, rc.in, iterReg)))
	s.Check(exact, "S13", "worker|no further condition on running a job", m.ipos(rc.in), "a valid job with a live context always runs", "job.run is subject to a further condition ("+atomStrings(conds)+"): some runnable jobs are reported finished without having run")

	// S14: sends on the result channel in the worker proper
	var sends []*ssa.Send
	ssax.Instrs(fn, func(in ssa.Instruction) {
		if sd, ok := in.(*ssa.Send); ok && ssax.Unspill(sd.Chan) == ssa.Value(m.wDoneP) {
			sends = append(sends, sd)
		}
	})
	iterRegion := func(b *ssa.BasicBlock) bool { return body.Dominates(b) && b != m.wLoopHdr }
	if len(sends) != 1 || !m.inWorkerIter(sends[0].Block()) || !m.mustPass(body, iterRegion, sends[0]) || reachFrom(sends[0].Block(), rcRoot.Block()) && ssax.ReachableAvoiding(sends[0].Block().Succs[0], rcRoot.Block(), map[*ssa.BasicBlock]bool{m.wLoopHdr: true}) {
		s.Bad("S14", "worker|one unconditional result per received job", m.ipos(m.wRecv), "the worker loop does not post exactly one result, unconditionally, after the job ran, on its result channel (lost or duplicated results break termination and exactly-once accounting)")
		m.ruleSentinel(s, nil)
		m.ruleDeathPath(s, rcRoot, nil)
		return
	}
	send := sends[0]
	s.OK("S14", "worker|one unconditional result per received job", m.ipos(send), "single send at the end of each iteration")
	// after the send the worker goes back for more work: nothing but the loop header follows
	back := true
	for _, su := range send.Block().Succs {
		if su != m.wLoopHdr {
			back = false
		}
	}
	for i := ssax.InstrIndex(send) + 1; i < len(send.Block().Instrs); i++ {
		switch send.Block().Instrs[i].(type) {
		case *ssa.Jump:
		default:
			back = false
		}
	}
	s.Check(back, "S14", "worker|returns to the ready channel after posting", m.ipos(send), "the worker stays available until the ready channel is closed", "after posting a result the worker does not simply go back to receive the next job (it exits or does more work): capacity is lost")
	// the sent value
	var cell ssa.Value
	if u, ok := send.X.(*ssa.UnOp); ok && u.Op == token.MUL {
		cell = u.X
	}
	if cell == nil {
		s.Unk("S14", "worker|result value", m.ipos(send), "sent value is not a local struct variable")
		m.ruleSentinel(s, nil)
		m.ruleDeathPath(s, rcRoot, send)
		return
	}
	jobStores := m.structFieldStores(cell, m.jrJob, 0)
	declOK := len(jobStores) > 0
	for _, st := range jobStores {
		if st.val == nil || m.key(st.val) != jobKey {
			declOK = false
		}
	}
	s.Check(declOK, "S14", "worker|result.Job is the received job", m.ipos(send), "Job: j", "the posted result's Job is not (only) the job that was received")
	var sentinel *ssa.Global
	errStores := m.structFieldStores(cell, m.jrErr, 0)
	type cat struct {
		at   ssa.Instruction
		kind string
	}
	var cats []cat
	for _, st := range errStores {
		if st.val == nil {
			continue // zero: Err not set by this whole-struct initialisation
		}
		base := m.atomsSince(st.at, body)
		for _, lf := range m.expandPhi(st.val, st.at.Block(), 0) {
			ac := append(append([]atom(nil), base...), lf.atoms...)
			at := st.at
			switch {
			case lf.val == rc.in.(ssa.Value):
				// between the call and the assignment nothing but "the returned error is not nil" may decide
				extra := 0
				atCall := map[string]bool{}
				for _, a := range userAtoms(m.atomsOf(rcRoot)) {
					atCall[a.String()] = true
				}
				for _, a := range userAtoms(m.atomsOf(rc.in)) {
					atCall[a.String()] = true // inside a helper: what decides that the job is run at all
				}
				for _, a := range append(userAtoms(m.atomsOf(at)), lf.atoms...) {
					if atCall[a.String()] {
						continue
					}
					if ok, pol := eqNil(a, func(v ssa.Value) bool { return v == rc.in.(ssa.Value) }); ok && !pol {
						continue
					}
					extra++
					if os.Getenv("CFFVERIF_DEBUG") != "" {
						fmt.Fprintln(os.Stderr, "S14 extra atom:", a.String())
					}
				}
				s.Check(extra == 0, "S14", "worker|Err = value returned by run", m.ipos(at), "the job's own error, unwrapped", "the value returned by run is posted only under a further condition: a failed job can count as succeeded")
				if extra == 0 {
					cats = append(cats, cat{at, "run"})
				}
			case m.isJobCtxErr(lf.val, jobKey):
				nn := find(ac, func(a atom) bool {
					ok, pol := eqNil(a, func(v ssa.Value) bool { return m.isJobCtxErr(v, jobKey) })
					return ok && !pol
				})
				s.Check(nn != nil, "S14", "worker|Err = ctx error", m.ipos(at), "context error for a job not started", "the context error is assigned on a path where it was not found non-nil")
				cats = append(cats, cat{at, "ctx"})
			case m.isSentinelLoad(lf.val):
				sentinel = lf.val.(*ssa.UnOp).X.(*ssa.Global)
				c := find(ac, func(a atom) bool {
					ok, val := boolIs(a, func(v ssa.Value) bool { return m.isFieldOf(v, jobKey, m.sjInvalid) })
					return ok && val
				})
				s.Check(c != nil, "S14", "worker|Err = sentinel only for invalid jobs", m.ipos(at), "sentinel marks exactly the invalidated jobs", "sentinel error assigned on a path not guarded by j.invalid")
				cats = append(cats, cat{at, "sentinel"})
			case ssax.IsNilConst(lf.val):
				cats = append(cats, cat{at, "nil"})
			default:
				s.Bad("S14", "worker|Err = something else", m.ipos(at), "result error is neither the ctx error, the sentinel, nor the value returned by run (wrapping or replacing the user's error breaks errors.Is)")
			}
		}
	}
	// every path of an iteration that does not run the job sets a non-nil Err
	{
		avoid := map[*ssa.BasicBlock]bool{m.wLoopHdr: true}
		ranStored := false
		for _, c := range cats {
			ranStored = ranStored || c.kind == "run"
		}
		if !ranStored {
			s.Bad("S14", "worker|Err = value returned by run#posted", m.ipos(rcRoot), "the value returned by the job's run function is not posted as the result's error: a failed job counts as succeeded")
		} else {
			// the path through the call is accounted for by that assignment (it may be skipped only for a nil error)
			avoid[rcRoot.Block()] = true
		}
		for _, c := range cats {
			if c.kind == "ctx" || c.kind == "sentinel" || c.kind == "run" {
				avoid[c.at.Block()] = true
			}
		}
		silent := ssax.ReachableAvoiding(body, send.Block(), avoid) && !avoid[body]
		s.Check(!silent, "S14", "worker|every skipped job reports why", m.ipos(send), "a job that is not run posts the ctx error or the sentinel", "some path posts a result with a nil error without having run the job: the job counts as succeeded")
	}
	m.ruleSentinel(s, sentinel)
	m.ruleDeathPath(s, rcRoot, send)
}

// S24 sentinel confinement.
func (m *model) ruleSentinel(s *report.Sink, sentinel *ssa.Global) {
	fn := m.fnWorker
	if sentinel == nil {
		// not identified through the result: any package-level error variable the worker loads
		for _, f := range ssax.WithAnon(fn) {
			ssax.Instrs(f, func(in ssa.Instruction) {
				if u, ok := in.(*ssa.UnOp); ok && m.isSentinelLoad(u) && sentinel == nil {
					sentinel = u.X.(*ssa.Global)
				}
			})
		}
	}
	if sentinel == nil {
		s.Unk("S24", "sentinel|identification", m.pos(fn.Pos()), "no package-level sentinel error assigned for invalid jobs")
	} else {
		s.Check(!sentinel.Object().Exported(), "S24", "sentinel|unexported", "", "the sentinel cannot be produced or observed by users", "sentinel is exported")
		for _, p := range m.repo.SSA {
			for _, f := range sourceFuncs(p) {
				ssax.Instrs(f, func(in ssa.Instruction) {
					var ops []*ssa.Value
					uses := false
					for _, op := range in.Operands(ops) {
						if op != nil && *op == ssa.Value(sentinel) {
							uses = true
						}
					}
					if !uses {
						return
					}
					good, why := false, ""
					switch x := in.(type) {
					case *ssa.UnOp:
						// the load: follow to its uses
						good = true
						for _, r := range *x.Referrers() {
							switch y := r.(type) {
							case *ssa.Store:
								_, f2, ok := ssax.FieldAddrOf(y.Addr)
								if !(ok && f2 == m.jrErr && top(f) == m.fnWorker) {
									good = false
								}
								why = "worker assigns it to the result"
							case *ssa.Call:
								if !(calleeName(&y.Call) == "errors.Is" && len(y.Call.Args) == 2 && y.Call.Args[1] == ssa.Value(x) && m.inLoopGoroutine(f)) {
									good = false
								}
								why = "loop filters it with errors.Is"
							case *ssa.BinOp:
								// comparison err == sentinel inside the loop goroutine
								if !(m.inLoopGoroutine(f) && (y.Op == token.EQL || y.Op == token.NEQ)) {
									good = false
								}
								why = "loop compares against it"
							case *ssa.Return:
								// returned by a single-site helper of the worker (its result becomes the posted error)
								if m.rootSite(y).Parent() != m.fnWorker || m.rootSite(y) == ssa.Instruction(y) {
									good = false
								}
								why = "worker's helper returns it as the result error"
							case *ssa.Phi:
								if m.rootSite(y).Parent() != m.fnWorker {
									good = false
								}
								why = "merged into the result error"
							case *ssa.DebugRef:
							default:
								good = false
							}
						}
					case *ssa.Store:
						good = f.Name() == "init" && x.Addr == ssa.Value(sentinel)
						why = "package initialisation"
					}
					s.Check(good, "S24", "sentinel|use in "+fnName(f), m.ipos(in), why, "sentinel used outside the worker assignment / the loop's filter: it can leak into the returned error")
				})
			}
		}
	}

}

// S15 death path.
func (m *model) ruleDeathPath(s *report.Sink, runCall ssa.Instruction, send *ssa.Send) {
	fn := m.fnWorker
	jobKey := m.key(m.wJob)
	dfn := m.fnWorkerDefer
	if dfn == nil {
		s.Bad("S15", "worker|death path", m.pos(fn.Pos()), "worker has no deferred function: a job that kills its goroutine (runtime.Goexit) loses its result and a worker")
		return
	}
	var deferIn *ssa.Defer
	ssax.Instrs(fn, func(in ssa.Instruction) {
		if d, ok := in.(*ssa.Defer); ok && deferIn == nil {
			deferIn = d
		}
	})
	first := deferIn != nil && deferIn.Block().Dominates(m.wLoopHdr) && deferIn.Block() != m.wLoopHdr && !inAnyLoop(deferIn.Block()) && len(userAtoms(m.localAtoms(deferIn.Block()))) == 0
	s.Check(first, "S15", "worker|death handler registered first", m.ipos(deferIn), "deferred before the receive loop", "death handler is not registered unconditionally before the receive loop")
	var dsend *ssa.Send
	var dgo *ssa.Go
	for _, f := range ssax.WithAnon(dfn) {
		ssax.Instrs(f, func(in ssa.Instruction) {
			switch x := in.(type) {
			case *ssa.Send:
				dsend = x
			case *ssa.Go:
				dgo = x
			}
		})
	}
	if dsend == nil || dgo == nil || dsend.Parent() != dfn || dgo.Parent() != dfn {
		s.Bad("S15", "worker|death path posts and respawns", m.pos(dfn.Pos()), "death handler lacks the result post or the replacement worker")
		return
	}
	// the exitCleanly cell: bool cell of the worker read by the handler's guard
	sconds := userAtoms(m.localAtoms(dsend.Block()))
	gconds := userAtoms(m.localAtoms(dgo.Block()))
	// a cell of the worker: a local variable (or a field of a local struct) of the worker function,
	// also when reached through a captured variable or through the receiver/parameter of the handler
	workerCell := func(addr ssa.Value) bool {
		k := m.key(addr)
		return strings.Contains(k, "alloc:") && strings.Contains(k, "@"+fn.String())
	}
	var exitCell ssa.Value
	for _, c := range sconds {
		if c.op == "bool" && !c.pol {
			if u, ok := c.av.(*ssa.UnOp); ok && u.Op == token.MUL && workerCell(u.X) && isBool(ssax.Deref(u.X.Type())) {
				exitCell = u.X
			}
		}
	}
	goodGuard := exitCell != nil && len(sconds) == 1 && len(gconds) == 1 && atomStrings(sconds) == atomStrings(gconds) && ssax.Before(dsend, dgo) &&
		m.key(dsend.Chan) == m.key(m.wDoneP) && !inAnyLoop(dsend.Block()) && !inAnyLoop(dgo.Block())
	s.Check(goodGuard, "S15", "worker|death path guarded by !exitCleanly only", m.ipos(dsend), "on abnormal exit: post a result, then start a replacement", "death path is not `if exitCleanly { return }; donec <- ...; go worker(...)` (extra condition, wrong channel, loop, or respawn before the post)")
	// replacement worker on the same channels
	goodGo := dgo.Call.StaticCallee() == fn && len(dgo.Call.Args) == 2 && m.key(dgo.Call.Args[0]) == m.key(m.wReadyP) && m.key(dgo.Call.Args[1]) == m.key(m.wDoneP)
	s.Check(goodGo, "S15", "worker|replacement on the same channels", m.ipos(dgo), "go worker(readyc, donec)", "the replacement goroutine is not the worker function on the same two channels")
	// posted value
	var curCell ssa.Value
	okJob, okErr := false, false
	if u, ok := dsend.X.(*ssa.UnOp); ok && u.Op == token.MUL {
		for _, st := range m.structFieldStores(u.X, m.jrJob, 0) {
			if st.val == nil {
				continue
			}
			if l, ok := st.val.(*ssa.UnOp); ok && l.Op == token.MUL && workerCell(l.X) {
				curCell = l.X
				okJob = true
			}
		}
		for _, st := range m.structFieldStores(u.X, m.jrErr, 0) {
			if c, ok := st.val.(*ssa.Call); ok {
				if n := calleeName(&c.Call); n == "errors.New" || n == "fmt.Errorf" {
					okErr = true
				}
			}
		}
	}
	s.Check(okJob && okErr, "S15", "worker|death result = {current job, non-nil error}", m.ipos(dsend), "the job that killed the goroutine is reported as failed", "death-path result lacks the current job or a non-nil error (a Goexit'd task would count as success or never finish)")
	// exitCleanly: only set true, only after the receive loop ended (channel closed)
	if exitCell != nil {
		n, good := 0, true
		for _, f := range ssax.WithAnon(fn) {
			ssax.Instrs(f, func(in ssa.Instruction) {
				st, ok := in.(*ssa.Store)
				if !ok || m.key(st.Addr) != m.key(exitCell) {
					return
				}
				n++
				closed := find(m.localAtoms(st.Block()), func(a atom) bool {
					ok, val := boolIs(a, func(v ssa.Value) bool { return v == m.wOK })
					return ok && !val
				})
				if f != fn || !ssax.IsConstBool(st.Val, true) || closed == nil || inAnyLoop(st.Block()) {
					good = false
				}
			})
		}
		s.Check(good && n >= 1, "S15", "worker|exitCleanly set only after the receive loop ended", m.pos(fn.Pos()), "set true after the ready channel was closed", "exitCleanly can be true while a job is running: a Goexit would be treated as clean exit (lost worker, lost result)")
	}
	if curCell != nil && (runCall == nil || send == nil) {
		s.Unk("S15", "worker|currentJob tracks the running job", m.pos(fn.Pos()), "the run call / normal result post were not identified")
	}
	if curCell != nil && runCall != nil && send != nil {
		var setJ, setNil []ssa.Instruction
		bad := false
		for _, f := range ssax.WithAnon(fn) {
			ssax.Instrs(f, func(in ssa.Instruction) {
				st, ok := in.(*ssa.Store)
				if !ok || m.key(st.Addr) != m.key(curCell) {
					return
				}
				switch {
				case f == fn && m.key(st.Val) == jobKey:
					setJ = append(setJ, st)
				case f == fn && ssax.IsNilConst(st.Val):
					setNil = append(setNil, st)
				default:
					bad = true
				}
			})
		}
		good := !bad && len(setJ) > 0 && len(setNil) > 0
		if good {
			// set to j before run on every path ...
			dom := false
			for _, x := range setJ {
				if ssax.Before(x, runCall) {
					dom = true
					for _, y := range setNil {
						if between(x, y, runCall) {
							dom = false
						}
					}
				}
			}
			// ... and cleared between run and the normal post on every path: the post is not reachable from the
			// run call without executing one of the clearing stores
			cleared := !reachAvoiding(runCall, send, setNil)
			good = dom && cleared
		}
		s.Check(good, "S15", "worker|currentJob tracks the running job", m.ipos(runCall), "currentJob = j before run, nil after run and before the normal post", "currentJob is not (only) set to the received job before run and cleared between run and the normal result post: the death path would report the wrong job or one job twice")
	}
}

var _ = types.Identical

// reachAvoiding: `to` can be reached from just after `from` without executing any instruction of `avoid`.
func reachAvoiding(from, to ssa.Instruction, avoid []ssa.Instruction) bool {
	type pos struct {
		b *ssa.BasicBlock
		k int
	}
	av := map[ssa.Instruction]bool{}
	for _, a := range avoid {
		av[a] = true
	}
	succs := func(p pos) []pos {
		if p.k+1 < len(p.b.Instrs) {
			return []pos{{p.b, p.k + 1}}
		}
		var out []pos
		for _, sb := range p.b.Succs {
			if len(sb.Instrs) > 0 {
				out = append(out, pos{sb, 0})
			}
		}
		return out
	}
	seen := map[pos]bool{}
	stack := succs(pos{from.Block(), ssax.InstrIndex(from)})
	for len(stack) > 0 {
		p := stack[len(stack)-1]
		stack = stack[:len(stack)-1]
		if seen[p] {
			continue
		}
		seen[p] = true
		in := p.b.Instrs[p.k]
		if in == to {
			return true
		}
		if av[in] {
			continue
		}
		stack = append(stack, succs(p)...)
	}
	return false
}
