package sched

import (
	"fmt"
	"go/ast"
	"go/token"
	"go/types"

	"cffverif/internal/astx"
	"cffverif/internal/report"
)

// isLvalue reports whether e is written through (assignment lhs, ++/--, or address taken).
func isLvalue(par astx.Parents, e ast.Expr) bool {
	var n ast.Node = e
	for {
		p := par[n]
		if pe, ok := p.(*ast.ParenExpr); ok {
			n = pe
			continue
		}
		switch s := p.(type) {
		case *ast.AssignStmt:
			for _, l := range s.Lhs {
				if l == n {
					return true
				}
			}
		case *ast.IncDecStmt:
			return s.X == n
		case *ast.UnaryExpr:
			return s.Op == token.AND
		case *ast.RangeStmt:
			return s.Key == n || s.Value == n
		}
		return false
	}
}

// S1, S2, S3: ownership.
func (r *roles) ruleOwnership(s *report.Sink) {
	loopOwned := map[*types.Var]string{r.sjRemaining: "remaining", r.sjConsumers: "consumers", r.sjDone: "done", r.sjErr: "err", r.sjInvalid: "invalid"}
	initF := map[*types.Var]bool{r.sjCtx: true, r.sjRun: true, r.sjDeps: true}
	// unknown ScheduledJob fields are treated as loop-owned (fail closed)
	st := structOf(r.SJ)
	for i := 0; i < st.NumFields(); i++ {
		f := st.Field(i)
		if _, ok := loopOwned[f]; !ok && !initF[f] {
			loopOwned[f] = f.Name()
		}
	}
	workerStores := 0
	for _, p := range r.repo.Pkgs {
		info := p.TypesInfo
		for _, file := range p.Syntax {
			par := astx.NewParents(file)
			ast.Inspect(file, func(n ast.Node) bool {
				switch e := n.(type) {
				case *ast.StarExpr:
					if tv, ok := info.Types[e]; ok && tv.IsValue() && types.Identical(tv.Type, r.SJ) {
						fd, fn := r.enclosingDecl(par, info, e)
						name := "?"
						if fd != nil {
							name = fd.Name.Name
						}
						s.Check(fn != nil && r.loopOnly[fn], "S1", fmt.Sprintf("%s|copy of whole ScheduledJob|%s", name, astx.Short(e)), r.repo.Rel(e.Pos()),
							"struct copy inside the loop goroutine", "a whole ScheduledJob is copied (reads loop-owned fields) outside the scheduler loop")
					}
				case *ast.SelectorExpr:
					_, f, ok := astx.FieldSel(info, e)
					if !ok {
						return true
					}
					fd, fn := r.enclosingDecl(par, info, e)
					name := "package-level"
					if fd != nil {
						name = fd.Name.Name
					}
					write := isLvalue(par, e)
					if lname, ok := loopOwned[f]; ok {
						acc := "read"
						if write {
							acc = "write"
						}
						key := fmt.Sprintf("%s|%s of ScheduledJob.%s", name, acc, lname)
						switch {
						case fn != nil && r.loopOnly[fn]:
							s.OK("S1", key, r.repo.Rel(e.Pos()), "inside the scheduler loop goroutine")
						case fd == r.Worker && f == r.sjInvalid && !write && astx.IdentObj(info, e.X) == r.workerJob:
							s.OK("S1", key, r.repo.Rel(e.Pos()), "worker's read of invalid on the job it just received from the ready channel (ordered after the loop's writes by that send)")
						default:
							s.Bad("S1", key, r.repo.Rel(e.Pos()), fmt.Sprintf("loop-owned field ScheduledJob.%s accessed (%s) in %s, outside the scheduler loop goroutine", lname, acc, name))
						}
						if fd == r.Worker && write {
							workerStores++
						}
					} else if initF[f] && write {
						s.Bad("S1", fmt.Sprintf("%s|write of init field ScheduledJob.%s", name, f.Name()), r.repo.Rel(e.Pos()), "init field (ctx/run/deps) written after construction")
						if fd == r.Worker {
							workerStores++
						}
					} else if initF[f] {
						s.OK("S1", fmt.Sprintf("%s|read of init field ScheduledJob.%s", name, f.Name()), r.repo.Rel(e.Pos()), "read-only after the Enqueue send")
					}
					if f == r.fErr {
						key := fmt.Sprintf("%s|%s of Scheduler.err", name, map[bool]string{true: "write", false: "read"}[write])
						switch {
						case fn != nil && r.loopOnly[fn]:
							s.OK("S3", key, r.repo.Rel(e.Pos()), "inside the loop goroutine")
						case fd == r.Wait && !write && r.inFinClause(par, info, e):
							s.OK("S3", key, r.repo.Rel(e.Pos()), "read in Wait after receiving from the finish channel (closed by the loop on exit)")
						default:
							s.Bad("S3", key, r.repo.Rel(e.Pos()), "Scheduler.err accessed outside the loop and not after the finish-channel receive in Wait")
						}
					}
				case *ast.CompositeLit:
					if tv, ok := info.Types[e]; ok && types.Identical(tv.Type, r.SJ) {
						fd, _ := r.enclosingDecl(par, info, e)
						for _, el := range e.Elts {
							kv, ok := el.(*ast.KeyValueExpr)
							if !ok {
								s.Unk("S1", "unkeyed ScheduledJob literal", r.repo.Rel(e.Pos()), "cannot attribute fields")
								continue
							}
							k, _ := info.Uses[kv.Key.(*ast.Ident)].(*types.Var)
							if _, lo := loopOwned[k]; lo {
								s.Bad("S1", fmt.Sprintf("%s|literal sets loop-owned ScheduledJob.%s", fd.Name.Name, k.Name()), r.repo.Rel(kv.Pos()), "loop-owned field initialised outside the loop")
							}
						}
					}
				}
				return true
			})
		}
	}
	s.Check(workerStores == 0, "S2", "worker|stores through *ScheduledJob", r.pos(r.Worker), "worker (incl. its deferred closure) writes no ScheduledJob field", fmt.Sprintf("worker writes %d ScheduledJob field(s)", workerStores))
}

// inFinClause: e lies in the comm clause of Wait's select that receives from s.<FIN>.
func (r *roles) inFinClause(par astx.Parents, info *types.Info, e ast.Node) bool {
	cc, _ := par.Enclosing(e, func(n ast.Node) bool { _, ok := n.(*ast.CommClause); return ok }).(*ast.CommClause)
	if cc == nil {
		return false
	}
	ch, _ := recvOf(cc)
	if ch == nil {
		return false
	}
	_, f, ok := astx.FieldSel(info, ch)
	return ok && f == r.fFIN && par.Within(e, cc) && !par.Within(e, cc.Comm)
}

// S4: sealed job.
func (r *roles) ruleSealed(s *report.Sink) {
	n := types.NewMethodSet(r.SJ).Len() + types.NewMethodSet(types.NewPointer(r.SJ)).Len()
	s.Check(n == 0, "S4", "ScheduledJob|method set", "", "no methods on ScheduledJob / *ScheduledJob", fmt.Sprintf("%d method(s) declared on ScheduledJob: internal state becomes reachable outside the loop", n))
	st := structOf(r.SJ)
	exp := 0
	for i := 0; i < st.NumFields(); i++ {
		if st.Field(i).Exported() || st.Field(i).Embedded() {
			exp++
		}
	}
	s.Check(exp == 0, "S4", "ScheduledJob|exported or embedded fields", "", "no exported/embedded field", fmt.Sprintf("%d exported/embedded field(s)", exp))
}

// hasCond reports whether conds contain a fact matched by m with the given polarity.
func hasCond(conds []astx.Cond, pos bool, m func(ast.Expr) bool) *astx.Cond {
	for i := range conds {
		if conds[i].Pos == pos && m(conds[i].E) {
			return &conds[i]
		}
	}
	return nil
}

// writesFieldBetween: is field f written (on any base) at a position in (from, to)?
func (r *roles) writesFieldBetween(root ast.Node, f *types.Var, from, to token.Pos) bool {
	found := false
	astx.Writes(root, func(l ast.Expr, at ast.Node) {
		if _, v, ok := astx.FieldSel(r.info, l); ok && v == f && l.Pos() > from && l.Pos() < to {
			found = true
		}
	})
	return found
}

// readyCalls lists calls of methods on the ready list, and checks the list never escapes.
func (r *roles) readyCalls(s *report.Sink) map[*ast.CallExpr]string {
	out := map[*ast.CallExpr]string{}
	ast.Inspect(r.Loop.Body, func(n ast.Node) bool {
		id, ok := n.(*ast.Ident)
		if !ok || r.info.Uses[id] != r.readyList {
			return true
		}
		if se, ok := r.par[id].(*ast.SelectorExpr); ok && se.X == ast.Expr(id) {
			if c, ok := r.par[se].(*ast.CallExpr); ok && c.Fun == ast.Expr(se) {
				out[c] = se.Sel.Name
				return true
			}
		}
		s.Unk("S5", "ready list|escapes", r.pos(id), "the ready list is used other than as receiver of a method call; insertions can no longer be enumerated")
		return true
	})
	return out
}

// S5 admission, S6 dispatch-once.
func (r *roles) ruleAdmissionDispatch(s *report.Sink) {
	info := r.info
	calls := r.readyCalls(s)
	inserts := 0
	for c, m := range calls {
		switch m {
		case "Len", "Front", "Remove", "Back":
			continue
		case "PushBack", "PushFront", "InsertBefore", "InsertAfter":
		default:
			s.Unk("S5", "ready list|"+m, r.pos(c), "unmodelled list operation on the ready list")
			continue
		}
		inserts++
		x := astx.IdentObj(info, c.Args[0])
		arm := r.armName(c)
		key := fmt.Sprintf("loop|%s#%s", m, arm)
		if x == nil || !isPtrTo(x.Type(), r.SJ) {
			s.Unk("S5", key, r.pos(c), "inserted value is not a *ScheduledJob variable")
			continue
		}
		conds := r.par.Known(c, r.Loop)
		g := hasCond(conds, true, func(e ast.Expr) bool {
			l, k, ok := astx.EqIntConst(info, e)
			return ok && k == 0 && astx.IsFieldOf(info, l, x, r.sjRemaining)
		})
		if g == nil {
			s.Bad("S5", key, r.pos(c), fmt.Sprintf("job %s is put on the ready list without a dominating test %s.remaining == 0: it could run before its dependencies finished", x.Name(), x.Name()))
			continue
		}
		if r.writesFieldBetween(r.Loop.Body, r.sjRemaining, g.E.End(), c.Pos()) && writesInside(r, g.At, g.E.End(), c.Pos()) {
			s.Bad("S5", key, r.pos(c), "remaining is modified between the == 0 test and the insertion")
			continue
		}
		s.OK("S5", key, r.pos(c), fmt.Sprintf("guarded by %s.remaining == 0", x.Name()))
	}
	if inserts == 0 {
		s.Unk("S5", "loop|no insertion", r.pos(r.Loop), "no insertion into the ready list found")
	}

	// S6
	send := r.armReady.Comm.(*ast.SendStmt)
	key := "loop|ready send"
	if r.sendCh == nil || r.sendVal == nil {
		s.Unk("S6", key, r.pos(send), "send arm does not use local variables for channel and value")
		return
	}
	// assignments to sendVal: only `X.Value.(*SJ)` with X assigned only ready.Front()
	var elObj types.Object
	okVal, nVal := true, 0
	var valAssign ast.Node
	astx.Writes(r.Loop.Body, func(l ast.Expr, at ast.Node) {
		if astx.IdentObj(info, l) != r.sendVal {
			return
		}
		as, ok := at.(*ast.AssignStmt)
		if !ok || len(as.Lhs) != 1 || len(as.Rhs) != 1 {
			okVal = false
			return
		}
		nVal++
		valAssign = as
		ta, ok := astx.Unparen(as.Rhs[0]).(*ast.TypeAssertExpr)
		if !ok {
			okVal = false
			return
		}
		se, ok := astx.Unparen(ta.X).(*ast.SelectorExpr)
		if !ok || se.Sel.Name != "Value" {
			okVal = false
			return
		}
		elObj = astx.IdentObj(info, se.X)
	})
	if !okVal || nVal != 1 || elObj == nil {
		s.Unk("S6", key, r.pos(send), "value sent to workers is not assigned exactly once per iteration from <element>.Value.(*ScheduledJob)")
		return
	}
	okEl, nEl := true, 0
	astx.Writes(r.Loop.Body, func(l ast.Expr, at ast.Node) {
		if astx.IdentObj(info, l) != elObj {
			return
		}
		as, ok := at.(*ast.AssignStmt)
		if !ok || len(as.Rhs) != 1 {
			okEl = false
			return
		}
		c, ok := astx.Unparen(as.Rhs[0]).(*ast.CallExpr)
		if !ok || calls[c] != "Front" {
			okEl = false
			return
		}
		nEl++
	})
	s.Check(okEl && nEl == 1, "S6", "loop|sent job is ready.Front()", r.pos(send), "the job handed to a worker is the front element of the ready list", "the element whose value is sent is not (only) ready.Front()")
	// both declared inside the for body => fresh (nil) every iteration
	fresh := r.par.Within(r.declNode(r.sendVal), r.mainFor.Body) && r.par.Within(r.declNode(elObj), r.mainFor.Body) && r.par.Within(r.declNode(r.sendCh), r.mainFor.Body)
	s.Check(fresh, "S6", "loop|send operands are per-iteration", r.pos(send), "channel, element and job variables are declared inside the loop body", "send operands outlive an iteration: a stale job could be re-sent")
	// channel enabling: sendCh assignments are s.READY or nil; nil-assignment/ready-assignment is tied to the branch that sets the value.
	ifStmt, _ := r.par.Enclosing(valAssign, func(n ast.Node) bool { _, ok := n.(*ast.IfStmt); return ok }).(*ast.IfStmt)
	tied := false
	chOK := true
	declInit := ""
	astx.Writes(r.mainFor.Body, func(l ast.Expr, at ast.Node) {
		if astx.IdentObj(info, l) != r.sendCh {
			return
		}
		as, ok := at.(*ast.AssignStmt)
		if !ok || len(as.Lhs) != 1 || len(as.Rhs) != 1 {
			chOK = false
			return
		}
		rhs := as.Rhs[0]
		_, f, isF := astx.FieldSel(info, rhs)
		switch {
		case isF && f == r.fREADY:
			if as.Tok == token.DEFINE {
				declInit = "ready"
			} else if ifStmt != nil && r.par.Within(as, ifStmt.Body) {
				tied = true
			} else {
				chOK = false
			}
		case astx.IsNil(info, rhs):
			if ifStmt != nil && ifStmt.Else != nil && r.par.Within(as, ifStmt.Else) {
				tied = true
			} else if as.Tok != token.DEFINE {
				chOK = false
			}
		default:
			chOK = false
		}
	})
	if declInit == "" {
		// `var readyc chan<- ...` without init is fine only with the then-branch form
		if d := r.declNode(r.sendCh); d != nil {
			if vs, ok := r.par[d].(*ast.ValueSpec); ok && len(vs.Values) == 1 {
				if _, f, ok := astx.FieldSel(info, vs.Values[0]); ok && f == r.fREADY {
					declInit = "ready"
				}
			}
		}
	}
	s.Check(chOK && tied && ifStmt != nil && r.par.Within(valAssign, ifStmt.Body), "S6", "loop|send enabled only with a job chosen", r.pos(send),
		"the send channel is non-nil exactly on the branch that picked the front job", "the ready-channel send can be enabled without a freshly chosen front job (or with an unrecognised assignment)")
	// removal
	nRem := 0
	for c, m := range calls {
		if m == "Remove" {
			if r.par.Within(c, r.armReady) && len(c.Args) == 1 && astx.IdentObj(info, c.Args[0]) == elObj && len(r.par.Known(c, r.armReady)) == 0 && r.par.InLoop(c) == ast.Stmt(r.mainFor) {
				nRem++
			} else {
				s.Bad("S6", "loop|ready.Remove elsewhere#"+r.armName(c), r.pos(c), "removal from the ready list outside the dispatch arm (a ready job would be dropped)")
			}
		}
	}
	s.Check(nRem == 1, "S6", "loop|dispatch removes the sent element", r.pos(send), "send arm removes exactly the element it sent", fmt.Sprintf("send arm removes the sent element %d times (want 1): job could be dispatched twice or lost", nRem))

	// all send statements of the package are classified
	for _, f := range r.pkg.Syntax {
		ast.Inspect(f, func(n ast.Node) bool {
			ss, ok := n.(*ast.SendStmt)
			if !ok {
				return true
			}
			fd, _ := r.enclosingDecl(r.par, info, ss)
			el := chanElemOr(info.TypeOf(ss.Chan))
			k := fmt.Sprintf("%s|send of %s", fd.Name.Name, types.TypeString(el, func(*types.Package) string { return "" }))
			switch {
			case ss == send:
				s.OK("S6", k, r.pos(ss), "the dispatch send")
			case fd == r.Enqueue && isPtrTo(el, r.SJ):
				s.OK("S6", k, r.pos(ss), "Enqueue's hand-over to the loop")
			case fd == r.Worker && types.Identical(el, r.JobResult):
				s.OK("S6", k, r.pos(ss), "worker posting a result")
			case isPtrTo(el, r.SJ):
				s.Bad("S6", k, r.pos(ss), "another send of a *ScheduledJob: jobs can reach workers bypassing the ready list")
			default:
				s.Unk("S6", k, r.pos(ss), "unclassified channel send in package scheduler")
			}
			return true
		})
	}
}

func writesInside(r *roles, at ast.Node, from, to token.Pos) bool {
	// Only writes lexically inside the guarded region count (the guard is re-tested every time control re-enters).
	is, ok := at.(*ast.IfStmt)
	if !ok {
		return true
	}
	return r.writesFieldBetween(is, r.sjRemaining, from, to)
}

func (r *roles) armName(n ast.Node) string {
	switch {
	case r.par.Within(n, r.armReady):
		return "dispatch-arm"
	case r.par.Within(n, r.armEnq):
		return "enqueue-arm"
	case r.par.Within(n, r.armDone):
		return "result-arm"
	case r.par.Within(n, r.sel):
		return "other-arm"
	}
	return "outside-select"
}

// incdec classifies a write statement to an int lvalue: +1, -1 or 0 (unknown).
func incdec(info *types.Info, at ast.Node, lhs ast.Expr) int {
	switch s := at.(type) {
	case *ast.IncDecStmt:
		if s.Tok == token.INC {
			return 1
		}
		return -1
	case *ast.AssignStmt:
		if len(s.Lhs) != 1 || len(s.Rhs) != 1 {
			return 0
		}
		switch s.Tok {
		case token.ADD_ASSIGN:
			if astx.IsIntConst(info, s.Rhs[0], 1) {
				return 1
			}
		case token.SUB_ASSIGN:
			if astx.IsIntConst(info, s.Rhs[0], 1) {
				return -1
			}
		case token.ASSIGN:
			if b, ok := astx.Unparen(s.Rhs[0]).(*ast.BinaryExpr); ok && astx.Same(info, b.X, lhs) && astx.IsIntConst(info, b.Y, 1) {
				if b.Op == token.ADD {
					return 1
				}
				if b.Op == token.SUB {
					return -1
				}
			}
		}
	}
	return 0
}

// rangeOver: innermost RangeStmt enclosing n whose value variable is obj.
func (r *roles) rangeWithValue(n ast.Node, obj types.Object) *ast.RangeStmt {
	for x := r.par[n]; x != nil; x = r.par[x] {
		if rs, ok := x.(*ast.RangeStmt); ok && rs.Value != nil && astx.IdentObj(r.info, rs.Value) == obj {
			return rs
		}
	}
	return nil
}

func (r *roles) isDoneJobExpr(e ast.Expr) bool {
	if r.doneJob != nil && astx.IdentObj(r.info, e) == r.doneJob {
		return true
	}
	return astx.IsFieldOf(r.info, e, r.doneRes, r.jrJob)
}

// S7 countdown pairing, S8 done flag, S23 late enqueue.
func (r *roles) ruleCountdown(s *report.Sink) {
	info := r.info
	nInc, nDec := 0, 0
	var decLoop *ast.RangeStmt
	astx.Writes(r.pkgNode(), func(l ast.Expr, at ast.Node) {
		base, f, ok := astx.FieldSel(info, l)
		if !ok || f != r.sjRemaining {
			return
		}
		d := incdec(info, at, l)
		x := astx.IdentObj(info, base)
		arm := r.armName(at)
		switch {
		case d == 1:
			key := "loop|remaining+1#" + arm
			rs := r.rangeWithValue(at, nil)
			// find range over job.deps
			for p := r.par[at]; p != nil; p = r.par[p] {
				if q, ok := p.(*ast.RangeStmt); ok && astx.IsFieldOf(info, q.X, r.enqJob, r.sjDeps) {
					rs = q
					break
				}
			}
			if arm != "enqueue-arm" || x != r.enqJob || rs == nil || rs.Value == nil {
				s.Bad("S7", key, r.pos(at), "remaining is incremented outside the registration loop over the new job's dependencies")
				return
			}
			dep := astx.IdentObj(info, rs.Value)
			conds := r.par.Known(at, rs)
			notDone := hasCond(conds, false, func(e ast.Expr) bool { return astx.IsFieldOf(info, e, dep, r.sjDone) })
			// the append to dep.consumers in the same statement list
			paired := false
			for _, sib := range siblingStmts(r.par, at) {
				if as, ok := sib.(*ast.AssignStmt); ok && len(as.Lhs) == 1 && len(as.Rhs) == 1 && astx.IsFieldOf(info, as.Lhs[0], dep, r.sjConsumers) {
					if c, ok := as.Rhs[0].(*ast.CallExpr); ok && astx.IsBuiltin(info, c, "append") && len(c.Args) == 2 &&
						astx.IsFieldOf(info, c.Args[0], dep, r.sjConsumers) && astx.IdentObj(info, c.Args[1]) == r.enqJob && !c.Ellipsis.IsValid() {
						paired = true
					}
				}
			}
			if notDone != nil && len(conds) != 1 {
				s.Bad("S7", key, r.pos(at), "the +1 is subject to a further condition beyond !dep.done while the registration in dep.consumers is not (or vice versa): the countdown and the notifications it will receive diverge, so the job can become ready while a dependency is still running")
			} else if notDone == nil {
				s.Bad("S7", key, r.pos(at), "registration on a dependency is not guarded by !dep.done: a finished dependency would never notify and the job waits for ever")
			} else if !paired {
				s.Bad("S7", key, r.pos(at), "remaining+1 is not paired with `dep.consumers = append(dep.consumers, job)` in the same block")
			} else {
				s.OK("S7", key, r.pos(at), "one +1 per registration in a not-yet-finished dependency's consumer list")
			}
			nInc++
		case d == -1:
			key := "loop|remaining-1#" + arm
			rs := r.rangeWithValue(at, x)
			if arm != "result-arm" || rs == nil {
				s.Bad("S7", key, r.pos(at), "remaining is decremented outside the notification loop over the finished job's consumers")
				return
			}
			cb, cf, ok := astx.FieldSel(info, rs.X)
			if !ok || cf != r.sjConsumers || !r.isDoneJobExpr(cb) {
				s.Bad("S7", key, r.pos(at), "notification loop does not range over the finished job's consumers")
				return
			}
			if len(r.par.Known(at, rs)) != 0 || r.par.InLoop(at) != ast.Stmt(rs) {
				s.Bad("S7", key, r.pos(at), "decrement is conditional within the iteration: some consumers would never become ready")
				return
			}
			if len(r.par.Known(rs, r.armDone)) != 0 {
				// notification must happen for every finished job unless the loop returns
				s.Bad("S7", key, r.pos(at), "notification loop is conditional: consumers of some finished jobs are never notified")
				return
			}
			nDec++
			decLoop = rs
			s.OK("S7", key, r.pos(at), "one -1 per consumer of the finished job")
		default:
			s.Bad("S7", "loop|remaining other write#"+arm, r.pos(at), "remaining is written by something other than +1/-1")
		}
	})
	s.Check(nInc == 1 && nDec == 1, "S7", "loop|exactly one +1 site and one -1 site", r.pos(r.Loop), "pairing is one-to-one", fmt.Sprintf("%d increment and %d decrement sites (want 1 and 1)", nInc, nDec))
	// every write to consumers is the paired append (checked above) — enumerate others
	astx.Writes(r.pkgNode(), func(l ast.Expr, at ast.Node) {
		_, f, ok := astx.FieldSel(info, l)
		if !ok || f != r.sjConsumers {
			return
		}
		good := false
		if as, ok := at.(*ast.AssignStmt); ok && len(as.Rhs) == 1 {
			if c, ok := as.Rhs[0].(*ast.CallExpr); ok && astx.IsBuiltin(info, c, "append") && r.armName(at) == "enqueue-arm" {
				for _, sib := range siblingStmts(r.par, at) {
					if ws := astx.Assigns(sib); len(ws) == 1 {
						if _, f2, ok := astx.FieldSel(info, ws[0]); ok && f2 == r.sjRemaining && incdec(info, sib, ws[0]) == 1 {
							good = true
						}
					}
				}
			}
		}
		if good {
			if rs := r.rangeOverDeps(at); rs == nil || len(r.par.Known(at, rs)) != 1 {
				good = false
			}
		}
		s.Check(good, "S7", "loop|consumers write#"+r.armName(at), r.pos(at), "append paired with remaining+1, both exactly under !dep.done", "consumer list modified without the matching remaining+1 under the same condition (countdown and notifications diverge)")
	})

	// S8
	key := "loop|done=true at arm entry"
	found := false
	for _, st := range r.armDone.Body {
		if as, ok := st.(*ast.AssignStmt); ok && len(as.Lhs) == 1 && len(as.Rhs) == 1 {
			if b, f, ok := astx.FieldSel(info, as.Lhs[0]); ok && f == r.sjDone && r.isDoneJobExpr(b) && astx.IsBoolConst(info, as.Rhs[0], true) {
				found = true
				break
			}
			continue
		}
		if _, ok := st.(*ast.IncDecStmt); ok {
			continue
		}
		break // first branching statement reached
	}
	s.Check(found, "S8", key, r.pos(r.armDone), "the finished job is marked done before any branch of the result arm", "result arm does not unconditionally mark the finished job done before branching: later enqueues would wait on it for ever")
	nDone := 0
	astx.Writes(r.pkgNode(), func(l ast.Expr, at ast.Node) {
		if _, f, ok := astx.FieldSel(info, l); ok && f == r.sjDone {
			nDone++
			top := false
			for _, st := range r.armDone.Body {
				if ast.Node(st) == at {
					top = true
				}
			}
			s.Check(top, "S8", "loop|write of done#"+r.armName(at), r.pos(at), "the only place a job becomes done is the entry of the result arm, which always goes on to notify its consumers", "a job is marked done outside the entry of the result arm: it finishes without the notification of its consumers (their countdown never reaches zero: Wait hangs) and without a worker result")
		}
	})
	s.Check(nDone == 1, "S8", "loop|single done site", r.pos(r.armDone), "", fmt.Sprintf("%d writes to ScheduledJob.done (want 1)", nDone))

	// S23
	var depsRange *ast.RangeStmt
	ast.Inspect(r.armEnq, func(n ast.Node) bool {
		if q, ok := n.(*ast.RangeStmt); ok && astx.IsFieldOf(info, q.X, r.enqJob, r.sjDeps) {
			depsRange = q
		}
		return true
	})
	if depsRange == nil || depsRange.Value == nil {
		s.Unk("S23", "loop|late enqueue", r.pos(r.armEnq), "no range over the new job's dependencies in the enqueue arm")
	} else {
		dep := astx.IdentObj(info, depsRange.Value)
		ok23 := false
		astx.Writes(depsRange.Body, func(l ast.Expr, at ast.Node) {
			if !astx.IsFieldOf(info, l, r.enqJob, r.sjInvalid) {
				return
			}
			as, ok := at.(*ast.AssignStmt)
			if !ok || len(as.Rhs) != 1 || !astx.IsBoolConst(info, as.Rhs[0], true) {
				return
			}
			conds := r.par.Known(at, depsRange)
			d := hasCond(conds, true, func(e ast.Expr) bool { return astx.IsFieldOf(info, e, dep, r.sjDone) })
			e := hasCond(conds, false, func(e ast.Expr) bool {
				x, ok := astx.EqNil(info, e)
				return ok && astx.IsFieldOf(info, x, dep, r.sjErr)
			})
			if d != nil && e != nil && len(conds) == 2 {
				ok23 = true
			}
		})
		s.Check(ok23, "S23", "loop|late enqueue invalidation", r.pos(depsRange), "a job enqueued after a dependency failed is marked invalid (exactly when dep.done && dep.err != nil)", "a job enqueued after its dependency failed is not (exactly) invalidated")
	}
	_ = decLoop
}

// rangeOverDeps: the enclosing range over the new job's deps.
func (r *roles) rangeOverDeps(n ast.Node) *ast.RangeStmt {
	for p := r.par[n]; p != nil; p = r.par[p] {
		if q, ok := p.(*ast.RangeStmt); ok && astx.IsFieldOf(r.info, q.X, r.enqJob, r.sjDeps) {
			return q
		}
	}
	return nil
}

func siblingStmts(par astx.Parents, n ast.Node) []ast.Stmt {
	for x := n; x != nil; x = par[x] {
		switch p := par[x].(type) {
		case *ast.BlockStmt:
			return p.List
		case *ast.CaseClause:
			return p.Body
		case *ast.CommClause:
			return p.Body
		}
	}
	return nil
}

// pkgNode returns a synthetic node covering all files (for Writes).
func (r *roles) pkgNode() ast.Node {
	return &ast.Package{Files: filesMap(r)}
}

func filesMap(r *roles) map[string]*ast.File {
	m := map[string]*ast.File{}
	for i, f := range r.pkg.Syntax {
		m[fmt.Sprint(i)] = f
	}
	return m
}
