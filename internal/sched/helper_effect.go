package sched

import (
	"fmt"
	"go/token"

	"golang.org/x/tools/go/ssa"
)

// helperEff summarises what a package-local helper called from the loop does to the conservation residual
// pending - |ready| - waiting - ongoing: the same constant r on every path through it (inner loops: every
// iteration leaves the residual alone), plus the set of memory counters it writes.
type helperEff struct {
	r        int
	touched  map[string]bool
	ok       bool
	why      string
	definite bool // why describes an imbalance, not a limit of the summary
}

// helperEffect enumerates the paths of fn. Counters are memory cells here (a helper cannot reach a counter
// that lives in a register of the loop function); their canonical keys are resolved through the helper's
// call site, so `st.waiting` in the helper is the loop's cell.
func (m *model) helperEffect(fn *ssa.Function, cellCtr map[string]*counter, sign map[*counter]int, depth int, memo map[*ssa.Function]*helperEff) *helperEff {
	if e, ok := memo[fn]; ok {
		if e == nil {
			return &helperEff{why: "recursive helper " + fn.Name()}
		}
		return e
	}
	if depth > 4 {
		return &helperEff{why: "helper nesting too deep at " + fn.Name()}
	}
	memo[fn] = nil
	eff := &helperEff{touched: map[string]bool{}, ok: true}
	type hstate struct {
		cell  map[string]int
		ctr   map[ssa.Value]*counter
		off   map[ssa.Value]int
		list  int
		extra int
	}
	clone := func(a *hstate) *hstate {
		b := &hstate{cell: map[string]int{}, ctr: map[ssa.Value]*counter{}, off: map[ssa.Value]int{}, list: a.list, extra: a.extra}
		for k, v := range a.cell {
			b.cell[k] = v
		}
		for k, v := range a.ctr {
			b.ctr[k] = v
		}
		for k, v := range a.off {
			b.off[k] = v
		}
		return b
	}
	resid := func(s *hstate) int {
		r := s.extra - s.list
		for k, c := range cellCtr {
			r += sign[c] * s.cell[k]
		}
		return r
	}
	fail := func(format string, a ...any) {
		if eff.ok {
			eff.ok = false
			eff.why = fmt.Sprintf(format, a...)
		}
	}
	budget := 4000
	nRet := 0
	var walk func(b, pred *ssa.BasicBlock, s *hstate, entries map[*ssa.BasicBlock]*hstate)
	walk = func(b, pred *ssa.BasicBlock, s *hstate, entries map[*ssa.BasicBlock]*hstate) {
		budget--
		if budget < 0 {
			fail("path enumeration budget exhausted in helper %s", fn.Name())
		}
		if !eff.ok {
			return
		}
		for _, in := range b.Instrs {
			p, ok := in.(*ssa.Phi)
			if !ok {
				break
			}
			delete(s.ctr, p)
			delete(s.off, p)
			if pred == nil {
				continue
			}
			for k, e := range p.Edges {
				if b.Preds[k] == pred {
					if c, ok := s.ctr[e]; ok {
						s.ctr[p], s.off[p] = c, s.off[e]
					}
				}
			}
		}
		if e, ok := entries[b]; ok && pred != nil {
			if d := resid(s) - resid(e); d != 0 {
				eff.definite = eff.ok
				fail("%s: an iteration of the loop in helper %s changes pending by %+d more than ready+waiting+ongoing", m.bpos(b), fn.Name(), d)
			}
			return
		}
		if naturalLoop(b) != nil {
			e2 := map[*ssa.BasicBlock]*hstate{}
			for k, v := range entries {
				e2[k] = v
			}
			e2[b] = clone(s)
			entries = e2
		}
		for _, in := range b.Instrs {
			switch x := in.(type) {
			case *ssa.UnOp:
				if x.Op == token.MUL {
					if c, ok := cellCtr[m.key(x.X)]; ok {
						s.ctr[x] = c
						s.off[x] = s.cell[c.cell]
					}
				}
			case *ssa.Store:
				if c, ok := cellCtr[m.key(x.Addr)]; ok {
					cc, isCtr := s.ctr[x.Val]
					if !isCtr || cc != c {
						fail("%s: counter %s is assigned something other than itself ± constant in helper %s", m.ipos(x), c.name, fn.Name())
						return
					}
					s.cell[c.cell] = s.off[x.Val]
					eff.touched[c.cell] = true
				}
			case *ssa.BinOp:
				if c, ok := s.ctr[x.X]; ok && (x.Op == token.ADD || x.Op == token.SUB) {
					if k, isC := x.Y.(*ssa.Const); isC && k.Value != nil {
						n := int(k.Int64())
						if x.Op == token.SUB {
							n = -n
						}
						s.ctr[x] = c
						s.off[x] = s.off[x.X] + n
					}
				}
			case *ssa.Call:
				if recv, name, _, ok := listCall(x); ok && m.isReadyList(recv) {
					if isInsert(name) {
						s.list++
					} else if name == "Remove" {
						s.list--
					}
				} else if callee := x.Call.StaticCallee(); callee != nil && callee.Pkg == m.pkg && callee.Blocks != nil {
					sub := m.helperEffect(callee, cellCtr, sign, depth+1, memo)
					if !sub.ok {
						eff.definite = eff.ok && sub.definite
						fail("%s", sub.why)
						return
					}
					s.extra += sub.r
					for k := range sub.touched {
						eff.touched[k] = true
					}
					for v, c := range s.ctr {
						if sub.touched[c.cell] {
							delete(s.ctr, v)
							delete(s.off, v)
						}
					}
				}
			case *ssa.Return:
				r := resid(s)
				if nRet > 0 && r != eff.r {
					fail("%s: helper %s changes pending - ready - waiting - ongoing by %+d on one path and %+d on another", m.ipos(x), fn.Name(), eff.r, r)
				}
				eff.r = r
				nRet++
				return
			case *ssa.Panic:
				return
			case *ssa.Go, *ssa.Defer:
				// a counter touched from a deferred call or another goroutine is not summarised
				if cm := x.(ssa.CallInstruction).Common(); cm.StaticCallee() != nil && cm.StaticCallee().Pkg == m.pkg {
					sub := m.helperEffect(cm.StaticCallee(), cellCtr, sign, depth+1, memo)
					if !sub.ok || sub.r != 0 || len(sub.touched) != 0 {
						fail("%s: helper %s touches the loop's bookkeeping from a deferred call or goroutine", m.ipos(x), fn.Name())
						return
					}
				}
			}
		}
		for _, su := range b.Succs {
			walk(su, b, clone(s), entries)
		}
	}
	if len(fn.Blocks) == 0 {
		eff.ok = false
		eff.why = "helper " + fn.Name() + " has no body"
	} else {
		walk(fn.Blocks[0], nil, &hstate{cell: map[string]int{}, ctr: map[ssa.Value]*counter{}, off: map[ssa.Value]int{}}, map[*ssa.BasicBlock]*hstate{})
	}
	if fn.Recover != nil {
		fail("helper %s recovers from panics: its effect on the bookkeeping is not a function of its paths", fn.Name())
	}
	memo[fn] = eff
	return eff
}
