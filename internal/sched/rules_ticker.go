package sched

import (
	"go/constant"
	"go/types"
	"strings"

	"golang.org/x/tools/go/ssa"

	"cffverif/internal/report"
	"cffverif/internal/ssax"
)

// S31: the state ticker. time.NewTicker panics on a non-positive interval, and it would do so on the scheduler
// loop's goroutine, taking the whole process down. The interval is Config's duration field; New replaces an
// unset (zero) value by a positive constant before the loop is started, and the ticker exists only when there
// is an emitter to report to.
func (m *model) ruleTicker(s *report.Sink) {
	cf := structOf(m.Config)
	var fFreq *types.Var
	for _, f := range flatFields(cf, 0) {
		if n, ok := f.Type().(*types.Named); ok && n.Obj().Pkg() != nil && n.Obj().Pkg().Path() == "time" && n.Obj().Name() == "Duration" {
			if fFreq != nil {
				s.Unk("S31", "New|flush interval field", "", "Config has more than one time.Duration field")
				return
			}
			fFreq = f
		}
	}
	var tickers []*ssa.Call
	for _, f := range m.funcs {
		ssax.Instrs(f, func(in ssa.Instruction) {
			c, ok := in.(*ssa.Call)
			if !ok {
				return
			}
			if callee := c.Call.StaticCallee(); callee != nil && callee.Pkg != nil && callee.Pkg.Pkg.Path() == "time" && (callee.Name() == "NewTicker" || callee.Name() == "Tick") {
				tickers = append(tickers, c)
			}
		})
	}
	if len(tickers) == 0 {
		s.OK("S31", "loop|no ticker", m.pos(m.fnLoop.Pos()), "the scheduler creates no ticker")
		return
	}
	if fFreq == nil {
		s.Unk("S31", "New|flush interval field", "", "a ticker is created but Config has no time.Duration field to take its interval from")
		return
	}
	isFreq := func(v ssa.Value) bool {
		k := m.key(v)
		return strings.HasSuffix(k, ")."+fFreq.Name()) && !strings.HasPrefix(k, "&")
	}
	for _, t := range tickers {
		arg := t.Call.Args[0]
		pos := m.ipos(t)
		positiveConst := false
		if c, ok := arg.(*ssa.Const); ok && c.Value != nil && c.Value.Kind() == constant.Int && constant.Sign(c.Value) > 0 {
			positiveConst = true
		}
		s.Check(positiveConst || isFreq(arg), "S31", "loop|ticker interval is the configured frequency", pos, "interval = Config."+fFreq.Name(), "the ticker's interval is not the (defaulted) configured flush frequency: "+m.key(arg))
		// created only for an emitter: under `emitter != nil`
		guarded := find(m.atomsOf(t), func(a atom) bool {
			ok, pol := eqNil(a, func(v ssa.Value) bool { return types.Identical(v.Type(), m.EmitterIface) })
			return ok && !pol
		}) != nil
		s.Check(guarded, "S31", "loop|ticker only with an emitter", pos, "created under emitter != nil", "the ticker is created without checking that there is an emitter: a nil emitter would be called on the first tick")
	}
	// defaulting in New
	var stores []access
	var goLoop ssa.Instruction
	// New, its closures and the helpers it calls; a write anywhere else is out of place
	inNew := map[*ssa.Function]bool{}
	var add func(f *ssa.Function)
	add = func(f *ssa.Function) {
		if f == nil || inNew[f] || f.Blocks == nil {
			return
		}
		inNew[f] = true
		for _, a := range f.AnonFuncs {
			add(a)
		}
		ssax.Instrs(f, func(in ssa.Instruction) {
			if c, ok := in.(ssa.CallInstruction); ok {
				if callee := c.Common().StaticCallee(); callee != nil && callee.Pkg == m.pkg && callee != m.fnLoop && callee != m.fnWorker {
					if _, isGo := in.(*ssa.Go); !isGo {
						add(callee)
					}
				}
			}
		})
	}
	add(m.fnNew)
	outside := false
	for _, f := range m.funcs {
		for _, a := range fieldAccesses(f, m.Config) {
			if a.f == fFreq && a.write {
				stores = append(stores, a)
				if !inNew[f] {
					outside = true
				}
			}
		}
	}
	ssax.Instrs(m.fnNew, func(in ssa.Instruction) {
		if g, ok := in.(*ssa.Go); ok && g.Call.StaticCallee() == m.fnLoop {
			goLoop = g
		}
	})
	isUnset := func(a atom) bool {
		isLoad := func(v ssa.Value) bool { return isFreq(v) }
		if ok, pol := eqInt(a, 0, isLoad); ok && pol {
			return true
		}
		if a.op == "<=" && a.pol && isLoad(a.av) && ssax.IsConstInt(a.bv, 0) {
			return true
		}
		if a.op == "<" && a.pol && isLoad(a.av) && ssax.IsConstInt(a.bv, 1) {
			return true
		}
		return false
	}
	okDefault := len(stores) > 0 && goLoop != nil && !outside
	why := "Config.New never gives an unset " + fFreq.Name() + " a default: time.NewTicker(0) panics on the scheduler loop's goroutine"
	for _, st := range stores {
		if st.kind != "write" || find(m.atomsOf(st.in), isUnset) == nil {
			okDefault = false
			why = "a write to " + fFreq.Name() + " is not confined to the case that it is unset"
			continue
		}
		c, isConst := m.resolve(st.store.Val).(*ssa.Const)
		if !isConst || c.Value == nil || c.Value.Kind() != constant.Int || constant.Sign(c.Value) <= 0 {
			okDefault = false
			why = "the default assigned to an unset " + fFreq.Name() + " is not a positive constant"
			continue
		}
		// the test `unset?` (or the call of the helper that holds it) comes before the loop is started
		root := m.rootSite(find(m.atomsOf(st.in), isUnset).cond.(ssa.Instruction))
		if goLoop != nil && (root.Parent() != m.fnNew || !ssax.Before(root, goLoop)) {
			okDefault = false
			why = "the default is assigned after the scheduler loop was started"
		}
	}
	pos := m.pos(m.fnNew.Pos())
	if len(stores) > 0 {
		pos = m.ipos(stores[0].in)
	}
	s.Check(okDefault, "S31", "New|unset flush frequency gets a positive default before the loop starts", pos, "zero → positive constant, before `go loop`", why)
}
