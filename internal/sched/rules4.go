package sched

import (
	"fmt"
	"go/ast"
	"go/token"
	"go/types"
	"sort"

	"cffverif/internal/astx"
	"cffverif/internal/load"
	"cffverif/internal/report"
)

const (
	kFall = iota
	kBreak
	kCont
	kRet
)

type outcome struct {
	res  int
	kind int
}

type effWalker struct {
	r     *roles
	calls map[*ast.CallExpr]string
	bad   []string // undecided reasons
	viol  []string // violations inside inner loops
}

// simple: residual of a simple statement / expression tree (not descending into FuncLits).
func (w *effWalker) simple(n ast.Node) int {
	if n == nil {
		return 0
	}
	r := w.r
	res := 0
	ast.Inspect(n, func(x ast.Node) bool {
		switch c := x.(type) {
		case *ast.FuncLit:
			return false
		case *ast.CallExpr:
			switch w.calls[c] {
			case "PushBack", "PushFront", "InsertBefore", "InsertAfter":
				res--
			case "Remove":
				res++
			}
		}
		return true
	})
	for _, l := range astx.Assigns(n) {
		o := astx.IdentObj(r.info, l)
		if o == nil || (o != r.pending && o != r.ongoing && o != r.waiting) {
			continue
		}
		d := incdec(r.info, n, l)
		if d == 0 {
			if as, ok := n.(*ast.AssignStmt); ok && as.Tok == token.DEFINE {
				continue
			}
			w.bad = append(w.bad, fmt.Sprintf("%s: counter %s written by something other than ±1", r.pos(n), o.Name()))
			continue
		}
		if o == r.pending {
			res += d
		} else {
			res -= d
		}
	}
	return res
}

func addAll(set map[outcome]bool, d int) map[outcome]bool {
	out := map[outcome]bool{}
	for o := range set {
		out[outcome{o.res + d, o.kind}] = true
	}
	return out
}

func (w *effWalker) list(stmts []ast.Stmt) map[outcome]bool {
	cur := map[outcome]bool{{0, kFall}: true}
	for _, st := range stmts {
		next := map[outcome]bool{}
		var falls []int
		for o := range cur {
			if o.kind == kFall {
				falls = append(falls, o.res)
			} else {
				next[o] = true
			}
		}
		if len(falls) == 0 {
			return next
		}
		eff := w.stmt(st)
		for _, f := range falls {
			for o := range eff {
				next[outcome{o.res + f, o.kind}] = true
			}
		}
		cur = next
	}
	return cur
}

func (w *effWalker) stmt(st ast.Stmt) map[outcome]bool {
	one := func(d int, k int) map[outcome]bool { return map[outcome]bool{{d, k}: true} }
	switch s := st.(type) {
	case *ast.BlockStmt:
		return w.list(s.List)
	case *ast.IfStmt:
		d := w.simple(s.Init) + w.simple(s.Cond)
		out := map[outcome]bool{}
		for o := range w.list(s.Body.List) {
			out[o] = true
		}
		if s.Else != nil {
			for o := range w.stmt(s.Else) {
				out[o] = true
			}
		} else {
			out[outcome{0, kFall}] = true
		}
		return addAll(out, d)
	case *ast.ForStmt, *ast.RangeStmt:
		var body *ast.BlockStmt
		d := 0
		if f, ok := s.(*ast.ForStmt); ok {
			body = f.Body
			d = w.simple(f.Init) + w.simple(f.Cond) + w.simple(f.Post)
			if w.simple(f.Cond)+w.simple(f.Post) != 0 {
				w.bad = append(w.bad, w.r.pos(f)+": tracked effect in loop header")
			}
		} else {
			rs := s.(*ast.RangeStmt)
			body = rs.Body
			d = w.simple(rs.X)
		}
		out := one(d, kFall)
		for o := range w.list(body.List) {
			if o.kind == kRet {
				out[o] = true
				continue
			}
			if o.res != 0 {
				w.viol = append(w.viol, fmt.Sprintf("%s: an iteration of this inner loop changes pending by %+d more than ready+waiting+ongoing", w.r.pos(st), o.res))
			}
		}
		return out
	case *ast.SelectStmt:
		out := map[outcome]bool{}
		for _, c := range s.Body.List {
			cc := c.(*ast.CommClause)
			d := 0
			if cc.Comm != nil {
				d = w.simple(cc.Comm)
			}
			for o := range w.list(cc.Body) {
				if o.kind == kBreak {
					o.kind = kFall
				}
				out[outcome{o.res + d, o.kind}] = true
			}
		}
		return out
	case *ast.SwitchStmt:
		out := map[outcome]bool{}
		hasDefault := false
		for _, c := range s.Body.List {
			cc := c.(*ast.CaseClause)
			if cc.List == nil {
				hasDefault = true
			}
			for o := range w.list(cc.Body) {
				if o.kind == kBreak {
					o.kind = kFall
				}
				out[o] = true
			}
		}
		if !hasDefault {
			out[outcome{0, kFall}] = true
		}
		return addAll(out, w.simple(s.Init)+w.simple(s.Tag))
	case *ast.ReturnStmt:
		return one(0, kRet)
	case *ast.BranchStmt:
		switch s.Tok {
		case token.BREAK:
			return one(0, kBreak)
		case token.CONTINUE:
			return one(0, kCont)
		}
		w.bad = append(w.bad, w.r.pos(s)+": goto/fallthrough")
		return one(0, kFall)
	case *ast.TypeSwitchStmt, *ast.LabeledStmt:
		w.bad = append(w.bad, w.r.pos(st)+": unmodelled statement kind")
		return one(0, kFall)
	case *ast.GoStmt, *ast.DeferStmt:
		return one(0, kFall)
	default:
		return one(w.simple(st), kFall)
	}
}

// S25 conservation.
func (r *roles) ruleConservation(s *report.Sink) {
	silent := report.NewSink()
	calls := r.readyCalls(silent)
	check := func(name string, stmts []ast.Stmt, comm ast.Stmt, at ast.Node) {
		w := &effWalker{r: r, calls: calls}
		d := 0
		if comm != nil {
			d = w.simple(comm)
		}
		outs := w.list(stmts)
		key := "loop|Δpending = Δready+Δwaiting+Δongoing#" + name
		if len(w.bad) > 0 {
			s.Unk("S25", key, r.pos(at), w.bad[0])
			return
		}
		var bad []string
		for o := range outs {
			if o.kind != kRet && o.res+d != 0 {
				bad = append(bad, fmt.Sprintf("a path through this arm leaves pending %+d off the sum ready+waiting+ongoing", o.res+d))
			}
		}
		bad = append(bad, w.viol...)
		sort.Strings(bad)
		if len(bad) > 0 {
			s.Bad("S25", key, r.pos(at), bad[0])
		} else {
			s.OK("S25", key, r.pos(at), fmt.Sprintf("%d path outcome(s), all balanced", len(outs)))
		}
	}
	for i, c := range r.sel.Body.List {
		cc := c.(*ast.CommClause)
		name := fmt.Sprintf("arm%d", i)
		switch cc {
		case r.armReady:
			name = "dispatch-arm"
		case r.armEnq:
			name = "enqueue-arm"
		case r.armDone:
			name = "result-arm"
		default:
			if ch, _ := recvOf(cc); ch != nil {
				name = "arm<-" + astx.Short(ch)
			}
		}
		check(name, cc.Body, cc.Comm, cc)
	}
	var outside []ast.Stmt
	for _, st := range r.mainFor.Body.List {
		if st != ast.Stmt(r.sel) {
			outside = append(outside, st)
		}
	}
	check("outside-select", outside, nil, r.mainFor)
	// counters are initialised to 0 before the loop and written nowhere else
	for _, o := range []types.Object{r.pending, r.ongoing, r.waiting} {
		d := r.declNode(o)
		init0 := false
		if as, ok := r.par[d].(*ast.AssignStmt); ok && len(as.Rhs) == 1 && astx.IsIntConst(r.info, as.Rhs[0], 0) && !r.par.Within(as, r.mainFor) {
			init0 = true
		}
		if vs, ok := r.par[d].(*ast.ValueSpec); ok && (len(vs.Values) == 0 || astx.IsIntConst(r.info, vs.Values[0], 0)) && !r.par.Within(vs, r.mainFor) {
			init0 = true
		}
		outsideW := 0
		astx.Writes(r.Loop.Body, func(l ast.Expr, at ast.Node) {
			if astx.IdentObj(r.info, l) == o && !r.par.Within(at, r.mainFor) {
				if as, ok := at.(*ast.AssignStmt); ok && as.Tok == token.DEFINE {
					return
				}
				outsideW++
			}
		})
		s.Check(init0 && outsideW == 0, "S25", "loop|counter "+o.Name()+" starts at 0", r.pos(d), "base case of the invariant", "counter is not initialised to 0 before the loop / is written outside the loop body")
	}
}

// S26 state literal, S27 dispatch gate, S28 emit sites.
func (r *roles) ruleState(s *report.Sink) {
	info := r.info
	calls := r.readyCalls(report.NewSink())
	vals := map[string]ast.Expr{}
	for _, e := range r.stateLit.Elts {
		kv := e.(*ast.KeyValueExpr)
		vals[kv.Key.(*ast.Ident).Name] = kv.Value
	}
	s.Check(vals["Pending"] != nil && astx.IdentObj(info, vals["Pending"]) == r.pending, "S26", "State.Pending <- pending", r.pos(r.stateLit), "", "Pending is not the pending counter")
	s.Check(vals["Waiting"] != nil && astx.IdentObj(info, vals["Waiting"]) == r.waiting && r.waiting != r.pending && r.waiting != r.ongoing && r.pending != r.ongoing, "S26", "State.Waiting <- waiting", r.pos(r.stateLit), "", "Waiting is not a counter distinct from pending/ongoing")
	rl := false
	if c, ok := vals["Ready"].(*ast.CallExpr); ok && calls[c] == "Len" {
		rl = true
	}
	s.Check(rl, "S26", "State.Ready <- ready.Len()", r.pos(r.stateLit), "", "Ready is not the length of the ready list")
	s.Check(vals["Concurrency"] != nil && r.isSelf(vals["Concurrency"], r.fConc), "S26", "State.Concurrency <- s.concurrency", r.pos(r.stateLit), "", "Concurrency is not the scheduler's concurrency field")
	// IdleWorkers
	idle := vals["IdleWorkers"]
	good := false
	if b, ok := astx.Unparen(idle).(*ast.BinaryExpr); ok && b.Op == token.SUB && r.isSelf(b.X, r.fConc) && astx.IdentObj(info, b.Y) == r.ongoing {
		good = true
	}
	if c, ok := astx.Unparen(idle).(*ast.CallExpr); ok && len(c.Args) == 2 && r.isSelf(c.Args[0], r.fConc) && astx.IdentObj(info, c.Args[1]) == r.ongoing {
		if fn := astx.Callee(info, c); fn != nil {
			if fd := astx.DeclOfFunc(info, r.pkg.Syntax, fn); fd != nil && r.isDiffHelper(fd) {
				good = true
			}
		}
	}
	s.Check(good, "S26", "State.IdleWorkers <- s.concurrency - ongoing", r.pos(r.stateLit), "directly or via a helper returning p0 - p1 (clamped at 0)", "IdleWorkers is not concurrency minus the number of executing jobs")

	// S28
	n := 0
	for _, p := range r.repo.Pkgs {
		for _, f := range p.Syntax {
			par := astx.NewParents(f)
			ast.Inspect(f, func(x ast.Node) bool {
				c, ok := x.(*ast.CallExpr)
				if !ok {
					return true
				}
				se, ok := c.Fun.(*ast.SelectorExpr)
				if !ok {
					return true
				}
				sel := p.TypesInfo.Selections[se]
				if sel == nil || sel.Obj().Name() != "Emit" || !types.Identical(sel.Recv(), r.EmitterIface) {
					return true
				}
				n++
				inLoop := p == r.pkg && par.Within(c, r.mainFor.Body) && par.EnclosingFunc(c) == ast.Node(r.Loop)
				_, isDefer := par[c].(*ast.DeferStmt)
				_, isGo := par[c].(*ast.GoStmt)
				s.Check(inLoop && !isDefer && !isGo, "S28", "Emit call site", r.repo.Rel(c.Pos()), "state is reported only from inside the loop body (never after the loop returned)", "scheduler.Emitter.Emit is called outside the loop body: reports can be inconsistent or arrive after Wait returned")
				return true
			})
		}
	}
	if n == 0 {
		s.Unk("S28", "Emit call site", "", "no call of scheduler.Emitter.Emit found")
	}

	// S27 dispatch gate
	send := r.armReady.Comm.(*ast.SendStmt)
	var valAssign ast.Node
	astx.Writes(r.mainFor.Body, func(l ast.Expr, at ast.Node) {
		if astx.IdentObj(info, l) == r.sendVal {
			valAssign = at
		}
	})
	gated := false
	if valAssign != nil {
		conds := r.par.Known(valAssign, r.mainFor)
		gated = hasCond(conds, true, func(e ast.Expr) bool {
			b, ok := astx.Unparen(e).(*ast.BinaryExpr)
			if !ok {
				return false
			}
			return (b.Op == token.LSS && astx.IdentObj(info, b.X) == r.ongoing && r.isSelf(b.Y, r.fConc)) ||
				(b.Op == token.GTR && astx.IdentObj(info, b.Y) == r.ongoing && r.isSelf(b.X, r.fConc))
		}) != nil
	}
	s.Check(gated, "S27", "loop|dispatch enabled only while ongoing < concurrency", r.pos(send),
		"outstanding results never exceed the result buffer: every worker can post its last result after the loop has gone, and executing <= Concurrency in every report",
		"the ready-channel send is enabled whenever the ready list is non-empty: a worker that has posted its result takes another job before the loop consumed the result, so `ongoing` exceeds the concurrency (state reports show executing > Concurrency) and up to N-1 workers block for ever on the full result channel after a fail-fast exit")
}

// isDiffHelper: func h(a, b int) int computing a - b, optionally clamped at zero.
func (r *roles) isDiffHelper(fd *ast.FuncDecl) bool {
	info := r.info
	var ps []types.Object
	for _, f := range fd.Type.Params.List {
		for _, n := range f.Names {
			ps = append(ps, info.Defs[n])
		}
	}
	if len(ps) != 2 || fd.Body == nil {
		return false
	}
	isDiff := func(e ast.Expr) bool {
		b, ok := astx.Unparen(e).(*ast.BinaryExpr)
		return ok && b.Op == token.SUB && astx.IdentObj(info, b.X) == ps[0] && astx.IdentObj(info, b.Y) == ps[1]
	}
	par := astx.NewParents(fd)
	var v types.Object
	ok := true
	astx.Writes(fd.Body, func(l ast.Expr, at ast.Node) {
		as, isAs := at.(*ast.AssignStmt)
		if !isAs || len(as.Rhs) != 1 {
			ok = false
			return
		}
		o := astx.IdentObj(info, l)
		if isDiff(as.Rhs[0]) && (v == nil || v == o) {
			v = o
			return
		}
		// clamp: v = 0 under v < 0
		if o == v && astx.IsIntConst(info, as.Rhs[0], 0) {
			cs := par.Known(at, fd)
			if hasCond(cs, true, func(e ast.Expr) bool {
				b, ok := astx.Unparen(e).(*ast.BinaryExpr)
				return ok && b.Op == token.LSS && astx.IdentObj(info, b.X) == v && astx.IsIntConst(info, b.Y, 0)
			}) != nil {
				return
			}
		}
		ok = false
	})
	ast.Inspect(fd.Body, func(n ast.Node) bool {
		if ret, isRet := n.(*ast.ReturnStmt); isRet {
			if len(ret.Results) != 1 || !(isDiff(ret.Results[0]) || (v != nil && astx.IdentObj(info, ret.Results[0]) == v)) {
				ok = false
			}
		}
		return true
	})
	return ok
}

// S29 plumbing; L5 adapter.
func (r *roles) rulePlumbing(s *report.Sink) {
	cinfo := r.cff.TypesInfo
	ns := astx.FindFuncDecl(r.cff.Syntax, "", "NewScheduler")
	if ns == nil {
		s.Unk("S29", "cff.NewScheduler", "", "function not found")
		return
	}
	var p types.Object
	if len(ns.Type.Params.List) == 1 && len(ns.Type.Params.List[0].Names) == 1 {
		p = cinfo.Defs[ns.Type.Params.List[0].Names[0]]
	}
	var lit *ast.CompositeLit
	ast.Inspect(ns.Body, func(n ast.Node) bool {
		if cl, ok := n.(*ast.CompositeLit); ok && types.Identical(cinfo.TypeOf(cl), r.Config) {
			lit = cl
		}
		return true
	})
	if lit == nil || p == nil {
		s.Unk("S29", "cff.NewScheduler|Config literal", r.repo.Rel(ns.Pos()), "no scheduler.Config literal")
		return
	}
	vals := map[string]ast.Expr{}
	for _, e := range lit.Elts {
		if kv, ok := e.(*ast.KeyValueExpr); ok {
			vals[kv.Key.(*ast.Ident).Name] = kv.Value
		}
	}
	fieldOfP := func(e ast.Expr, name string) bool {
		x, f, ok := astx.FieldSel(cinfo, e)
		return ok && f.Name() == name && astx.IdentObj(cinfo, x) == p
	}
	s.Check(vals["Concurrency"] != nil && fieldOfP(vals["Concurrency"], "Concurrency"), "S29", "NewScheduler|Concurrency forwarded", r.repo.Rel(lit.Pos()), "", "SchedulerParams.Concurrency is not forwarded to scheduler.Config")
	s.Check(vals["ContinueOnError"] != nil && fieldOfP(vals["ContinueOnError"], "ContinueOnError"), "S29", "NewScheduler|ContinueOnError forwarded", r.repo.Rel(lit.Pos()), "", "SchedulerParams.ContinueOnError is not forwarded to scheduler.Config")
	em := false
	var adaptFn *types.Func
	if c, ok := vals["Emitter"].(*ast.CallExpr); ok && len(c.Args) == 1 && fieldOfP(c.Args[0], "Emitter") {
		em = true
		adaptFn = astx.Callee(cinfo, c)
	} else if vals["Emitter"] != nil && fieldOfP(vals["Emitter"], "Emitter") {
		em = true
	}
	s.Check(em, "S29", "NewScheduler|Emitter forwarded", r.repo.Rel(lit.Pos()), "", "SchedulerParams.Emitter is not forwarded (through the adapter) to scheduler.Config")
	// the Config built is the one started: `return cfg.New()` / lit.New()
	started := false
	ast.Inspect(ns.Body, func(n ast.Node) bool {
		if ret, ok := n.(*ast.ReturnStmt); ok && len(ret.Results) == 1 {
			if c, ok := ret.Results[0].(*ast.CallExpr); ok {
				if fn := astx.Callee(cinfo, c); fn != nil && fn.FullName() == "("+schedPath+".Config).New" {
					started = true
				}
			}
		}
		return true
	})
	s.Check(started, "S29", "NewScheduler|returns Config.New()", r.repo.Rel(ns.Pos()), "", "NewScheduler does not return the scheduler started from that Config")
	// Config.New: Scheduler literal concurrency/continueOnError (resolved during discovery)
	s.OK("S29", "Config.New|Scheduler{concurrency<-c.Concurrency, continueOnError<-c.ContinueOnError}", r.pos(r.New), "resolved from the composite literal")
	// loop is started with c.Emitter
	emitFwd := false
	ast.Inspect(r.New.Body, func(n ast.Node) bool {
		if g, ok := n.(*ast.GoStmt); ok && astx.DeclOfFunc(r.info, r.pkg.Syntax, astx.Callee(r.info, g.Call)) == r.Loop {
			for _, a := range g.Call.Args {
				if _, f, ok := astx.FieldSel(r.info, a); ok && f == r.cfgEmitter {
					emitFwd = true
				}
			}
		}
		return true
	})
	s.Check(emitFwd, "S29", "Config.New|loop receives c.Emitter", r.pos(r.New), "", "the loop is not started with the configured emitter")

	// L5 adapter
	if adaptFn != nil {
		fd := astx.DeclOfFunc(cinfo, r.cff.Syntax, adaptFn)
		if fd == nil {
			s.Unk("L5", "adapter|decl", "", "adapter function not found")
			return
		}
		// returns: nil or a composite literal of a type whose Emit forwards
		var adapterT *types.Named
		retsOK := true
		ast.Inspect(fd.Body, func(n ast.Node) bool {
			if ret, ok := n.(*ast.ReturnStmt); ok && len(ret.Results) == 1 {
				if astx.IsNil(cinfo, ret.Results[0]) {
					return true
				}
				if cl, ok := ret.Results[0].(*ast.CompositeLit); ok {
					if nt, ok := cinfo.TypeOf(cl).(*types.Named); ok {
						adapterT = nt
						ep := cinfo.Defs[fd.Type.Params.List[0].Names[0]]
						fwd := false
						for _, e := range cl.Elts {
							if kv, ok := e.(*ast.KeyValueExpr); ok && astx.IdentObj(cinfo, kv.Value) == ep {
								fwd = true
							}
						}
						if !fwd {
							retsOK = false
						}
						return true
					}
				}
				retsOK = false
			}
			return true
		})
		s.Check(retsOK && adapterT != nil, "L5", "adapter|returns nil or adapter{emitter: e}", r.repo.Rel(fd.Pos()), "", "adapter does not wrap the given emitter")
		if adapterT != nil {
			em := astx.FindFuncDecl(r.cff.Syntax, adapterT.Obj().Name(), "Emit")
			good := false
			if em != nil && len(em.Body.List) == 1 && len(em.Type.Params.List) == 1 {
				st := cinfo.Defs[em.Type.Params.List[0].Names[0]]
				if es, ok := em.Body.List[0].(*ast.ExprStmt); ok {
					if c, ok := es.X.(*ast.CallExpr); ok && len(c.Args) == 1 {
						arg := astx.Unparen(c.Args[0])
						if conv, ok := arg.(*ast.CallExpr); ok && len(conv.Args) == 1 && cinfo.Types[conv.Fun].IsType() {
							arg = conv.Args[0]
						}
						if astx.IdentObj(cinfo, arg) == st {
							if se, ok := c.Fun.(*ast.SelectorExpr); ok && se.Sel.Name == "EmitScheduler" {
								good = true
							}
						}
					}
				}
			}
			s.Check(good, "L5", "adapter|Emit forwards the state unchanged", r.repo.Rel(adapterT.Obj().Pos()), "", "adapter's Emit does not forward exactly the received state to EmitScheduler")
		}
	}
}

// Rules is the S-rule catalogue.
var Rules = []report.Rule{
	{ID: "S1", Floor: 15, Props: []string{"C12", "C01"}, Text: "loop-owned ScheduledJob fields are accessed only in the scheduler loop goroutine (single exception: the worker reads `invalid` on the job it just received); init fields are never written after construction"},
	{ID: "S2", Floor: 1, Props: []string{"C12", "C01"}, Text: "the worker writes no ScheduledJob field"},
	{ID: "S3", Floor: 3, Props: []string{"C12", "C07"}, Text: "Scheduler.err is written only by the loop and read only by the loop or by Wait after the finish-channel receive"},
	{ID: "S4", Floor: 2, Props: []string{"C12"}, Text: "ScheduledJob has no methods and no exported/embedded fields"},
	{ID: "S5", Floor: 2, Props: []string{"C01", "C02"}, Text: "every insertion into the ready list is dominated by `job.remaining == 0` with no write to remaining in between"},
	{ID: "S6", Floor: 8, Props: []string{"C01", "C03"}, Text: "the only send of a job to workers sends ready.Front(), is enabled only when one was chosen this iteration, and its arm removes exactly that element; all channel sends of the package are classified"},
	{ID: "S7", Floor: 4, Props: []string{"C01", "C05", "C02"}, Text: "remaining is written only as +1 (paired with registration in a not-done dependency's consumer list) and -1 (once per consumer of a finished job, unconditionally)"},
	{ID: "S8", Floor: 3, Props: []string{"C01", "C08", "C05"}, Text: "the result arm marks the finished job done before branching"},
	{ID: "S9", Floor: 7, Props: []string{"C03", "C06"}, Text: "the go statements of packages scheduler and cff are exactly: spawner, loop, N workers in a counted loop, one replacement per dying worker; none is reachable from Enqueue, the loop or Wait"},
	{ID: "S10", Floor: 3, Props: []string{"C03", "C05", "C06"}, Text: "ready channel is unbuffered; result channel capacity is the defaulted Concurrency, the same value that bounds the worker-spawn loop and is reported"},
	{ID: "S11", Floor: 1, Props: []string{"C03"}, Text: "job.run has exactly one call site: a synchronous call in the worker's receive loop"},
	{ID: "S12", Floor: 1, Props: []string{"C03"}, Text: "unset Concurrency defaults to max(GOMAXPROCS(0), 4)"},
	{ID: "S13", Floor: 3, Props: []string{"C09", "C08"}, Text: "job.run is dominated by ctx.Err()==nil and !invalid and receives the job's own context"},
	{ID: "S14", Floor: 5, Props: []string{"C07", "C08", "C05"}, Text: "the worker posts exactly one result per received job: Job = that job, Err ∈ {ctx error, sentinel (iff invalid), value returned by run}"},
	{ID: "S15", Floor: 5, Props: []string{"C03", "C05", "C06"}, Text: "a worker whose goroutine is killed posts a failed result for the current job and starts one replacement; exitCleanly/currentJob are maintained so this happens exactly then"},
	{ID: "S16", Floor: 3, Props: []string{"C05", "C06"}, Text: "the loop unconditionally defers close(finished), close(ready) and a drain of the enqueue channel (and stops its ticker)"},
	{ID: "S17", Floor: 5, Props: []string{"C07", "C05"}, Text: "the loop returns only under (pending==0 && closed) or (job failed && !continueOnError, error stored)"},
	{ID: "S18", Floor: 1, Props: []string{"C05", "C07"}, Text: "a closed enqueue channel only disables the enqueue arm"},
	{ID: "S19", Floor: 2, Props: []string{"C05"}, Text: "the result arm is never disabled; the enqueue arm only after close"},
	{ID: "S20", Floor: 4, Props: []string{"C05", "C07", "C09"}, Text: "Wait closes the enqueue channel, then selects on exactly ctx.Done (→ ctx.Err()) and finished (→ s.err, else ctx.Err())"},
	{ID: "S21", Floor: 2, Props: []string{"C12", "C09", "C05"}, Text: "Enqueue only builds {ctx, run, deps}, sends it and returns it"},
	{ID: "S22", Floor: 4, Props: []string{"C08", "C01"}, Text: "continue mode: job.err recorded first; every consumer invalidated; multierr.Append exactly for non-sentinel errors"},
	{ID: "S23", Floor: 1, Props: []string{"C08", "C01", "C05"}, Text: "a job enqueued after a dependency failed is invalidated and does not wait for it"},
	{ID: "S24", Floor: 3, Props: []string{"C08"}, Text: "the sentinel is unexported and used only by the worker assignment and the loop's filter"},
	{ID: "S25", Floor: 8, Props: []string{"C19"}, Text: "every path through every select arm keeps pending = |ready| + waiting + ongoing; counters start at 0"},
	{ID: "S26", Floor: 5, Props: []string{"C19"}, Text: "State literal: Pending←pending, Ready←ready.Len(), Waiting←waiting, Concurrency←s.concurrency, IdleWorkers←s.concurrency−ongoing"},
	{ID: "S27", Floor: 1, Props: []string{"C06", "C19"}, Text: "dispatch is enabled only while ongoing < concurrency (outstanding results fit the result buffer)"},
	{ID: "S28", Floor: 1, Props: []string{"C19"}, Text: "Emitter.Emit is called only inside the loop body"},
	{ID: "S29", Floor: 6, Props: []string{"C03", "C08", "C19"}, Text: "SchedulerParams → Config → Scheduler forwarding of Concurrency, ContinueOnError, Emitter"},
	{ID: "S30", Floor: 3, Props: []string{"C05", "C09", "C07"}, Text: "every blocking operation of the scheduler loop (outside its deferred closures) is a communication of its single select"},
	{ID: "L5", Floor: 2, Props: []string{"C19"}, Text: "the scheduler-emitter adapter forwards the state unchanged"},
}

// Run executes all S-rules.
func Run(repo *load.Repo, s *report.Sink) error {
	r, err := discover(repo)
	if err != nil {
		return err
	}
	fns := 0
	for _, f := range r.pkg.Syntax {
		for _, d := range f.Decls {
			if _, ok := d.(*ast.FuncDecl); ok {
				fns++
			}
		}
	}
	s.SetFact("sched.functions_analysed", fns)
	s.SetFact("sched.loop", r.pos(r.Loop))
	s.SetFact("sched.worker", r.pos(r.Worker))
	r.ruleOwnership(s)
	r.ruleSealed(s)
	r.ruleAdmissionDispatch(s)
	r.ruleCountdown(s)
	r.ruleSpawn(s)
	r.ruleExitDuties(s)
	r.ruleLoopExits(s)
	r.ruleWaitEnqueue(s)
	r.ruleConservation(s)
	r.ruleState(s)
	r.rulePlumbing(s)
	return nil
}
