package sched

import (
	"fmt"
	"go/ast"
	"go/token"
	"go/types"

	"cffverif/internal/astx"
	"cffverif/internal/report"
)

// sameArgs: call args are exactly the identifiers of objs in order.
func sameArgs(info *types.Info, c *ast.CallExpr, objs ...types.Object) bool {
	if len(c.Args) != len(objs) {
		return false
	}
	for i, a := range c.Args {
		if astx.IdentObj(info, a) != objs[i] {
			return false
		}
	}
	return true
}

// isCfgConc: e is `<recv>.Concurrency` on New's receiver.
func (r *roles) isCfgConc(e ast.Expr) bool {
	x, f, ok := astx.FieldSel(r.info, e)
	if !ok || f != r.cfgConc {
		return false
	}
	recv := r.info.Defs[r.New.Recv.List[0].Names[0]]
	return astx.IdentObj(r.info, x) == recv
}

// S9 spawn sites, S10 capacities, S11 one job at a time, S12 default limit.
func (r *roles) ruleSpawn(s *report.Sink) {
	info := r.info
	workerFn, _ := info.Defs[r.Worker.Name].(*types.Func)
	loopFn, _ := info.Defs[r.Loop.Name].(*types.Func)
	var spawnBound ast.Expr
	for _, p := range []string{schedPath, "go.uber.org/cff"} {
		pk := r.repo.Pkgs[p]
		for _, f := range pk.Syntax {
			par := astx.NewParents(f)
			ast.Inspect(f, func(n ast.Node) bool {
				g, ok := n.(*ast.GoStmt)
				if !ok {
					return true
				}
				fd, _ := r.enclosingDecl(par, pk.TypesInfo, g)
				name := "?"
				if fd != nil {
					name = fd.Name.Name
				}
				callee := astx.Callee(pk.TypesInfo, g.Call)
				encl := par.EnclosingFunc(g)
				switch {
				case pk == r.pkg && fd == r.New && encl == ast.Node(r.New) && g.Call.Fun == ast.Expr(r.Spawner) && par.InLoop(g) == nil:
					s.OK("S9", "New|go spawner", r.pos(g), "one spawner goroutine per scheduler")
				case pk == r.pkg && fd == r.New && encl == ast.Node(r.New) && callee == loopFn && par.InLoop(g) == nil:
					s.OK("S9", "New|go loop", r.pos(g), "one loop goroutine per scheduler")
				case pk == r.pkg && encl == ast.Node(r.Spawner) && callee == workerFn:
					// counted loop 0 <= i < c.Concurrency
					fs, _ := par.InLoop(g).(*ast.ForStmt)
					good := false
					if fs != nil && par[par[fs]] == ast.Node(r.Spawner) {
						if as, ok := fs.Init.(*ast.AssignStmt); ok && len(as.Lhs) == 1 && len(as.Rhs) == 1 && astx.IsIntConst(info, as.Rhs[0], 0) {
							i := astx.IdentObj(info, as.Lhs[0])
							if b, ok := fs.Cond.(*ast.BinaryExpr); ok && b.Op == token.LSS && astx.IdentObj(info, b.X) == i && r.isCfgConc(b.Y) {
								if p, ok := fs.Post.(*ast.IncDecStmt); ok && p.Tok == token.INC && astx.IdentObj(info, p.X) == i {
									w := 0
									astx.Writes(fs.Body, func(l ast.Expr, _ ast.Node) {
										if astx.IdentObj(info, l) == i {
											w++
										}
									})
									nGo := 0
									ast.Inspect(fs.Body, func(n ast.Node) bool {
										if _, ok := n.(*ast.GoStmt); ok {
											nGo++
										}
										return true
									})
									if w == 0 && nGo == 1 && par.InLoop(fs) == nil {
										good = true
										spawnBound = b.Y
									}
								}
							}
						}
					}
					s.Check(good, "S9", "spawner|go worker in counted loop", r.pos(g), "exactly Concurrency workers are started up front", "workers are not started by a loop `for i := 0; i < c.Concurrency; i++` with one `go worker` per iteration")
				case pk == r.pkg && r.WorkerDefer != nil && encl == ast.Node(r.WorkerDefer) && callee == workerFn:
					good := par.InLoop(g) == nil && sameArgs(info, g.Call, r.workerReadyParam, r.workerDoneParam)
					s.Check(good, "S9", "worker death path|go worker", r.pos(g), "a dying worker starts exactly one replacement on the same channels", "replacement worker is started in a loop or on different channels")
				default:
					s.Bad("S9", fmt.Sprintf("%s|unexpected go statement", name), r.repo.Rel(g.Pos()), "a goroutine is started at a site outside the closed list (spawner, loop, N workers, 1-for-1 replacement): goroutine count is no longer bounded by the concurrency limit alone")
				}
				return true
			})
		}
	}
	// no go reachable from Enqueue, loop, Wait (static calls within the module)
	for _, root := range []*ast.FuncDecl{r.Enqueue, r.Loop, r.Wait} {
		seen := map[*ast.FuncDecl]bool{}
		var goAt ast.Node
		var visit func(fd *ast.FuncDecl)
		visit = func(fd *ast.FuncDecl) {
			if fd == nil || seen[fd] || fd.Body == nil {
				return
			}
			seen[fd] = true
			ast.Inspect(fd.Body, func(n ast.Node) bool {
				switch x := n.(type) {
				case *ast.GoStmt:
					goAt = x
				case *ast.CallExpr:
					if fn := astx.Callee(info, x); fn != nil && fn.Pkg() == r.pkg.Types {
						visit(astx.DeclOfFunc(info, r.pkg.Syntax, fn))
					}
				}
				return true
			})
		}
		visit(root)
		s.Check(goAt == nil, "S9", root.Name.Name+"|no go statement reachable", r.pos(root), fmt.Sprintf("%d function(s) reachable by static calls, none starts a goroutine", len(seen)), "a goroutine can be started on the per-job path")
	}

	// S10 capacities
	var readyMake, doneMake *ast.CallExpr
	ast.Inspect(r.New.Body, func(n ast.Node) bool {
		c, ok := n.(*ast.CallExpr)
		if !ok || !astx.IsBuiltin(info, c, "make") {
			return true
		}
		el := chanElemOr(info.TypeOf(c))
		if isPtrTo(el, r.SJ) {
			// which one flows to READY? the variable that the Scheduler literal assigns to fREADY
			if v := r.assignedVar(c); v != nil && r.litValueObj(r.fREADY) == v {
				readyMake = c
			}
		} else if types.Identical(el, r.JobResult) {
			if v := r.assignedVar(c); v != nil && r.litValueObj(r.fDONE) == v {
				doneMake = c
			}
		}
		return true
	})
	if readyMake == nil || doneMake == nil {
		s.Unk("S10", "New|channel construction", r.pos(r.New), "make(chan) for the ready/result channels not traced to the Scheduler literal")
	} else {
		s.Check(len(readyMake.Args) == 1 || astx.IsIntConst(info, readyMake.Args[1], 0), "S10", "New|ready channel unbuffered", r.pos(readyMake), "capacity 0: a dispatched job is held by a live worker, no work is queued past the limit", "ready channel is buffered: jobs are handed out beyond free workers and are lost/run after an early exit")
		s.Check(len(doneMake.Args) == 2 && r.isCfgConc(doneMake.Args[1]), "S10", "New|result channel capacity = Concurrency", r.pos(doneMake), "every worker can post one result without a receiver", "result channel capacity is not the (defaulted) Concurrency: workers can block for ever after the loop exits")
	}
	// the three readers of c.Concurrency come after the defaulting and nothing writes it afterwards
	var defaultIf *ast.IfStmt
	for _, st := range r.New.Body.List {
		if is, ok := st.(*ast.IfStmt); ok {
			if l, k, ok := astx.EqIntConst(info, is.Cond); ok && k == 0 && r.isCfgConc(l) {
				defaultIf = is
			}
		}
	}
	if defaultIf == nil {
		s.Unk("S12", "New|defaulting", r.pos(r.New), "no top-level `if c.Concurrency == 0` in Config.New")
	} else {
		lateWrite := false
		astx.Writes(r.New.Body, func(l ast.Expr, at ast.Node) {
			if r.isCfgConc(l) && (l.Pos() > defaultIf.End() || l.Pos() < defaultIf.Pos()) {
				lateWrite = true
			}
		})
		readsAfter := true
		ast.Inspect(r.New.Body, func(n ast.Node) bool {
			if e, ok := n.(ast.Expr); ok && r.isCfgConc(e) && e.Pos() < defaultIf.Pos() {
				readsAfter = false
			}
			return true
		})
		s.Check(!lateWrite && readsAfter, "S10", "New|one effective Concurrency", r.pos(defaultIf), "worker count, result capacity and Scheduler.concurrency all read c.Concurrency after defaulting, nothing writes it later", "c.Concurrency is read before or written outside the defaulting block: worker count, buffer size and reported concurrency can differ")
		// S12: body = { c.Concurrency = runtime.GOMAXPROCS(0); if c.Concurrency < K { c.Concurrency = K } }, K == 4
		good := false
		msg := "defaulting block is not `c.Concurrency = runtime.GOMAXPROCS(0); if c.Concurrency < 4 { c.Concurrency = 4 }`"
		if len(defaultIf.Body.List) == 2 && defaultIf.Else == nil {
			a, ok1 := defaultIf.Body.List[0].(*ast.AssignStmt)
			i2, ok2 := defaultIf.Body.List[1].(*ast.IfStmt)
			if ok1 && ok2 && len(a.Lhs) == 1 && len(a.Rhs) == 1 && a.Tok == token.ASSIGN && r.isCfgConc(a.Lhs[0]) {
				if c, ok := a.Rhs[0].(*ast.CallExpr); ok {
					if fn := astx.Callee(info, c); fn != nil && fn.FullName() == "runtime.GOMAXPROCS" && len(c.Args) == 1 && astx.IsIntConst(info, c.Args[0], 0) {
						if b, ok := i2.Cond.(*ast.BinaryExpr); ok && b.Op == token.LSS && r.isCfgConc(b.X) && astx.IsIntConst(info, b.Y, 4) && i2.Else == nil && len(i2.Body.List) == 1 {
							if a2, ok := i2.Body.List[0].(*ast.AssignStmt); ok && len(a2.Lhs) == 1 && len(a2.Rhs) == 1 && r.isCfgConc(a2.Lhs[0]) && astx.IsIntConst(info, a2.Rhs[0], 4) {
								good = true
							}
						}
					}
				}
			}
		} else if len(defaultIf.Body.List) == 1 {
			// c.Concurrency = max(runtime.GOMAXPROCS(0), 4)
			if a, ok := defaultIf.Body.List[0].(*ast.AssignStmt); ok && len(a.Rhs) == 1 && r.isCfgConc(a.Lhs[0]) {
				if c, ok := a.Rhs[0].(*ast.CallExpr); ok && astx.IsBuiltin(info, c, "max") && len(c.Args) == 2 {
					for i := 0; i < 2; i++ {
						if c2, ok := c.Args[i].(*ast.CallExpr); ok {
							if fn := astx.Callee(info, c2); fn != nil && fn.FullName() == "runtime.GOMAXPROCS" && astx.IsIntConst(info, c.Args[1-i], 4) {
								good = true
							}
						}
					}
				}
			}
		}
		s.Check(good, "S12", "New|default = max(GOMAXPROCS, 4)", r.pos(defaultIf), "unset Concurrency defaults to max(GOMAXPROCS(0), 4); a set value is used unchanged", msg)
	}
	_ = spawnBound

	// S11
	var runCalls []*ast.CallExpr
	ast.Inspect(r.pkgNode(), func(n ast.Node) bool {
		c, ok := n.(*ast.CallExpr)
		if !ok {
			return true
		}
		if _, f, ok := astx.FieldSel(info, c.Fun); ok && f == r.sjRun {
			runCalls = append(runCalls, c)
		}
		return true
	})
	if len(runCalls) != 1 {
		s.Bad("S11", "worker|single call of job.run", r.pos(r.Worker), fmt.Sprintf("%d call sites of ScheduledJob.run (want exactly 1, in the worker)", len(runCalls)))
		return
	}
	rc := runCalls[0]
	fd, _ := r.enclosingDecl(r.par, info, rc)
	_, isGo := r.par[rc].(*ast.GoStmt)
	_, isDefer := r.par[rc].(*ast.DeferStmt)
	rs, _ := r.par.InLoop(rc).(*ast.RangeStmt)
	base, _, _ := astx.FieldSel(info, rc.Fun)
	good := fd == r.Worker && !isGo && !isDefer && r.par.EnclosingFunc(rc) == ast.Node(r.Worker) && rs != nil && astx.IdentObj(info, rs.X) == r.workerReadyParam && astx.IdentObj(info, base) == r.workerJob
	s.Check(good, "S11", "worker|job.run called synchronously once per received job", r.pos(rc), "plain call inside the range over the ready channel", "job.run is not a plain synchronous call on the received job inside the worker's receive loop (go/defer/nested closure/other function)")

	// S13 gates before run
	conds := r.par.Known(rc, r.Worker)
	ctxOK := hasCond(conds, true, func(e ast.Expr) bool {
		x, ok := astx.EqNil(info, e)
		if !ok {
			return false
		}
		return r.isJobCtxErr(r.resolveInit(x, conds))
	})
	s.Check(ctxOK != nil, "S13", "worker|run dominated by ctx.Err() == nil", r.pos(rc), "a job whose context is already done is not started", "job.run is reachable without a dominating `j.ctx.Err() == nil` test: tasks start after cancellation")
	inv := hasCond(conds, false, func(e ast.Expr) bool { return astx.IsFieldOf(info, e, r.workerJob, r.sjInvalid) })
	s.Check(inv != nil, "S13", "worker|run dominated by !invalid", r.pos(rc), "an invalidated job is not started", "job.run is reachable for an invalidated job: tasks downstream of a failure run under ContinueOnError")
	s.Check(len(rc.Args) == 1 && astx.IsFieldOf(info, rc.Args[0], r.workerJob, r.sjCtx), "S13", "worker|run receives the job's own ctx", r.pos(rc), "run(j.ctx)", "job.run is not called with the context given to Enqueue")
	r.ruleWorkerResult(s, rc, rs)
}

// resolveInit: if e is an identifier defined in the Init of the if statement that tested it, return the init expression.
func (r *roles) resolveInit(e ast.Expr, conds []astx.Cond) ast.Expr {
	obj := astx.IdentObj(r.info, e)
	if obj == nil {
		return e
	}
	d := r.declNode(obj)
	if d == nil {
		return e
	}
	if as, ok := r.par[d].(*ast.AssignStmt); ok && as.Tok == token.DEFINE && len(as.Lhs) == 1 && len(as.Rhs) == 1 {
		// single definition, never reassigned
		n := 0
		astx.Writes(r.par.EnclosingFunc(d), func(l ast.Expr, _ ast.Node) {
			if astx.IdentObj(r.info, l) == obj {
				n++
			}
		})
		if n == 1 {
			return as.Rhs[0]
		}
	}
	return e
}

func (r *roles) isJobCtxErr(e ast.Expr) bool {
	c, ok := astx.Unparen(e).(*ast.CallExpr)
	if !ok || len(c.Args) != 0 {
		return false
	}
	se, ok := c.Fun.(*ast.SelectorExpr)
	if !ok || se.Sel.Name != "Err" {
		return false
	}
	return astx.IsFieldOf(r.info, se.X, r.workerJob, r.sjCtx)
}

// assignedVar: the variable that a `x := <call>` defines.
func (r *roles) assignedVar(c *ast.CallExpr) types.Object {
	if as, ok := r.par[c].(*ast.AssignStmt); ok && len(as.Lhs) == 1 && len(as.Rhs) == 1 {
		return astx.IdentObj(r.info, as.Lhs[0])
	}
	return nil
}

// litValueObj: object of the identifier assigned to field f in New's Scheduler literal.
func (r *roles) litValueObj(f *types.Var) types.Object {
	var out types.Object
	ast.Inspect(r.New.Body, func(n ast.Node) bool {
		cl, ok := n.(*ast.CompositeLit)
		if !ok || !types.Identical(r.info.TypeOf(cl), r.Sched) {
			return true
		}
		for _, e := range cl.Elts {
			if kv, ok := e.(*ast.KeyValueExpr); ok && r.info.Uses[kv.Key.(*ast.Ident)] == types.Object(f) {
				out = astx.IdentObj(r.info, kv.Value)
			}
		}
		return true
	})
	return out
}

// S14 result integrity, S15 death path, S24 sentinel confinement.
func (r *roles) ruleWorkerResult(s *report.Sink, rc *ast.CallExpr, rs *ast.RangeStmt) {
	info := r.info
	if rs == nil {
		return
	}
	// the send in the loop
	var sends []*ast.SendStmt
	ast.Inspect(rs.Body, func(n ast.Node) bool {
		if _, ok := n.(*ast.FuncLit); ok {
			return false
		}
		if ss, ok := n.(*ast.SendStmt); ok {
			sends = append(sends, ss)
		}
		return true
	})
	if len(sends) != 1 || r.par[r.par[sends[0]]] != ast.Node(rs) || astx.IdentObj(info, sends[0].Chan) != r.workerDoneParam || sends[0].Pos() < rc.End() {
		s.Bad("S14", "worker|one unconditional result per received job", r.pos(rs), "the worker loop does not post exactly one result, unconditionally, after the job ran, on its result channel (lost or duplicated results break termination and exactly-once accounting)")
		return
	}
	s.OK("S14", "worker|one unconditional result per received job", r.pos(sends[0]), "single send at the end of each iteration")
	res := astx.IdentObj(info, sends[0].Value)
	if res == nil {
		s.Unk("S14", "worker|result value", r.pos(sends[0]), "sent value is not a local variable")
		return
	}
	// declaration: res := jobResult{Job: j}
	declOK := false
	if as, ok := r.par[r.declNode(res)].(*ast.AssignStmt); ok && len(as.Rhs) == 1 {
		if cl, ok := as.Rhs[0].(*ast.CompositeLit); ok && types.Identical(info.TypeOf(cl), r.JobResult) {
			declOK = true
			seenJob := false
			for _, e := range cl.Elts {
				kv, ok := e.(*ast.KeyValueExpr)
				if !ok {
					declOK = false
					continue
				}
				k := info.Uses[kv.Key.(*ast.Ident)]
				if k == types.Object(r.jrJob) {
					seenJob = astx.IdentObj(info, kv.Value) == r.workerJob
				} else if k == types.Object(r.jrErr) && !astx.IsNil(info, kv.Value) {
					declOK = false
				}
			}
			declOK = declOK && seenJob
		}
	}
	s.Check(declOK, "S14", "worker|result.Job is the received job", r.pos(sends[0]), "res := jobResult{Job: j}", "result is not initialised as jobResult{Job: <received job>}")
	// writes to res / res.*
	var sentinel types.Object
	astx.Writes(rs.Body, func(l ast.Expr, at ast.Node) {
		if astx.IdentObj(info, l) == res {
			if as, ok := at.(*ast.AssignStmt); ok && as.Tok == token.DEFINE {
				return
			}
			s.Bad("S14", "worker|result overwritten", r.pos(at), "result variable reassigned")
			return
		}
		b, f, ok := astx.FieldSel(info, l)
		if !ok || astx.IdentObj(info, b) != res {
			return
		}
		as, ok := at.(*ast.AssignStmt)
		if !ok || f != r.jrErr || len(as.Rhs) != 1 {
			s.Bad("S14", "worker|result field write", r.pos(at), "result.Job (or an unknown field) is modified after initialisation")
			return
		}
		rhs := astx.Unparen(as.Rhs[0])
		conds := r.par.Known(at, rs)
		switch {
		case rhs == ast.Expr(rc):
			s.OK("S14", "worker|Err = value returned by run", r.pos(at), "the job's own error, unwrapped")
		case r.isJobCtxErr(r.resolveInit(rhs, conds)):
			s.OK("S14", "worker|Err = ctx error", r.pos(at), "context error for a job not started")
		default:
			if v, ok := astx.IdentObj(info, rhs).(*types.Var); ok && v.Parent() == r.pkg.Types.Scope() && isErrorType(v.Type()) {
				sentinel = v
				c := hasCond(conds, true, func(e ast.Expr) bool { return astx.IsFieldOf(info, e, r.workerJob, r.sjInvalid) })
				s.Check(c != nil, "S14", "worker|Err = sentinel only for invalid jobs", r.pos(at), "sentinel marks exactly the invalidated jobs", "sentinel error assigned on a path not guarded by j.invalid")
			} else {
				s.Bad("S14", "worker|Err = something else", r.pos(at), "result error is neither the ctx error, the sentinel, nor the value returned by run (wrapping or replacing the user's error breaks errors.Is)")
			}
		}
	})
	// S24 sentinel confinement: filter in the loop is found by S22; here: all uses.
	if sentinel == nil {
		s.Unk("S24", "sentinel|identification", r.pos(r.Worker), "no package-level sentinel error assigned for invalid jobs")
	} else {
		s.Check(!sentinel.Exported(), "S24", "sentinel|unexported", "", "the sentinel cannot be produced or observed by users", "sentinel is exported")
		for _, p := range r.repo.Pkgs {
			for id, o := range p.TypesInfo.Uses {
				if o != sentinel {
					continue
				}
				par := r.par
				fd, _ := r.enclosingDecl(par, info, id)
				good := false
				why := ""
				if fd == r.Worker {
					if as, ok := par[id].(*ast.AssignStmt); ok && len(as.Rhs) == 1 && as.Rhs[0] == ast.Expr(id) {
						good, why = true, "worker assigns it to the result"
					}
				} else if fd == r.Loop {
					if c, ok := par[id].(*ast.CallExpr); ok {
						if fn := astx.Callee(info, c); fn != nil && fn.FullName() == "errors.Is" && len(c.Args) == 2 && c.Args[1] == ast.Expr(id) {
							good, why = true, "loop filters it with errors.Is"
						}
					}
				}
				name := "?"
				if fd != nil {
					name = fd.Name.Name
				}
				s.Check(good, "S24", "sentinel|use in "+name, r.repo.Rel(id.Pos()), why, "sentinel used outside the worker assignment / the loop's filter: it can leak into the returned error")
			}
		}
	}

	// S15 death path
	if r.WorkerDefer == nil {
		s.Bad("S15", "worker|death path", r.pos(r.Worker), "worker has no deferred closure: a job that kills its goroutine (runtime.Goexit) loses its result and a worker")
		return
	}
	// it must be the first statement that can run (registered before the loop)
	first := false
	for _, st := range r.Worker.Body.List {
		if d, ok := st.(*ast.DeferStmt); ok && d.Call.Fun == ast.Expr(r.WorkerDefer) {
			first = true
			break
		}
		if _, ok := st.(*ast.DeclStmt); ok {
			continue
		}
		break
	}
	s.Check(first, "S15", "worker|death handler registered first", r.pos(r.WorkerDefer), "deferred before the receive loop", "death handler is not registered before the receive loop")
	var exitObj, curObj types.Object
	var dsend *ast.SendStmt
	var dgo *ast.GoStmt
	ast.Inspect(r.WorkerDefer.Body, func(n ast.Node) bool {
		switch x := n.(type) {
		case *ast.SendStmt:
			dsend = x
		case *ast.GoStmt:
			dgo = x
		}
		return true
	})
	if dsend == nil || dgo == nil {
		s.Bad("S15", "worker|death path posts and respawns", r.pos(r.WorkerDefer), "death handler lacks the result post or the replacement worker")
		return
	}
	conds := r.par.Known(dsend, r.WorkerDefer)
	for _, c := range conds {
		if !c.Pos {
			if o := astx.IdentObj(info, c.E); o != nil && types.Identical(o.Type(), types.Typ[types.Bool]) {
				exitObj = o
			}
		}
	}
	gconds := r.par.Known(dgo, r.WorkerDefer)
	s.Check(exitObj != nil && len(conds) == 1 && len(gconds) == 1 && dsend.Pos() < dgo.Pos() && astx.IdentObj(info, dsend.Chan) == r.workerDoneParam, "S15", "worker|death path guarded by !exitCleanly only", r.pos(dsend), "on abnormal exit: post a result, then start a replacement", "death path is not `if exitCleanly { return }; donec <- ...; go worker(...)`")
	if cl, ok := dsend.Value.(*ast.CompositeLit); ok && types.Identical(info.TypeOf(cl), r.JobResult) {
		okJob, okErr := false, false
		for _, e := range cl.Elts {
			if kv, ok := e.(*ast.KeyValueExpr); ok {
				switch info.Uses[kv.Key.(*ast.Ident)] {
				case types.Object(r.jrJob):
					curObj = astx.IdentObj(info, kv.Value)
					okJob = curObj != nil
				case types.Object(r.jrErr):
					if c, ok := kv.Value.(*ast.CallExpr); ok {
						if fn := astx.Callee(info, c); fn != nil && (fn.FullName() == "errors.New" || fn.FullName() == "fmt.Errorf") {
							okErr = true
						}
					}
				}
			}
		}
		s.Check(okJob && okErr, "S15", "worker|death result = {current job, non-nil error}", r.pos(dsend), "the job that killed the goroutine is reported as failed", "death-path result lacks the current job or a non-nil error (a Goexit'd task would count as success or never finish)")
	} else {
		s.Unk("S15", "worker|death result literal", r.pos(dsend), "posted value is not a jobResult literal")
	}
	if exitObj != nil {
		n, good := 0, true
		astx.Writes(r.Worker.Body, func(l ast.Expr, at ast.Node) {
			if astx.IdentObj(info, l) != exitObj {
				return
			}
			n++
			as, ok := at.(*ast.AssignStmt)
			if !ok || len(as.Rhs) != 1 || !astx.IsBoolConst(info, as.Rhs[0], true) || r.par[r.par[at]] != ast.Node(r.Worker) || at.Pos() < rs.End() {
				good = false
			}
		})
		s.Check(good && n == 1, "S15", "worker|exitCleanly set only after the receive loop ended", r.pos(r.Worker), "set true once, after the range over the ready channel", "exitCleanly can be true while a job is running: a Goexit would be treated as clean exit (lost worker, lost result)")
	}
	if curObj != nil {
		var setJ, setNil ast.Node
		bad := false
		astx.Writes(r.Worker.Body, func(l ast.Expr, at ast.Node) {
			if astx.IdentObj(info, l) != curObj {
				return
			}
			as, ok := at.(*ast.AssignStmt)
			if !ok || len(as.Rhs) != 1 || r.par[r.par[at]] != ast.Node(rs) {
				bad = true
				return
			}
			switch {
			case astx.IdentObj(info, as.Rhs[0]) == r.workerJob && at.End() < rc.Pos():
				setJ = at
			case astx.IsNil(info, as.Rhs[0]) && at.Pos() > rc.End() && at.End() < sends[0].Pos():
				setNil = at
			default:
				bad = true
			}
		})
		s.Check(!bad && setJ != nil && setNil != nil, "S15", "worker|currentJob tracks the running job", r.pos(rs), "currentJob = j before run, nil after run and before the normal post", "currentJob is not (only) set to the received job before run and cleared between run and the normal result post: the death path would report the wrong job or one job twice")
	}
}

// S16 exit duties.
func (r *roles) ruleExitDuties(s *report.Sink) {
	info := r.info
	var closeFin, closeReady, drain, tickerStop bool
	var tickerNew ast.Node
	selfField := func(e ast.Expr, f *types.Var) bool {
		_, v, ok := astx.FieldSel(info, e)
		return ok && v == f
	}
	for _, st := range r.Loop.Body.List {
		if st == ast.Stmt(r.mainFor) {
			break
		}
		if _, ok := st.(*ast.ReturnStmt); ok {
			break
		}
		ast.Inspect(st, func(n ast.Node) bool {
			if c, ok := n.(*ast.CallExpr); ok {
				if fn := astx.Callee(info, c); fn != nil && fn.FullName() == "time.NewTicker" {
					tickerNew = c
				}
			}
			return true
		})
		d, ok := st.(*ast.DeferStmt)
		if !ok {
			// defers nested in `if emitter != nil {` for the ticker
			if is, ok := st.(*ast.IfStmt); ok {
				for _, b := range is.Body.List {
					if d2, ok := b.(*ast.DeferStmt); ok {
						if fn := astx.Callee(info, d2.Call); fn != nil && fn.FullName() == "(*time.Ticker).Stop" {
							tickerStop = true
						}
					}
				}
			}
			continue
		}
		if astx.IsBuiltin(info, d.Call, "close") && len(d.Call.Args) == 1 {
			if selfField(d.Call.Args[0], r.fFIN) {
				closeFin = true
			}
			if selfField(d.Call.Args[0], r.fREADY) {
				closeReady = true
			}
		}
		if fn := astx.Callee(info, d.Call); fn != nil && fn.FullName() == "(*time.Ticker).Stop" {
			tickerStop = true
		}
		if lit, ok := d.Call.Fun.(*ast.FuncLit); ok {
			for _, b := range lit.Body.List {
				if rs, ok := b.(*ast.RangeStmt); ok && selfField(rs.X, r.fENQ) {
					clean := true
					ast.Inspect(rs.Body, func(n ast.Node) bool {
						switch x := n.(type) {
						case *ast.SendStmt, *ast.ReturnStmt, *ast.GoStmt:
							clean = false
						case *ast.BranchStmt:
							if x.Tok == token.BREAK {
								clean = false
							}
						}
						return true
					})
					if clean && len(r.par.Known(rs, lit)) == 0 {
						drain = true
					}
				}
			}
		}
	}
	s.Check(closeFin, "S16", "loop|defer close(finished)", r.pos(r.Loop), "Wait is released on every exit of the loop (incl. panics)", "the finish channel is not closed by an unconditional top-level defer: Wait can block for ever")
	s.Check(closeReady, "S16", "loop|defer close(ready)", r.pos(r.Loop), "idle workers terminate on every exit of the loop", "the ready channel is not closed by an unconditional top-level defer: workers leak")
	s.Check(drain, "S16", "loop|deferred drain of the enqueue channel", r.pos(r.Loop), "Enqueue calls issued after an early exit still complete", "no unconditional deferred `for range s.enqueuec {}`: Enqueue blocks for ever after a fail-fast exit")
	if tickerNew != nil {
		s.Check(tickerStop, "S16", "loop|ticker stopped", r.pos(tickerNew), "ticker is stopped on exit", "time.NewTicker without deferred Stop: ticker leaks per directive")
	}
}
