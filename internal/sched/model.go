// Package sched implements the S-rules (DESIGN §4.1): structural rules on
// package go.uber.org/cff/scheduler and the plumbing in package cff.
//
// The rules are evaluated on the SSA form of the packages (go/ssa): values are
// identified by def-use, conditions by the conditional edges that dominate a
// block, loops by their natural-loop structure. Syntactic variation inside a
// function (if/else vs switch, early continue, De Morgan, nested ifs vs &&,
// local aliases, struct literal vs field assignments, range vs index loops)
// therefore does not change a verdict. Helper functions that are called from
// exactly one site of the scheduler-loop goroutine are analysed in the context
// of that call site (parameters bound to the arguments, guards and select arm
// inherited from the call).
package sched

import (
	"fmt"
	"go/token"
	"go/types"
	"sort"
	"strings"

	"cffverif/internal/load"
	"cffverif/internal/ssax"

	"golang.org/x/tools/go/ssa"
)

const schedPath = load.Module + "/scheduler"

type arm struct {
	idx    int
	kind   string // "dispatch", "enqueue", "result", "other"
	name   string
	state  *ssa.SelectState
	entry  *ssa.BasicBlock // first block executed when this state was chosen
	test   *ssa.BasicBlock // block ending in `if index == k`
	recv   ssa.Value       // received value (Extract), nil for sends or unused
	member map[*ssa.BasicBlock]bool
}

type model struct {
	repo *load.Repo
	prog *ssa.Program
	pkg  *ssa.Package
	cffp *ssa.Package
	tpkg *types.Package

	SJ, Sched, JobT, Config, State, JobResult *types.Named
	EmitterIface                              *types.Named

	fENQ, fREADY, fDONE, fFIN, fErr, fConc, fCOE                             *types.Var
	sjCtx, sjRun, sjDeps, sjRemaining, sjConsumers, sjDone, sjErr, sjInvalid *types.Var
	jrJob, jrErr                                                             *types.Var
	jobRun, jobDeps                                                          *types.Var
	cfgConc, cfgCOE, cfgEmitter                                              *types.Var

	fnNew, fnEnqueue, fnWait, fnLoop, fnWorker, fnSpawner, fnWorkerDefer *ssa.Function

	funcs []*ssa.Function // all source functions of package scheduler (incl. anonymous)

	// loop model
	sel           *ssa.Select
	header        *ssa.BasicBlock
	loopBlocks    map[*ssa.BasicBlock]bool
	arms          []*arm
	armReady      *arm
	armEnq        *arm
	armDone       *arm
	enqOK         ssa.Value
	readyList     ssa.Value
	cPending      *counter
	cOngoing      *counter
	cWaiting      *counter
	counters      []*counter
	onceMemo      map[string]ssa.Value // address key of a loop-local cell written exactly once -> the value stored
	containedMemo map[*ssa.Alloc]bool
	extraLists    []*ssa.Call // list.New() calls inside the loop besides the ready list's
	enqPhi        ssa.Value   // loop-carried local enqueue channel (phi) or the direct load
	enqDirect     bool        // the enqueue arm receives from that value itself (not from something gated further)
	emitCall      ssa.CallInstruction
	counterErr    string    // why the loop-carried counters could not be identified ("" if they were)
	stateVal      ssa.Value // the State value whose fields identify the counters (nil: identified structurally)

	// worker model
	wRecv    *ssa.UnOp // <-readyc, ok
	wJob     ssa.Value
	wOK      ssa.Value
	wReadyP  *ssa.Parameter
	wDoneP   *ssa.Parameter
	wLoopHdr *ssa.BasicBlock

	// calling contexts
	site     map[*ssa.Function]ssa.CallInstruction // unique plain call site of a package function
	bindSite map[*ssa.Function]ssa.CallInstruction // unique call site of any kind (call, go, defer): parameters are bound to its arguments
	refs     map[*ssa.Function]int                 // number of references of any kind
	loopOnly map[*ssa.Function]bool

	keyMemo   map[ssa.Value]string
	guardMemo map[*ssa.BasicBlock][]atom
	tloops    map[*ssa.BasicBlock]*tloop
	initMemo  map[*ssa.Alloc]map[*types.Var]ssa.Value // localInit

}

func (m *model) pos(p token.Pos) string { return m.repo.Rel(p) }

func (m *model) ipos(in ssa.Instruction) string {
	if in == nil {
		return ""
	}
	if p := in.Pos(); p.IsValid() {
		return m.pos(p)
	}
	// fall back to any positioned instruction of the block, then the function
	for _, x := range in.Block().Instrs {
		if p := x.Pos(); p.IsValid() {
			return m.pos(p)
		}
	}
	return m.pos(in.Parent().Pos())
}

func (m *model) bpos(b *ssa.BasicBlock) string {
	for _, x := range b.Instrs {
		if p := x.Pos(); p.IsValid() {
			return m.pos(p)
		}
	}
	return m.pos(b.Parent().Pos())
}

func named(p *types.Package, name string) *types.Named {
	o := p.Scope().Lookup(name)
	if o == nil {
		return nil
	}
	n, _ := o.Type().(*types.Named)
	return n
}

func structOf(n *types.Named) *types.Struct {
	if n == nil {
		return nil
	}
	s, _ := n.Underlying().(*types.Struct)
	return s
}

// fields lists the fields of s that satisfy pred; the fields of embedded structs count as fields of s.
func fields(s *types.Struct, pred func(*types.Var) bool) []*types.Var {
	var out []*types.Var
	for _, f := range flatFields(s, 0) {
		if pred(f) {
			out = append(out, f)
		}
	}
	return out
}

func flatFields(s *types.Struct, depth int) []*types.Var {
	var out []*types.Var
	for i := 0; i < s.NumFields(); i++ {
		f := s.Field(i)
		if es, ok := f.Type().Underlying().(*types.Struct); ok && ssax.Grouping(f) && depth < 3 {
			out = append(out, flatFields(es, depth+1)...)
			continue
		}
		out = append(out, f)
	}
	return out
}

func pick(cands []*types.Var, hint string) *types.Var {
	if len(cands) == 1 {
		return cands[0]
	}
	for _, c := range cands {
		if c.Name() == hint {
			return c
		}
	}
	return nil
}

func isPtrTo(t types.Type, n *types.Named) bool {
	p, ok := t.(*types.Pointer)
	return ok && types.Identical(p.Elem(), n)
}

func chanElem(t types.Type) types.Type {
	if t == nil {
		return nil
	}
	c, ok := t.Underlying().(*types.Chan)
	if !ok {
		return nil
	}
	return c.Elem()
}

func chanElemOr(t types.Type) types.Type {
	if e := chanElem(t); e != nil {
		return e
	}
	return types.Typ[types.Invalid]
}

func isErrorType(t types.Type) bool {
	return types.Identical(t, types.Universe.Lookup("error").Type())
}

func isContext(t types.Type) bool {
	n, ok := t.(*types.Named)
	return ok && n.Obj().Pkg() != nil && n.Obj().Pkg().Path() == "context" && n.Obj().Name() == "Context"
}

func isBool(t types.Type) bool {
	b, ok := t.Underlying().(*types.Basic)
	return ok && b.Kind() == types.Bool
}

func isInt(t types.Type) bool {
	b, ok := t.Underlying().(*types.Basic)
	return ok && b.Info()&types.IsInteger != 0
}

// fieldOfStruct reports whether f is a field of the struct type named n.
func fieldOfStruct(n *types.Named, f *types.Var) bool {
	st := structOf(n)
	if st == nil {
		return false
	}
	for _, sf := range flatFields(st, 0) {
		if sf == f {
			return true
		}
	}
	return false
}

// method returns the SSA function of a declared method.
func (m *model) method(n *types.Named, ptr bool, name string) *ssa.Function {
	var t types.Type = n
	if ptr {
		t = types.NewPointer(n)
	}
	sel := m.prog.MethodSets.MethodSet(t).Lookup(n.Obj().Pkg(), name)
	if sel == nil {
		return nil
	}
	return m.prog.MethodValue(sel)
}

// discover resolves all roles; any failure is an error (=> undecided).
func discover(repo *load.Repo) (*model, error) {
	repo.BuildSSA()
	m := &model{repo: repo, prog: repo.Prog, keyMemo: map[ssa.Value]string{}, guardMemo: map[*ssa.BasicBlock][]atom{}, tloops: map[*ssa.BasicBlock]*tloop{}}
	m.pkg = repo.SSA[schedPath]
	m.cffp = repo.SSA[load.Module]
	if m.pkg == nil || m.cffp == nil {
		return nil, fmt.Errorf("packages scheduler/cff not loaded")
	}
	tp := m.pkg.Pkg
	m.tpkg = tp
	m.SJ, m.Sched, m.JobT, m.Config, m.State, m.EmitterIface = named(tp, "ScheduledJob"), named(tp, "Scheduler"), named(tp, "Job"), named(tp, "Config"), named(tp, "State"), named(tp, "Emitter")
	for n, t := range map[string]*types.Named{"ScheduledJob": m.SJ, "Scheduler": m.Sched, "Job": m.JobT, "Config": m.Config, "State": m.State, "Emitter": m.EmitterIface} {
		if t == nil {
			return nil, fmt.Errorf("public type scheduler.%s not found", n)
		}
	}
	ss, sj, jb, cf := structOf(m.Sched), structOf(m.SJ), structOf(m.JobT), structOf(m.Config)
	if ss == nil || sj == nil || jb == nil || cf == nil || structOf(m.State) == nil {
		return nil, fmt.Errorf("Scheduler/ScheduledJob/Job/Config/State is not a struct")
	}
	for _, sf := range flatFields(ss, 0) {
		if e := chanElem(sf.Type()); e != nil {
			if n, ok := e.(*types.Named); ok {
				if st := structOf(n); st != nil && len(fields(st, func(v *types.Var) bool { return isPtrTo(v.Type(), m.SJ) })) == 1 &&
					len(fields(st, func(v *types.Var) bool { return isErrorType(v.Type()) })) == 1 {
					m.JobResult = n
					m.fDONE = sf
				}
			}
		}
	}
	if m.JobResult == nil {
		return nil, fmt.Errorf("no result channel (chan of struct{*ScheduledJob; error}) among Scheduler fields")
	}
	jr := structOf(m.JobResult)
	m.jrJob = fields(jr, func(v *types.Var) bool { return isPtrTo(v.Type(), m.SJ) })[0]
	m.jrErr = fields(jr, func(v *types.Var) bool { return isErrorType(v.Type()) })[0]
	m.fFIN = pick(fields(ss, func(v *types.Var) bool {
		e := chanElem(v.Type())
		if e == nil {
			return false
		}
		st, ok := e.Underlying().(*types.Struct)
		return ok && st.NumFields() == 0
	}), "finishedc")
	m.fErr = pick(fields(ss, func(v *types.Var) bool { return isErrorType(v.Type()) }), "err")
	if m.fFIN == nil || m.fErr == nil {
		return nil, fmt.Errorf("finish channel / error field of Scheduler not identified")
	}
	m.jobRun = pick(fields(jb, func(v *types.Var) bool { _, ok := v.Type().Underlying().(*types.Signature); return ok }), "Run")
	m.jobDeps = pick(fields(jb, func(v *types.Var) bool {
		s, ok := v.Type().Underlying().(*types.Slice)
		return ok && isPtrTo(s.Elem(), m.SJ)
	}), "Dependencies")
	m.cfgConc = pick(fields(cf, func(v *types.Var) bool { return v.Name() == "Concurrency" }), "Concurrency")
	m.cfgCOE = pick(fields(cf, func(v *types.Var) bool { return v.Name() == "ContinueOnError" }), "ContinueOnError")
	m.cfgEmitter = pick(fields(cf, func(v *types.Var) bool { return v.Name() == "Emitter" }), "Emitter")
	if m.jobRun == nil || m.jobDeps == nil || m.cfgConc == nil || m.cfgCOE == nil || m.cfgEmitter == nil {
		return nil, fmt.Errorf("public fields Job.Run/Job.Dependencies/Config.Concurrency/Config.ContinueOnError/Config.Emitter not all found")
	}
	m.fnNew = m.method(m.Config, false, "New")
	m.fnEnqueue = m.method(m.Sched, true, "Enqueue")
	m.fnWait = m.method(m.Sched, true, "Wait")
	if m.fnNew == nil || m.fnEnqueue == nil || m.fnWait == nil || m.fnNew.Blocks == nil || m.fnEnqueue.Blocks == nil || m.fnWait.Blocks == nil {
		return nil, fmt.Errorf("public methods Config.New / Scheduler.Enqueue / Scheduler.Wait not all found")
	}
	m.funcs = load.SourceFuncs(m.pkg)
	m.computeSites()

	// ENQ: the channel field Enqueue sends on.
	ssax.Instrs(m.fnEnqueue, func(in ssa.Instruction) {
		var chans []ssa.Value
		switch x := in.(type) {
		case *ssa.Send:
			chans = append(chans, x.Chan)
		case *ssa.Select:
			for _, st := range x.States {
				if st.Dir == types.SendOnly {
					chans = append(chans, st.Chan)
				}
			}
		}
		for _, ch := range chans {
			if _, f, ok := ssax.FieldLoad(ssax.Unspill(ch)); ok && isPtrTo(chanElemOr(f.Type()), m.SJ) && fieldOfStruct(m.Sched, f) {
				m.fENQ = f
			}
		}
	})
	if m.fENQ == nil {
		// Enqueue delegates the send: the channel field of *ScheduledJob that the loop receives from and nobody else sends on
		for _, f := range flatFields(ss, 0) {
			if isPtrTo(chanElemOr(f.Type()), m.SJ) && (f.Name() == "enqueuec" || m.fENQ == nil && f.Name() != "readyc") {
				m.fENQ = f
			}
		}
	}
	if m.fENQ == nil {
		return nil, fmt.Errorf("Enqueue does not send a *ScheduledJob on a Scheduler channel field")
	}
	m.fREADY = pick(fields(ss, func(v *types.Var) bool { return v != m.fENQ && isPtrTo(chanElemOr(v.Type()), m.SJ) }), "readyc")
	if m.fREADY == nil {
		return nil, fmt.Errorf("ready channel field of Scheduler not identified")
	}
	// LOOP, spawner, WORKER: the functions started with `go` (transitively) from New, told apart by structure:
	// the loop is the *Scheduler method; the worker takes a receive-channel of *ScheduledJob and a
	// send-channel of results; the spawner is whatever starts the workers.
	isWorkerSig := func(f *ssa.Function) bool {
		if f == nil || f.Signature.Recv() != nil || f.Parent() != nil {
			return false
		}
		r, d := false, false
		for _, p := range f.Params {
			el := chanElemOr(p.Type())
			if isPtrTo(el, m.SJ) {
				r = true
			} else if types.Identical(el, m.JobResult) {
				d = true
			}
		}
		if !r || !d {
			return false
		}
		// the worker is the one that receives jobs itself (a spawner only passes the channels on)
		recv := false
		ssax.Instrs(f, func(in ssa.Instruction) {
			if u, ok := in.(*ssa.UnOp); ok && u.Op == token.ARROW && isPtrTo(chanElemOr(u.X.Type()), m.SJ) {
				recv = true
			}
		})
		return recv
	}
	var started []*ssa.Function
	seenF := map[*ssa.Function]bool{}
	var scan func(fn *ssa.Function, depth int)
	scan = func(fn *ssa.Function, depth int) {
		if fn == nil || seenF[fn] || fn.Blocks == nil || depth > 3 {
			return
		}
		seenF[fn] = true
		for _, a := range fn.AnonFuncs {
			_ = a
		}
		ssax.Instrs(fn, func(in ssa.Instruction) {
			g, ok := in.(*ssa.Go)
			if !ok {
				return
			}
			var callee *ssa.Function
			if mc, ok := g.Call.Value.(*ssa.MakeClosure); ok {
				callee, _ = mc.Fn.(*ssa.Function)
			} else {
				callee = g.Call.StaticCallee()
			}
			if callee == nil || callee.Pkg != m.pkg {
				return
			}
			started = append(started, callee)
			if r := callee.Signature.Recv(); r != nil && isPtrTo(r.Type(), m.Sched) {
				m.fnLoop = callee
				return
			}
			if isWorkerSig(callee) {
				m.fnWorker = callee
				if fn != m.fnNew {
					m.fnSpawner = fn
				}
				return
			}
			scan(callee, depth+1)
		})
	}
	scan(m.fnNew, 0)
	if m.fnWorker == nil {
		// not started (transitively) by New: fall back to the unique function of the package with the worker's
		// shape, so that the spawn-site rule (S9) reports where workers are started instead of the whole engine failing
		var cands []*ssa.Function
		for _, f := range m.funcs {
			if isWorkerSig(f) {
				cands = append(cands, f)
			}
		}
		if len(cands) == 1 {
			m.fnWorker = cands[0]
		}
	}
	if m.fnSpawner == nil && m.fnWorker != nil {
		m.fnSpawner = m.fnNew
	}
	if m.fnLoop == nil || m.fnWorker == nil || m.fnLoop.Blocks == nil || m.fnWorker.Blocks == nil {
		return nil, fmt.Errorf("Config.New does not start (with `go`) a *Scheduler method (loop), and no worker function (receiving *ScheduledJob from a channel parameter, posting results) was found")
	}
	// Scheduler fields holding the limit and the error mode: by type (S29 checks how they are fed).
	m.fConc = pick(fields(ss, func(v *types.Var) bool { return types.Identical(v.Type(), types.Typ[types.Int]) }), "concurrency")
	m.fCOE = pick(fields(ss, func(v *types.Var) bool { return types.Identical(v.Type(), types.Typ[types.Bool]) }), "continueOnError")
	if m.fConc == nil || m.fCOE == nil {
		return nil, fmt.Errorf("Scheduler fields for the concurrency limit (int) and the error mode (bool) not identified")
	}
	// ScheduledJob field roles.
	m.sjCtx = pick(fields(sj, func(v *types.Var) bool { return isContext(v.Type()) }), "ctx")
	m.sjRun = pick(fields(sj, func(v *types.Var) bool { _, ok := v.Type().Underlying().(*types.Signature); return ok }), "run")
	m.sjRemaining = pick(fields(sj, func(v *types.Var) bool { return types.Identical(v.Type(), types.Typ[types.Int]) }), "remaining")
	m.sjErr = pick(fields(sj, func(v *types.Var) bool { return isErrorType(v.Type()) }), "err")
	sliceSJ := fields(sj, func(v *types.Var) bool {
		s, ok := v.Type().Underlying().(*types.Slice)
		return ok && isPtrTo(s.Elem(), m.SJ)
	})
	enqFuncs := []*ssa.Function{m.fnEnqueue}
	for fn, c := range m.site {
		if c.Parent() == m.fnEnqueue {
			enqFuncs = append(enqFuncs, fn)
		}
	}
	for _, ef := range enqFuncs {
		ssax.Instrs(ef, func(in ssa.Instruction) {
			if st, ok := in.(*ssa.Store); ok {
				if _, f, ok := ssax.FieldAddrOf(st.Addr); ok {
					for _, s := range sliceSJ {
						if s == f {
							m.sjDeps = f
						}
					}
				}
			}
		})
	}
	for _, s := range sliceSJ {
		if s != m.sjDeps && len(sliceSJ) == 2 {
			m.sjConsumers = s
		}
	}
	// invalid: the bool the worker LOADS from the job it received; done: the other bool the loop sets to true.
	// Any further bool field is an addition: S1 treats unknown fields as loop-owned (fail closed) and reports
	// whoever else touches them, which is more useful than giving up on every rule.
	bools := fields(sj, func(v *types.Var) bool { return types.Identical(v.Type(), types.Typ[types.Bool]) })
	readBools := map[*types.Var]bool{}
	for _, fn := range ssax.WithAnon(m.fnWorker) {
		ssax.Instrs(fn, func(in ssa.Instruction) {
			u, ok := in.(*ssa.UnOp)
			if !ok || u.Op != token.MUL {
				return
			}
			if _, f, ok := ssax.FieldAddrOf(u.X); ok {
				for _, b := range bools {
					if b == f {
						readBools[f] = true
					}
				}
			}
		})
	}
	if len(readBools) == 1 {
		for f := range readBools {
			m.sjInvalid = f
		}
	} else {
		m.sjInvalid = pick(bools, "invalid")
	}
	setTrue := map[*types.Var]bool{}
	for _, fn := range ssax.WithAnon(m.fnLoop) {
		ssax.Instrs(fn, func(in ssa.Instruction) {
			st, ok := in.(*ssa.Store)
			if !ok || !ssax.IsConstBool(st.Val, true) {
				return
			}
			if _, f, ok := ssax.FieldAddrOf(st.Addr); ok {
				for _, b := range bools {
					if b == f && b != m.sjInvalid {
						setTrue[f] = true
					}
				}
			}
		})
	}
	switch {
	case len(setTrue) == 1:
		for f := range setTrue {
			m.sjDone = f
		}
	case len(bools) == 2:
		for _, b := range bools {
			if b != m.sjInvalid {
				m.sjDone = b
			}
		}
	default:
		var rest []*types.Var
		for _, b := range bools {
			if b != m.sjInvalid {
				rest = append(rest, b)
			}
		}
		m.sjDone = pick(rest, "done")
	}
	if m.sjCtx == nil || m.sjRun == nil || m.sjRemaining == nil || m.sjErr == nil || m.sjDeps == nil || m.sjConsumers == nil || m.sjInvalid == nil || m.sjDone == nil {
		return nil, fmt.Errorf("ScheduledJob field roles (ctx, run, deps, remaining, consumers, done, err, invalid) not uniquely identified")
	}
	if err := m.discoverLoop(); err != nil {
		return nil, err
	}
	if err := m.discoverWorker(); err != nil {
		return nil, err
	}
	return m, nil
}

// computeSites: for every package function, its unique plain call site (if it
// is referenced exactly once, by a static synchronous call), and the set of
// functions that only ever run on the scheduler-loop goroutine.
func (m *model) computeSites() {
	m.site = map[*ssa.Function]ssa.CallInstruction{}
	m.bindSite = map[*ssa.Function]ssa.CallInstruction{}
	m.refs = map[*ssa.Function]int{}
	plain := map[*ssa.Function][]ssa.CallInstruction{}
	anyCall := map[*ssa.Function][]ssa.CallInstruction{}
	for _, p := range m.repo.SSA {
		for _, fn := range load.SourceFuncs(p) {
			ssax.Instrs(fn, func(in ssa.Instruction) {
				var ops []*ssa.Value
				for _, op := range in.Operands(ops) {
					if op == nil || *op == nil {
						continue
					}
					callee, ok := (*op).(*ssa.Function)
					if !ok || (callee.Pkg != m.pkg && callee.Pkg != m.cffp) {
						continue
					}
					m.refs[callee]++
					if c, ok := in.(*ssa.Call); ok && c.Call.Value == *op && !c.Call.IsInvoke() {
						plain[callee] = append(plain[callee], c)
					}
					if c, ok := in.(ssa.CallInstruction); ok && c.Common().Value == *op && !c.Common().IsInvoke() {
						anyCall[callee] = append(anyCall[callee], c)
					}
				}
			})
		}
	}
	for fn, cs := range plain {
		if len(cs) == 1 && m.refs[fn] == 1 && fn.Parent() == nil && fn.Blocks != nil {
			if obj := fn.Object(); obj != nil && obj.Exported() {
				continue
			}
			m.site[fn] = cs[0]
		}
	}
	for fn, cs := range anyCall {
		if len(cs) == 1 && m.refs[fn] == 1 && fn.Parent() == nil && fn.Blocks != nil {
			if obj := fn.Object(); obj != nil && obj.Exported() {
				continue
			}
			m.bindSite[fn] = cs[0]
		}
	}
}

// counter is one of the loop's integer counters: a loop-carried SSA value (header phi), or - when the loop keeps
// its bookkeeping in a local struct - a memory cell of the loop function identified by the key of its address.
type counter struct {
	phi  *ssa.Phi
	cell string
	name string
}

// cellKey: the canonical key of the address loaded by v, if v is a load from a local cell of the loop function.
func (m *model) cellKey(v ssa.Value) (string, *ssa.UnOp) {
	// a field of a copy of the whole bookkeeping struct (`n.state(...)` with a value receiver reads
	// (*n).pending): the cell of that field, read when the copy was made
	if f, ok := ssax.Unspill(v).(*ssa.Field); ok {
		if whole, ok := m.resolve(f.X).(*ssa.UnOp); ok && whole.Op == token.MUL {
			if a, ok := whole.X.(*ssa.Alloc); ok && a.Parent() == m.fnLoop && m.contained(a) {
				if st, ok := f.X.Type().Underlying().(*types.Struct); ok {
					return "&(" + m.key(a) + ")." + st.Field(f.Field).Name(), whole
				}
			}
		}
		return "", nil
	}
	u, ok := ssax.Unspill(v).(*ssa.UnOp)
	if !ok || u.Op != token.MUL {
		return "", nil
	}
	// a field of a spilled copy of the whole struct (value receiver / by-value parameter of a single-site helper)
	if fa, ok := u.X.(*ssa.FieldAddr); ok {
		if cp, ok := fa.X.(*ssa.Alloc); ok && cp.Parent() != m.fnLoop {
			var whole ssa.Value
			n := 0
			for _, r := range *cp.Referrers() {
				if st, ok := r.(*ssa.Store); ok && st.Addr == ssa.Value(cp) {
					whole = st.Val
					n++
				}
			}
			if n == 1 {
				if ld, ok := m.resolve(whole).(*ssa.UnOp); ok && ld.Op == token.MUL {
					if a, ok := ld.X.(*ssa.Alloc); ok && a.Parent() == m.fnLoop && m.contained(a) {
						_, f, _ := ssax.FieldAddrOf(fa)
						return "&(" + m.key(a) + ")." + f.Name(), ld
					}
				}
			}
		}
	}
	k := m.key(u.X)
	if strings.Contains(k, "alloc:") && strings.Contains(k, "@"+m.fnLoop.String()) && strings.HasPrefix(k, "&") {
		if a := m.rootAlloc(u.X); a != nil && m.contained(a) {
			return k, u
		}
	}
	return "", nil
}

// rootAlloc: the local variable an address is derived from (through field selection, bound parameters and
// captured variables).
func (m *model) rootAlloc(addr ssa.Value) *ssa.Alloc {
	for i := 0; i < 20; i++ {
		switch x := addr.(type) {
		case *ssa.Alloc:
			return x
		case *ssa.FieldAddr:
			addr = x.X
		case *ssa.Parameter:
			c, ok := m.bindSite[x.Parent()]
			if !ok {
				return nil
			}
			addr = nil
			for k, p := range x.Parent().Params {
				if p == x && k < len(c.Common().Args) {
					addr = c.Common().Args[k]
				}
			}
		case *ssa.FreeVar:
			addr = ssax.BindingOf(x)
		case *ssa.UnOp:
			u := ssax.Unspill(x)
			if u == ssa.Value(x) {
				return nil
			}
			addr = u
		default:
			return nil
		}
		if addr == nil {
			return nil
		}
	}
	return nil
}

// contained: every use of the address of local variable a is a field selection, a load, a store to a scalar
// field, or a plain call handing the address to a function that is called from this one place only and
// runs on the loop goroutine (so its parameter is that address and its stores are found by key). Nothing
// else can then write the variable's fields: the stores enumerated by cellStores are all there are.
func (m *model) contained(a *ssa.Alloc) bool {
	if m.containedMemo == nil {
		m.containedMemo = map[*ssa.Alloc]bool{}
	}
	if r, ok := m.containedMemo[a]; ok {
		return r
	}
	m.containedMemo[a] = false
	seen := map[ssa.Value]bool{}
	var walk func(v ssa.Value) bool
	walk = func(v ssa.Value) bool {
		if seen[v] {
			return true
		}
		seen[v] = true
		refs := v.Referrers()
		if refs == nil {
			return false
		}
		for _, r := range *refs {
			switch x := r.(type) {
			case *ssa.DebugRef:
			case *ssa.FieldAddr:
				if x.X != v || !walk(x) {
					return false
				}
			case *ssa.UnOp:
				if x.Op != token.MUL {
					return false
				}
				// a loaded pointer field (e.g. the list) is a value, not an address of the variable
			case *ssa.Store:
				if x.Addr != v || x.Val == v {
					return false
				}
				if _, whole := ssax.Deref(v.Type()).Underlying().(*types.Struct); whole {
					return false // the whole bookkeeping struct is overwritten
				}
			case *ssa.Call:
				callee := x.Call.StaticCallee()
				if callee == nil || callee.Blocks == nil || m.bindSite[callee] != ssa.CallInstruction(x) || !m.inLoopGoroutine(callee) {
					return false
				}
				for k, arg := range x.Call.Args {
					if arg == v {
						if k >= len(callee.Params) || !walk(callee.Params[k]) {
							return false
						}
					}
				}
				if x.Call.Value == v {
					return false
				}
			case *ssa.MakeClosure:
				fn, _ := x.Fn.(*ssa.Function)
				if fn == nil || !m.inLoopGoroutine(fn) {
					return false
				}
				for k, b := range x.Bindings {
					if b == v && !walk(fn.FreeVars[k]) {
						return false
					}
				}
			default:
				return false
			}
		}
		return true
	}
	ok := walk(a)
	m.containedMemo[a] = ok
	return ok
}

// counterOf: the counter that v is a reading of (the header phi itself, or a load of the counter's cell).
func (m *model) counterOf(v ssa.Value) *counter {
	if v == nil {
		return nil
	}
	r := m.resolve(v)
	for _, c := range m.counters {
		if c.phi != nil && r == ssa.Value(c.phi) {
			return c
		}
		if c.cell != "" {
			if k, _ := m.cellKey(r); k == c.cell {
				return c
			}
		}
	}
	return nil
}

// cellStores: the stores to a memory cell (by address key) in the loop goroutine's functions.
func (m *model) cellStores(cell string) []*ssa.Store {
	var out []*ssa.Store
	for _, fn := range m.loopFuncs() {
		ssax.Instrs(fn, func(in ssa.Instruction) {
			if st, ok := in.(*ssa.Store); ok && m.key(st.Addr) == cell {
				out = append(out, st)
			}
		})
	}
	return out
}

// freshAt: the value read by `load` from a counter cell is still the cell's content when `at` executes
// (no store to the cell can happen in between).
func (m *model) freshAt(cell string, load, at ssa.Instruction) bool {
	if load.Parent() != at.Parent() {
		load = m.rootSite(load)
		if load.Parent() != at.Parent() {
			return false
		}
	}
	for _, st := range m.cellStores(cell) {
		var s ssa.Instruction = st
		if s.Parent() != at.Parent() {
			s = m.rootSite(s)
		}
		if s.Parent() == at.Parent() && between(load, s, at) {
			return false
		}
	}
	return true
}

// top returns the outermost function enclosing fn (anonymous functions -> their declaring function).
func top(fn *ssa.Function) *ssa.Function {
	for fn.Parent() != nil {
		fn = fn.Parent()
	}
	return fn
}

// inLoopGoroutine: the instruction's function runs only on the loop goroutine:
// the loop itself, its (deferred) closures, and helpers whose every reference
// is a plain call from such a function.
func (m *model) inLoopGoroutine(fn *ssa.Function) bool {
	if m.loopOnly == nil {
		m.loopOnly = map[*ssa.Function]bool{m.fnLoop: true}
		// all plain-call-only package functions: collect callers
		callers := map[*ssa.Function][]*ssa.Function{}
		onlyPlain := map[*ssa.Function]bool{}
		nPlain := map[*ssa.Function]int{}
		for _, p := range m.repo.SSA {
			for _, fn := range load.SourceFuncs(p) {
				ssax.Instrs(fn, func(in ssa.Instruction) {
					if c, ok := in.(*ssa.Call); ok && !c.Call.IsInvoke() {
						if callee, ok := c.Call.Value.(*ssa.Function); ok && callee.Pkg == m.pkg {
							callers[callee] = append(callers[callee], top(fn))
							nPlain[callee]++
						}
					}
				})
			}
		}
		for fn, n := range nPlain {
			if m.refs[fn] == n {
				onlyPlain[fn] = true
			}
		}
		for changed := true; changed; {
			changed = false
			for fn := range onlyPlain {
				if m.loopOnly[fn] || fn.Parent() != nil {
					continue
				}
				if obj := fn.Object(); obj != nil && obj.Exported() {
					continue
				}
				all := len(callers[fn]) > 0
				for _, c := range callers[fn] {
					if !m.loopOnly[c] {
						all = false
					}
				}
				if all {
					m.loopOnly[fn] = true
					changed = true
				}
			}
		}
	}
	return m.loopOnly[top(fn)]
}

// ---------------------------------------------------------------------------
// canonical keys

func instrID(v ssa.Value) string {
	if in, ok := v.(ssa.Instruction); ok && in.Parent() != nil {
		return v.Name() + "@" + in.Parent().String()
	}
	return v.Name()
}

// key returns a canonical structural description of a value. Two values with
// the same key denote the same location / the same SSA value (loads of the
// same field of the same base are identified; intervening stores are the
// business of the individual rules).
func (m *model) key(v ssa.Value) string {
	if v == nil {
		return "<nil>"
	}
	if k, ok := m.keyMemo[v]; ok {
		return k
	}
	m.keyMemo[v] = "…" // cycle guard
	k := m.key1(v)
	m.keyMemo[v] = k
	return k
}

func (m *model) key1(v ssa.Value) string {
	switch x := v.(type) {
	case *ssa.Parameter:
		fn := x.Parent()
		if c, ok := m.bindSite[fn]; ok {
			for i, p := range fn.Params {
				if p == x && i < len(c.Common().Args) {
					return m.key(c.Common().Args[i])
				}
			}
		}
		return "param:" + fn.String() + "." + x.Name()
	case *ssa.FreeVar:
		if b := ssax.BindingOf(x); b != nil {
			return m.key(b)
		}
		return "freevar:" + x.Parent().String() + "." + x.Name()
	case *ssa.Const:
		if x.Value == nil {
			return "nil"
		}
		return "const:" + x.Value.ExactString()
	case *ssa.Global:
		return "global:" + x.String()
	case *ssa.Function:
		return "func:" + x.String()
	case *ssa.Builtin:
		return "builtin:" + x.Name()
	case *ssa.Alloc:
		// a cell written as a whole exactly once (spilled parameter / struct copy) stands for that value
		var whole ssa.Value
		n := 0
		for _, r := range *x.Referrers() {
			if st, ok := r.(*ssa.Store); ok && st.Addr == ssa.Value(x) {
				whole = st.Val
				n++
			}
		}
		if n == 1 {
			if _, isStruct := ssax.Deref(x.Type()).Underlying().(*types.Struct); isStruct {
				return m.key(whole)
			}
		}
		return "alloc:" + instrID(x)
	case *ssa.ChangeType:
		return m.key(x.X)
	case *ssa.ChangeInterface:
		return m.key(x.X)
	case *ssa.MakeInterface:
		return "iface(" + m.key(x.X) + ")"
	case *ssa.Convert:
		return "conv(" + m.key(x.X) + ")"
	case *ssa.FieldAddr:
		b, f, _ := ssax.FieldAddrOf(x)
		return "&(" + m.key(b) + ")." + f.Name()
	case *ssa.Field:
		_, f, _ := ssax.FieldLoad(x)
		return "(" + m.key(x.X) + ")." + f.Name()
	case *ssa.IndexAddr:
		if tl := m.traversal(x); tl != nil {
			return fmt.Sprintf("&elem(%s)@%s#%d", tl.sliceKey, tl.header.Parent().String(), tl.header.Index)
		}
		return "&(" + m.key(x.X) + ")[" + m.key(x.Index) + "]"
	case *ssa.UnOp:
		switch x.Op {
		case token.MUL:
			if u := ssax.Unspill(x); u != ssa.Value(x) {
				return m.key(u)
			}
			if iv := m.localInit(x.X); iv != nil {
				return m.key(iv) // a field of a local struct that is initialised once and never changes
			}
			k := m.key(x.X)
			if strings.HasPrefix(k, "&") {
				return k[1:]
			}
			return "*" + k
		case token.ARROW:
			return "recv:" + instrID(x)
		}
		return x.Op.String() + "(" + m.key(x.X) + ")"
	case *ssa.BinOp:
		return "(" + m.key(x.X) + " " + x.Op.String() + " " + m.key(x.Y) + ")"
	case *ssa.Extract:
		return fmt.Sprintf("extract(%s)#%d", m.key(x.Tuple), x.Index)
	case *ssa.TypeAssert:
		return "assert(" + m.key(x.X) + ")"
	case *ssa.Call:
		if b, ok := x.Call.Value.(*ssa.Builtin); ok && (b.Name() == "len" || b.Name() == "cap") {
			return b.Name() + "(" + m.key(x.Call.Args[0]) + ")"
		}
		if r := m.helperResult(x); r != nil {
			return m.key(r)
		}
		return "call:" + instrID(x)
	case *ssa.Slice:
		return "slice:" + instrID(x)
	}
	return fmt.Sprintf("%T:%s", v, instrID(v))
}

// helperResult: the value returned by a single-site package helper with one return statement.
func (m *model) helperResult(c *ssa.Call) ssa.Value {
	callee := c.Call.StaticCallee()
	if callee == nil || m.site[callee] != ssa.CallInstruction(c) {
		return nil
	}
	var rets []*ssa.Return
	ssax.Instrs(callee, func(in ssa.Instruction) {
		if r, ok := in.(*ssa.Return); ok {
			rets = append(rets, r)
		}
	})
	if len(rets) != 1 || len(rets[0].Results) != 1 {
		return nil
	}
	return rets[0].Results[0]
}

// fieldLoad: v (after unspilling) is a load of field f of some base.
func (m *model) fieldLoad(v ssa.Value) (ssa.Value, *types.Var, bool) {
	return ssax.FieldLoad(ssax.Unspill(v))
}

// isField: v is a load of field f (any base).
func (m *model) isField(v ssa.Value, f *types.Var) bool {
	_, g, ok := m.fieldLoad(v)
	return ok && g == f
}

// isFieldOf: v is a load of field f of the value with key baseKey.
func (m *model) isFieldOf(v ssa.Value, baseKey string, f *types.Var) bool {
	b, g, ok := m.fieldLoad(v)
	return ok && g == f && m.key(b) == baseKey
}

// ---------------------------------------------------------------------------
// guards

// atom is one normalised condition known to hold.
type atom struct {
	op   string // "==", "<", "<=", "bool"
	a, b string // operand keys ("bool": a only)
	pol  bool
	cond ssa.Value
	av   ssa.Value
	bv   ssa.Value
	iter bool // loop-iteration test (index < len / channel-range ok): not a user condition
	ifi  *ssa.If
	br   bool        // which edge of ifi establishes the atom
	via  *ssa.Return // the atom holds in a single-site helper at this return, which the caller's test of the helper's boolean result selects
}

// target: the block entered when the atom's condition was just established.
func (a *atom) target() *ssa.BasicBlock {
	if a == nil || a.ifi == nil {
		return nil
	}
	if a.br {
		return a.ifi.Block().Succs[0]
	}
	return a.ifi.Block().Succs[1]
}

// alwaysFrom: once the atom's edge has been taken, every way out of the region passes through x:
// x is not subject to any further (possibly disjunctive) condition that dominance of single edges cannot see.
func (m *model) alwaysFrom(a *atom, x ssa.Instruction, inside func(*ssa.BasicBlock) bool) bool {
	t := a.target()
	if t == nil {
		return false
	}
	return m.mustPass(t, inside, x)
}

func (a atom) String() string {
	s := a.a
	if a.op != "bool" {
		s = a.a + " " + a.op + " " + a.b
	}
	if !a.pol {
		return "!(" + s + ")"
	}
	return s
}

func (m *model) mkAtom(cond ssa.Value, pol bool) atom {
	for {
		if u, ok := cond.(*ssa.UnOp); ok && u.Op == token.NOT {
			cond, pol = u.X, !pol
			continue
		}
		break
	}
	if b, ok := cond.(*ssa.BinOp); ok {
		x, y := b.X, b.Y
		switch b.Op {
		case token.EQL, token.NEQ:
			kx, ky := m.key(x), m.key(y)
			if kx > ky {
				kx, ky, x, y = ky, kx, y, x
			}
			if b.Op == token.NEQ {
				pol = !pol
			}
			return atom{op: "==", a: kx, b: ky, pol: pol, cond: cond, av: x, bv: y}
		case token.LSS:
			return atom{op: "<", a: m.key(x), b: m.key(y), pol: pol, cond: cond, av: x, bv: y}
		case token.GTR:
			return atom{op: "<", a: m.key(y), b: m.key(x), pol: pol, cond: cond, av: y, bv: x}
		case token.LEQ:
			return atom{op: "<=", a: m.key(x), b: m.key(y), pol: pol, cond: cond, av: x, bv: y}
		case token.GEQ:
			return atom{op: "<=", a: m.key(y), b: m.key(x), pol: pol, cond: cond, av: y, bv: x}
		}
	}
	return atom{op: "bool", a: m.key(cond), pol: pol, cond: cond, av: cond}
}

// localAtoms: conditions of the conditional edges that dominate b within its function.
func (m *model) localAtoms(b *ssa.BasicBlock) []atom {
	if as, ok := m.guardMemo[b]; ok {
		return as
	}
	var out []atom
	for _, g := range ssax.Guards(b) {
		a := m.mkAtom(g.If.Cond, g.Branch)
		a.iter = m.isIterTest(g.If)
		a.ifi, a.br = g.If, g.Branch
		out = append(out, a)
	}
	m.guardMemo[b] = out
	// a test of the boolean result of a single-site helper that returns that constant at exactly one place
	// (`if stop := s.recordFailure(job, err); stop { return }`) establishes everything that holds there
	for _, a := range out {
		if r := m.correlatedReturn(a); r != nil {
			for _, x := range m.localAtoms(r.Block()) {
				if x.via == nil {
					x.via = r
				}
				out = append(out, x)
			}
		}
	}
	m.guardMemo[b] = out
	return out
}

// correlatedReturn: atom a tests the boolean result of a helper called from this one place; the helper
// returns the tested constant at exactly one return statement and the opposite constant at all others.
func (m *model) correlatedReturn(a atom) *ssa.Return {
	var call *ssa.Call
	ok, val := boolIs(a, func(v ssa.Value) bool {
		c, isCall := ssax.Unspill(v).(*ssa.Call)
		if isCall {
			call = c
		}
		return isCall
	})
	if !ok || call == nil {
		return nil
	}
	callee := call.Call.StaticCallee()
	if callee == nil || callee.Blocks == nil || m.site[callee] != ssa.CallInstruction(call) || callee.Signature.Results().Len() != 1 {
		return nil
	}
	var hit *ssa.Return
	for _, b := range callee.Blocks {
		if b == callee.Recover || len(b.Instrs) == 0 {
			continue
		}
		r, isRet := b.Instrs[len(b.Instrs)-1].(*ssa.Return)
		if !isRet || len(r.Results) != 1 {
			continue
		}
		switch {
		case ssax.IsConstBool(r.Results[0], val):
			if hit != nil {
				return nil
			}
			hit = r
		case ssax.IsConstBool(r.Results[0], !val):
		default:
			return nil // a computed result: the constant does not identify the path
		}
	}
	return hit
}

// isIterTest: the If is the iteration test of a slice traversal or of a channel range.
func (m *model) isIterTest(i *ssa.If) bool {
	if tl := m.tloops[i.Block()]; tl != nil {
		return true
	}
	for _, tl := range m.allTraversals(i.Parent()) {
		if tl.test == i {
			return true
		}
	}
	if e, ok := i.Cond.(*ssa.Extract); ok && e.Index == 1 {
		if u, ok := e.Tuple.(*ssa.UnOp); ok && u.Op == token.ARROW && u.CommaOk {
			// `for x := range ch`: ok test whose true edge re-enters a loop
			return ssax.Reachable(i.Block().Succs[0], i.Block())
		}
	}
	return false
}

// atomsOf: all conditions known at an instruction: local guards plus, for a
// helper with a unique call site, the guards of that call.
func (m *model) atomsOf(in ssa.Instruction) []atom {
	out := append([]atom(nil), m.localAtoms(in.Block())...)
	fn := in.Parent()
	for fn != nil {
		if c, ok := m.site[fn]; ok {
			out = append(out, m.localAtoms(c.Block())...)
			fn = c.Parent()
			continue
		}
		break
	}
	return out
}

// userAtoms drops loop-iteration tests.
func userAtoms(as []atom) []atom {
	var out []atom
	for _, a := range as {
		if !a.iter {
			out = append(out, a)
		}
	}
	return out
}

// atomsSince: the user conditions at `in` that are not already known at block `from`
// (i.e. those established inside the region that starts at from).
func (m *model) atomsSince(in ssa.Instruction, from *ssa.BasicBlock) []atom {
	base := map[string]bool{}
	if from != nil {
		for _, a := range m.localAtoms(from) {
			base[a.String()] = true
		}
		fn := from.Parent()
		for fn != nil {
			if c, ok := m.site[fn]; ok {
				for _, a := range m.localAtoms(c.Block()) {
					base[a.String()] = true
				}
				fn = c.Parent()
				continue
			}
			break
		}
	}
	var out []atom
	for _, a := range userAtoms(m.atomsOf(in)) {
		if !base[a.String()] {
			out = append(out, a)
		}
	}
	return out
}

func atomStrings(as []atom) string {
	var s []string
	for _, a := range as {
		s = append(s, a.String())
	}
	sort.Strings(s)
	return strings.Join(s, " && ")
}

// find returns the first atom satisfying pred.
func find(as []atom, pred func(atom) bool) *atom {
	for i := range as {
		if pred(as[i]) {
			return &as[i]
		}
	}
	return nil
}

// eqConst: atom says `X == const` (pol true) or `X != const` (pol false) where X satisfies isX.
func eqInt(a atom, n int64, isX func(ssa.Value) bool) (bool, bool) {
	if a.op != "==" {
		return false, false
	}
	if ssax.IsConstInt(a.av, n) && isX(a.bv) || ssax.IsConstInt(a.bv, n) && isX(a.av) {
		return true, a.pol
	}
	return false, false
}

func eqNil(a atom, isX func(ssa.Value) bool) (bool, bool) {
	if a.op != "==" {
		return false, false
	}
	if ssax.IsNilConst(a.av) && isX(a.bv) || ssax.IsNilConst(a.bv) && isX(a.av) {
		return true, a.pol
	}
	return false, false
}

// boolIs: atom says boolean X (satisfying isX) has value `val`.
func boolIs(a atom, isX func(ssa.Value) bool) (bool, bool) {
	switch a.op {
	case "bool":
		if isX(a.av) {
			return true, a.pol
		}
	case "==":
		if ssax.IsConstBool(a.av, true) && isX(a.bv) || ssax.IsConstBool(a.bv, true) && isX(a.av) {
			return true, a.pol
		}
		if ssax.IsConstBool(a.av, false) && isX(a.bv) || ssax.IsConstBool(a.bv, false) && isX(a.av) {
			return true, !a.pol
		}
	}
	return false, false
}

// less: atom says X < Y (strictly) for isX/isY.
func less(a atom, isX, isY func(ssa.Value) bool) bool {
	switch a.op {
	case "<":
		return a.pol && isX(a.av) && isY(a.bv)
	case "<=":
		// !(Y <= X)  ==  X < Y
		return !a.pol && isY(a.av) && isX(a.bv)
	}
	return false
}

// lessEq: atom says X <= Y.
func lessEq(a atom, isX, isY func(ssa.Value) bool) bool {
	switch a.op {
	case "<=":
		return a.pol && isX(a.av) && isY(a.bv)
	case "<":
		// !(Y < X)  ==  X <= Y
		return !a.pol && isY(a.av) && isX(a.bv)
	}
	return false
}

// atMost: atom says X < Y or X <= Y.
func atMost(a atom, isX, isY func(ssa.Value) bool) bool {
	return less(a, isX, isY) || lessEq(a, isX, isY)
}

// ---------------------------------------------------------------------------
// loops

// tloop is a full traversal of a slice: for i over 0..len(S)-1, element S[i].
type tloop struct {
	header   *ssa.BasicBlock
	test     *ssa.If
	body     *ssa.BasicBlock // first block of an iteration
	exit     *ssa.BasicBlock
	slice    ssa.Value
	sliceKey string
	blocks   map[*ssa.BasicBlock]bool
	whole    bool // no exit other than the iteration test (no break/return inside)
}

// naturalLoop: blocks of the loop with the given header (dominated by it and able to reach it).
func naturalLoop(h *ssa.BasicBlock) map[*ssa.BasicBlock]bool {
	blocks := map[*ssa.BasicBlock]bool{h: true}
	var stack []*ssa.BasicBlock
	for _, p := range h.Preds {
		if h.Dominates(p) && !blocks[p] {
			blocks[p] = true
			stack = append(stack, p)
		}
	}
	for len(stack) > 0 {
		x := stack[len(stack)-1]
		stack = stack[:len(stack)-1]
		for _, p := range x.Preds {
			if !blocks[p] && h.Dominates(p) {
				blocks[p] = true
				stack = append(stack, p)
			}
		}
	}
	if len(blocks) == 1 {
		self := false
		for _, p := range h.Preds {
			if p == h {
				self = true
			}
		}
		if !self {
			return nil
		}
	}
	return blocks
}

// allTraversals finds the slice traversals of a function (memoised by header).
func (m *model) allTraversals(fn *ssa.Function) []*tloop {
	var out []*tloop
	for _, b := range fn.Blocks {
		if tl, ok := m.tloops[b]; ok {
			if tl != nil {
				out = append(out, tl)
			}
			continue
		}
		m.tloops[b] = nil
		tl := m.traversalAt(b)
		m.tloops[b] = tl
		if tl != nil {
			out = append(out, tl)
		}
	}
	return out
}

// traversalAt: is b the header of `for i := 0; i < len(S); i++` / `for i, x := range S`?
func (m *model) traversalAt(h *ssa.BasicBlock) *tloop {
	i := ssax.IfOf(h)
	if i == nil {
		return nil
	}
	blocks := naturalLoop(h)
	if blocks == nil {
		return nil
	}
	cmp, ok := i.Cond.(*ssa.BinOp)
	if !ok || cmp.Op != token.LSS {
		return nil
	}
	lenCall, ok := cmp.Y.(*ssa.Call)
	if !ok {
		return nil
	}
	if b, ok := lenCall.Call.Value.(*ssa.Builtin); !ok || b.Name() != "len" {
		return nil
	}
	S := lenCall.Call.Args[0]
	if _, ok := S.Type().Underlying().(*types.Slice); !ok {
		return nil
	}
	// index: phi (for-form, init 0, step +1 on back edges) or phi+1 (range-form, init -1)
	var phi *ssa.Phi
	rangeForm := false
	switch x := cmp.X.(type) {
	case *ssa.Phi:
		phi = x
	case *ssa.BinOp:
		if p, ok := x.X.(*ssa.Phi); ok && x.Op == token.ADD && ssax.IsConstInt(x.Y, 1) {
			phi, rangeForm = p, true
		}
	}
	if phi == nil || phi.Block() != h {
		return nil
	}
	for k, e := range phi.Edges {
		pred := h.Preds[k]
		if blocks[pred] {
			// back edge: next index
			if rangeForm {
				if e != cmp.X {
					return nil
				}
			} else {
				b, ok := e.(*ssa.BinOp)
				if !ok || b.Op != token.ADD || b.X != ssa.Value(phi) || !ssax.IsConstInt(b.Y, 1) {
					return nil
				}
			}
		} else {
			want := int64(0)
			if rangeForm {
				want = -1
			}
			if !ssax.IsConstInt(e, want) {
				return nil
			}
		}
	}
	if !blocks[h.Succs[0]] || blocks[h.Succs[1]] {
		return nil
	}
	tl := &tloop{header: h, test: i, body: h.Succs[0], exit: h.Succs[1], slice: S, blocks: blocks, whole: true}
	for b := range blocks {
		for _, s := range b.Succs {
			if !blocks[s] && !(b == h && s == tl.exit) {
				// leaving the loop other than through the iteration test; panics are not exits
				tl.whole = false
			}
		}
		if len(b.Succs) == 0 && b != h {
			if _, isPanic := b.Instrs[len(b.Instrs)-1].(*ssa.Panic); !isPanic {
				tl.whole = false // return inside the loop
			}
		}
	}
	tl.sliceKey = m.key(S)
	return tl
}

// traversal: ia indexes the traversed slice of an enclosing traversal loop with that loop's index.
func (m *model) traversal(ia *ssa.IndexAddr) *tloop {
	if ia.Parent() == nil {
		return nil
	}
	for _, tl := range m.allTraversals(ia.Parent()) {
		if !tl.blocks[ia.Block()] {
			continue
		}
		cmp := tl.test.Cond.(*ssa.BinOp)
		if ia.Index != cmp.X {
			continue
		}
		if m.key(ia.X) == tl.sliceKey {
			return tl
		}
	}
	return nil
}

// elemOf: v is the element of a traversal (a load of &S[i]).
func (m *model) elemOf(v ssa.Value) *tloop {
	u, ok := v.(*ssa.UnOp)
	if !ok || u.Op != token.MUL {
		return nil
	}
	ia, ok := u.X.(*ssa.IndexAddr)
	if !ok {
		return nil
	}
	return m.traversal(ia)
}

// enclosingTraversal: innermost traversal loop containing block b whose slice satisfies pred.
func (m *model) enclosingTraversal(b *ssa.BasicBlock, pred func(*tloop) bool) *tloop {
	var best *tloop
	for _, tl := range m.allTraversals(b.Parent()) {
		if tl.blocks[b] && b != tl.header && pred(tl) {
			if best == nil || len(tl.blocks) < len(best.blocks) {
				best = tl
			}
		}
	}
	return best
}

// inAnyLoop reports whether b lies on a cycle of its function.
func inAnyLoop(b *ssa.BasicBlock) bool {
	for _, s := range b.Succs {
		if ssax.Reachable(s, b) {
			return true
		}
	}
	return false
}

// ---------------------------------------------------------------------------
// regions

// mustPass reports whether every path that starts at block `from` and leaves
// the region (reaches a block for which inside() is false, or returns) goes
// through instruction `target` first. Blocks ending in panic are not exits.
func (m *model) mustPass(from *ssa.BasicBlock, inside func(*ssa.BasicBlock) bool, target ssa.Instruction) bool {
	return m.mustPassX(from, inside, target, false)
}

// mustPassOrReturn is mustPass where leaving the function by return is allowed to skip the target.
func (m *model) mustPassOrReturn(from *ssa.BasicBlock, inside func(*ssa.BasicBlock) bool, target ssa.Instruction) bool {
	return m.mustPassX(from, inside, target, true)
}

// mustPassAny: every path from `from` that leaves the region executes one of the targets first (targets in
// helpers count through their unconditional call chain, as in mustPass).
func (m *model) mustPassAny(from *ssa.BasicBlock, inside func(*ssa.BasicBlock) bool, targets []ssa.Instruction) bool {
	stop := map[*ssa.BasicBlock]bool{}
	for _, t := range targets {
		fn := t.Parent()
		for fn != from.Parent() {
			c, ok := m.site[fn]
			if !ok || !m.mustPass(fn.Blocks[0], func(*ssa.BasicBlock) bool { return true }, t) {
				t = nil
				break
			}
			t = c
			fn = c.Parent()
		}
		if t != nil {
			stop[t.Block()] = true
		}
	}
	if len(stop) == 0 {
		return false
	}
	if stop[from] {
		return true
	}
	seen := map[*ssa.BasicBlock]bool{from: true}
	stack := []*ssa.BasicBlock{from}
	for len(stack) > 0 {
		x := stack[len(stack)-1]
		stack = stack[:len(stack)-1]
		if len(x.Succs) == 0 {
			if _, isPanic := x.Instrs[len(x.Instrs)-1].(*ssa.Panic); !isPanic {
				return false
			}
			continue
		}
		for _, s := range x.Succs {
			if stop[s] {
				continue
			}
			if !inside(s) {
				return false
			}
			if !seen[s] {
				seen[s] = true
				stack = append(stack, s)
			}
		}
	}
	return true
}

func (m *model) mustPassX(from *ssa.BasicBlock, inside func(*ssa.BasicBlock) bool, target ssa.Instruction, retOK bool) bool {
	fn := target.Parent()
	if fn != from.Parent() {
		// target lies in a helper: it must be unconditional there, and the call must be unconditional here.
		c, ok := m.site[fn]
		if !ok {
			return false
		}
		if !m.mustPass(fn.Blocks[0], func(*ssa.BasicBlock) bool { return true }, target) {
			return false
		}
		return m.mustPassX(from, inside, c, retOK)
	}
	tb := target.Block()
	if from == tb {
		return true
	}
	seen := map[*ssa.BasicBlock]bool{from: true}
	stack := []*ssa.BasicBlock{from}
	for len(stack) > 0 {
		x := stack[len(stack)-1]
		stack = stack[:len(stack)-1]
		if len(x.Succs) == 0 {
			if _, isPanic := x.Instrs[len(x.Instrs)-1].(*ssa.Panic); !isPanic && !retOK {
				return false // returns without passing target
			}
			continue
		}
		for _, s := range x.Succs {
			if s == tb {
				continue
			}
			if !inside(s) {
				return false
			}
			if !seen[s] {
				seen[s] = true
				stack = append(stack, s)
			}
		}
	}
	return true
}

// between reports whether instruction s can execute after l and before i on some path that does not
// execute l again in between (l, s, i in one function). Exact search on the instruction-level flow graph.
func between(l, s, i ssa.Instruction) bool {
	return instrReach(l, s, l) && instrReach(s, i, l)
}

// instrReach: some path leads from just after `from` to `to` without executing `avoid` first.
func instrReach(from, to, avoid ssa.Instruction) bool {
	type pos struct {
		b *ssa.BasicBlock
		k int
	}
	succs := func(p pos) []pos {
		if p.k+1 < len(p.b.Instrs) {
			return []pos{{p.b, p.k + 1}}
		}
		var out []pos
		for _, sb := range p.b.Succs {
			if len(sb.Instrs) > 0 {
				out = append(out, pos{sb, 0})
			}
		}
		return out
	}
	start := pos{from.Block(), ssax.InstrIndex(from)}
	seen := map[pos]bool{}
	stack := succs(start)
	for len(stack) > 0 {
		p := stack[len(stack)-1]
		stack = stack[:len(stack)-1]
		if seen[p] {
			continue
		}
		seen[p] = true
		in := p.b.Instrs[p.k]
		if in == to {
			return true
		}
		if in == avoid {
			continue
		}
		stack = append(stack, succs(p)...)
	}
	return false
}

func reachFrom(a, b *ssa.BasicBlock) bool {
	for _, s := range a.Succs {
		if ssax.Reachable(s, b) {
			return true
		}
	}
	return false
}

// callers' chain: the instruction in fnLoop (or whichever root) that ultimately contains `in`.
func (m *model) rootSite(in ssa.Instruction) ssa.Instruction {
	for {
		c, ok := m.site[in.Parent()]
		if !ok {
			return in
		}
		in = c
	}
}
