package sched

import (
	"fmt"
	"go/token"
	"go/types"

	"cffverif/internal/load"
	"cffverif/internal/report"
	"cffverif/internal/ssax"

	"golang.org/x/tools/go/ssa"
)

// access is one use of a struct field.
type access struct {
	in    ssa.Instruction
	base  ssa.Value
	f     *types.Var
	write bool
	store *ssa.Store
	kind  string // "read", "write", "address taken"
}

// fieldAccesses enumerates the accesses to fields of the named struct in fn.
func fieldAccesses(fn *ssa.Function, owner *types.Named) []access {
	var out []access
	st := structOf(owner)
	// the owner itself and the struct types it embeds (their fields are promoted fields of the owner)
	var embedded []types.Type
	var collect func(s *types.Struct, depth int)
	collect = func(s *types.Struct, depth int) {
		for i := 0; s != nil && i < s.NumFields() && depth < 3; i++ {
			f := s.Field(i)
			if es, ok := f.Type().Underlying().(*types.Struct); ok && ssax.Grouping(f) {
				embedded = append(embedded, f.Type())
				collect(es, depth+1)
			}
		}
	}
	collect(st, 0)
	isOwner := func(t types.Type) bool {
		if types.Identical(ssax.Deref(t), owner) || types.Identical(t, owner) {
			return true
		}
		for _, e := range embedded {
			if types.Identical(ssax.Deref(t), e) || types.Identical(t, e) {
				return true
			}
		}
		return false
	}
	ssax.Instrs(fn, func(in ssa.Instruction) {
		switch x := in.(type) {
		case *ssa.FieldAddr:
			if !isOwner(x.X.Type()) {
				return
			}
			_, f, _ := ssax.FieldAddrOf(x)
			if ssax.Grouping(f) {
				return // selection of the embedded part: the accesses are those of its fields
			}
			refs := x.Referrers()
			if refs == nil {
				return
			}
			for _, r := range *refs {
				switch y := r.(type) {
				case *ssa.Store:
					if y.Addr == ssa.Value(x) {
						out = append(out, access{in: y, base: ssax.OuterBase(x.X), f: f, write: true, store: y, kind: "write"})
					} else {
						out = append(out, access{in: y, base: ssax.OuterBase(x.X), f: f, write: true, kind: "address taken"})
					}
				case *ssa.UnOp:
					if y.Op == token.MUL {
						out = append(out, access{in: y, base: ssax.OuterBase(x.X), f: f, kind: "read"})
					} else {
						out = append(out, access{in: y, base: ssax.OuterBase(x.X), f: f, write: true, kind: "address taken"})
					}
				case *ssa.FieldAddr, *ssa.IndexAddr:
					out = append(out, access{in: r, base: ssax.OuterBase(x.X), f: f, kind: "read"})
				case *ssa.DebugRef:
				default:
					out = append(out, access{in: r, base: ssax.OuterBase(x.X), f: f, write: true, kind: "address taken"})
				}
			}
		case *ssa.Field:
			if !isOwner(x.X.Type()) {
				return
			}
			_, f, _ := ssax.FieldLoad(x)
			out = append(out, access{in: x, base: x.X, f: f, kind: "read"})
		}
	})
	return out
}

func fnName(fn *ssa.Function) string {
	t := top(fn)
	n := t.Name()
	if fn != t {
		n += "$closure"
	}
	return n
}

// S1, S2, S3: ownership.
func (m *model) ruleOwnership(s *report.Sink) {
	loopOwned := map[*types.Var]string{m.sjRemaining: "remaining", m.sjConsumers: "consumers", m.sjDone: "done", m.sjErr: "err", m.sjInvalid: "invalid"}
	initF := map[*types.Var]bool{m.sjCtx: true, m.sjRun: true, m.sjDeps: true}
	st := structOf(m.SJ)
	for i := 0; i < st.NumFields(); i++ {
		f := st.Field(i)
		if _, ok := loopOwned[f]; !ok && !initF[f] {
			loopOwned[f] = f.Name() // unknown fields are treated as loop-owned (fail closed)
		}
	}
	workerStores := 0
	wJobKey := m.key(m.wJob)
	for _, p := range m.repo.SSA {
		for _, fn := range load.SourceFuncs(p) {
			inLoop := m.inLoopGoroutine(fn)
			name := fnName(fn)
			// whole-struct copies of a ScheduledJob
			ssax.Instrs(fn, func(in ssa.Instruction) {
				if u, ok := in.(*ssa.UnOp); ok && u.Op == token.MUL && types.Identical(u.Type(), m.SJ) {
					s.Check(inLoop, "S1", fmt.Sprintf("%s|copy of whole ScheduledJob", name), m.ipos(u),
						"struct copy inside the loop goroutine", "a whole ScheduledJob is copied (reads loop-owned fields) outside the scheduler loop")
				}
			})
			for _, a := range fieldAccesses(fn, m.SJ) {
				if lname, ok := loopOwned[a.f]; ok {
					key := fmt.Sprintf("%s|%s of ScheduledJob.%s", name, a.kind, lname)
					switch {
					case inLoop:
						s.OK("S1", key, m.ipos(a.in), "inside the scheduler loop goroutine")
					case m.rootSite(a.in).Parent() == m.fnWorker && a.f == m.sjInvalid && !a.write && m.key(a.base) == wJobKey:
						s.OK("S1", key, m.ipos(a.in), "worker's read of invalid on the job it just received from the ready channel (ordered after the loop's writes by that send)")
					default:
						s.Bad("S1", key, m.ipos(a.in), fmt.Sprintf("loop-owned field ScheduledJob.%s accessed (%s) in %s, outside the scheduler loop goroutine", lname, a.kind, name))
					}
					if top(fn) == m.fnWorker && a.write {
						workerStores++
					}
				} else if initF[a.f] && a.write {
					// allowed only on the fresh object under construction in Enqueue (or its single-site helper)
					_, fresh := m.resolve(a.base).(*ssa.Alloc)
					inEnq := m.rootSite(a.in).Parent() == m.fnEnqueue
					if fresh && inEnq && a.kind == "write" {
						s.OK("S1", fmt.Sprintf("%s|init of ScheduledJob.%s", name, a.f.Name()), m.ipos(a.in), "initialisation of the fresh job before it is handed to the loop")
					} else {
						s.Bad("S1", fmt.Sprintf("%s|write of init field ScheduledJob.%s", name, a.f.Name()), m.ipos(a.in), "init field (ctx/run/deps) written after construction")
					}
					if top(fn) == m.fnWorker {
						workerStores++
					}
				} else if initF[a.f] {
					s.OK("S1", fmt.Sprintf("%s|read of init field ScheduledJob.%s", name, a.f.Name()), m.ipos(a.in), "read-only after the Enqueue send")
				}
			}
			for _, a := range fieldAccesses(fn, m.Sched) {
				if a.f != m.fErr {
					continue
				}
				key := fmt.Sprintf("%s|%s of Scheduler.err", name, a.kind)
				switch {
				case inLoop:
					s.OK("S3", key, m.ipos(a.in), "inside the loop goroutine")
				case m.rootSite(a.in).Parent() == m.fnWait && !a.write && m.afterFinishRecv(m.rootSite(a.in)):
					s.OK("S3", key, m.ipos(a.in), "read in Wait after receiving from the finish channel (closed by the loop on exit)")
				default:
					s.Bad("S3", key, m.ipos(a.in), "Scheduler.err accessed outside the loop and not after the finish-channel receive in Wait")
				}
			}
		}
	}
	s.Check(workerStores == 0, "S2", "worker|stores through *ScheduledJob", m.pos(m.fnWorker.Pos()), "worker (incl. its deferred closure) writes no ScheduledJob field", fmt.Sprintf("worker writes %d ScheduledJob field(s)", workerStores))
}

// afterFinishRecv: every path to `in` (in Wait) has received from the finish channel:
// the instruction is dominated by the arm of a select state receiving from s.<FIN>,
// or by a plain receive from it.
func (m *model) afterFinishRecv(in ssa.Instruction) bool {
	fn := in.Parent()
	ok := false
	ssax.Instrs(fn, func(x ssa.Instruction) {
		switch y := x.(type) {
		case *ssa.Select:
			for k, st := range y.States {
				if st.Dir == types.RecvOnly && m.isField(st.Chan, m.fFIN) {
					if t, _ := selectArmEdge(y, k); t != nil && ssax.EdgeDominates(t, 0, in.Block()) {
						ok = true
					}
				}
			}
		case *ssa.UnOp:
			if y.Op == token.ARROW && m.isField(y.X, m.fFIN) && ssax.Before(y, in) {
				ok = true
			}
		}
	})
	return ok
}

// S4: sealed job.
func (m *model) ruleSealed(s *report.Sink) {
	n := types.NewMethodSet(m.SJ).Len() + types.NewMethodSet(types.NewPointer(m.SJ)).Len()
	s.Check(n == 0, "S4", "ScheduledJob|method set", "", "no methods on ScheduledJob / *ScheduledJob", fmt.Sprintf("%d method(s) declared on ScheduledJob: internal state becomes reachable outside the loop", n))
	st := structOf(m.SJ)
	exp := 0
	for i := 0; i < st.NumFields(); i++ {
		f := st.Field(i)
		switch {
		case f.Exported():
			exp++
		case f.Embedded() || ssax.Grouping(f):
			// an embedded unexported struct without methods only groups fields; anything else (an interface, a type
			// with methods, an exported type) opens the job's state or behaviour to other goroutines
			_, isStruct := f.Type().Underlying().(*types.Struct)
			if !isStruct || types.NewMethodSet(f.Type()).Len()+types.NewMethodSet(types.NewPointer(f.Type())).Len() > 0 {
				exp++
			}
		}
	}
	s.Check(exp == 0, "S4", "ScheduledJob|exported or embedded fields", "", "no exported/embedded field", fmt.Sprintf("%d exported/embedded field(s)", exp))
}
