package sched

import (
	"fmt"
	"go/token"
	"go/types"
	"os"
	"runtime/debug"

	"cffverif/internal/load"
	"cffverif/internal/report"
	"cffverif/internal/ssax"

	"golang.org/x/tools/go/ssa"
)

// cfgConcLoad: v is a load of <Config receiver of New>.Concurrency (also from the spawner closure).
func (m *model) cfgConcLoad(v ssa.Value) bool {
	v = m.resolve(v)
	_, f, ok := m.fieldLoad(v)
	return ok && f == m.cfgConc
}

// reachesGo: some function statically reachable from root (within the module) contains a go statement.
func (m *model) reachesGo(root *ssa.Function) (ssa.Instruction, int) {
	seen := map[*ssa.Function]bool{}
	var goAt ssa.Instruction
	var visit func(fn *ssa.Function)
	visit = func(fn *ssa.Function) {
		if fn == nil || seen[fn] || fn.Blocks == nil {
			return
		}
		seen[fn] = true
		ssax.Instrs(fn, func(in ssa.Instruction) {
			switch x := in.(type) {
			case *ssa.Go:
				goAt = x
			case ssa.CallInstruction:
				if callee := x.Common().StaticCallee(); callee != nil && callee.Pkg != nil && (callee.Pkg == m.pkg || callee.Pkg == m.cffp) {
					visit(callee)
				}
				if mc, ok := x.Common().Value.(*ssa.MakeClosure); ok {
					if f, ok := mc.Fn.(*ssa.Function); ok {
						visit(f)
					}
				}
			case *ssa.MakeClosure:
				if f, ok := x.Fn.(*ssa.Function); ok {
					visit(f)
				}
			}
		})
	}
	visit(root)
	return goAt, len(seen)
}

// S9 spawn sites, S10 capacities, S12 default limit.
func (m *model) ruleSpawn(s *report.Sink) {
	for _, p := range []*ssa.Package{m.pkg, m.cffp} {
		for _, fn := range load.SourceFuncs(p) {
			ssax.Instrs(fn, func(in ssa.Instruction) {
				g, ok := in.(*ssa.Go)
				if !ok {
					return
				}
				name := fnName(fn)
				callee := g.Call.StaticCallee()
				var closure *ssa.Function
				if mc, ok := g.Call.Value.(*ssa.MakeClosure); ok {
					closure, _ = mc.Fn.(*ssa.Function)
				}
				switch {
				case fn == m.fnNew && (closure != nil && closure == m.fnSpawner || callee != nil && callee == m.fnSpawner && callee != m.fnWorker) && !inAnyLoop(g.Block()):
					s.OK("S9", "New|go spawner", m.ipos(g), "one spawner goroutine per scheduler")
				case fn == m.fnNew && callee == m.fnLoop && !inAnyLoop(g.Block()):
					s.OK("S9", "New|go loop", m.ipos(g), "one loop goroutine per scheduler")
				case (fn == m.fnSpawner || fn == m.fnNew) && callee == m.fnWorker:
					s.Check(m.countedSpawn(g), "S9", "spawner|go worker in counted loop", m.ipos(g), "exactly Concurrency workers are started up front", "workers are not started by a loop `for i := 0; i < c.Concurrency; i++` with one `go worker` per iteration on the scheduler's two channels")
				case m.fnWorkerDefer != nil && fn == m.fnWorkerDefer && callee == m.fnWorker:
					good := !inAnyLoop(g.Block()) && len(g.Call.Args) == 2 && m.key(g.Call.Args[0]) == m.key(m.wReadyP) && m.key(g.Call.Args[1]) == m.key(m.wDoneP)
					s.Check(good, "S9", "worker death path|go worker", m.ipos(g), "a dying worker starts exactly one replacement on the same channels", "replacement worker is started in a loop or on different channels")
				default:
					s.Bad("S9", fmt.Sprintf("%s|unexpected go statement", name), m.ipos(g), "a goroutine is started at a site outside the closed list (spawner, loop, N workers, 1-for-1 replacement): goroutine count is no longer bounded by the concurrency limit alone")
				}
			})
		}
	}
	for _, root := range []*ssa.Function{m.fnEnqueue, m.fnLoop, m.fnWait} {
		goAt, n := m.reachesGo(root)
		pos := m.pos(root.Pos())
		if goAt != nil {
			pos = m.ipos(goAt)
		}
		s.Check(goAt == nil, "S9", root.Name()+"|no go statement reachable", pos, fmt.Sprintf("%d function(s) reachable by static calls, none starts a goroutine", n), "a goroutine can be started on the per-job path")
	}

	// S10 capacities: the channels stored into the Scheduler under construction
	var readyMake, doneMake *ssa.MakeChan
	var schedStores []*ssa.Store
	for _, fn := range ssax.WithAnon(m.fnNew) {
		ssax.Instrs(fn, func(in ssa.Instruction) {
			st, ok := in.(*ssa.Store)
			if !ok {
				return
			}
			_, f, ok := ssax.FieldAddrOf(st.Addr)
			if !ok || !fieldOfStruct(m.Sched, f) {
				return
			}
			schedStores = append(schedStores, st)
			mk, _ := m.resolve(st.Val).(*ssa.MakeChan)
			switch f {
			case m.fREADY:
				readyMake = mk
			case m.fDONE:
				doneMake = mk
			}
		})
	}
	if readyMake == nil || doneMake == nil {
		s.Unk("S10", "New|channel construction", m.pos(m.fnNew.Pos()), "make(chan) for the ready/result channels not traced to the Scheduler under construction")
	} else {
		s.Check(ssax.IsConstInt(readyMake.Size, 0), "S10", "New|ready channel unbuffered", m.ipos(readyMake), "capacity 0: a dispatched job is held by a live worker, no work is queued past the limit", "ready channel is buffered: jobs are handed out beyond free workers and are lost/run after an early exit")
		s.Check(m.cfgConcLoad(doneMake.Size), "S10", "New|result channel capacity = Concurrency", m.ipos(doneMake), "every worker can post one result without a receiver", "result channel capacity is not the (defaulted) Concurrency: workers can block for ever after the loop exits")
		// the workers receive from / post to exactly those channels
		m.checkSpawnChannels(s, readyMake, doneMake)
	}
	m.ruleDefaulting(s)
}

// countedSpawn: g is `go worker(...)` executed once per iteration of `for i := 0; i < c.Concurrency; i++`.
func (m *model) countedSpawn(g *ssa.Go) bool {
	fn := g.Parent()
	for _, h := range fn.Blocks {
		blocks := naturalLoop(h)
		if blocks == nil || !blocks[g.Block()] {
			continue
		}
		i := ssax.IfOf(h)
		if i == nil {
			return false
		}
		cmp, ok := i.Cond.(*ssa.BinOp)
		if !ok || cmp.Op != token.LSS {
			return false
		}
		phi, ok := cmp.X.(*ssa.Phi)
		if !ok || phi.Block() != h || !m.cfgConcLoad(cmp.Y) {
			return false
		}
		for k, e := range phi.Edges {
			if blocks[h.Preds[k]] {
				b, ok := e.(*ssa.BinOp)
				if !ok || b.Op != token.ADD || b.X != ssa.Value(phi) || !ssax.IsConstInt(b.Y, 1) {
					return false
				}
			} else if !ssax.IsConstInt(e, 0) {
				return false
			}
		}
		// one go per iteration, unconditional, no nested loop, no other exit
		nGo := 0
		for b := range blocks {
			for _, in := range b.Instrs {
				if _, ok := in.(*ssa.Go); ok {
					nGo++
				}
			}
			for _, su := range b.Succs {
				if !blocks[su] && b != h {
					return false
				}
			}
		}
		if nGo != 1 || !m.mustPass(h.Succs[0], func(b *ssa.BasicBlock) bool { return blocks[b] && b != h }, g) {
			return false
		}
		// the loop itself is not nested in another loop
		for _, h2 := range fn.Blocks {
			if h2 != h {
				if l2 := naturalLoop(h2); l2 != nil && l2[h] {
					return false
				}
			}
		}
		return true
	}
	return false
}

func (m *model) checkSpawnChannels(s *report.Sink, readyMake, doneMake *ssa.MakeChan) {
	fns := ssax.WithAnon(m.fnNew)
	if m.fnSpawner != nil && top(m.fnSpawner) != m.fnNew {
		fns = append(fns, m.fnSpawner)
	}
	for _, fn := range fns {
		ssax.Instrs(fn, func(in ssa.Instruction) {
			g, ok := in.(*ssa.Go)
			if !ok || g.Call.StaticCallee() != m.fnWorker || len(g.Call.Args) != 2 {
				return
			}
			good := m.resolve(g.Call.Args[0]) == ssa.Value(readyMake) && m.resolve(g.Call.Args[1]) == ssa.Value(doneMake)
			s.Check(good, "S10", "spawner|workers use the scheduler's channels", m.ipos(g), "workers receive from the ready channel and post to the result channel of this scheduler", "workers are started on channels other than the ones stored in the Scheduler")
		})
	}
}

// ruleDefaulting: S10 "one effective Concurrency" and S12 default value.
func (m *model) ruleDefaulting(s *report.Sink) {
	fn := m.fnNew
	// all accesses to Config.Concurrency in New, its closures and single-site helpers
	var funcs []*ssa.Function
	seen := map[*ssa.Function]bool{}
	var add func(f *ssa.Function)
	add = func(f *ssa.Function) {
		if f == nil || seen[f] || f.Blocks == nil {
			return
		}
		seen[f] = true
		funcs = append(funcs, f)
		for _, a := range f.AnonFuncs {
			add(a)
		}
		ssax.Instrs(f, func(in ssa.Instruction) {
			if c, ok := in.(ssa.CallInstruction); ok {
				if callee := c.Common().StaticCallee(); callee != nil && callee.Pkg == m.pkg && callee != m.fnLoop && callee != m.fnWorker {
					if _, isGo := in.(*ssa.Go); !isGo {
						add(callee)
					}
				}
			}
		})
	}
	add(fn)
	var stores, loads []access
	for _, f := range funcs {
		for _, a := range fieldAccesses(f, m.Config) {
			if a.f != m.cfgConc {
				continue
			}
			if a.write {
				stores = append(stores, a)
			} else {
				loads = append(loads, a)
			}
		}
	}
	isUnset := func(a atom) bool {
		ok, pol := eqInt(a, 0, m.cfgConcLoadRaw)
		if ok && pol {
			return true
		}
		// Concurrency <= 0 / < 1 treated as unset is a superset: accepted
		if a.op == "<=" && a.pol && m.cfgConcLoadRaw(a.av) && ssax.IsConstInt(a.bv, 0) {
			return true
		}
		if a.op == "<" && a.pol && m.cfgConcLoadRaw(a.av) && ssax.IsConstInt(a.bv, 1) {
			return true
		}
		return false
	}
	if len(stores) == 0 {
		s.Unk("S12", "New|defaulting", m.pos(fn.Pos()), "Config.New never assigns a default to an unset Concurrency")
		return
	}
	// every store is in the region guarded by "unset"
	allGuarded := true
	for _, st := range stores {
		if find(m.atomsOf(st.in), isUnset) == nil || st.kind != "write" {
			allGuarded = false
		}
	}
	// every consumer load (bound of the spawn loop, capacity, Scheduler.concurrency) sees the post-default value:
	// it executes after the defaulting (the test block, or the call of the defaulting helper whose result
	// replaces the configuration) and is not part of it.
	var doneAt ssa.Instruction // instruction in New after which the effective value is fixed
	for _, st := range stores {
		if a := find(m.atomsOf(st.in), isUnset); a != nil {
			test := a.cond.(ssa.Instruction)
			root := m.rootSite(test)
			if root.Parent() != fn {
				doneAt = nil
				break
			}
			if doneAt == nil || ssax.Before(root, doneAt) {
				doneAt = root
			}
		}
	}
	consistent := allGuarded && doneAt != nil
	if consistent {
		if c, isCall := doneAt.(*ssa.Call); isCall && c.Call.StaticCallee() != nil && c.Call.StaticCallee().Pkg == m.pkg {
			// defaulting helper returning the completed configuration: its result must replace the configuration
			replaced := false
			for _, r := range *c.Referrers() {
				if st, ok := r.(*ssa.Store); ok && st.Val == ssa.Value(c) {
					replaced = true
				}
			}
			if !replaced {
				consistent = false
			}
		}
		for _, ld := range loads {
			root := m.rootSite(ld.in)
			inRegion := find(m.atomsOf(ld.in), isUnset) != nil
			isTest := false
			if v, ok := ld.in.(ssa.Value); ok && v.Referrers() != nil {
				for _, r := range *v.Referrers() {
					if b, ok := r.(*ssa.BinOp); ok {
						if isUnset(m.mkAtom(b, true)) || isUnset(m.mkAtom(b, false)) {
							isTest = true
						}
					}
				}
			}
			if inRegion || isTest || root == doneAt {
				continue
			}
			rf := root.Parent()
			switch {
			case rf == fn:
				if !ssax.Before(doneAt, root) {
					consistent = false
				}
			case top(rf) == fn:
				// inside a closure of New (spawner): it must be created after the defaulting
				created := false
				ssax.Instrs(fn, func(in ssa.Instruction) {
					if mc, ok := in.(*ssa.MakeClosure); ok && mc.Fn == ssa.Value(rf) && ssax.Before(doneAt, mc) {
						created = true
					}
				})
				if !created {
					consistent = false
				}
			default:
				consistent = false
			}
		}
	}
	s.Check(consistent, "S10", "New|one effective Concurrency", m.pos(fn.Pos()), "worker count, result capacity and Scheduler.concurrency all read c.Concurrency after defaulting, nothing writes it later", "c.Concurrency is read before or written outside the defaulting block: worker count, buffer size and reported concurrency can differ")
	// consumers: spawn bound, capacity and Scheduler.concurrency all derive from the same field (checked in S9/S10/S29);
	// S12: value assigned by default = max(GOMAXPROCS(0), 4)
	hasGomax, has4 := false, false
	okShape := true
	for _, st := range stores {
		v := m.resolve(st.store.Val)
		switch {
		case isGomaxprocs(v):
			hasGomax = true
		case ssax.IsConstInt(v, 4):
			// must be under <current value> < 4
			lt := find(m.atomsOf(st.in), func(a atom) bool {
				return less(a, func(x ssa.Value) bool { return m.cfgConcLoadRaw(x) || isGomaxprocs(m.resolve(x)) }, func(x ssa.Value) bool { return ssax.IsConstInt(x, 4) })
			})
			if lt == nil {
				okShape = false
			}
			has4 = true
		case m.isMaxGomax4(v, 0):
			hasGomax, has4 = true, true
		default:
			okShape = false
		}
	}
	s.Check(okShape && hasGomax && has4, "S12", "New|default = max(GOMAXPROCS, 4)", m.ipos(stores[0].in), "unset Concurrency defaults to max(GOMAXPROCS(0), 4); a set value is used unchanged", "the default for an unset Concurrency is not max(runtime.GOMAXPROCS(0), 4)")
}

// cfgConcLoadRaw: load of Config.Concurrency without resolving through helpers.
func (m *model) cfgConcLoadRaw(v ssa.Value) bool {
	_, f, ok := ssax.FieldLoad(ssax.Unspill(v))
	return ok && f == m.cfgConc
}

func isGomaxprocs(v ssa.Value) bool {
	c, ok := v.(*ssa.Call)
	return ok && calleeName(&c.Call) == "runtime.GOMAXPROCS" && len(c.Call.Args) == 1 && ssax.IsConstInt(c.Call.Args[0], 0)
}

// isMaxGomax4: v == max(GOMAXPROCS(0), 4) as builtin max or as a phi of the two under the comparison.
func (m *model) isMaxGomax4(v ssa.Value, depth int) bool {
	if depth > 3 {
		return false
	}
	switch x := v.(type) {
	case *ssa.Call:
		if cc, ok := isBuiltinCall(x, "max"); ok && len(cc.Args) == 2 {
			a, b := m.resolve(cc.Args[0]), m.resolve(cc.Args[1])
			return isGomaxprocs(a) && ssax.IsConstInt(b, 4) || isGomaxprocs(b) && ssax.IsConstInt(a, 4)
		}
	case *ssa.Phi:
		g, four := false, false
		for k, e := range x.Edges {
			e = m.resolve(e)
			switch {
			case isGomaxprocs(e):
				g = true
			case ssax.IsConstInt(e, 4):
				pred := x.Block().Preds[k]
				as := m.localAtoms(pred)
				if i := ssax.IfOf(pred); i != nil {
					for j, su := range pred.Succs {
						if su == x.Block() && pred.Succs[0] != pred.Succs[1] {
							as = append(as, m.mkAtom(i.Cond, j == 0))
						}
					}
				}
				if find(as, func(a atom) bool {
					return less(a, func(y ssa.Value) bool { return isGomaxprocs(m.resolve(y)) }, func(y ssa.Value) bool { return ssax.IsConstInt(y, 4) })
				}) == nil {
					return false
				}
				four = true
			default:
				return false
			}
		}
		return g && four
	}
	return false
}

// S20 Wait, S21 Enqueue.
func (m *model) ruleWaitEnqueue(s *report.Sink) {
	fn := m.fnWait
	var ctxP *ssa.Parameter
	for _, p := range fn.Params {
		if isContext(p.Type()) {
			ctxP = p
		}
	}
	isCtxCall := func(v ssa.Value, method string) bool {
		c, ok := v.(*ssa.Call)
		return ok && c.Call.IsInvoke() && c.Call.Method.Name() == method && ctxP != nil && m.resolve(c.Call.Value) == ssa.Value(ctxP)
	}
	var sel *ssa.Select
	var closeIn ssa.Instruction
	blocking := 0
	ssax.Instrs(fn, func(in ssa.Instruction) {
		switch x := in.(type) {
		case *ssa.Select:
			sel = x
			blocking++
		case *ssa.Call:
			if cc, ok := isBuiltinCall(x, "close"); ok && len(cc.Args) == 1 && m.isField(cc.Args[0], m.fENQ) {
				closeIn = x
			}
		case *ssa.UnOp:
			if x.Op == token.ARROW {
				blocking++
			}
		case *ssa.Send:
			blocking++
		}
	})
	closed := closeIn != nil && sel != nil && ssax.Before(closeIn, sel) && len(userAtoms(m.localAtoms(closeIn.Block()))) == 0
	s.Check(closed, "S20", "Wait|closes the enqueue channel before blocking", m.pos(fn.Pos()), "the loop learns that no more jobs come", "Wait does not unconditionally close the enqueue channel before selecting: the loop never reaches its completion exit")
	if sel == nil || ctxP == nil {
		s.Unk("S20", "Wait|select", m.pos(fn.Pos()), "no select / ctx parameter")
	} else {
		var doneArm, finArm *ssa.BasicBlock
		var doneReg, finReg map[*ssa.BasicBlock]bool
		other := 0
		for k, st := range sel.States {
			switch {
			case st.Dir == types.RecvOnly && isCtxCall(st.Chan, "Done"):
				var t *ssa.BasicBlock
				t, doneArm = selectArmEdge(sel, k)
				doneReg = edgeRegion(t, 0)
			case st.Dir == types.RecvOnly && m.isField(st.Chan, m.fFIN):
				var t *ssa.BasicBlock
				t, finArm = selectArmEdge(sel, k)
				finReg = edgeRegion(t, 0)
			default:
				other++
			}
		}
		s.Check(doneArm != nil && finArm != nil && other == 0 && sel.Blocking && blocking == 1, "S20", "Wait|select = {ctx.Done, finished}", m.ipos(sel), "blocking select on exactly the context and the loop's finish channel", "Wait's select is not exactly {<-ctx.Done(), <-s.finishedc} (default clause, missing cancellation arm, extra arm or further blocking operation)")
		// every return: classify by which arm(s) can reach it
		type retInfo struct {
			r *ssa.Return
		}
		doneOK, finOK := doneArm != nil, finArm != nil
		nDone, nFin := 0, 0
		ssax.Instrs(fn, func(in ssa.Instruction) {
			r, ok := in.(*ssa.Return)
			if !ok || r.Block() == fn.Recover || len(r.Results) != 1 {
				return
			}
			leaves := m.expandPhi(r.Results[0], r.Block(), 0)
			for _, lf := range leaves {
				lb := lf.block
				if lf.site != nil {
					lb = lf.site.Block()
				}
				fromDone := doneReg[lb]
				fromFin := finReg[lb]
				switch {
				case fromDone:
					nDone++
					// ctx.Err() directly, nothing blocking in between (no blocking ops exist besides the select)
					if !isCtxCall(lf.val, "Err") {
						doneOK = false
					}
				case fromFin:
					nFin++
					isErrLoad := func(v ssa.Value) bool { return m.isField(v, m.fErr) }
					switch {
					case isErrLoad(lf.val):
						if find(lf.atoms, func(a atom) bool { ok, pol := eqNil(a, isErrLoad); return ok && !pol }) == nil {
							finOK = false
						}
					case isCtxCall(lf.val, "Err"):
						if find(lf.atoms, func(a atom) bool { ok, pol := eqNil(a, isErrLoad); return ok && pol }) == nil {
							finOK = false
						}
					default:
						finOK = false
					}
				default:
					// a return reachable from both arms (code after the select): must satisfy the finished-arm rule
					// when coming from the finished arm and be ctx.Err() when coming from the ctx arm; with a shared
					// tail that is only possible as `s.err if non-nil else ctx.Err()` where s.err is read after the
					// finish receive - S3 rejects the read on the ctx path. Accept only the finished-arm shape here.
					nFin++
					nDone++
					isErrLoad := func(v ssa.Value) bool { return m.isField(v, m.fErr) }
					switch {
					case isErrLoad(lf.val):
						if find(lf.atoms, func(a atom) bool { ok, pol := eqNil(a, isErrLoad); return ok && !pol }) == nil {
							finOK = false
						}
					case isCtxCall(lf.val, "Err"):
					default:
						finOK, doneOK = false, false
					}
				}
			}
		})
		if doneArm != nil {
			s.Check(doneOK && nDone > 0, "S20", "Wait|ctx.Done arm returns ctx.Err() at once", m.bpos(doneArm), "no further blocking operation on cancellation", "cancellation arm does not immediately return ctx.Err()")
		}
		if finArm != nil {
			s.Check(finOK && nFin > 0, "S20", "Wait|finished arm returns s.err, else ctx.Err()", m.bpos(finArm), "the job error wins; nil only if the context is also live", "after the loop finished Wait does not return the scheduler error (falling back to ctx.Err() only when it is nil)")
		}
	}

	// S21 Enqueue
	m.ruleEnqueue(s)
}

type leaf struct {
	val   ssa.Value
	block *ssa.BasicBlock
	atoms []atom
	site  *ssa.Call   // the helper call this value was returned through, if any
	ret   *ssa.Return // the return statement of that helper
}

// expandPhi: the possible values of v at block b with the conditions under which each is chosen:
// phis are expanded per incoming edge, results of single-site helpers per return statement of the helper.
func (m *model) expandPhi(v ssa.Value, b *ssa.BasicBlock, depth int) []leaf {
	if depth > 5 {
		return []leaf{{val: v, block: b, atoms: userAtoms(m.localAtoms(b))}}
	}
	switch x := v.(type) {
	case *ssa.Phi:
		var out []leaf
		for k, e := range x.Edges {
			pred := x.Block().Preds[k]
			sub := m.expandPhi(e, pred, depth+1)
			for _, lf := range sub {
				if i := ssax.IfOf(pred); i != nil && lf.block == pred {
					for j, su := range pred.Succs {
						if su == x.Block() && pred.Succs[0] != pred.Succs[1] {
							lf.atoms = append(append([]atom(nil), lf.atoms...), m.mkAtom(i.Cond, j == 0))
						}
					}
				}
				out = append(out, lf)
			}
		}
		return out
	case *ssa.Call:
		if rets, idx := m.helperReturns(x, 0); rets != nil {
			var out []leaf
			for _, r := range rets {
				for _, lf := range m.expandPhi(r.Results[idx], r.Block(), depth+1) {
					// conditions inside the helper plus those of the call site
					lf.atoms = append(append([]atom(nil), lf.atoms...), userAtoms(m.localAtoms(x.Block()))...)
					lf.site = x
					out = append(out, lf)
				}
			}
			return out
		}
	case *ssa.Extract:
		if c, ok := x.Tuple.(*ssa.Call); ok {
			if rets, _ := m.helperReturns(c, x.Index); rets != nil {
				var out []leaf
				for _, r := range rets {
					for _, lf := range m.expandPhi(r.Results[x.Index], r.Block(), depth+1) {
						lf.atoms = append(append([]atom(nil), lf.atoms...), userAtoms(m.localAtoms(c.Block()))...)
						lf.site = c
						lf.ret = r
						out = append(out, lf)
					}
				}
				return out
			}
		}
	}
	return []leaf{{val: v, block: b, atoms: userAtoms(m.localAtoms(b))}}
}

// helperReturns: the return statements of the single-site package helper called by c (result index idx must exist).
func (m *model) helperReturns(c *ssa.Call, idx int) ([]*ssa.Return, int) {
	callee := c.Call.StaticCallee()
	if callee == nil || callee.Blocks == nil || m.site[callee] != ssa.CallInstruction(c) {
		return nil, 0
	}
	var rets []*ssa.Return
	ssax.Instrs(callee, func(in ssa.Instruction) {
		if r, ok := in.(*ssa.Return); ok && r.Block() != callee.Recover && len(r.Results) > idx {
			rets = append(rets, r)
		}
	})
	if len(rets) == 0 {
		return nil, 0
	}
	return rets, idx
}

func (m *model) ruleEnqueue(s *report.Sink) {
	fn := m.fnEnqueue
	var ectx, jobP *ssa.Parameter
	for _, p := range fn.Params {
		if isContext(p.Type()) {
			ectx = p
		}
		if types.Identical(p.Type(), m.JobT) {
			jobP = p
		}
	}
	// Enqueue and its single-site helpers
	funcs := []*ssa.Function{fn}
	for i := 0; i < len(funcs); i++ {
		ssax.Instrs(funcs[i], func(in ssa.Instruction) {
			if c, ok := in.(*ssa.Call); ok {
				if callee := c.Call.StaticCallee(); callee != nil && m.site[callee] == ssa.CallInstruction(c) {
					funcs = append(funcs, callee)
				}
			}
		})
	}
	var send *ssa.Send
	var ret *ssa.Return
	loops, calls, otherFields := 0, 0, 0
	for _, f := range funcs {
		for _, b := range f.Blocks {
			if inAnyLoop(b) {
				loops++
			}
		}
		ssax.Instrs(f, func(in ssa.Instruction) {
			switch x := in.(type) {
			case *ssa.Send:
				send = x
			case *ssa.Return:
				if f == fn && x.Block() != fn.Recover {
					ret = x
				}
			case *ssa.Select, *ssa.Go, *ssa.Defer:
				loops++
			case *ssa.Call:
				if callee := x.Call.StaticCallee(); callee != nil && m.site[callee] == ssa.CallInstruction(x) {
					return
				}
				calls++
			case *ssa.UnOp:
				if x.Op == token.ARROW {
					loops++
				}
			}
		})
		for _, a := range fieldAccesses(f, m.Sched) {
			if a.f != m.fENQ || a.write {
				otherFields++
			}
		}
	}
	good := send != nil && ret != nil && ectx != nil && jobP != nil && len(ret.Results) == 1
	if good {
		obj, isAlloc := m.resolve(send.X).(*ssa.Alloc)
		good = isAlloc && obj.Heap && types.Identical(ssax.Deref(obj.Type()), m.SJ) && m.resolve(ret.Results[0]) == ssa.Value(obj) && m.isField(send.Chan, m.fENQ)
		if good {
			vals := map[*types.Var][]fstore{}
			st := structOf(m.SJ)
			n := 0
			for i := 0; i < st.NumFields(); i++ {
				f := st.Field(i)
				vals[f] = m.structFieldStores(obj, f, 0)
				for _, x := range vals[f] {
					if x.val != nil {
						n++
					}
				}
			}
			one := func(f *types.Var) ssa.Value {
				if len(vals[f]) == 1 {
					return vals[f][0].val
				}
				return nil
			}
			jk := m.key(jobP)
			good = n == 3 && one(m.sjCtx) != nil && m.resolve(one(m.sjCtx)) == ssa.Value(ectx) &&
				one(m.sjRun) != nil && m.isFieldOf(one(m.sjRun), jk, m.jobRun) &&
				one(m.sjDeps) != nil && m.isFieldOf(one(m.sjDeps), jk, m.jobDeps)
			// initialised before it is sent
			for _, f := range []*types.Var{m.sjCtx, m.sjRun, m.sjDeps} {
				for _, x := range vals[f] {
					if x.at.Parent() == fn && !ssax.Before(x.at, send) {
						good = false
					}
				}
			}
		}
	}
	s.Check(good, "S21", "Enqueue|builds {ctx, run, deps}, sends it, returns it", m.pos(fn.Pos()), "the job carries the caller's ctx, Run and Dependencies unchanged", "Enqueue does not build &ScheduledJob{ctx: ctx, run: j.Run, deps: j.Dependencies}, send it on the enqueue channel and return it")
	s.Check(loops == 0 && calls == 0 && otherFields == 0, "S21", "Enqueue|touches no scheduler state", m.pos(fn.Pos()), "no loop, call, lock or other Scheduler field: safe from any goroutine", fmt.Sprintf("Enqueue has %d loop/select/go/defer/receive, %d call(s), %d other Scheduler field access(es): it is no longer trivially race-free and non-blocking", loops, calls, otherFields))
}

// S29 plumbing; L5 adapter.
func (m *model) rulePlumbing(s *report.Sink) {
	ns := m.cffp.Func("NewScheduler")
	if ns == nil || ns.Blocks == nil {
		s.Unk("S29", "cff.NewScheduler", "", "function not found")
		return
	}
	if len(ns.Params) != 1 {
		s.Unk("S29", "cff.NewScheduler|parameter", m.pos(ns.Pos()), "expected one SchedulerParams parameter")
		return
	}
	pk := m.key(ns.Params[0])
	// the Config that is started: receiver of the Config.New call that is returned
	var newCall *ssa.Call
	ssax.Instrs(ns, func(in ssa.Instruction) {
		if c, ok := in.(*ssa.Call); ok && c.Call.StaticCallee() == m.fnNew {
			newCall = c
		}
	})
	started := false
	if newCall != nil {
		ssax.Instrs(ns, func(in ssa.Instruction) {
			if r, ok := in.(*ssa.Return); ok && len(r.Results) == 1 && m.resolve(r.Results[0]) == ssa.Value(newCall) {
				started = true
			}
		})
	}
	s.Check(started, "S29", "NewScheduler|returns Config.New()", m.pos(ns.Pos()), "", "NewScheduler does not return the scheduler started from that Config")
	if newCall == nil {
		return
	}
	var cell ssa.Value
	if u, ok := newCall.Call.Args[0].(*ssa.UnOp); ok && u.Op == token.MUL {
		cell = u.X
	} else if u, ok := m.resolve(newCall.Call.Args[0]).(*ssa.UnOp); ok && u.Op == token.MUL {
		cell = u.X // built by a helper with a single return (`schedulerConfig(p).New()`): the literal it returns
	}
	if cell == nil {
		s.Unk("S29", "cff.NewScheduler|Config value", m.ipos(newCall), "Config.New is not called on a locally built Config")
		return
	}
	one := func(f *types.Var) ssa.Value {
		fs := m.structFieldStores(cell, f, 0)
		var v ssa.Value
		n := 0
		for _, x := range fs {
			if x.val != nil {
				v = x.val
				n++
			}
		}
		if n == 1 {
			return v
		}
		return nil
	}
	fieldOfP := func(v ssa.Value, name string) bool {
		b, f, ok := m.fieldLoad(v)
		return ok && f.Name() == name && m.key(b) == pk
	}
	pos := m.ipos(newCall)
	s.Check(one(m.cfgConc) != nil && fieldOfP(one(m.cfgConc), "Concurrency"), "S29", "NewScheduler|Concurrency forwarded", pos, "", "SchedulerParams.Concurrency is not forwarded unchanged to scheduler.Config")
	s.Check(one(m.cfgCOE) != nil && fieldOfP(one(m.cfgCOE), "ContinueOnError"), "S29", "NewScheduler|ContinueOnError forwarded", pos, "", "SchedulerParams.ContinueOnError is not forwarded unchanged to scheduler.Config")
	em := false
	var adaptFn *ssa.Function
	if v := one(m.cfgEmitter); v != nil {
		if c, ok := v.(*ssa.Call); ok && len(c.Call.Args) == 1 && fieldOfP(c.Call.Args[0], "Emitter") {
			em = true
			adaptFn = c.Call.StaticCallee()
		} else if fieldOfP(v, "Emitter") {
			em = true
		}
	}
	s.Check(em, "S29", "NewScheduler|Emitter forwarded", pos, "", "SchedulerParams.Emitter is not forwarded (through the adapter) to scheduler.Config")
	// Config.New: Scheduler{concurrency<-c.Concurrency, continueOnError<-c.ContinueOnError}: the only stores to these fields
	for _, f := range []*types.Var{m.fConc, m.fCOE} {
		want := m.cfgConc
		if f == m.fCOE {
			want = m.cfgCOE
		}
		n, good := 0, true
		for _, fn := range m.funcs {
			for _, a := range fieldAccesses(fn, m.Sched) {
				if a.f != f || !a.write {
					continue
				}
				n++
				_, src, ok := m.fieldLoad(m.resolve(a.store.Val))
				if a.kind != "write" || !ok || src != want || top(fn) != m.fnNew && m.rootSite(a.in).Parent() != m.fnNew {
					good = false
				}
			}
		}
		s.Check(good && n == 1, "S29", "Config.New|Scheduler."+f.Name()+" <- Config."+want.Name(), m.pos(m.fnNew.Pos()), "set once, from the configuration", "Scheduler."+f.Name()+" is not set exactly once from Config."+want.Name())
	}
	// loop is started with c.Emitter
	emitFwd := false
	ssax.Instrs(m.fnNew, func(in ssa.Instruction) {
		if g, ok := in.(*ssa.Go); ok && g.Call.StaticCallee() == m.fnLoop {
			for _, a := range g.Call.Args {
				if _, f, ok := m.fieldLoad(a); ok && f == m.cfgEmitter {
					emitFwd = true
				}
			}
		}
	})
	s.Check(emitFwd, "S29", "Config.New|loop receives c.Emitter", m.pos(m.fnNew.Pos()), "", "the loop is not started with the configured emitter")

	// L5 adapter
	if adaptFn == nil || adaptFn.Blocks == nil {
		return
	}
	var adapterT *types.Named
	retsOK := true
	ep := adaptFn.Params[0]
	ssax.Instrs(adaptFn, func(in ssa.Instruction) {
		r, ok := in.(*ssa.Return)
		if !ok || len(r.Results) != 1 {
			return
		}
		for _, lf := range m.expandPhi(r.Results[0], r.Block(), 0) {
			v := lf.val
			if ssax.IsNilConst(v) {
				continue
			}
			mi, ok := v.(*ssa.MakeInterface)
			if !ok {
				retsOK = false
				continue
			}
			x := mi.X
			var cellv ssa.Value
			if u, ok := x.(*ssa.UnOp); ok && u.Op == token.MUL {
				cellv = u.X
			} else if a, ok := x.(*ssa.Alloc); ok {
				cellv = a
			}
			nt, _ := ssax.Deref(x.Type()).(*types.Named)
			if cellv == nil || nt == nil || structOf(nt) == nil {
				retsOK = false
				continue
			}
			adapterT = nt
			fwd := false
			st := structOf(nt)
			for i := 0; i < st.NumFields(); i++ {
				for _, fs := range m.structFieldStores(cellv, st.Field(i), 0) {
					if fs.val != nil && ssax.Unspill(fs.val) == ssa.Value(ep) {
						fwd = true
					}
				}
			}
			if !fwd {
				retsOK = false
			}
		}
	})
	s.Check(retsOK && adapterT != nil, "L5", "adapter|returns nil or adapter{emitter: e}", m.pos(adaptFn.Pos()), "", "adapter does not wrap the given emitter")
	if adapterT != nil {
		var em *ssa.Function
		for _, ptr := range []bool{false, true} {
			if f := m.cffMethod(adapterT, ptr, "Emit"); f != nil && f.Blocks != nil && f.Synthetic == "" {
				em = f
			}
		}
		good := false
		if em != nil && len(em.Params) == 2 {
			stP := em.Params[1]
			n := 0
			ssax.Instrs(em, func(in ssa.Instruction) {
				c, ok := in.(ssa.CallInstruction)
				if !ok {
					return
				}
				n++
				if _, isCall := in.(*ssa.Call); !isCall {
					return
				}
				cc := c.Common()
				if cc.IsInvoke() && cc.Method.Name() == "EmitScheduler" && len(cc.Args) == 1 {
					arg := ssax.Unspill(cc.Args[0])
					for {
						if cv, ok := arg.(*ssa.ChangeType); ok {
							arg = ssax.Unspill(cv.X)
							continue
						}
						if cv, ok := arg.(*ssa.Convert); ok {
							arg = ssax.Unspill(cv.X)
							continue
						}
						break
					}
					if arg == ssa.Value(stP) {
						good = true
					}
				}
			})
			if n != 1 {
				good = false
			}
		}
		s.Check(good, "L5", "adapter|Emit forwards the state unchanged", m.pos(adapterT.Obj().Pos()), "", "adapter's Emit does not forward exactly the received state to EmitScheduler")
	}
}

func (m *model) cffMethod(n *types.Named, ptr bool, name string) *ssa.Function {
	var t types.Type = n
	if ptr {
		t = types.NewPointer(n)
	}
	sel := m.prog.MethodSets.MethodSet(t).Lookup(n.Obj().Pkg(), name)
	if sel == nil {
		return nil
	}
	return m.prog.MethodValue(sel)
}

// Rules is the S-rule catalogue.
var Rules = []report.Rule{
	{ID: "S1", Floor: 15, Props: []string{"C12", "C01"}, Text: "loop-owned ScheduledJob fields are accessed only in the scheduler loop goroutine (single exception: the worker reads `invalid` on the job it just received); init fields are never written after construction"},
	{ID: "S2", Floor: 1, Props: []string{"C12", "C01"}, Text: "the worker writes no ScheduledJob field"},
	{ID: "S3", Floor: 3, Props: []string{"C12", "C07"}, Text: "Scheduler.err is written only by the loop and read only by the loop or by Wait after the finish-channel receive"},
	{ID: "S4", Floor: 2, Props: []string{"C12"}, Text: "ScheduledJob has no methods and no exported/embedded fields"},
	{ID: "S5", Floor: 2, Props: []string{"C01", "C02", "C19"}, Text: "every insertion into the ready list is dominated by `job.remaining == 0` with no write to remaining in between"},
	{ID: "S6", Floor: 7, Props: []string{"C01", "C03", "C05"}, Text: "the only send of a job to workers sends ready.Front(), is enabled only when one was chosen this iteration, and its arm removes exactly that element; all channel sends of the package are classified"},
	{ID: "S7", Floor: 4, Props: []string{"C01", "C05", "C02"}, Text: "remaining is written only as +1 (paired with registration in a not-done dependency's consumer list) and -1 (once per consumer of a finished job, unconditionally)"},
	{ID: "S8", Floor: 3, Props: []string{"C01", "C08", "C05"}, Text: "the result arm marks the finished job done before branching"},
	{ID: "S9", Floor: 7, Props: []string{"C03", "C06"}, Text: "the go statements of packages scheduler and cff are exactly: spawner, loop, N workers in a counted loop, one replacement per dying worker; none is reachable from Enqueue, the loop or Wait"},
	{ID: "S10", Floor: 4, Props: []string{"C03", "C05", "C06"}, Text: "ready channel is unbuffered; result channel capacity is the defaulted Concurrency, the same value that bounds the worker-spawn loop and is reported; workers run on the scheduler's channels"},
	{ID: "S11", Floor: 1, Props: []string{"C03"}, Text: "job.run has exactly one call site: a synchronous call in the worker's receive loop"},
	{ID: "S12", Floor: 1, Props: []string{"C03"}, Text: "unset Concurrency defaults to max(GOMAXPROCS(0), 4)"},
	{ID: "S13", Floor: 4, Props: []string{"C09", "C08"}, Text: "job.run is dominated by exactly ctx.Err()==nil and !invalid and receives the job's own context"},
	{ID: "S14", Floor: 6, Props: []string{"C07", "C08", "C05", "C03"}, Text: "the worker posts exactly one result per received job and goes back for more: Job = that job, Err ∈ {ctx error, sentinel (iff invalid), value returned by run}"},
	{ID: "S15", Floor: 6, Props: []string{"C03", "C05", "C06"}, Text: "a worker whose goroutine is killed posts a failed result for the current job and starts one replacement; exitCleanly/currentJob are maintained so this happens exactly then"},
	{ID: "S16", Floor: 3, Props: []string{"C05", "C06"}, Text: "the loop unconditionally defers close(finished), close(ready) and a drain of the enqueue channel (and stops its ticker)"},
	{ID: "S17", Floor: 5, Props: []string{"C07", "C05"}, Text: "the loop returns only under (pending==0 && closed) or (job failed && !continueOnError, error stored); every iteration ends with the completion test"},
	{ID: "S18", Floor: 2, Props: []string{"C05", "C07"}, Text: "a closed enqueue channel only disables the enqueue arm"},
	{ID: "S19", Floor: 2, Props: []string{"C05", "C09"}, Text: "the result arm is never disabled; the enqueue arm only after close (Enqueue never blocks for long while the loop is alive, so generated code always gets to Wait, where cancellation is observed)"},
	{ID: "S20", Floor: 4, Props: []string{"C05", "C07", "C09"}, Text: "Wait closes the enqueue channel, then selects on exactly ctx.Done (→ ctx.Err()) and finished (→ s.err, else ctx.Err())"},
	{ID: "S21", Floor: 2, Props: []string{"C12", "C09", "C05"}, Text: "Enqueue only builds {ctx, run, deps}, sends it and returns it"},
	{ID: "S22", Floor: 4, Props: []string{"C08", "C01"}, Text: "continue mode: job.err recorded on every failure path; every consumer invalidated; multierr.Append exactly for non-sentinel errors"},
	{ID: "S23", Floor: 1, Props: []string{"C08", "C01", "C05"}, Text: "a job enqueued after a dependency failed is invalidated and does not wait for it"},
	{ID: "S24", Floor: 3, Props: []string{"C08"}, Text: "the sentinel is unexported and used only by the worker assignment and the loop's filter"},
	{ID: "S25", Floor: 8, Props: []string{"C19", "C05", "C06", "C07"}, Text: "every path through every select arm keeps pending = |ready| + waiting + ongoing; counters start at 0 (the completion exit `pending == 0` is only as good as this invariant)"},
	{ID: "S26", Floor: 5, Props: []string{"C19"}, Text: "State: Pending←pending, Ready←ready.Len(), Waiting←waiting, Concurrency←s.concurrency, IdleWorkers←s.concurrency−ongoing"},
	{ID: "S27", Floor: 1, Props: []string{"C06", "C19"}, Text: "dispatch is enabled only while ongoing < concurrency (outstanding results fit the result buffer)"},
	{ID: "S28", Floor: 1, Props: []string{"C19"}, Text: "Emitter.Emit is called only inside the loop body"},
	{ID: "S29", Floor: 6, Props: []string{"C03", "C08", "C19"}, Text: "SchedulerParams → Config → Scheduler forwarding of Concurrency, ContinueOnError, Emitter"},
	{ID: "S30", Floor: 1, Props: []string{"C05", "C09", "C07"}, Text: "the only blocking operation of the scheduler loop goroutine (outside its deferred closures) is its single select"},
	{ID: "S31", Floor: 3, Props: []string{"C19", "C05"}, Text: "the state ticker is created only when there is an emitter, with the configured flush frequency, and Config.New replaces an unset (zero) frequency by a positive constant before starting the loop (time.NewTicker panics on a non-positive interval, on the loop's goroutine)"},
	{ID: "L5", Floor: 2, Props: []string{"C19"}, Text: "the scheduler-emitter adapter forwards the state unchanged"},
}

// Run executes all S-rules.
func Run(repo *load.Repo, s *report.Sink) (err error) {
	defer func() {
		if r := recover(); r != nil {
			if os.Getenv("CFFVERIF_TRACE") != "" {
				os.Stderr.Write(debug.Stack())
			}
			err = fmt.Errorf("sched: analyser panic: %v", r)
		}
	}()
	m, err := discover(repo)
	if err != nil {
		return err
	}
	s.SetFact("sched.functions_analysed", len(m.funcs))
	s.SetFact("sched.loop", m.pos(m.fnLoop.Pos()))
	s.SetFact("sched.worker", m.pos(m.fnWorker.Pos()))
	s.SetFact("sched.representation", "go/ssa (value identity, dominance of conditional edges, natural loops); single-site helpers analysed in their calling context")
	// each group of rules runs under its own recover: a construct one rule cannot digest leaves that rule
	// undecided (which fails the properties it supports) without silencing the others
	groups := []struct {
		name  string
		rules []string
		run   func(*report.Sink)
	}{
		{"ownership", []string{"S1", "S2", "S3"}, m.ruleOwnership},
		{"sealed job", []string{"S4"}, m.ruleSealed},
		{"admission and dispatch", []string{"S5", "S6", "S27"}, m.ruleAdmissionDispatch},
		{"countdown", []string{"S7", "S8", "S23"}, m.ruleCountdown},
		{"spawn", []string{"S9", "S10", "S12"}, m.ruleSpawn},
		{"worker", []string{"S11", "S13", "S14", "S15", "S24"}, m.ruleWorker},
		{"exit duties", []string{"S16"}, m.ruleExitDuties},
		{"loop exits", []string{"S17", "S18", "S19", "S22", "S30"}, m.ruleLoopExits},
		{"wait and enqueue", []string{"S20", "S21"}, m.ruleWaitEnqueue},
		{"conservation", []string{"S25"}, m.ruleConservation},
		{"state report", []string{"S26", "S28"}, m.ruleState},
		{"plumbing", []string{"S29", "L5"}, m.rulePlumbing},
		{"ticker", []string{"S31"}, m.ruleTicker},
	}
	for _, g := range groups {
		func() {
			defer func() {
				if r := recover(); r != nil {
					if os.Getenv("CFFVERIF_TRACE") != "" {
						os.Stderr.Write(debug.Stack())
					}
					for _, id := range g.rules {
						s.Unk(id, "analyser|"+g.name, "", fmt.Sprintf("the %s rules could not be evaluated on this code (analyser panic: %v)", g.name, r))
					}
				}
			}()
			g.run(s)
		}()
	}
	return nil
}
