package sched

import (
	"fmt"
	"go/token"
	"go/types"
	"strings"

	"cffverif/internal/ssax"

	"golang.org/x/tools/go/ssa"
	"golang.org/x/tools/go/types/typeutil"
)

var _ = typeutil.Callee

// isListMethod: call of (*container/list.List).<name> ; returns receiver and name.
func listCall(in ssa.Instruction) (recv ssa.Value, name string, args []ssa.Value, ok bool) {
	c, isCall := in.(ssa.CallInstruction)
	if !isCall {
		return nil, "", nil, false
	}
	fn := c.Common().StaticCallee()
	if fn == nil || fn.Signature.Recv() == nil || fn.Pkg == nil || fn.Pkg.Pkg.Path() != "container/list" {
		return nil, "", nil, false
	}
	p, isPtr := fn.Signature.Recv().Type().(*types.Pointer)
	if !isPtr {
		return nil, "", nil, false
	}
	if n, isNamed := p.Elem().(*types.Named); !isNamed || n.Obj().Name() != "List" {
		return nil, "", nil, false
	}
	a := c.Common().Args
	if len(a) == 0 {
		return nil, "", nil, false
	}
	return a[0], fn.Name(), a[1:], true
}

func isBuiltinCall(in ssa.Instruction, name string) (*ssa.CallCommon, bool) {
	c, ok := in.(ssa.CallInstruction)
	if !ok {
		return nil, false
	}
	b, ok := c.Common().Value.(*ssa.Builtin)
	if !ok || b.Name() != name {
		return nil, false
	}
	return c.Common(), true
}

func calleeName(c *ssa.CallCommon) string {
	if fn := c.StaticCallee(); fn != nil {
		if fn.Signature.Recv() != nil {
			return fn.String() // e.g. (*time.Ticker).Stop
		}
		if fn.Pkg != nil {
			return fn.Pkg.Pkg.Path() + "." + fn.Name()
		}
		return fn.String()
	}
	return ""
}

// loopFuncs: the loop function, its closures, and its single-site helpers (transitively).
func (m *model) loopFuncs() []*ssa.Function {
	var out []*ssa.Function
	seen := map[*ssa.Function]bool{}
	var add func(fn *ssa.Function)
	add = func(fn *ssa.Function) {
		if fn == nil || seen[fn] || fn.Blocks == nil {
			return
		}
		seen[fn] = true
		out = append(out, fn)
		for _, a := range fn.AnonFuncs {
			add(a)
		}
		ssax.Instrs(fn, func(in ssa.Instruction) {
			if c, ok := in.(ssa.CallInstruction); ok {
				if callee := c.Common().StaticCallee(); callee != nil && callee.Pkg == m.pkg && m.inLoopGoroutine(callee) {
					add(callee)
				}
			}
		})
	}
	add(m.fnLoop)
	return out
}

func (m *model) discoverLoop() error {
	fn := m.fnLoop
	var sels []*ssa.Select
	ssax.Instrs(fn, func(in ssa.Instruction) {
		if s, ok := in.(*ssa.Select); ok {
			sels = append(sels, s)
		}
	})
	var main []*ssa.Select
	for _, s := range sels {
		for _, st := range s.States {
			if st.Dir == types.RecvOnly && types.Identical(chanElemOr(st.Chan.Type()), m.JobResult) {
				main = append(main, s)
			}
		}
	}
	if len(main) != 1 {
		return fmt.Errorf("scheduler loop: expected exactly one select receiving worker results, found %d", len(main))
	}
	m.sel = main[0]
	if !m.sel.Blocking {
		return fmt.Errorf("scheduler loop select has a default clause (would spin)")
	}
	// main loop: the natural loop whose header dominates the select block and contains it (outermost)
	var hdr *ssa.BasicBlock
	for _, b := range fn.Blocks {
		if !b.Dominates(m.sel.Block()) {
			continue
		}
		if l := naturalLoop(b); l != nil && l[m.sel.Block()] {
			if hdr == nil || b.Dominates(hdr) {
				hdr = b
			}
		}
	}
	if hdr == nil {
		return fmt.Errorf("scheduler loop: the select is not inside a loop")
	}
	m.header = hdr
	m.loopBlocks = naturalLoop(hdr)
	// arms
	recvIdx := 0
	var idxVal ssa.Value
	for _, r := range *m.sel.Referrers() {
		if e, ok := r.(*ssa.Extract); ok && e.Index == 0 {
			idxVal = e
		}
		if e, ok := r.(*ssa.Extract); ok && e.Index == 1 {
			m.enqOK = e
		}
	}
	if idxVal == nil {
		return fmt.Errorf("scheduler loop: select index is not consulted")
	}
	for k, st := range m.sel.States {
		a := &arm{idx: k, kind: "other", state: st}
		a.test, a.entry = selectArmEdge(m.sel, k)
		if a.entry == nil {
			return fmt.Errorf("scheduler loop: entry block of select arm %d not found", k)
		}
		a.member = edgeRegion(a.test, 0)
		el := chanElemOr(st.Chan.Type())
		if st.Dir == types.RecvOnly {
			for _, r := range *m.sel.Referrers() {
				if e, ok := r.(*ssa.Extract); ok && e.Index == 2+recvIdx {
					a.recv = e
				}
			}
			recvIdx++
		}
		switch {
		case st.Dir == types.SendOnly && isPtrTo(el, m.SJ):
			if m.armReady != nil {
				return fmt.Errorf("two send arms on a *ScheduledJob channel")
			}
			a.kind, a.name = "dispatch", "dispatch-arm"
			m.armReady = a
		case st.Dir == types.RecvOnly && isPtrTo(el, m.SJ):
			if m.armEnq != nil {
				return fmt.Errorf("two receive arms on a *ScheduledJob channel")
			}
			a.kind, a.name = "enqueue", "enqueue-arm"
			m.armEnq = a
		case st.Dir == types.RecvOnly && types.Identical(el, m.JobResult):
			a.kind, a.name = "result", "result-arm"
			m.armDone = a
		default:
			a.name = fmt.Sprintf("arm%d(%s)", k, types.TypeString(el, func(*types.Package) string { return "" }))
		}
		m.arms = append(m.arms, a)
	}
	if m.armReady == nil || m.armEnq == nil || m.armDone == nil {
		return fmt.Errorf("scheduler loop select lacks one of: send on ready channel, receive of enqueued job, receive of result")
	}
	if m.armEnq.recv == nil || m.enqOK == nil || m.armDone.recv == nil {
		return fmt.Errorf("scheduler loop select: enqueue arm must bind (job, ok) and result arm must bind the result")
	}
	// ready list: the *list.List whose Front() feeds the dispatched value / or the unique list.New() result.
	var lists []ssa.Value
	ssax.Instrs(fn, func(in ssa.Instruction) {
		if c, ok := in.(*ssa.Call); ok && calleeName(&c.Call) == "container/list.New" {
			lists = append(lists, c)
		}
	})
	if len(lists) > 1 {
		// the ready list is the one created once, before the loop; S5 reports the others
		var once []ssa.Value
		for _, l := range lists {
			if b := l.(*ssa.Call).Block(); !reachFrom(b, b) && b.Dominates(m.header) {
				once = append(once, l)
			} else {
				m.extraLists = append(m.extraLists, l.(*ssa.Call))
			}
		}
		if len(once) == 1 {
			lists = once
		}
	}
	if len(lists) != 1 {
		return fmt.Errorf("scheduler loop: expected exactly one list.New() (ready list), found %d", len(lists))
	}
	m.readyList = lists[0]
	// enqueue channel local: the loop-carried value (header phi) that the enqueue arm receives from; a value
	// derived from it inside the iteration (e.g. conditionally replaced by nil) is traced back to it and S19
	// reports the extra gating
	m.enqPhi = m.armEnq.state.Chan
	m.enqDirect = true
	for v, d := m.armEnq.state.Chan, 0; d < 4; d++ {
		p, ok := v.(*ssa.Phi)
		if !ok {
			break
		}
		if p.Block() == m.header {
			m.enqPhi = p
			break
		}
		m.enqDirect = false
		var next ssa.Value
		for _, e := range p.Edges {
			if !ssax.IsNilConst(e) {
				next = e
			}
		}
		if next == nil {
			break
		}
		v = next
		m.enqPhi = v
	}
	// counters via the State value handed to Emit
	if err := m.discoverCounters(); err != nil {
		// not fatal: only the rules about the counters (S17 completion exit, S25, S26, S27) are undecided
		m.counterErr = err.Error()
		m.cPending, m.cOngoing, m.cWaiting = nil, nil, nil
	}
	return nil
}

// structFieldVals: values stored into field f of the struct in cell `addr`
// (an Alloc), following whole-struct copies from other local cells.
// A nil value in the result means "zero value" (field never set).
type fstore struct {
	val ssa.Value
	at  ssa.Instruction
}

func (m *model) structFieldStores(addr ssa.Value, f *types.Var, depth int) []fstore {
	var out []fstore
	a, ok := addr.(*ssa.Alloc)
	if !ok || depth > 4 {
		return nil
	}
	whole := false
	for _, r := range *a.Referrers() {
		switch x := r.(type) {
		case *ssa.FieldAddr:
			_, g, _ := ssax.FieldAddrOf(x)
			if g != f {
				continue
			}
			for _, rr := range *x.Referrers() {
				if st, ok := rr.(*ssa.Store); ok && st.Addr == ssa.Value(x) {
					out = append(out, fstore{st.Val, st})
				}
			}
		case *ssa.Store:
			if x.Addr != ssa.Value(a) {
				continue
			}
			whole = true
			// *a = v : v is a load of another cell, or a call result
			if u, ok := x.Val.(*ssa.UnOp); ok && u.Op == token.MUL {
				sub := m.structFieldStores(u.X, f, depth+1)
				if len(sub) == 0 {
					out = append(out, fstore{nil, x})
				}
				for _, s := range sub {
					out = append(out, fstore{s.val, x})
				}
			} else if e, ok := x.Val.(*ssa.Extract); ok {
				out = append(out, fstore{fieldOfValue{e, f}.value(), x})
			} else {
				out = append(out, fstore{x.Val, x}) // opaque whole value
			}
		}
	}
	_ = whole
	return out
}

// fieldOfValue is a placeholder for "field f of struct value v" when v is not a cell.
type fieldOfValue struct {
	v ssa.Value
	f *types.Var
}

func (fv fieldOfValue) value() ssa.Value { return fv.v }

// stateFieldValue resolves the value given to a field of the State passed to Emit.
func (m *model) stateFields(arg ssa.Value) (map[string]ssa.Value, error) {
	vals := map[string]ssa.Value{}
	arg = ssax.Unspill(arg)
	// helper call returning State: bind through the unique site (key() does that for parameters)
	if c, ok := arg.(*ssa.Call); ok {
		if callee := c.Call.StaticCallee(); callee != nil && callee.Pkg == m.pkg && callee.Blocks != nil {
			if _, single := m.site[callee]; !single {
				return nil, fmt.Errorf("State is built by helper %s that has several call sites", callee.Name())
			}
			var rets []*ssa.Return
			ssax.Instrs(callee, func(in ssa.Instruction) {
				if r, ok := in.(*ssa.Return); ok {
					rets = append(rets, r)
				}
			})
			if len(rets) != 1 || len(rets[0].Results) != 1 {
				return nil, fmt.Errorf("State helper %s does not have a single return", callee.Name())
			}
			return m.stateFields(rets[0].Results[0])
		}
	}
	u, ok := arg.(*ssa.UnOp)
	if !ok || u.Op != token.MUL {
		return nil, fmt.Errorf("State passed to Emit is not a locally built struct")
	}
	st := structOf(m.State)
	for i := 0; i < st.NumFields(); i++ {
		f := st.Field(i)
		fs := m.structFieldStores(u.X, f, 0)
		if len(fs) == 1 && fs[0].val != nil {
			vals[f.Name()] = fs[0].val
		} else if len(fs) > 1 {
			// last store wins only if they are ordered; keep it simple: take the one that dominates the load latest
			var best *fstore
			for k := range fs {
				if fs[k].val == nil {
					continue
				}
				if best == nil || ssax.Before(best.at, fs[k].at) {
					best = &fs[k]
				}
			}
			if best != nil {
				vals[f.Name()] = best.val
			}
		}
	}
	return vals, nil
}

// headerPhi: v is (after looking through trivial copies) a phi of the main loop header.
func (m *model) headerPhi(v ssa.Value) *ssa.Phi {
	v = m.resolve(v)
	p, ok := v.(*ssa.Phi)
	if ok && p.Block() == m.header {
		return p
	}
	return nil
}

// resolve maps a value to the caller-side value when it is a parameter of a single-site helper,
// and strips spills.
func (m *model) resolve(v ssa.Value) ssa.Value {
	for i := 0; i < 8; i++ {
		v = ssax.Unspill(v)
		if u, ok := v.(*ssa.UnOp); ok && u.Op == token.MUL {
			if _, isFA := u.X.(*ssa.FieldAddr); isFA {
				if sv := m.storedOnce(u.X); sv != nil {
					v = sv
					continue
				}
			}
		}
		if c, ok := v.(*ssa.Call); ok {
			if r := m.helperResult(c); r != nil {
				v = r
				continue
			}
			return v
		}
		p, ok := v.(*ssa.Parameter)
		if !ok {
			return v
		}
		c, ok := m.bindSite[p.Parent()]
		if !ok {
			return v
		}
		found := false
		for k, q := range p.Parent().Params {
			if q == p && k < len(c.Common().Args) {
				v = c.Common().Args[k]
				found = true
			}
		}
		if !found {
			return v
		}
	}
	return v
}

// storedOnce: addr is a field of a local struct of the loop function that is written exactly once in the loop
// goroutine, straight-line before any cycle (e.g. the ready list kept in a bookkeeping struct), and whose
// address goes nowhere else: the value stored.
func (m *model) storedOnce(addr ssa.Value) ssa.Value {
	if m.fnLoop == nil {
		return nil
	}
	if m.onceMemo == nil {
		m.onceMemo = map[string]ssa.Value{}
		count := map[string]int{}
		val := map[string]ssa.Value{}
		for _, fn := range m.loopFuncs() {
			ssax.Instrs(fn, func(in ssa.Instruction) {
				st, ok := in.(*ssa.Store)
				if !ok {
					return
				}
				if _, ok := st.Addr.(*ssa.FieldAddr); !ok {
					return
				}
				k := m.key(st.Addr)
				if !strings.Contains(k, "alloc:") || !strings.Contains(k, "@"+m.fnLoop.String()) {
					return
				}
				count[k]++
				val[k] = st.Val
				if st.Parent() != m.fnLoop || reachFrom(st.Block(), st.Block()) {
					count[k]++ // not a one-time initialisation
				}
				if a := m.rootAlloc(st.Addr); a == nil || !m.contained(a) {
					count[k]++
				}
			})
		}
		for k, n := range count {
			if n == 1 {
				m.onceMemo[k] = val[k]
			}
		}
	}
	return m.onceMemo[m.key(addr)]
}

func (m *model) discoverCounters() error {
	// State values built in the loop goroutine: the argument of Emit, or any State under construction
	var cands []ssa.Value
	var emits []ssa.CallInstruction
	for _, fn := range m.loopFuncs() {
		ssax.Instrs(fn, func(in ssa.Instruction) {
			if c, ok := in.(ssa.CallInstruction); ok && c.Common().IsInvoke() && c.Common().Method.Name() == "Emit" && types.Identical(c.Common().Value.Type(), m.EmitterIface) {
				emits = append(emits, c)
				cands = append(cands, c.Common().Args[0])
			}
		})
	}
	if len(emits) == 1 {
		m.emitCall = emits[0]
	}
	for _, fn := range m.loopFuncs() {
		ssax.Instrs(fn, func(in ssa.Instruction) {
			if a, ok := in.(*ssa.Alloc); ok && types.Identical(ssax.Deref(a.Type()), m.State) {
				for _, r := range *a.Referrers() {
					if u, ok := r.(*ssa.UnOp); ok && u.Op == token.MUL {
						cands = append(cands, u)
					}
				}
			}
		})
	}
	for _, cand := range cands {
		vals, err := m.stateFields(cand)
		if err != nil {
			continue
		}
		mk := func(v ssa.Value, name string) *counter {
			if v == nil {
				return nil
			}
			if p := m.headerPhi(v); p != nil && isInt(p.Type()) {
				return &counter{phi: p, name: name}
			}
			if k, _ := m.cellKey(m.resolve(v)); k != "" && isInt(v.Type()) {
				return &counter{cell: k, name: name}
			}
			return nil
		}
		p, w := mk(vals["Pending"], "pending"), mk(vals["Waiting"], "waiting")
		var o *counter
		if idle := vals["IdleWorkers"]; idle != nil {
			if ph := m.findHeaderPhiIn(idle, 0); ph != nil {
				o = &counter{phi: ph, name: "ongoing"}
			} else if k := m.findCellIn(idle, 0); k != "" {
				o = &counter{cell: k, name: "ongoing"}
			}
		}
		if p != nil && w != nil && o != nil {
			m.cPending, m.cWaiting, m.cOngoing = p, w, o
			m.counters = []*counter{p, o, w}
			m.stateVal = cand
			return nil
		}
	}
	// structural fallback: pending is the int counter tested against 0 on the way out, ongoing the one
	// compared with the concurrency limit, waiting the remaining loop-carried int.
	var ints []*ssa.Phi
	for _, in := range m.header.Instrs {
		if p, ok := in.(*ssa.Phi); ok && isInt(p.Type()) && types.Identical(p.Type(), types.Typ[types.Int]) {
			ints = append(ints, p)
		}
	}
	for _, b := range m.fnLoop.Blocks {
		i := ssax.IfOf(b)
		if i == nil || !m.loopBlocks[b] {
			continue
		}
		a := m.mkAtom(i.Cond, true)
		for _, p := range ints {
			vs := m.versions(p)
			if ok, _ := eqInt(a, 0, func(v ssa.Value) bool { return vs[v] }); ok && m.cPending == nil {
				m.cPending = &counter{phi: p, name: "pending"}
			}
			if (a.op == "<" || a.op == "<=") && (vs[a.av] && m.isField(a.bv, m.fConc) || vs[a.bv] && m.isField(a.av, m.fConc)) {
				m.cOngoing = &counter{phi: p, name: "ongoing"}
			}
		}
	}
	for _, p := range ints {
		if (m.cPending == nil || p != m.cPending.phi) && (m.cOngoing == nil || p != m.cOngoing.phi) && len(ints) == 3 {
			m.cWaiting = &counter{phi: p, name: "waiting"}
		}
	}
	if m.cPending != nil && m.cWaiting != nil && m.cOngoing != nil && m.cPending.phi != m.cOngoing.phi {
		m.counters = []*counter{m.cPending, m.cOngoing, m.cWaiting}
		return nil
	}
	if true {
		return fmt.Errorf("scheduler loop: the loop-carried counters (pending, waiting, executing) could not be identified from the state report or from the loop's tests")
	}
	return nil
}

// findCellIn: the counter cell that v is computed from (through -, helper calls, conversions).
func (m *model) findCellIn(v ssa.Value, depth int) string {
	if depth > 6 || v == nil {
		return ""
	}
	v = m.resolve(v)
	if k, _ := m.cellKey(v); k != "" && isInt(v.Type()) {
		return k
	}
	switch x := v.(type) {
	case *ssa.BinOp:
		if k := m.findCellIn(x.Y, depth+1); k != "" {
			return k
		}
		return m.findCellIn(x.X, depth+1)
	case *ssa.Call:
		for _, a := range x.Call.Args {
			if k := m.findCellIn(a, depth+1); k != "" {
				return k
			}
		}
	case *ssa.Phi:
		for _, e := range x.Edges {
			if k := m.findCellIn(e, depth+1); k != "" {
				return k
			}
		}
	case *ssa.Convert:
		return m.findCellIn(x.X, depth+1)
	}
	return ""
}

// findHeaderPhiIn: the int header phi that v is computed from (through -, helper calls, conversions).
func (m *model) findHeaderPhiIn(v ssa.Value, depth int) *ssa.Phi {
	if depth > 6 {
		return nil
	}
	v = m.resolve(v)
	if p := m.headerPhi(v); p != nil && isInt(p.Type()) {
		return p
	}
	switch x := v.(type) {
	case *ssa.BinOp:
		if p := m.findHeaderPhiIn(x.Y, depth+1); p != nil {
			return p
		}
		return m.findHeaderPhiIn(x.X, depth+1)
	case *ssa.Call:
		for _, a := range x.Call.Args {
			if p := m.findHeaderPhiIn(a, depth+1); p != nil {
				return p
			}
		}
	case *ssa.Phi:
		for _, e := range x.Edges {
			if p := m.findHeaderPhiIn(e, depth+1); p != nil {
				return p
			}
		}
	case *ssa.Convert:
		return m.findHeaderPhiIn(x.X, depth+1)
	}
	return nil
}

func (m *model) discoverWorker() error {
	fn := m.fnWorker
	for _, p := range fn.Params {
		el := chanElemOr(p.Type())
		if isPtrTo(el, m.SJ) {
			m.wReadyP = p
		} else if types.Identical(el, m.JobResult) {
			m.wDoneP = p
		}
	}
	if m.wReadyP == nil || m.wDoneP == nil {
		return fmt.Errorf("worker does not take the ready and result channels as parameters")
	}
	var recvs []*ssa.UnOp
	ssax.Instrs(fn, func(in ssa.Instruction) {
		if u, ok := in.(*ssa.UnOp); ok && u.Op == token.ARROW && ssax.Unspill(u.X) == ssa.Value(m.wReadyP) {
			recvs = append(recvs, u)
		}
	})
	if len(recvs) != 1 || !recvs[0].CommaOk {
		return fmt.Errorf("worker does not receive from its ready-channel parameter at exactly one site with the closed test (range / v, ok := <-c)")
	}
	m.wRecv = recvs[0]
	for _, r := range *m.wRecv.Referrers() {
		if e, ok := r.(*ssa.Extract); ok {
			if e.Index == 0 {
				m.wJob = e
			} else {
				m.wOK = e
			}
		}
	}
	if m.wJob == nil || m.wOK == nil {
		return fmt.Errorf("worker ignores the received job or the closed flag")
	}
	if !inAnyLoop(m.wRecv.Block()) {
		return fmt.Errorf("worker's receive is not in a loop")
	}
	m.wLoopHdr = m.wRecv.Block()
	// first deferred closure
	ssax.Instrs(fn, func(in ssa.Instruction) {
		if d, ok := in.(*ssa.Defer); ok && m.fnWorkerDefer == nil {
			if mc, ok := d.Call.Value.(*ssa.MakeClosure); ok {
				m.fnWorkerDefer, _ = mc.Fn.(*ssa.Function)
			} else if callee := d.Call.StaticCallee(); callee != nil && callee.Pkg == m.pkg {
				m.fnWorkerDefer = callee
			}
		}
	})
	return nil
}

// armOf names the select arm (or other place) an instruction belongs to.
func (m *model) armOf(in ssa.Instruction) string {
	in = m.rootSite(in)
	fn := in.Parent()
	if fn != m.fnLoop {
		if top(fn) == m.fnLoop {
			return "deferred-closure"
		}
		return "outside-loop"
	}
	b := in.Block()
	for _, a := range m.arms {
		if a.inside(b) {
			return a.name
		}
	}
	if m.loopBlocks[b] {
		return "outside-select"
	}
	return "before-loop"
}

func (m *model) armByName(name string) *arm {
	for _, a := range m.arms {
		if a.name == name {
			return a
		}
	}
	return nil
}

// inside: region predicate of an arm: blocks that can only be reached through the edge taken when
// this select state was chosen (an empty case body shares its first block with other arms and is empty).
func (a *arm) inside(b *ssa.BasicBlock) bool { return a.member[b] }

// edgeRegion: the blocks dominated by the edge from -> from.Succs[idx].
func edgeRegion(from *ssa.BasicBlock, idx int) map[*ssa.BasicBlock]bool {
	out := map[*ssa.BasicBlock]bool{}
	if from == nil || idx >= len(from.Succs) || from.Succs[0] == from.Succs[1] {
		return out
	}
	for _, b := range from.Parent().Blocks {
		if ssax.EdgeDominates(from, idx, b) {
			out[b] = true
		}
	}
	return out
}

// selectArmEdge: the block testing `index == k` and its true successor.
func selectArmEdge(sel *ssa.Select, k int) (*ssa.BasicBlock, *ssa.BasicBlock) {
	var idx ssa.Value
	for _, r := range *sel.Referrers() {
		if e, ok := r.(*ssa.Extract); ok && e.Index == 0 {
			idx = e
		}
	}
	if idx == nil {
		return nil, nil
	}
	for _, r := range *idx.Referrers() {
		b, ok := r.(*ssa.BinOp)
		if !ok || b.Op != token.EQL || !ssax.IsConstInt(b.Y, int64(k)) {
			continue
		}
		for _, rr := range *b.Referrers() {
			if i, ok := rr.(*ssa.If); ok {
				return i.Block(), i.Block().Succs[0]
			}
		}
	}
	return nil, nil
}
