package sched

import (
	"fmt"
	"go/ast"
	"go/token"
	"go/types"

	"cffverif/internal/astx"
	"cffverif/internal/report"
)

func (r *roles) isSelf(e ast.Expr, f *types.Var) bool {
	_, v, ok := astx.FieldSel(r.info, e)
	return ok && v == f
}

// errVarOfRes: is e (an identifier) defined as `err := res.Err`? or res.Err itself.
func (r *roles) isResErr(e ast.Expr, conds []astx.Cond) bool {
	e = r.resolveInit(e, conds)
	return astx.IsFieldOf(r.info, e, r.doneRes, r.jrErr)
}

// S17 loop exits, S18 closed enqueue, S19 arms never starved, S22 continue mode.
func (r *roles) ruleLoopExits(s *report.Sink) {
	info := r.info
	// returns
	nFail, nDone := 0, 0
	ast.Inspect(r.Loop.Body, func(n ast.Node) bool {
		if _, ok := n.(*ast.FuncLit); ok {
			return false
		}
		ret, ok := n.(*ast.ReturnStmt)
		if !ok {
			return true
		}
		conds := r.par.Known(ret, r.Loop)
		// (b)
		p0 := hasCond(conds, true, func(e ast.Expr) bool {
			l, k, ok := astx.EqIntConst(info, e)
			return ok && k == 0 && astx.IdentObj(info, l) == r.pending
		})
		closed := hasCond(conds, true, func(e ast.Expr) bool {
			x, ok := astx.EqNil(info, e)
			return ok && astx.IdentObj(info, x) == r.enqLocal
		})
		if p0 != nil && closed != nil {
			nDone++
			s.OK("S17", "loop|exit on pending==0 && closed", r.pos(ret), "normal completion: nothing in flight and no more enqueues")
			return true
		}
		// (a)
		failed := hasCond(conds, false, func(e ast.Expr) bool {
			x, ok := astx.EqNil(info, e)
			return ok && r.isResErr(x, conds)
		})
		notCont := hasCond(conds, false, func(e ast.Expr) bool { return r.isSelf(e, r.fCOE) })
		stored := false
		for _, sib := range siblingStmts(r.par, ret) {
			if sib.Pos() >= ret.Pos() {
				break
			}
			if as, ok := sib.(*ast.AssignStmt); ok && len(as.Lhs) == 1 && len(as.Rhs) == 1 && r.isSelf(as.Lhs[0], r.fErr) && r.isResErr(as.Rhs[0], conds) {
				stored = true
			}
		}
		if failed != nil && notCont != nil && stored && r.par.Within(ret, r.armDone) {
			nFail++
			s.OK("S17", "loop|exit on first failure (fail-fast)", r.pos(ret), "the failing job's error is stored before leaving")
			return true
		}
		s.Bad("S17", "loop|unjustified exit#"+r.armName(ret), r.pos(ret), "the loop returns neither on (pending == 0 && enqueue channel closed) nor on (job failed && !continueOnError with the error stored): Wait could report nil with work outstanding, or lose the error")
		return true
	})
	s.Check(nDone >= 1, "S17", "loop|has a completion exit", r.pos(r.Loop), "", "no exit under pending == 0 && closed")
	s.Check(nFail >= 1, "S17", "loop|has a fail-fast exit", r.pos(r.Loop), "", "no fail-fast exit storing the error")
	// no break out of the main for, no condition on it
	brk := false
	ast.Inspect(r.mainFor.Body, func(n ast.Node) bool {
		if _, ok := n.(*ast.FuncLit); ok {
			return false
		}
		if b, ok := n.(*ast.BranchStmt); ok && b.Tok == token.BREAK {
			enc := r.par.Enclosing(b, func(x ast.Node) bool {
				switch x.(type) {
				case *ast.ForStmt, *ast.RangeStmt, *ast.SwitchStmt, *ast.SelectStmt, *ast.TypeSwitchStmt:
					return true
				}
				return false
			})
			if enc == ast.Node(r.mainFor) {
				brk = true
			}
		}
		return true
	})
	s.Check(!brk && r.mainFor.Cond == nil, "S17", "loop|main for has no other way out", r.pos(r.mainFor), "`for {` without break", "main loop can be left by break/condition without meeting an exit rule")

	// S30: the loop blocks only in its select (and in the deferred drain)
	nOps := 0
	ast.Inspect(r.Loop.Body, func(n ast.Node) bool {
		if _, ok := n.(*ast.FuncLit); ok {
			return false
		}
		var what string
		switch v := n.(type) {
		case *ast.UnaryExpr:
			if v.Op == token.ARROW {
				what = "receive " + astx.Short(v)
			}
		case *ast.SendStmt:
			what = "send on " + astx.Short(v.Chan)
		case *ast.RangeStmt:
			if _, ok := info.TypeOf(v.X).Underlying().(*types.Chan); ok {
				what = "range over channel " + astx.Short(v.X)
			}
		case *ast.SelectStmt:
			if v != r.sel {
				what = "another select"
			}
		case *ast.CallExpr:
			if fn := astx.Callee(info, v); fn != nil && (fn.FullName() == "time.Sleep" || fn.FullName() == "(*sync.WaitGroup).Wait" || fn.FullName() == "(*sync.Mutex).Lock") {
				what = "blocking call " + fn.FullName()
			}
		}
		if what == "" {
			return true
		}
		nOps++
		cc, _ := r.par.Enclosing(n, func(x ast.Node) bool { _, ok := x.(*ast.CommClause); return ok }).(*ast.CommClause)
		isComm := cc != nil && r.par[r.par[cc]] == ast.Node(r.sel) && cc.Comm != nil && r.par.Within(n, cc.Comm)
		s.Check(isComm, "S30", "loop|"+what+"#"+r.armName(n), r.pos(n), "a communication of the loop's single select", "the scheduler loop blocks outside its select ("+what+"): while it does, Enqueue and Wait are not served and a fail-fast or cancelled run does not return promptly")
		return true
	})
	if nOps == 0 {
		s.Unk("S30", "loop|channel operations", r.pos(r.Loop), "no channel operation found in the loop")
	}

	// S18
	var notOK *ast.IfStmt
	for _, st := range r.armEnq.Body {
		if is, ok := st.(*ast.IfStmt); ok {
			if u, ok := astx.Unparen(is.Cond).(*ast.UnaryExpr); ok && u.Op == token.NOT && astx.IdentObj(info, u.X) == r.enqOK {
				notOK = is
			}
		}
		break
	}
	if notOK == nil {
		s.Bad("S18", "loop|closed enqueue channel handled first", r.pos(r.armEnq), "enqueue arm does not start with `if !ok {`: a nil job from the closed channel would be processed")
	} else {
		good := len(notOK.Body.List) == 2 && notOK.Else == nil
		if good {
			as, ok1 := notOK.Body.List[0].(*ast.AssignStmt)
			br, ok2 := notOK.Body.List[1].(*ast.BranchStmt)
			good = ok1 && ok2 && len(as.Lhs) == 1 && astx.IdentObj(info, as.Lhs[0]) == r.enqLocal && astx.IsNil(info, as.Rhs[0]) && (br.Tok == token.BREAK || br.Tok == token.CONTINUE)
			// `continue` would skip the exit test after the select
			if good && br.Tok == token.CONTINUE {
				good = false
			}
		}
		s.Check(good, "S18", "loop|closed enqueue channel only disables the arm", r.pos(notOK), "`enqueuec = nil; break`", "the !ok branch does something other than disabling the arm and falling to the exit test")
	}
	// S19
	ch, _ := recvOf(r.armDone)
	s.Check(r.isSelf(ch, r.fDONE), "S19", "loop|result arm reads s.donec directly", r.pos(r.armDone), "the result arm can never be disabled", "result arm receives from a local that could be nil: results would be ignored and workers block")
	nNil := 0
	okW := true
	astx.Writes(r.Loop.Body, func(l ast.Expr, at ast.Node) {
		if astx.IdentObj(info, l) != r.enqLocal {
			return
		}
		as, ok := at.(*ast.AssignStmt)
		if !ok || len(as.Rhs) != 1 {
			okW = false
			return
		}
		switch {
		case as.Tok == token.DEFINE && r.isSelf(as.Rhs[0], r.fENQ) && !r.par.Within(as, r.mainFor):
		case astx.IsNil(info, as.Rhs[0]) && notOK != nil && r.par.Within(as, notOK.Body):
			nNil++
		default:
			okW = false
		}
	})
	s.Check(okW && nNil == 1, "S19", "loop|enqueue arm disabled only on close", r.pos(r.armEnq), "local enqueue channel = s.enqueuec until closed", "the local enqueue channel is reassigned elsewhere: Enqueue could block while the loop is alive")

	// S22
	var errIf *ast.IfStmt
	for _, st := range r.armDone.Body {
		if is, ok := st.(*ast.IfStmt); ok {
			var cs []astx.Cond
			astx.Split(is.Cond, true, is, &cs)
			if len(cs) == 1 && !cs[0].Pos {
				if x, ok := astx.EqNil(info, cs[0].E); ok && r.isResErr(x, nil) {
					errIf = is
				}
			}
		}
	}
	if errIf == nil {
		s.Unk("S22", "loop|failure branch", r.pos(r.armDone), "no top-level `if err := res.Err; err != nil` in the result arm")
		return
	}
	// job.err = err first
	first := false
	if len(errIf.Body.List) > 0 {
		if as, ok := errIf.Body.List[0].(*ast.AssignStmt); ok && len(as.Lhs) == 1 {
			if b, f, ok := astx.FieldSel(info, as.Lhs[0]); ok && f == r.sjErr && r.isDoneJobExpr(b) && r.isResErr(as.Rhs[0], nil) {
				first = true
			}
		}
	}
	s.Check(first, "S22", "loop|job.err recorded before the mode branch", r.pos(errIf), "late enqueues see the failure", "the failed job's err is not recorded first: a dependent enqueued later would run")
	// multierr.Append guarded by !errors.Is(err, sentinel)
	nApp := 0
	ast.Inspect(errIf.Body, func(n ast.Node) bool {
		c, ok := n.(*ast.CallExpr)
		if !ok {
			return true
		}
		fn := astx.Callee(info, c)
		if fn == nil || fn.FullName() != "go.uber.org/multierr.Append" {
			return true
		}
		nApp++
		conds := r.par.Known(c, errIf)
		g := hasCond(conds, false, func(e ast.Expr) bool {
			ic, ok := astx.Unparen(e).(*ast.CallExpr)
			if !ok {
				return false
			}
			f2 := astx.Callee(info, ic)
			return f2 != nil && f2.FullName() == "errors.Is" && len(ic.Args) == 2 && r.isResErr(ic.Args[0], nil)
		})
		cont := hasCond(conds, true, func(e ast.Expr) bool { return r.isSelf(e, r.fCOE) })
		as, _ := r.par[c].(*ast.AssignStmt)
		shape := as != nil && len(as.Lhs) == 1 && r.isSelf(as.Lhs[0], r.fErr) && len(c.Args) == 2 && r.isSelf(c.Args[0], r.fErr) && r.isResErr(c.Args[1], nil)
		s.Check(g != nil && cont != nil && len(conds) == 2 && shape, "S22", "loop|s.err = multierr.Append(s.err, err) iff !sentinel", r.pos(c), "every real failure is appended exactly once, the sentinel never", "multierr.Append is not exactly `s.err = multierr.Append(s.err, err)` under continueOnError && !errors.Is(err, sentinel)")
		return true
	})
	s.Check(nApp == 1, "S22", "loop|one append site", r.pos(errIf), "", fmt.Sprintf("%d multierr.Append sites (want 1)", nApp))
	// invalidation loop
	inval := false
	var invalRange *ast.RangeStmt
	ast.Inspect(errIf.Body, func(n ast.Node) bool {
		rs, ok := n.(*ast.RangeStmt)
		if !ok || rs.Value == nil {
			return true
		}
		b, f, ok := astx.FieldSel(info, rs.X)
		if !ok || f != r.sjConsumers || !r.isDoneJobExpr(b) {
			return true
		}
		c := astx.IdentObj(info, rs.Value)
		conds := r.par.Known(rs, errIf)
		cont := hasCond(conds, true, func(e ast.Expr) bool { return r.isSelf(e, r.fCOE) })
		if cont == nil || len(conds) != 1 {
			return true
		}
		for _, st := range rs.Body.List {
			if as, ok := st.(*ast.AssignStmt); ok && len(as.Lhs) == 1 && astx.IsFieldOf(info, as.Lhs[0], c, r.sjInvalid) && astx.IsBoolConst(info, as.Rhs[0], true) && r.par[r.par[as]] == ast.Node(rs) {
				inval = true
				invalRange = rs
			}
		}
		return true
	})
	s.Check(inval, "S22", "loop|every consumer of a failed job is invalidated", r.pos(errIf), "for real errors and for the sentinel alike (transitive)", "under continueOnError the consumers of a failed/invalid job are not all unconditionally marked invalid: tasks downstream of a failure run")
	_ = invalRange
}

// S20 Wait, S21 Enqueue.
func (r *roles) ruleWaitEnqueue(s *report.Sink) {
	info := r.info
	ctxParam := func(fd *ast.FuncDecl) types.Object {
		for _, f := range fd.Type.Params.List {
			if isContext(info.TypeOf(f.Type)) && len(f.Names) == 1 {
				return info.Defs[f.Names[0]]
			}
		}
		return nil
	}
	// Wait
	wctx := ctxParam(r.Wait)
	var sel *ast.SelectStmt
	closed := false
	for _, st := range r.Wait.Body.List {
		if es, ok := st.(*ast.ExprStmt); ok {
			if c, ok := es.X.(*ast.CallExpr); ok && astx.IsBuiltin(info, c, "close") && r.isSelf(c.Args[0], r.fENQ) && sel == nil {
				closed = true
			}
		}
		if x, ok := st.(*ast.SelectStmt); ok {
			sel = x
		}
	}
	s.Check(closed, "S20", "Wait|closes the enqueue channel before blocking", r.pos(r.Wait), "the loop learns that no more jobs come", "Wait does not close the enqueue channel before selecting: the loop never reaches its completion exit")
	isCtxCall := func(e ast.Expr, m string) bool {
		c, ok := astx.Unparen(e).(*ast.CallExpr)
		if !ok {
			return false
		}
		se, ok := c.Fun.(*ast.SelectorExpr)
		return ok && se.Sel.Name == m && astx.IdentObj(info, se.X) == wctx && len(c.Args) == 0
	}
	if sel == nil || wctx == nil {
		s.Unk("S20", "Wait|select", r.pos(r.Wait), "no top-level select / ctx parameter")
	} else {
		var doneArm, finArm *ast.CommClause
		other := 0
		for _, c := range sel.Body.List {
			cc := c.(*ast.CommClause)
			ch, _ := recvOf(cc)
			switch {
			case ch != nil && isCtxCall(ch, "Done"):
				doneArm = cc
			case ch != nil && r.isSelf(ch, r.fFIN):
				finArm = cc
			default:
				other++
			}
		}
		s.Check(doneArm != nil && finArm != nil && other == 0, "S20", "Wait|select = {ctx.Done, finished}", r.pos(sel), "blocking select on exactly the context and the loop's finish channel", "Wait's select is not exactly {<-ctx.Done(), <-s.finishedc} (default clause, missing cancellation arm, or extra arm)")
		if doneArm != nil {
			good := len(doneArm.Body) == 1
			if good {
				ret, ok := doneArm.Body[0].(*ast.ReturnStmt)
				good = ok && len(ret.Results) == 1 && isCtxCall(ret.Results[0], "Err")
			}
			s.Check(good, "S20", "Wait|ctx.Done arm returns ctx.Err() at once", r.pos(doneArm), "no further blocking operation on cancellation", "cancellation arm does not immediately return ctx.Err()")
		}
		if finArm != nil {
			nret := 0
			good := true
			ast.Inspect(finArm, func(n ast.Node) bool {
				ret, ok := n.(*ast.ReturnStmt)
				if !ok {
					return true
				}
				nret++
				if len(ret.Results) != 1 {
					good = false
					return true
				}
				e := ret.Results[0]
				conds := r.par.Known(ret, finArm)
				if r.isSelf(e, r.fErr) {
					// must be known non-nil, else ctx.Err() must be consulted
					if hasCond(conds, false, func(c ast.Expr) bool { x, ok := astx.EqNil(info, c); return ok && r.isSelf(x, r.fErr) }) == nil {
						good = false
					}
					return true
				}
				if isCtxCall(e, "Err") {
					return true
				}
				v := astx.IdentObj(info, e)
				if v == nil {
					good = false
					return true
				}
				// all writes to v: `v := s.err` and `v = ctx.Err()` under v == nil
				seenInit := false
				astx.Writes(finArm, func(l ast.Expr, at ast.Node) {
					if astx.IdentObj(info, l) != v {
						return
					}
					as, ok := at.(*ast.AssignStmt)
					if !ok || len(as.Rhs) != 1 {
						good = false
						return
					}
					if r.isSelf(as.Rhs[0], r.fErr) {
						seenInit = true
						return
					}
					cs := r.par.Known(at, finArm)
					isNil := hasCond(cs, true, func(c ast.Expr) bool { x, ok := astx.EqNil(info, c); return ok && astx.IdentObj(info, x) == v })
					if !(isCtxCall(as.Rhs[0], "Err") && isNil != nil) {
						good = false
					}
				})
				if !seenInit {
					good = false
				}
				return true
			})
			s.Check(good && nret >= 1, "S20", "Wait|finished arm returns s.err, else ctx.Err()", r.pos(finArm), "the job error wins; nil only if the context is also live", "after the loop finished Wait does not return the scheduler error (falling back to ctx.Err() only when it is nil)")
		}
	}
	// Enqueue
	ectx := ctxParam(r.Enqueue)
	var jobParam types.Object
	for _, f := range r.Enqueue.Type.Params.List {
		if types.Identical(info.TypeOf(f.Type), r.JobT) && len(f.Names) == 1 {
			jobParam = info.Defs[f.Names[0]]
		}
	}
	var lit *ast.CompositeLit
	var send *ast.SendStmt
	var ret *ast.ReturnStmt
	loops, calls, otherFields := 0, 0, 0
	ast.Inspect(r.Enqueue.Body, func(n ast.Node) bool {
		switch x := n.(type) {
		case *ast.CompositeLit:
			if types.Identical(info.TypeOf(x), r.SJ) {
				lit = x
			}
		case *ast.SendStmt:
			send = x
		case *ast.ReturnStmt:
			ret = x
		case *ast.ForStmt, *ast.RangeStmt, *ast.SelectStmt, *ast.GoStmt, *ast.DeferStmt:
			loops++
		case *ast.CallExpr:
			calls++
		case *ast.SelectorExpr:
			if _, f, ok := astx.FieldSel(info, x); ok {
				st := structOf(r.Sched)
				for i := 0; i < st.NumFields(); i++ {
					if st.Field(i) == f && f != r.fENQ {
						otherFields++
					}
				}
			}
		}
		return true
	})
	good := lit != nil && send != nil && ret != nil && ectx != nil && jobParam != nil
	var pj types.Object
	if good {
		if u, ok := r.par[lit].(*ast.UnaryExpr); ok && u.Op == token.AND {
			if as, ok := r.par[u].(*ast.AssignStmt); ok && len(as.Lhs) == 1 {
				pj = astx.IdentObj(info, as.Lhs[0])
			}
		}
		vals := map[*types.Var]ast.Expr{}
		for _, e := range lit.Elts {
			if kv, ok := e.(*ast.KeyValueExpr); ok {
				if k, ok := info.Uses[kv.Key.(*ast.Ident)].(*types.Var); ok {
					vals[k] = kv.Value
				}
			}
		}
		good = pj != nil && len(vals) == 3 && vals[r.sjCtx] != nil && astx.IdentObj(info, vals[r.sjCtx]) == ectx &&
			vals[r.sjRun] != nil && astx.IsFieldOf(info, vals[r.sjRun], jobParam, r.jobRun) &&
			vals[r.sjDeps] != nil && astx.IsFieldOf(info, vals[r.sjDeps], jobParam, r.jobDeps) &&
			r.isSelf(send.Chan, r.fENQ) && astx.IdentObj(info, send.Value) == pj && len(ret.Results) == 1 && astx.IdentObj(info, ret.Results[0]) == pj
	}
	s.Check(good, "S21", "Enqueue|builds {ctx, run, deps}, sends it, returns it", r.pos(r.Enqueue), "the job carries the caller's ctx, Run and Dependencies unchanged", "Enqueue does not build &ScheduledJob{ctx: ctx, run: j.Run, deps: j.Dependencies}, send it on the enqueue channel and return it")
	s.Check(loops == 0 && calls == 0 && otherFields == 0, "S21", "Enqueue|touches no scheduler state", r.pos(r.Enqueue), "no loop, call, lock or other Scheduler field: safe from any goroutine", fmt.Sprintf("Enqueue has %d loop/select/go/defer, %d call(s), %d other Scheduler field access(es): it is no longer trivially race-free and non-blocking", loops, calls, otherFields))
}
