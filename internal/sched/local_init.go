package sched

import (
	"go/token"
	"go/types"

	"golang.org/x/tools/go/ssa"

	"cffverif/internal/ssax"
)

// localInit: addr is the address of field f of a local struct variable a of some function F (possibly seen through
// the parameter of a single-site helper or deferred method, or through a captured variable). If f is written
// exactly once - by F itself, outside any cycle, in a block that dominates every instruction of F that lets a
// reach other code and every load of f in F - and a never leaves the goroutine of F (it is only handed to
// single-site helpers, deferred calls and closures that are called or deferred, never stored, sent or started
// with go), every load of f yields the value stored: that value is returned, else nil.
//
// This is what lets `exit := workerExit{readyc: readyc, donec: donec}; defer exit.handle()` be read as a handler
// that uses the worker's own channels.
func (m *model) localInit(addr ssa.Value) ssa.Value {
	fa, ok := addr.(*ssa.FieldAddr)
	if !ok {
		return nil
	}
	_, f, _ := ssax.FieldAddrOf(fa)
	a := m.rootAlloc(fa.X)
	if a == nil || f == nil {
		return nil
	}
	if m.initMemo == nil {
		m.initMemo = map[*ssa.Alloc]map[*types.Var]ssa.Value{}
	}
	if fm, ok := m.initMemo[a]; ok {
		return fm[f]
	}
	fm := map[*types.Var]ssa.Value{}
	m.initMemo[a] = fm
	F := a.Parent()
	type stInfo struct {
		st *ssa.Store
		n  int
	}
	stores := map[*types.Var]*stInfo{}
	var loads []*ssa.UnOp
	var handoffs []ssa.Instruction // instructions of F that pass a (or a part) on
	okAll := true
	seen := map[ssa.Value]bool{}
	var walk func(v ssa.Value, field *types.Var)
	walk = func(v ssa.Value, field *types.Var) {
		if seen[v] || !okAll {
			return
		}
		seen[v] = true
		refs := v.Referrers()
		if refs == nil {
			okAll = false
			return
		}
		for _, r := range *refs {
			switch x := r.(type) {
			case *ssa.DebugRef:
			case *ssa.FieldAddr:
				if x.X != v {
					okAll = false
					return
				}
				_, ff, _ := ssax.FieldAddrOf(x)
				if field != nil {
					ff = field // a part of a field: judged with the field
				}
				walk(x, ff)
			case *ssa.UnOp:
				if x.Op != token.MUL {
					okAll = false
					return
				}
				if field == nil {
					okAll = false // the whole struct is copied
					return
				}
				if x.Parent() == F {
					loads = append(loads, x)
				}
			case *ssa.Store:
				if x.Addr != v || x.Val == v || field == nil {
					okAll = false
					return
				}
				si := stores[field]
				if si == nil {
					si = &stInfo{}
					stores[field] = si
				}
				si.st = x
				si.n++
			case *ssa.Call, *ssa.Defer:
				ci := x.(ssa.CallInstruction)
				callee := ci.Common().StaticCallee()
				if callee == nil || callee.Blocks == nil || m.bindSite[callee] != ci || ci.Common().Value == v {
					okAll = false
					return
				}
				if x.Parent() == F {
					handoffs = append(handoffs, x)
				}
				for k, arg := range ci.Common().Args {
					if arg == v {
						if k >= len(callee.Params) {
							okAll = false
							return
						}
						walk(callee.Params[k], field)
					}
				}
			case *ssa.MakeClosure:
				fn, _ := x.Fn.(*ssa.Function)
				if fn == nil {
					okAll = false
					return
				}
				// the closure itself is only called or deferred
				if crefs := x.Referrers(); crefs != nil {
					for _, cr := range *crefs {
						switch c := cr.(type) {
						case *ssa.Defer:
							if c.Call.Value != ssa.Value(x) {
								okAll = false
							}
						case *ssa.Call:
							if c.Call.Value != ssa.Value(x) {
								okAll = false
							}
						case *ssa.DebugRef:
						default:
							okAll = false
						}
					}
				}
				if x.Parent() == F {
					handoffs = append(handoffs, x)
				}
				for k, b := range x.Bindings {
					if b == v {
						walk(fn.FreeVars[k], field)
					}
				}
			default:
				okAll = false
				return
			}
		}
	}
	walk(a, nil)
	if !okAll {
		return nil
	}
	for fv, si := range stores {
		if si.n != 1 || si.st.Parent() != F || reachFrom(si.st.Block(), si.st.Block()) {
			continue
		}
		good := true
		for _, h := range handoffs {
			if !ssax.Before(si.st, h) {
				good = false
			}
		}
		for _, l := range loads {
			if la, ok := l.X.(*ssa.FieldAddr); ok {
				if _, lf, _ := ssax.FieldAddrOf(la); lf == fv && !ssax.Before(si.st, l) {
					good = false
				}
			}
		}
		if good {
			fm[fv] = si.st.Val
		}
	}
	return fm[f]
}
