// Package load loads /repo's packages (types, syntax, SSA) for the analyses.
package load

import (
	"fmt"
	"go/token"
	"go/types"
	"os"
	"path/filepath"
	"sort"
	"strings"
	"sync"

	"golang.org/x/tools/go/packages"
	"golang.org/x/tools/go/ssa"
	"golang.org/x/tools/go/ssa/ssautil"
)

const Module = "go.uber.org/cff"

// Repo is the loaded module.
type Repo struct {
	Dir  string
	Fset *token.FileSet
	Pkgs map[string]*packages.Package // by import path, module packages only
	All  map[string]*packages.Package // incl. dependencies
	Prog *ssa.Program
	SSA  map[string]*ssa.Package // module packages

	once sync.Once
}

// RepoDir returns the directory under analysis (default /repo).
func RepoDir() string {
	if d := os.Getenv("CFFVERIF_REPO"); d != "" {
		return d
	}
	return "/repo"
}

func Env() []string {
	env := os.Environ()
	out := env[:0:0]
	for _, e := range env {
		if strings.HasPrefix(e, "GOWORK=") || strings.HasPrefix(e, "GOFLAGS=") || strings.HasPrefix(e, "GOPROXY=") ||
			strings.HasPrefix(e, "GOSUMDB=") || strings.HasPrefix(e, "GOTOOLCHAIN=") {
			continue
		}
		out = append(out, e)
	}
	return append(out, "GOWORK=off", "GOFLAGS=-mod=mod", "GOPROXY=off", "GOSUMDB=off", "GOTOOLCHAIN=local")
}

// Load loads all non-test packages of the root module with syntax, types and SSA.
func Load(dir string) (*Repo, error) {
	fset := token.NewFileSet()
	cfg := &packages.Config{
		Mode: packages.NeedName | packages.NeedFiles | packages.NeedCompiledGoFiles | packages.NeedImports |
			packages.NeedDeps | packages.NeedTypes | packages.NeedSyntax | packages.NeedTypesInfo | packages.NeedTypesSizes | packages.NeedModule | packages.NeedEmbedFiles | packages.NeedEmbedPatterns,
		Dir:  dir,
		Fset: fset,
		Env:  Env(),
	}
	pkgs, err := packages.Load(cfg, "./...", "runtime/debug", "time", "context", "sync/atomic")
	if err != nil {
		return nil, err
	}
	r := &Repo{Dir: dir, Fset: fset, Pkgs: map[string]*packages.Package{}, All: map[string]*packages.Package{}, SSA: map[string]*ssa.Package{}}
	var errs []string
	packages.Visit(pkgs, nil, func(p *packages.Package) {
		r.All[p.PkgPath] = p
		if p.Module != nil && p.Module.Path == Module {
			for _, e := range p.Errors {
				errs = append(errs, e.Error())
			}
		}
	})
	for _, p := range pkgs {
		if p.Module != nil && p.Module.Path == Module {
			r.Pkgs[p.PkgPath] = p
		}
	}
	if len(errs) > 0 {
		sort.Strings(errs)
		return nil, fmt.Errorf("load errors in %s: %s", dir, strings.Join(errs, "; "))
	}
	if len(r.Pkgs) < 7 {
		return nil, fmt.Errorf("only %d packages loaded from %s (expected >= 7)", len(r.Pkgs), dir)
	}
	for _, want := range []string{Module, Module + "/scheduler", Module + "/internal", Module + "/cmd/cff", Module + "/internal/modifier", Module + "/internal/pkg", Module + "/internal/flag"} {
		if r.Pkgs[want] == nil {
			return nil, fmt.Errorf("package %s not loaded", want)
		}
	}
	return r, nil
}

// BuildSSA builds SSA for the whole program (idempotent).
func (r *Repo) BuildSSA() {
	r.once.Do(func() {
		var roots []*packages.Package
		for _, p := range r.Pkgs {
			roots = append(roots, p)
		}
		sort.Slice(roots, func(i, j int) bool { return roots[i].PkgPath < roots[j].PkgPath })
		prog, spkgs := ssautil.AllPackages(roots, ssa.InstantiateGenerics)
		prog.Build()
		r.Prog = prog
		for i, p := range roots {
			r.SSA[p.PkgPath] = spkgs[i]
		}
	})
}

// Rel returns a position as path relative to the repo dir + line.
func (r *Repo) Rel(pos token.Pos) string {
	if !pos.IsValid() {
		return ""
	}
	p := r.Fset.Position(pos)
	f := p.Filename
	if rel, err := filepath.Rel(r.Dir, f); err == nil && !strings.HasPrefix(rel, "..") {
		f = rel
	}
	return fmt.Sprintf("%s:%d", f, p.Line)
}

// Types returns the *types.Package for an import path (any loaded package).
func (r *Repo) Types(path string) *types.Package {
	if p := r.All[path]; p != nil {
		return p.Types
	}
	return nil
}

// SourceFuncs lists all functions (incl. anonymous and methods) of an SSA package.
func SourceFuncs(p *ssa.Package) []*ssa.Function {
	var out []*ssa.Function
	seen := map[*ssa.Function]bool{}
	var add func(f *ssa.Function)
	add = func(f *ssa.Function) {
		if f == nil || seen[f] || f.Blocks == nil {
			return
		}
		seen[f] = true
		out = append(out, f)
		for _, a := range f.AnonFuncs {
			add(a)
		}
	}
	for _, m := range p.Members {
		switch m := m.(type) {
		case *ssa.Function:
			add(m)
		case *ssa.Type:
			for _, t := range []types.Type{m.Type(), types.NewPointer(m.Type())} {
				ms := p.Prog.MethodSets.MethodSet(t)
				for i := 0; i < ms.Len(); i++ {
					f := p.Prog.MethodValue(ms.At(i))
					if f != nil && f.Pkg == p && f.Synthetic == "" {
						add(f)
					}
				}
			}
		}
	}
	sort.Slice(out, func(i, j int) bool { return out[i].Pos() < out[j].Pos() })
	return out
}
