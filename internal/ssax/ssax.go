// Package ssax has small helpers over go/ssa used by the rule engines.
package ssax

import (
	"go/constant"
	"go/token"
	"go/types"

	"golang.org/x/tools/go/ssa"
)

// Instrs calls f for every instruction of fn.
func Instrs(fn *ssa.Function, f func(ssa.Instruction)) {
	for _, b := range fn.Blocks {
		for _, in := range b.Instrs {
			f(in)
		}
	}
}

// WithAnon returns fn and all functions nested in it.
func WithAnon(fn *ssa.Function) []*ssa.Function {
	out := []*ssa.Function{fn}
	for _, a := range fn.AnonFuncs {
		out = append(out, WithAnon(a)...)
	}
	return out
}

// Unspill follows loads of single-assignment local cells (spilled
// parameters / captured variables) back to the stored value, and strips
// ChangeType / MakeInterface-free conversions that do not change identity.
func Unspill(v ssa.Value) ssa.Value {
	for i := 0; i < 8; i++ {
		switch x := v.(type) {
		case *ssa.UnOp:
			if x.Op != token.MUL {
				return v
			}
			var cell ssa.Value = x.X
			var stored ssa.Value
			n := 0
			switch c := cell.(type) {
			case *ssa.Alloc:
				for _, r := range *c.Referrers() {
					if st, ok := r.(*ssa.Store); ok && st.Addr == c {
						stored = st.Val
						n++
					}
				}
			case *ssa.FreeVar:
				// captured cell: find binding in the parent MakeClosure
				fn := c.Parent()
				idx := -1
				for i, fv := range fn.FreeVars {
					if fv == c {
						idx = i
					}
				}
				if p := fn.Parent(); p != nil && idx >= 0 {
					var bound ssa.Value
					Instrs(p, func(in ssa.Instruction) {
						if mc, ok := in.(*ssa.MakeClosure); ok && mc.Fn == fn {
							bound = mc.Bindings[idx]
						}
					})
					if a, ok := bound.(*ssa.Alloc); ok {
						for _, r := range *a.Referrers() {
							if st, ok := r.(*ssa.Store); ok && st.Addr == a {
								stored = st.Val
								n++
							}
						}
						// stores inside closures to the captured cell also count
						for _, af := range WithAnon(p) {
							if af == p {
								continue
							}
							Instrs(af, func(in ssa.Instruction) {
								if st, ok := in.(*ssa.Store); ok {
									if fv, ok := st.Addr.(*ssa.FreeVar); ok && bindingOf(fv) == a {
										n++
									}
								}
							})
						}
					}
				}
			default:
				return v
			}
			if n == 1 && stored != nil {
				v = stored
				continue
			}
			return v
		case *ssa.ChangeType:
			v = x.X
			continue
		}
		return v
	}
	return v
}

// bindingOf returns the value bound to a free variable in its (unique) MakeClosure.
func bindingOf(fv *ssa.FreeVar) ssa.Value {
	fn := fv.Parent()
	idx := -1
	for i, f := range fn.FreeVars {
		if f == fv {
			idx = i
		}
	}
	p := fn.Parent()
	if p == nil || idx < 0 {
		return nil
	}
	var bound ssa.Value
	Instrs(p, func(in ssa.Instruction) {
		if mc, ok := in.(*ssa.MakeClosure); ok && mc.Fn == fn {
			bound = mc.Bindings[idx]
		}
	})
	if b, ok := bound.(*ssa.FreeVar); ok {
		return bindingOf(b)
	}
	return bound
}

// BindingOf is the exported form.
func BindingOf(fv *ssa.FreeVar) ssa.Value { return bindingOf(fv) }

// FieldAddrOf: if v is &base.f returns (base, f).
func FieldAddrOf(v ssa.Value) (ssa.Value, *types.Var, bool) {
	fa, ok := v.(*ssa.FieldAddr)
	if !ok {
		return nil, nil, false
	}
	st := Deref(fa.X.Type()).Underlying().(*types.Struct)
	return OuterBase(fa.X), st.Field(fa.Field), true
}

// OuterBase: a field promoted from an embedded struct is a field of the outer struct: &(&x.embedded).f is
// reported as field f of x.
func OuterBase(base ssa.Value) ssa.Value {
	for i := 0; i < 4; i++ {
		in, ok := base.(*ssa.FieldAddr)
		if !ok {
			return base
		}
		st, ok := Deref(in.X.Type()).Underlying().(*types.Struct)
		if !ok || !Grouping(st.Field(in.Field)) {
			return base
		}
		if _, isStruct := st.Field(in.Field).Type().Underlying().(*types.Struct); !isStruct {
			return base
		}
		base = in.X
	}
	return base
}

// FieldLoad: if v is *(&base.f) (or base.f on a struct value) returns (base, f).
func FieldLoad(v ssa.Value) (ssa.Value, *types.Var, bool) {
	switch x := v.(type) {
	case *ssa.UnOp:
		if x.Op == token.MUL {
			return FieldAddrOf(x.X)
		}
	case *ssa.Field:
		st := x.X.Type().Underlying().(*types.Struct)
		return x.X, st.Field(x.Field), true
	}
	return nil, nil, false
}

func Deref(t types.Type) types.Type {
	if p, ok := t.Underlying().(*types.Pointer); ok {
		return p.Elem()
	}
	return t
}

// IsConstInt reports whether v is the integer constant n.
func IsConstInt(v ssa.Value, n int64) bool {
	c, ok := v.(*ssa.Const)
	if !ok || c.Value == nil || c.Value.Kind() != constant.Int {
		return false
	}
	x, ok := constant.Int64Val(c.Value)
	return ok && x == n
}

func IsNilConst(v ssa.Value) bool {
	c, ok := v.(*ssa.Const)
	return ok && c.Value == nil
}

func IsConstBool(v ssa.Value, b bool) bool {
	c, ok := v.(*ssa.Const)
	if !ok || c.Value == nil || c.Value.Kind() != constant.Bool {
		return false
	}
	return constant.BoolVal(c.Value) == b
}

// EdgeDominates reports whether every path from the function entry to
// block b goes through the edge from -> from.Succs[idx].
func EdgeDominates(from *ssa.BasicBlock, idx int, b *ssa.BasicBlock) bool {
	if idx >= len(from.Succs) {
		return false
	}
	fn := from.Parent()
	entry := fn.Blocks[0]
	seen := map[*ssa.BasicBlock]bool{}
	var stack []*ssa.BasicBlock
	stack = append(stack, entry)
	seen[entry] = true
	for len(stack) > 0 {
		x := stack[len(stack)-1]
		stack = stack[:len(stack)-1]
		if x == b {
			return false // reached without the edge
		}
		for i, s := range x.Succs {
			if x == from && i == idx {
				// only skip this one edge; but if both succs are the same block the other edge still counts
				continue
			}
			if !seen[s] {
				seen[s] = true
				stack = append(stack, s)
			}
		}
	}
	// b must be reachable at all (through the edge)
	return Reachable(from.Succs[idx], b)
}

// Reachable reports whether b is reachable from a (a==b counts).
func Reachable(a, b *ssa.BasicBlock) bool {
	seen := map[*ssa.BasicBlock]bool{a: true}
	stack := []*ssa.BasicBlock{a}
	for len(stack) > 0 {
		x := stack[len(stack)-1]
		stack = stack[:len(stack)-1]
		if x == b {
			return true
		}
		for _, s := range x.Succs {
			if !seen[s] {
				seen[s] = true
				stack = append(stack, s)
			}
		}
	}
	return false
}

// ReachableAvoiding reports whether b is reachable from a without entering any block in avoid.
func ReachableAvoiding(a, b *ssa.BasicBlock, avoid map[*ssa.BasicBlock]bool) bool {
	if avoid[a] {
		return false
	}
	seen := map[*ssa.BasicBlock]bool{a: true}
	stack := []*ssa.BasicBlock{a}
	for len(stack) > 0 {
		x := stack[len(stack)-1]
		stack = stack[:len(stack)-1]
		if x == b {
			return true
		}
		for _, s := range x.Succs {
			if !seen[s] && !avoid[s] {
				seen[s] = true
				stack = append(stack, s)
			}
		}
	}
	return false
}

// IfOf returns the If terminating block b, if any.
func IfOf(b *ssa.BasicBlock) *ssa.If {
	if len(b.Instrs) == 0 {
		return nil
	}
	i, _ := b.Instrs[len(b.Instrs)-1].(*ssa.If)
	return i
}

// Guard describes a conditional edge that dominates a block.
type Guard struct {
	If     *ssa.If
	Branch bool // true edge or false edge
}

// Guards returns every (If, branch) whose edge dominates b.
func Guards(b *ssa.BasicBlock) []Guard {
	var out []Guard
	for _, x := range b.Parent().Blocks {
		i := IfOf(x)
		if i == nil {
			continue
		}
		if x.Succs[0] == x.Succs[1] {
			continue
		}
		if EdgeDominates(x, 0, b) {
			out = append(out, Guard{i, true})
		}
		if EdgeDominates(x, 1, b) {
			out = append(out, Guard{i, false})
		}
	}
	return out
}

// Callee returns the static callee of a call instruction, or nil.
func Callee(in ssa.Instruction) *ssa.Function {
	if c, ok := in.(ssa.CallInstruction); ok {
		return c.Common().StaticCallee()
	}
	return nil
}

// IsFunc reports whether fn is pkgpath.name or (pkgpath.Recv).name (recv may be "*T" or "T").
func IsFunc(fn *ssa.Function, pkgPath, recv, name string) bool {
	if fn == nil || fn.Name() != name {
		return false
	}
	if fn.Signature.Recv() == nil {
		return recv == "" && fn.Pkg != nil && fn.Pkg.Pkg.Path() == pkgPath
	}
	if recv == "" {
		return false
	}
	t := fn.Signature.Recv().Type()
	ptr := false
	if p, ok := t.(*types.Pointer); ok {
		t = p.Elem()
		ptr = true
	}
	n, ok := t.(*types.Named)
	if !ok || n.Obj().Pkg() == nil || n.Obj().Pkg().Path() != pkgPath {
		return false
	}
	want := n.Obj().Name()
	if ptr {
		want = "*" + want
	}
	return want == recv || n.Obj().Name() == recv
}

// InstrIndex returns the index of in within its block.
func InstrIndex(in ssa.Instruction) int {
	for i, x := range in.Block().Instrs {
		if x == in {
			return i
		}
	}
	return -1
}

// Before reports whether a executes before b on every path to b (a dominates b).
func Before(a, b ssa.Instruction) bool {
	if a.Block() == b.Block() {
		return InstrIndex(a) < InstrIndex(b)
	}
	return a.Block().Dominates(b.Block())
}

// Grouping reports whether field f only groups fields of the struct it is declared in: an embedded struct, or a
// struct held by value whose type is an unexported (or anonymous) struct type of the same package. The fields
// of such a part are treated as fields of the outer struct.
func Grouping(f *types.Var) bool {
	if _, ok := f.Type().Underlying().(*types.Struct); !ok {
		return false
	}
	if f.Embedded() {
		return true
	}
	switch t := f.Type().(type) {
	case *types.Struct:
		return true
	case *types.Named:
		return !t.Obj().Exported() && t.Obj().Pkg() == f.Pkg() && t.TypeArgs().Len() == 0
	}
	return false
}
