package genlint

import (
	"go/ast"
	"go/types"

	"cffverif/internal/astx"
)

// G40: the position the name checks work with is the position of the directive being generated.
//
// The checks behind findings F11, F12, F15 and F16 ask "what does this name mean where the generated code is
// placed": they read a token.Pos field of the generator (usePos) that the driver sets to the position of the
// directive (or modifier) before it renders the templates, because the template functions run the checks while
// rendering. Set after the rendering (or not at all for the first directive), the field is still the zero
// position - the checks return early for an invalid position - or the position of the previous directive: an
// unnameable type gets through, cff exits 0 and the output does not compile. The rule requires, for every function
// that renders templates (a call of ExecuteTemplate, or of a modifier's GenImpl) as a method of a struct with a
// token.Pos field: an assignment to that field that comes before the rendering call on the way to it - in the same
// function, in a block that encloses the call - or, failing that, before every call of that function in its callers.
func (c *ctx) usePosition() {
	info := c.inter.TypesInfo
	isRender := func(call *ast.CallExpr) bool {
		se, ok := call.Fun.(*ast.SelectorExpr)
		return ok && (se.Sel.Name == "ExecuteTemplate" || se.Sel.Name == "GenImpl")
	}
	// assignsBefore: fd assigns recv.field before node `at`, in a block that encloses `at`
	assignsBefore := func(fc *fileCtx, fd *ast.FuncDecl, field *types.Var, at ast.Node) bool {
		found := false
		astx.Writes(fd.Body, func(l ast.Expr, stmt ast.Node) {
			_, f, ok := astx.FieldSel(info, l)
			if !ok {
				return
			}
			if f != field {
				// the whole grouping struct is replaced (`g.use = packageUse{pos: ...}`)
				holds := false
				ft := f.Type()
				if p, ok := ft.Underlying().(*types.Pointer); ok {
					ft = p.Elem()
				}
				if hs, ok := ft.Underlying().(*types.Struct); ok {
					for i := 0; i < hs.NumFields(); i++ {
						if hs.Field(i) == field {
							holds = true
						}
					}
				}
				sets := false
				if as, ok := stmt.(*ast.AssignStmt); ok && holds {
					for _, r := range as.Rhs {
						e := astx.Unparen(r)
						if u, ok := e.(*ast.UnaryExpr); ok {
							e = astx.Unparen(u.X)
						}
						if cl, ok := e.(*ast.CompositeLit); ok {
							for _, el := range cl.Elts {
								if kv, ok := el.(*ast.KeyValueExpr); ok {
									if id, ok := kv.Key.(*ast.Ident); ok && id.Name == field.Name() {
										sets = true
									}
								}
							}
						}
					}
				}
				if !sets {
					return
				}
			}
			if stmt.Pos() >= at.Pos() {
				return
			}
			// the block holding the assignment must be an ancestor of `at`
			blk := fc.par[stmt]
			for x := ast.Node(at); x != nil; x = fc.par[x] {
				if x == blk {
					found = true
				}
			}
		})
		return found
	}
	n := 0
	for _, fc := range c.files {
		if fc.pkg != c.inter {
			continue
		}
		for _, d := range fc.file.Decls {
			fd, ok := d.(*ast.FuncDecl)
			if !ok || fd.Body == nil || fd.Recv == nil || len(fd.Recv.List) == 0 {
				continue
			}
			// the receiver's struct and its token.Pos fields
			rt := info.TypeOf(fd.Recv.List[0].Type)
			if p, ok := rt.(*types.Pointer); ok {
				rt = p.Elem()
			}
			nt, _ := rt.(*types.Named)
			if nt == nil {
				continue
			}
			st, _ := nt.Underlying().(*types.Struct)
			if st == nil {
				continue
			}
			var posFields []*types.Var
			var collect func(st *types.Struct, depth int)
			collect = func(st *types.Struct, depth int) {
				for i := 0; i < st.NumFields(); i++ {
					ft := st.Field(i).Type()
					if ft.String() == "go/token.Pos" {
						posFields = append(posFields, st.Field(i))
						continue
					}
					// a struct-valued part of the generator that groups such state (`g.use.pos`)
					if p, ok := ft.Underlying().(*types.Pointer); ok {
						ft = p.Elem()
					}
					if in, ok := ft.(*types.Named); ok && in.Obj().Pkg() == c.inter.Types && depth < 2 {
						if inner, ok := in.Underlying().(*types.Struct); ok {
							collect(inner, depth+1)
						}
					}
				}
			}
			collect(st, 0)
			if len(posFields) == 0 {
				continue
			}
			var renders []*ast.CallExpr
			ast.Inspect(fd.Body, func(m ast.Node) bool {
				if call, ok := m.(*ast.CallExpr); ok && isRender(call) {
					renders = append(renders, call)
				}
				return true
			})
			if len(renders) == 0 {
				continue
			}
			self, _ := info.Defs[fd.Name].(*types.Func)
			for _, field := range posFields {
				// only fields that something reads (the checks)
				read := false
				for _, f2 := range c.files {
					ast.Inspect(f2.file, func(m ast.Node) bool {
						if se, ok := m.(*ast.SelectorExpr); ok {
							if _, f, ok := astx.FieldSel(info, se); ok && f == field {
								if as, isAs := f2.par[se].(*ast.AssignStmt); !isAs || !isLhs(as, se) {
									read = true
								}
							}
						}
						return true
					})
				}
				if !read {
					continue
				}
				for _, r := range renders[:1] {
					n++
					key := fc.funcName(r) + "|" + nt.Obj().Name() + "." + field.Name() + " is set before the templates are rendered"
					good := assignsBefore(fc, fd, field, r)
					if !good {
						// every caller sets it before calling
						callers, all := 0, true
						for _, f2 := range c.files {
							if f2.pkg != c.inter {
								continue
							}
							for _, d2 := range f2.file.Decls {
								cd, ok := d2.(*ast.FuncDecl)
								if !ok || cd.Body == nil || cd == fd {
									continue
								}
								ast.Inspect(cd.Body, func(m ast.Node) bool {
									call, ok := m.(*ast.CallExpr)
									if !ok || astx.Callee(info, call) != self {
										return true
									}
									callers++
									if !assignsBefore(f2, cd, field, call) {
										all = false
									}
									return true
								})
							}
						}
						good = callers > 0 && all
					}
					c.s.Check(good, "G40", key, c.pos(r), "the position of the directive is stored before the rendering call, on the way to it", "the templates are rendered before "+nt.Obj().Name()+"."+field.Name()+" is set to the position of the directive being generated: the name checks that run while rendering see the zero position (and give up) or the previous directive's position - a type or package that cannot be named there gets through, cff exits 0 and the output does not compile")
				}
			}
		}
	}
	if n == 0 {
		c.s.Unk("G40", "generator|position used by the name checks", "", "no rendering method of a struct with a token.Pos field found")
	}
}

func isLhs(as *ast.AssignStmt, e ast.Expr) bool {
	for _, l := range as.Lhs {
		if astx.Unparen(l) == e {
			return true
		}
	}
	return false
}
