// Package genlint implements the G-rules (DESIGN §4.5) on the generator's
// own sources: packages internal, internal/modifier, internal/pkg,
// internal/flag and cmd/cff (non-test files).
package genlint

import (
	"go/ast"
	"go/types"
	"sort"

	"cffverif/internal/astx"
	"cffverif/internal/load"
	"cffverif/internal/report"

	"golang.org/x/tools/go/packages"
)

var stratumB = []string{load.Module + "/internal", load.Module + "/internal/modifier", load.Module + "/internal/pkg", load.Module + "/internal/flag", load.Module + "/cmd/cff"}

type fileCtx struct {
	pkg  *packages.Package
	file *ast.File
	par  astx.Parents
}

type ctx struct {
	repo  *load.Repo
	s     *report.Sink
	files []*fileCtx
	inter *packages.Package // package internal

	inProgress map[*types.Func]bool
}

func newCtx(repo *load.Repo, s *report.Sink) *ctx {
	c := &ctx{repo: repo, s: s, inter: repo.Pkgs[load.Module+"/internal"]}
	for _, p := range stratumB {
		pk := repo.Pkgs[p]
		if pk == nil {
			continue
		}
		for _, f := range pk.Syntax {
			c.files = append(c.files, &fileCtx{pk, f, astx.NewParents(f)})
		}
	}
	sort.Slice(c.files, func(i, j int) bool { return c.files[i].file.Pos() < c.files[j].file.Pos() })
	return c
}

func (c *ctx) pos(n ast.Node) string { return c.repo.Rel(n.Pos()) }

// fileOf: the file context holding node n.
func (c *ctx) fileOf(n ast.Node) *fileCtx {
	for _, fc := range c.files {
		if fc.file.Pos() <= n.Pos() && n.End() <= fc.file.End() {
			return fc
		}
	}
	return nil
}

// funcName returns "Recv.Name" or "Name" of the declaration enclosing n.
func (f *fileCtx) funcName(n ast.Node) string {
	for x := n; x != nil; x = f.par[x] {
		if fd, ok := x.(*ast.FuncDecl); ok {
			if fd.Recv != nil && len(fd.Recv.List) == 1 {
				t := fd.Recv.List[0].Type
				if s, ok := t.(*ast.StarExpr); ok {
					t = s.X
				}
				if id, ok := t.(*ast.Ident); ok {
					return id.Name + "." + fd.Name.Name
				}
			}
			return fd.Name.Name
		}
	}
	return "package-level"
}

func (f *fileCtx) funcDecl(n ast.Node) *ast.FuncDecl {
	var lit *ast.FuncLit
	for x := n; x != nil; x = f.par[x] {
		if fd, ok := x.(*ast.FuncDecl); ok {
			return fd
		}
		if fl, ok := x.(*ast.FuncLit); ok {
			lit = fl
		}
	}
	if lit != nil {
		// a function literal at package level (an entry of a handler table): treated as a declaration of its own
		if litDecls == nil {
			litDecls = map[*ast.FuncLit]*ast.FuncDecl{}
		}
		if d, ok := litDecls[lit]; ok {
			return d
		}
		d := &ast.FuncDecl{Name: ast.NewIdent("func literal"), Type: lit.Type, Body: lit.Body}
		litDecls[lit] = d
		return d
	}
	return nil
}

var litDecls map[*ast.FuncLit]*ast.FuncDecl

// eachCall visits every call expression of stratum B with its resolved callee (may be nil).
func (c *ctx) eachCall(f func(fc *fileCtx, call *ast.CallExpr, callee *types.Func)) {
	for _, fc := range c.files {
		fc := fc
		ast.Inspect(fc.file, func(n ast.Node) bool {
			if call, ok := n.(*ast.CallExpr); ok {
				f(fc, call, astx.Callee(fc.pkg.TypesInfo, call))
			}
			return true
		})
	}
}

func (c *ctx) findFunc(pkgPath, recv, name string) (*fileCtx, *ast.FuncDecl) {
	for _, fc := range c.files {
		if fc.pkg.PkgPath != pkgPath {
			continue
		}
		if fd := astx.FindFuncDecl([]*ast.File{fc.file}, recv, name); fd != nil {
			return fc, fd
		}
	}
	return nil, nil
}

func fullName(f *types.Func) string {
	if f == nil {
		return ""
	}
	return f.FullName()
}
