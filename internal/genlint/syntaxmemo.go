package genlint

import (
	"go/ast"
	"go/types"

	"cffverif/internal/astx"
)

// G43: what was compiled from one expression is not handed out for another.
//
// The compiler's records (compiledFunc, task, predicate ...) carry the syntax they were compiled from - the Node
// the templates print as the callee, the position they report. A cache of such records keyed by a *type* (a
// signature, a types.Type) returns the record of the first expression of that type for every later one: go/types
// gives two function-valued variables of one named function type the same *types.Signature, so the predicate of a
// second task was generated as a call of the first task's predicate (seed C11_n: the gated task runs although its
// own predicate is false). The rule looks at every store into a Go map or typeutil.Map of the generator packages
// whose value is (a pointer to) a struct that holds syntax (a field of type ast.Expr / ast.Node, directly or in an
// embedded struct) and requires the key to be syntax as well (or a position).
func (c *ctx) syntaxMemo() {
	info := c.inter.TypesInfo
	holdsSyntax := func(t types.Type) bool {
		if p, ok := t.(*types.Pointer); ok {
			t = p.Elem()
		}
		nt, ok := t.(*types.Named)
		if !ok || nt.Obj().Pkg() != c.inter.Types {
			return false
		}
		var walk func(st *types.Struct, depth int) bool
		walk = func(st *types.Struct, depth int) bool {
			for i := 0; i < st.NumFields(); i++ {
				f := st.Field(i)
				switch f.Type().String() {
				case "go/ast.Expr", "go/ast.Node":
					return true
				}
				if f.Embedded() && depth < 2 {
					ft := f.Type()
					if p, ok := ft.(*types.Pointer); ok {
						ft = p.Elem()
					}
					if in, ok := ft.Underlying().(*types.Struct); ok && walk(in, depth+1) {
						return true
					}
				}
			}
			return false
		}
		st, ok := nt.Underlying().(*types.Struct)
		return ok && walk(st, 0)
	}
	keyIsSyntax := func(t types.Type) bool {
		if t == nil {
			return false
		}
		s := t.String()
		if s == "go/ast.Expr" || s == "go/ast.Node" || s == "go/token.Pos" {
			return true
		}
		if p, ok := t.(*types.Pointer); ok {
			if nt, ok := p.Elem().(*types.Named); ok && nt.Obj().Pkg() != nil && nt.Obj().Pkg().Path() == "go/ast" {
				return true
			}
		}
		return false
	}
	n := 0
	for _, fc := range c.files {
		if fc.pkg != c.inter {
			continue
		}
		fc := fc
		check := func(at ast.Node, container, key, val ast.Expr) {
			vt := info.TypeOf(val)
			if vt == nil || !holdsSyntax(vt) {
				return
			}
			// a memo: the function that stores the record also returns what a lookup in the same container finds
			// (an index by type whose duplicates are diagnosed - the Params of a flow - is not a memo)
			fd := fc.funcDecl(at)
			if fd == nil || !c.returnsLookup(fc, fd, container) {
				return
			}
			n++
			k := fc.funcName(at) + "|records that hold syntax are cached per expression: " + astx.Short(container)
			kt := info.TypeOf(key)
			c.s.Check(keyIsSyntax(kt), "G43", k, c.pos(at), "keyed by the expression", "a record compiled from one expression (it holds the syntax the templates print) is cached under a key of type "+types.TypeString(kt, nil)+": every later expression with an equal key gets the first one's record, and the generated code calls (or names, or positions) the wrong expression")
		}
		ast.Inspect(fc.file, func(nn ast.Node) bool {
			switch x := nn.(type) {
			case *ast.AssignStmt:
				for i, l := range x.Lhs {
					if ix, ok := astx.Unparen(l).(*ast.IndexExpr); ok && isMapType(info.TypeOf(ix.X)) && i < len(x.Rhs) {
						check(x, ix.X, ix.Index, x.Rhs[i])
					}
				}
			case *ast.CallExpr:
				if fn := astx.Callee(info, x); fn != nil && fullName(fn) == "(*golang.org/x/tools/go/types/typeutil.Map).Set" && len(x.Args) == 2 {
					if se, ok := x.Fun.(*ast.SelectorExpr); ok {
						check(x, se.X, x.Args[0], x.Args[1])
					}
				}
			}
			return true
		})
	}
	c.s.SetFact("genlint.syntax_record_caches", n)
}

// returnsLookup: fd returns a value read from container (container.At(k), container[k]), directly or through a
// local variable bound to such a read.
func (c *ctx) returnsLookup(fc *fileCtx, fd *ast.FuncDecl, container ast.Expr) bool {
	info := c.inter.TypesInfo
	root := func(e ast.Expr) types.Object {
		e = astx.Unparen(e)
		if u, ok := e.(*ast.UnaryExpr); ok {
			e = astx.Unparen(u.X)
		}
		if _, f, ok := astx.FieldSel(info, e); ok {
			return f
		}
		return astx.IdentObj(info, e)
	}
	want := root(container)
	if want == nil {
		return false
	}
	isLookup := func(e ast.Expr) bool {
		found := false
		ast.Inspect(e, func(n ast.Node) bool {
			switch x := n.(type) {
			case *ast.IndexExpr:
				if root(x.X) == want {
					found = true
				}
			case *ast.CallExpr:
				if se, ok := x.Fun.(*ast.SelectorExpr); ok && se.Sel.Name == "At" && root(se.X) == want {
					found = true
				}
			}
			return true
		})
		return found
	}
	bound := map[types.Object]bool{}
	ast.Inspect(fd.Body, func(n ast.Node) bool {
		if as, ok := n.(*ast.AssignStmt); ok {
			for i, r := range as.Rhs {
				if isLookup(r) {
					if len(as.Lhs) > i {
						if o := astx.IdentObj(info, as.Lhs[i]); o != nil {
							bound[o] = true
						}
					}
					if len(as.Rhs) == 1 && len(as.Lhs) == 2 {
						if o := astx.IdentObj(info, as.Lhs[0]); o != nil {
							bound[o] = true
						}
					}
				}
			}
		}
		return true
	})
	found := false
	ast.Inspect(fd.Body, func(n ast.Node) bool {
		ret, ok := n.(*ast.ReturnStmt)
		if !ok {
			return true
		}
		for _, r := range ret.Results {
			if isLookup(r) {
				found = true
			}
			ast.Inspect(r, func(m ast.Node) bool {
				if id, ok := m.(*ast.Ident); ok && bound[astx.ObjOf(info, id)] {
					found = true
				}
				return true
			})
		}
		return true
	})
	return found
}
