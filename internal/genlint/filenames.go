package genlint

import (
	"go/ast"
	"strings"

	"cffverif/internal/astx"
	"cffverif/internal/load"
)

// G44: the names of source files do not come from positions.
//
// cff derives the output path (foo.go -> foo_gen.go) and the -file selection from the names of the package's
// files as the loader reports them. token.FileSet.Position / PositionFor(adjusted) apply //line directives: a
// source whose //line directive stands before its package clause (what goyacc-style generators emit) is then
// reported under the name in the directive, and its generated code is written to the wrong path - possibly over
// another file (seed C16_n). In the loader (internal/pkg) and the command (cmd/cff) a token.Position's Filename
// may only be used for diagnostics (an argument of fmt / log / errors); file names come from go/packages or from
// token.File.Name().
func (c *ctx) fileNames() {
	n := 0
	for _, fc := range c.files {
		pp := fc.pkg.PkgPath
		if pp != load.Module+"/internal/pkg" && pp != load.Module+"/cmd/cff" {
			continue
		}
		info := fc.pkg.TypesInfo
		fc := fc
		ast.Inspect(fc.file, func(nn ast.Node) bool {
			se, ok := nn.(*ast.SelectorExpr)
			if !ok || se.Sel.Name != "Filename" {
				return true
			}
			if t := info.TypeOf(se.X); t == nil || t.String() != "go/token.Position" {
				return true
			}
			n++
			// inside the arguments of a diagnostic call?
			diag := false
			for x := ast.Node(se); x != nil; x = fc.par[x] {
				if call, ok := x.(*ast.CallExpr); ok {
					if fn := astx.Callee(info, call); fn != nil && fn.Pkg() != nil {
						switch fn.Pkg().Path() {
						case "fmt", "log", "errors":
							diag = true
						}
					}
					if strings.HasSuffix(astx.Short(call.Fun), "errf") {
						diag = true
					}
				}
			}
			c.s.Check(diag, "G44", fc.funcName(se)+"|a position's file name is used for diagnostics only: "+astx.Short(se), c.pos(se), "", "the name of a source file is taken from a token.Position, to which //line directives apply: a file with a //line directive ahead of its package clause is processed under the directive's name - its output is written to the path derived from that name and -file no longer selects it")
			return true
		})
	}
	c.s.SetFact("genlint.position_filenames_in_loader", n)
}
