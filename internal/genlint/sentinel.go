package genlint

import (
	"fmt"
	"go/ast"
	"go/token"
	"go/types"
	"sort"
	"strings"

	"cffverif/internal/astx"
)

// G27: the synthetic ("sentinel") types the compiler invents - one family per alias of types.Struct
// declared in package internal (noOutput for output-less Invoke tasks, predicateOutput for predicates) -
// are keys of the same typeutil.Map as the user's types (flow.providers / flow.receivers), and that map
// compares structurally. Every family numbers its members with its own counter starting at 1, so
//
//	(a) two families are disjoint only if their members differ in something other than the number:
//	    the type of the single field (or a constant part of its name), and
//	(b) the members of one family are distinct only if the field name is computed from the family's
//	    counter, which the constructor increments unconditionally before using it.
//
// If (a) fails the k-th predicate and the k-th Invoke task of one flow are the same key: a well-formed
// flow is rejected as "already provided" (or the generator panics on its own assertion). If (b) fails two
// tasks of one family share a key and the second silently replaces or collides with the first.
type sentinelShape struct {
	family   string   // alias name
	ctor     string   // constructor function
	pos      string   // position of the types.NewStruct call
	fieldTy  string   // class of the field type
	nameCtrs []string // struct fields read by the name expression (after substitution), e.g. "invokeTypeCnt"
	nameLit  string   // constant parts of the name
	incs     map[string]bool
	err      string
}

func (c *ctx) sentinelFamilies() {
	info := c.inter.TypesInfo
	// aliases of go/types.Struct
	aliases := map[string]bool{}
	for _, f := range c.inter.Syntax {
		for _, d := range f.Decls {
			gd, ok := d.(*ast.GenDecl)
			if !ok || gd.Tok != token.TYPE {
				continue
			}
			for _, sp := range gd.Specs {
				ts := sp.(*ast.TypeSpec)
				if !ts.Assign.IsValid() {
					continue
				}
				if t := info.TypeOf(ts.Type); t != nil {
					if n, ok := types.Unalias(t).(*types.Named); ok && n.Obj().Pkg() != nil && n.Obj().Pkg().Path() == "go/types" && n.Obj().Name() == "Struct" {
						aliases[ts.Name.Name] = true
					}
				}
			}
		}
	}
	if len(aliases) == 0 {
		c.s.Unk("G27", "sentinel families", "", "no alias of go/types.Struct is declared in package internal: the sentinel type families cannot be identified")
		return
	}
	var shapes []*sentinelShape
	for _, fc := range c.files {
		if fc.pkg != c.inter {
			continue
		}
		for _, d := range fc.file.Decls {
			fd, ok := d.(*ast.FuncDecl)
			if !ok || fd.Body == nil || fd.Type.Results == nil {
				continue
			}
			fam := ""
			for _, r := range fd.Type.Results.List {
				if st, ok := r.Type.(*ast.StarExpr); ok {
					if id, ok := st.X.(*ast.Ident); ok && aliases[id.Name] {
						fam = id.Name
					}
				}
			}
			if fam == "" {
				continue
			}
			sh := c.shapeOf(fc, fd, fam)
			if sh != nil {
				shapes = append(shapes, sh)
			}
		}
	}
	sort.Slice(shapes, func(i, j int) bool { return shapes[i].family+shapes[i].ctor < shapes[j].family+shapes[j].ctor })
	byFam := map[string][]*sentinelShape{}
	for _, sh := range shapes {
		byFam[sh.family] = append(byFam[sh.family], sh)
	}
	var fams []string
	for a := range aliases {
		fams = append(fams, a)
	}
	sort.Strings(fams)
	for _, a := range fams {
		if len(byFam[a]) == 0 {
			c.s.Unk("G27", "sentinel|"+a+" constructor", "", "no function constructing a *"+a+" with types.NewStruct was found")
		}
	}
	for _, sh := range shapes {
		key := "sentinel|" + sh.family + " members distinct (" + sh.ctor + ")"
		switch {
		case sh.err != "":
			c.s.Unk("G27", key, sh.pos, sh.err)
		case len(sh.nameCtrs) != 1:
			c.s.Bad("G27", key, sh.pos, fmt.Sprintf("the field name of the sentinel is not computed from exactly one counter of the flow (reads %v): members of the family are not numbered apart", sh.nameCtrs))
		case !sh.incs[sh.nameCtrs[0]]:
			c.s.Bad("G27", key, sh.pos, fmt.Sprintf("the sentinel is named after %s, which %s does not increment unconditionally before building the type: two tasks of one flow get the same sentinel and collide as providers", sh.nameCtrs[0], sh.ctor))
		default:
			c.s.OK("G27", key, sh.pos, "named after "+sh.nameCtrs[0]+", incremented unconditionally first")
		}
	}
	for i := 0; i < len(shapes); i++ {
		for j := i + 1; j < len(shapes); j++ {
			a, b := shapes[i], shapes[j]
			if a.family == b.family || a.err != "" || b.err != "" {
				continue
			}
			key := "sentinel|" + a.family + " and " + b.family + " disjoint"
			sameCtr := len(a.nameCtrs) == 1 && len(b.nameCtrs) == 1 && a.nameCtrs[0] == b.nameCtrs[0]
			switch {
			case a.fieldTy != b.fieldTy || a.nameLit != b.nameLit:
				c.s.OK("G27", key, a.pos, fmt.Sprintf("field type %s vs %s", a.fieldTy, b.fieldTy))
			case sameCtr:
				c.s.OK("G27", key, a.pos, "same shape but numbered by one shared counter")
			default:
				c.s.Bad("G27", key, b.pos, fmt.Sprintf("the %s and %s sentinels have the same structure (field type %s) and are numbered by separate counters that both start at 1: the k-th member of each is the same key of the provider map, so a well-formed flow that has both is rejected as 'already provided' or trips the generator's own assertion", a.family, b.family, a.fieldTy))
			}
		}
	}
}

// shapeOf reads the structure of the type returned by constructor fd. nil: fd only forwards another
// constructor's result (or returns a stored one).
func (c *ctx) shapeOf(fc *fileCtx, fd *ast.FuncDecl, fam string) *sentinelShape {
	info := fc.pkg.TypesInfo
	sh := &sentinelShape{family: fam, ctor: fc.funcName(fd.Body), pos: c.pos(fd), incs: map[string]bool{}}
	// unconditional increments at the top level of the body
	type inc struct {
		field string
		pos   token.Pos
	}
	var incs []inc
	for _, st := range fd.Body.List {
		switch x := st.(type) {
		case *ast.IncDecStmt:
			if x.Tok == token.INC {
				if _, f, ok := astx.FieldSel(info, x.X); ok {
					incs = append(incs, inc{f.Name(), x.Pos()})
				}
			}
		case *ast.AssignStmt:
			if x.Tok == token.ADD_ASSIGN && len(x.Lhs) == 1 && astx.IsIntConst(info, x.Rhs[0], 1) {
				if _, f, ok := astx.FieldSel(info, x.Lhs[0]); ok {
					incs = append(incs, inc{f.Name(), x.Pos()})
				}
			}
		}
	}
	// the returned expression
	var ret ast.Expr
	nret := 0
	ast.Inspect(fd.Body, func(n ast.Node) bool {
		if _, ok := n.(*ast.FuncLit); ok {
			return false
		}
		if r, ok := n.(*ast.ReturnStmt); ok && len(r.Results) > 0 {
			ret = r.Results[0]
			nret++
		}
		return true
	})
	if nret != 1 {
		return nil
	}
	env := &sentEnv{c: c, fc: fc, fd: fd, ctrPos: map[string]token.Pos{}}
	call, cenv := env.newStructCall(ret, 0)
	if call == nil {
		return nil // forwards something that is not built here
	}
	sh.pos = c.pos(call)
	// fields: []*types.Var{f...}
	if len(call.Args) < 1 {
		sh.err = "types.NewStruct called without fields"
		return sh
	}
	fields := cenv.resolve(call.Args[0], 0)
	cl, ok := fields.(*ast.CompositeLit)
	if !ok || len(cl.Elts) != 1 {
		sh.err = "the sentinel's field list is not a one-element literal: its structure cannot be read off"
		return sh
	}
	nv, ok := cenv.resolve(cl.Elts[0], 0).(*ast.CallExpr)
	if !ok || fullName(astx.Callee(cenv.fc.pkg.TypesInfo, nv)) != "go/types.NewVar" || len(nv.Args) != 4 {
		sh.err = "the sentinel's field is not built with types.NewVar"
		return sh
	}
	sh.fieldTy = cenv.typeClass(nv.Args[3])
	ctrs := map[string]bool{}
	var lits []string
	cenv.nameParts(nv.Args[2], 0, ctrs, &lits)
	for k := range ctrs {
		sh.nameCtrs = append(sh.nameCtrs, k)
	}
	sort.Strings(sh.nameCtrs)
	sh.nameLit = strings.Join(lits, "+")
	// increments that precede the read of the counter
	for _, i := range incs {
		if p, ok := env.ctrPos[i.field]; ok && i.pos < p {
			sh.incs[i.field] = true
		}
	}
	return sh
}

// sentEnv resolves identifiers to the expressions they stand for: single-assignment locals of the
// function, and parameters of a helper bound to the arguments of the call that was followed.
type sentEnv struct {
	c      *ctx
	fc     *fileCtx
	fd     *ast.FuncDecl
	params map[types.Object]ast.Expr
	outer  *sentEnv
	ctrPos map[string]token.Pos // (root) where each counter field is read for the name
}

func (e *sentEnv) root() *sentEnv {
	for e.outer != nil {
		e = e.outer
	}
	return e
}

// resolve follows local single definitions and bound parameters. The result is an expression to be read in
// the environment returned by envOf (approximated: parameters are substituted eagerly, so the result is
// read in e or an outer environment; selector/field reads are what the callers look at).
func (e *sentEnv) resolve(x ast.Expr, depth int) ast.Expr {
	x = astx.Unparen(x)
	if depth > 8 {
		return x
	}
	id, ok := x.(*ast.Ident)
	if !ok {
		return x
	}
	obj := astx.ObjOf(e.fc.pkg.TypesInfo, id)
	if obj == nil {
		return x
	}
	if arg, ok := e.params[obj]; ok && e.outer != nil {
		return e.outer.resolve(arg, depth+1)
	}
	// single definition in the function
	var def ast.Expr
	n := 0
	ast.Inspect(e.fd.Body, func(nd ast.Node) bool {
		switch s := nd.(type) {
		case *ast.AssignStmt:
			for i, l := range s.Lhs {
				if lid, ok := l.(*ast.Ident); ok && astx.ObjOf(e.fc.pkg.TypesInfo, lid) == obj {
					n++
					if len(s.Lhs) == len(s.Rhs) {
						def = s.Rhs[i]
					}
				}
			}
		case *ast.ValueSpec:
			for i, l := range s.Names {
				if astx.ObjOf(e.fc.pkg.TypesInfo, l) == obj && len(s.Values) == len(s.Names) {
					n++
					def = s.Values[i]
				}
			}
		}
		return true
	})
	if n == 1 && def != nil {
		return e.resolve(def, depth+1)
	}
	return x
}

// owner: the environment in which a resolved expression's identifiers are to be read. Parameters resolve
// into the caller, so an expression produced by following a parameter belongs to the outer environment.
func (e *sentEnv) owner(x ast.Expr) *sentEnv {
	for env := e; env != nil; env = env.outer {
		if env.fd.Pos() <= x.Pos() && x.End() <= env.fd.End() {
			return env
		}
	}
	return e
}

// newStructCall: the types.NewStruct call that x evaluates to, following locals and package-local helpers.
func (e *sentEnv) newStructCall(x ast.Expr, depth int) (*ast.CallExpr, *sentEnv) {
	if depth > 4 {
		return nil, nil
	}
	r := e.resolve(x, 0)
	call, ok := r.(*ast.CallExpr)
	if !ok {
		return nil, nil
	}
	env := e.owner(call)
	fn := astx.Callee(env.fc.pkg.TypesInfo, call)
	if fn == nil {
		return nil, nil
	}
	if fullName(fn) == "go/types.NewStruct" {
		return call, env
	}
	if fn.Pkg() == nil || fn.Pkg() != e.c.inter.Types {
		return nil, nil
	}
	// a function that itself returns one of the families is another constructor: fd merely forwards it
	for _, f2 := range e.c.files {
		d := astx.DeclOfFunc(f2.pkg.TypesInfo, []*ast.File{f2.file}, fn)
		if d == nil || d.Body == nil {
			continue
		}
		if d.Type.Results != nil {
			for _, r := range d.Type.Results.List {
				if st, ok := r.Type.(*ast.StarExpr); ok {
					if id, ok := st.X.(*ast.Ident); ok {
						if tn, ok := f2.pkg.TypesInfo.Uses[id].(*types.TypeName); ok && tn.IsAlias() {
							return nil, nil
						}
					}
				}
			}
		}
		sub := &sentEnv{c: e.c, fc: f2, fd: d, params: map[types.Object]ast.Expr{}, outer: env}
		k := 0
		for _, p := range d.Type.Params.List {
			for _, nm := range p.Names {
				if k < len(call.Args) {
					sub.params[f2.pkg.TypesInfo.Defs[nm]] = call.Args[k]
				}
				k++
			}
		}
		var ret ast.Expr
		nret := 0
		ast.Inspect(d.Body, func(n ast.Node) bool {
			if _, ok := n.(*ast.FuncLit); ok {
				return false
			}
			if r, ok := n.(*ast.ReturnStmt); ok && len(r.Results) > 0 {
				ret = r.Results[0]
				nret++
			}
			return true
		})
		if nret != 1 {
			return nil, nil
		}
		return sub.newStructCall(ret, depth+1)
	}
	return nil, nil
}

// typeClass: what type an expression of type types.Type denotes, as far as the distinction matters here.
func (e *sentEnv) typeClass(x ast.Expr) string {
	r := e.resolve(x, 0)
	env := e.owner(r)
	info := env.fc.pkg.TypesInfo
	switch y := r.(type) {
	case *ast.UnaryExpr:
		if cl, ok := y.X.(*ast.CompositeLit); ok && y.Op == token.AND {
			if t := info.TypeOf(cl); t != nil && len(cl.Elts) == 0 {
				return "zero " + types.TypeString(t, nil)
			}
		}
	case *ast.CallExpr:
		if fn := astx.Callee(info, y); fn != nil && fullName(fn) == "go/types.NewStruct" && len(y.Args) == 2 && astx.IsNil(info, y.Args[0]) {
			return "zero go/types.Struct"
		}
	}
	return "expr " + types.ExprString(r)
}

// nameParts collects the flow counters (struct fields) and constant strings the name expression is made of.
func (e *sentEnv) nameParts(x ast.Expr, depth int, ctrs map[string]bool, lits *[]string) {
	if depth > 8 {
		return
	}
	r := e.resolve(x, 0)
	env := e.owner(r)
	info := env.fc.pkg.TypesInfo
	if tv, ok := info.Types[r]; ok && tv.Value != nil {
		*lits = append(*lits, tv.Value.ExactString())
		return
	}
	switch y := r.(type) {
	case *ast.CallExpr:
		for _, a := range y.Args {
			env.nameParts(a, depth+1, ctrs, lits)
		}
	case *ast.BinaryExpr:
		env.nameParts(y.X, depth+1, ctrs, lits)
		env.nameParts(y.Y, depth+1, ctrs, lits)
	case *ast.SelectorExpr:
		if _, f, ok := astx.FieldSel(info, y); ok {
			ctrs[f.Name()] = true
			if root := e.root(); env == root {
				root.ctrPos[f.Name()] = y.Pos()
			} else {
				ctrs["?"+f.Name()+" read outside the constructor"] = true
			}
		}
	case *ast.Ident:
		// an unresolved identifier (parameter without binding, multiply assigned local)
		ctrs["?"+y.Name] = true
	}
}
