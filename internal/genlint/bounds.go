package genlint

import (
	"fmt"
	"go/ast"
	"go/constant"
	"go/token"
	"go/types"
	"strings"

	"cffverif/internal/astx"
)

// G21 bounds: indexing into slices/tuples whose length depends on the shape
// of a user function (compiledFunc.Inputs/Outputs, task.Outputs,
// (*types.Tuple).At) is dominated by tests that admit the index, for every
// length the dominating tests leave possible. Decided by evaluating the
// dominating conditions and the index expression under each hypothesis
// len == n, n in 0..6 (a finite partition; comparisons only).
type lenEval struct {
	fc      *fileCtx
	fd      *ast.FuncDecl
	subject ast.Expr // the indexed slice / tuple expression
	n       int
	depth   int
	site    ast.Node // the indexing site (assignments after it are not replayed)
}

func (e *lenEval) info() *types.Info { return e.fc.pkg.TypesInfo }

// isLenOfSubject: len(S) or S.Len()
func (e *lenEval) isLenOfSubject(x ast.Expr) bool {
	c, ok := astx.Unparen(x).(*ast.CallExpr)
	if !ok {
		return false
	}
	if astx.IsBuiltin(e.info(), c, "len") && len(c.Args) == 1 && astx.Same(e.info(), c.Args[0], e.subject) {
		return true
	}
	if se, ok := c.Fun.(*ast.SelectorExpr); ok && se.Sel.Name == "Len" && len(c.Args) == 0 && astx.Same(e.info(), se.X, e.subject) {
		return true
	}
	return false
}

// singleInit returns the initialiser of a local variable that is assigned exactly once.
func (e *lenEval) singleInit(o types.Object) ast.Expr {
	var init ast.Expr
	n := 0
	astx.Writes(e.fd.Body, func(l ast.Expr, at ast.Node) {
		if astx.IdentObj(e.info(), l) != o {
			return
		}
		n++
		if as, ok := at.(*ast.AssignStmt); ok && len(as.Lhs) == len(as.Rhs) {
			for i := range as.Lhs {
				if as.Lhs[i] == l {
					init = as.Rhs[i]
				}
			}
		}
	})
	if n != 1 {
		return nil
	}
	return init
}

// evalInt evaluates an int expression under the hypothesis.
func (e *lenEval) evalInt(x ast.Expr) (int64, bool) {
	x = astx.Unparen(x)
	if tv, ok := e.info().Types[x]; ok && tv.Value != nil && tv.Value.Kind() == constant.Int {
		v, ok := constant.Int64Val(tv.Value)
		return v, ok
	}
	if e.isLenOfSubject(x) {
		return int64(e.n), true
	}
	if b, ok := x.(*ast.BinaryExpr); ok && (b.Op == token.ADD || b.Op == token.SUB || b.Op == token.MUL) {
		l, lok := e.evalInt(b.X)
		r, rok := e.evalInt(b.Y)
		if lok && rok {
			switch b.Op {
			case token.ADD:
				return l + r, true
			case token.SUB:
				return l - r, true
			default:
				return l * r, true
			}
		}
		return 0, false
	}
	if o := astx.IdentObj(e.info(), x); o != nil && e.depth < 4 {
		if init := e.singleInit(o); init != nil {
			e.depth++
			defer func() { e.depth-- }()
			return e.evalInt(init)
		}
	}
	return 0, false
}

// evalBool: (value, known)
func (e *lenEval) evalBool(x ast.Expr) (bool, bool) {
	x = astx.Unparen(x)
	switch v := x.(type) {
	case *ast.UnaryExpr:
		if v.Op == token.NOT {
			b, ok := e.evalBool(v.X)
			return !b, ok
		}
	case *ast.BinaryExpr:
		switch v.Op {
		case token.LAND:
			a, ka := e.evalBool(v.X)
			b, kb := e.evalBool(v.Y)
			if (ka && !a) || (kb && !b) {
				return false, true
			}
			return a && b, ka && kb
		case token.LOR:
			a, ka := e.evalBool(v.X)
			b, kb := e.evalBool(v.Y)
			if (ka && a) || (kb && b) {
				return true, true
			}
			return a || b, ka && kb
		case token.EQL, token.NEQ, token.LSS, token.LEQ, token.GTR, token.GEQ:
			a, ka := e.evalInt(v.X)
			b, kb := e.evalInt(v.Y)
			if !ka || !kb {
				return false, false
			}
			switch v.Op {
			case token.EQL:
				return a == b, true
			case token.NEQ:
				return a != b, true
			case token.LSS:
				return a < b, true
			case token.LEQ:
				return a <= b, true
			case token.GTR:
				return a > b, true
			default:
				return a >= b, true
			}
		}
	case *ast.Ident:
		if tv, ok := e.info().Types[v]; ok && tv.Value != nil && tv.Value.Kind() == constant.Bool {
			return constant.BoolVal(tv.Value), true
		}
		if o := astx.IdentObj(e.info(), v); o != nil && e.depth < 4 {
			if init := e.singleInit(o); init != nil {
				e.depth++
				defer func() { e.depth-- }()
				return e.evalBool(init)
			}
			e.depth++
			defer func() { e.depth-- }()
			return e.replayBool(o)
		}
	}
	return false, false
}

// replayBool: the value of a local bool assigned several times (e.g. in the clauses of a switch on the
// length), by replaying the assignments that precede the site in source order under the hypothesis.
func (e *lenEval) replayBool(o types.Object) (bool, bool) {
	v, isVar := o.(*types.Var)
	if !isVar || e.site == nil || v.Pos() < e.fd.Pos() || v.Pos() > e.fd.End() {
		return false, false
	}
	vals := map[bool]bool{}
	// `var x bool` starts false; `x := expr` is an assignment like the others
	declared := false
	ast.Inspect(e.fd.Body, func(n ast.Node) bool {
		if vs, ok := n.(*ast.ValueSpec); ok && len(vs.Values) == 0 {
			for _, nm := range vs.Names {
				if e.info().Defs[nm] == o {
					declared = true
				}
			}
		}
		return true
	})
	if declared {
		vals[false] = true
	}
	okAll := true
	siteConds := map[ast.Node]bool{}
	for _, cd := range e.fc.par.Known(e.site, e.fd) {
		siteConds[cd.At] = true
	}
	astx.Writes(e.fd.Body, func(l ast.Expr, at ast.Node) {
		if astx.IdentObj(e.info(), l) != o || at.Pos() > e.site.Pos() {
			return
		}
		as, ok := at.(*ast.AssignStmt)
		if !ok || len(as.Rhs) != len(as.Lhs) {
			okAll = false
			return
		}
		var rhs ast.Expr
		for i := range as.Lhs {
			if as.Lhs[i] == l {
				rhs = as.Rhs[i]
			}
		}
		b, known := e.evalBool(rhs)
		state := 1
		for _, cd := range e.fc.par.Known(at, e.fd) {
			if siteConds[cd.At] {
				continue
			}
			cv, kn := e.evalBool(cd.E)
			if kn && cv != cd.Pos {
				state = 0
				break
			}
			if !kn {
				state = 2
			}
		}
		switch {
		case state == 0:
		case !known:
			okAll = false
		case state == 1:
			vals = map[bool]bool{b: true}
		default:
			vals[b] = true
		}
	})
	if !okAll || len(vals) != 1 {
		return false, false
	}
	for b := range vals {
		return b, true
	}
	return false, false
}

// feasible: no dominating condition is known to contradict the hypothesis.
func (e *lenEval) feasible(conds []astx.Cond) bool {
	for _, cd := range conds {
		if v, known := e.evalBool(cd.E); known && v != cd.Pos {
			return false
		}
	}
	return true
}

// indexValues: possible values of the index expression at the site under the hypothesis (nil = unknown).
func (e *lenEval) indexValues(idx ast.Expr, site ast.Node) []int64 {
	if v, ok := e.evalInt(idx); ok {
		return []int64{v}
	}
	o := astx.IdentObj(e.info(), idx)
	if o == nil {
		return nil
	}
	// multi-assignment variable: replay assignments in source order
	var vals []int64
	okAll := true
	astx.Writes(e.fd.Body, func(l ast.Expr, at ast.Node) {
		if astx.IdentObj(e.info(), l) != o || at.Pos() > site.Pos() {
			return
		}
		as, ok := at.(*ast.AssignStmt)
		if !ok || len(as.Rhs) != len(as.Lhs) {
			okAll = false
			return
		}
		var rhs ast.Expr
		for i := range as.Lhs {
			if as.Lhs[i] == l {
				rhs = as.Rhs[i]
			}
		}
		v, known := e.evalInt(rhs)
		if !known {
			okAll = false
			return
		}
		// conditions of the assignment
		state := 1 // 1 definitely executes, 0 never, 2 maybe
		siteConds := map[ast.Node]bool{}
		for _, cd := range e.fc.par.Known(site, e.fd) {
			siteConds[cd.At] = true
		}
		for _, cd := range e.fc.par.Known(at, e.fd) {
			if siteConds[cd.At] {
				continue // also dominates the site: already part of the hypothesis
			}
			b, kn := e.evalBool(cd.E)
			switch {
			case kn && b != cd.Pos:
				state = 0
			case !kn && state == 1:
				state = 2
			}
			if state == 0 {
				break
			}
		}
		switch state {
		case 1:
			vals = []int64{v}
		case 2:
			vals = append(vals, v)
		}
	})
	if !okAll || len(vals) == 0 {
		return nil
	}
	return vals
}

func (c *ctx) bounds() {
	n := 0
	for _, fc := range c.files {
		if fc.pkg != c.inter {
			continue
		}
		info := fc.pkg.TypesInfo
		fc := fc
		ast.Inspect(fc.file, func(nn ast.Node) bool {
			var subject, idx ast.Expr
			switch v := nn.(type) {
			case *ast.IndexExpr:
				if se, ok := astx.Unparen(v.X).(*ast.SelectorExpr); ok && (se.Sel.Name == "Inputs" || se.Sel.Name == "Outputs") {
					if _, isSlice := info.TypeOf(v.X).Underlying().(*types.Slice); isSlice {
						subject, idx = v.X, v.Index
					}
				}
			case *ast.CallExpr:
				if fn := astx.Callee(info, v); fn != nil && fn.FullName() == "(*go/types.Tuple).At" {
					subject, idx = v.Fun.(*ast.SelectorExpr).X, v.Args[0]
				}
			}
			if subject == nil {
				return true
			}
			fd := fc.funcDecl(nn)
			if fd == nil {
				return true
			}
			n++
			key := fmt.Sprintf("%s|%s[%s]", fc.funcName(nn), astx.Short(subject), astx.Short(idx))
			// loop index bounded by the loop: for i := 0; i < S.Len(); i++ / for i := range other with len(other) == len(S) checked
			if c.loopBounded(fc, fd, nn, subject, idx) {
				c.s.OK("G21", key, c.pos(nn), "index is the counter of a loop bounded by this length (or by a length tested equal to it)")
				return true
			}
			if why, ok := boundsTable[key]; ok {
				c.s.OK("G21", key, c.pos(nn), "table entry: "+why)
				return true
			}
			conds := fc.par.Known(nn, fd)
			var badN []string
			unknown := false
			for h := 0; h <= 6; h++ {
				ev := &lenEval{fc: fc, fd: fd, subject: subject, n: h, site: nn}
				if !ev.feasible(conds) {
					continue
				}
				vals := ev.indexValues(idx, nn)
				if vals == nil {
					unknown = true
					continue
				}
				for _, v := range vals {
					if v < 0 || v >= int64(h) {
						badN = append(badN, fmt.Sprintf("len=%d index=%d", h, v))
					}
				}
			}
			switch {
			case len(badN) > 0:
				c.s.Bad("G21", key, c.pos(nn), "index out of range is possible: the dominating tests admit "+strings.Join(badN, ", ")+" — a user function of that shape makes cff die with a Go panic instead of a diagnostic")
			case unknown:
				c.s.Unk("G21", key, c.pos(nn), "the index cannot be evaluated from comparisons with constants")
			default:
				c.s.OK("G21", key, c.pos(nn), "for every length admitted by the dominating tests the index is in range")
			}
			return true
		})
	}
	if n == 0 {
		c.s.Unk("G21", "index sites", "", "no index into Inputs/Outputs/Tuple found")
	}
}

// boundsTable: reviewed sites whose bound follows from a fact this evaluator cannot see (one reason each).
var boundsTable = map[string]string{
	"compiler.compilePredicate|compiledFunc.Outputs[0]": "the signature was checked to have exactly one result, of type bool (not error), a few lines above; Outputs are the non-error results of that same signature",
}

// loopBounded: idx is the variable of `for idx := 0; idx < S.Len(); idx++`, of `for idx := range S`, or of a range over a slice whose length was tested equal to len(S).
func (c *ctx) loopBounded(fc *fileCtx, fd *ast.FuncDecl, site ast.Node, subject, idx ast.Expr) bool {
	info := fc.pkg.TypesInfo
	o := astx.IdentObj(info, idx)
	if o == nil {
		return false
	}
	for x := fc.par[site]; x != nil && x != ast.Node(fd); x = fc.par[x] {
		switch l := x.(type) {
		case *ast.ForStmt:
			as, ok := l.Init.(*ast.AssignStmt)
			if !ok || len(as.Lhs) != 1 || astx.IdentObj(info, as.Lhs[0]) != o {
				continue
			}
			b, ok := l.Cond.(*ast.BinaryExpr)
			if !ok || b.Op != token.LSS || astx.IdentObj(info, b.X) != o {
				continue
			}
			ev := &lenEval{fc: fc, fd: fd, subject: subject, n: 3}
			if v, ok := ev.evalInt(b.Y); ok && v == 3 {
				return true
			}
			// i < len(Z) with len(Z) != len(subject) rejected earlier
			if lc, ok := astx.Unparen(b.Y).(*ast.CallExpr); ok && astx.IsBuiltin(info, lc, "len") && len(lc.Args) == 1 && c.lengthsKnownEqual(fc, fd, l, lc.Args[0], subject) {
				return true
			}
		case *ast.RangeStmt:
			if l.Key == nil || astx.IdentObj(info, l.Key) != o {
				continue
			}
			if astx.Same(info, l.X, subject) {
				return true
			}
			// len(l.X) != len(subject) => rejected earlier
			if c.lengthsKnownEqual(fc, fd, l, l.X, subject) {
				return true
			}
			for _, cd := range fc.par.Known(l, fd) {
				be, ok := astx.Unparen(cd.E).(*ast.BinaryExpr)
				if !ok {
					continue
				}
				isLen := func(e ast.Expr, of ast.Expr) bool {
					call, ok := astx.Unparen(e).(*ast.CallExpr)
					return ok && astx.IsBuiltin(info, call, "len") && astx.Same(info, call.Args[0], of)
				}
				eqKnown := (be.Op == token.NEQ && !cd.Pos) || (be.Op == token.EQL && cd.Pos)
				if eqKnown && ((isLen(be.X, l.X) && isLen(be.Y, subject)) || (isLen(be.Y, l.X) && isLen(be.X, subject))) {
					return true
				}
			}
		}
	}
	return false
}

// lengthsKnownEqual: a test dominating `at` establishes len(a) == len(b) (an early return on `!=`, or an enclosing `==`).
func (c *ctx) lengthsKnownEqual(fc *fileCtx, fd *ast.FuncDecl, at ast.Node, a, b ast.Expr) bool {
	info := fc.pkg.TypesInfo
	isLen := func(e ast.Expr, of ast.Expr) bool {
		call, ok := astx.Unparen(e).(*ast.CallExpr)
		return ok && astx.IsBuiltin(info, call, "len") && len(call.Args) == 1 && astx.Same(info, call.Args[0], of)
	}
	for _, cd := range fc.par.Known(at, fd) {
		be, ok := astx.Unparen(cd.E).(*ast.BinaryExpr)
		if !ok {
			continue
		}
		eqKnown := (be.Op == token.NEQ && !cd.Pos) || (be.Op == token.EQL && cd.Pos)
		if eqKnown && ((isLen(be.X, a) && isLen(be.Y, b)) || (isLen(be.Y, a) && isLen(be.X, b))) {
			return true
		}
	}
	return false
}
