package genlint

import (
	"go/ast"
	"go/token"
	"go/types"
	"strings"

	"cffverif/internal/astx"
)

// G30: no directive call escapes the compiler's walk of a file.
//
// compileFile walks the file's syntax tree; when it meets a cff.Flow / cff.Parallel call it compiles it and
// does not descend into it (the generator copies a directive's arguments into the output verbatim). A
// directive written inside those arguments - in the function literal of a task, say - is then neither
// expanded nor reported: cff exits 0 and the generated file panics with "code not generated" at run time
// (finding F10, repaired). The rule requires, on every branch of the walker that recognises a Flow or
// Parallel directive and stops descending, a scan of that directive's arguments (a nested ast walk whose
// callback can report a diagnostic), or that the walker keeps descending.
func (c *ctx) walkerCompleteness() {
	fc, fd := c.findFunc(c.inter.PkgPath, "compiler", "compileFile")
	if fd == nil {
		c.s.Unk("G30", "compiler.compileFile", "", "function not found")
		return
	}
	info := fc.pkg.TypesInfo
	isWalk := func(call *ast.CallExpr) bool {
		switch n := astx.Short(call.Fun); {
		case n == "astWalk", strings.HasSuffix(n, "ast.Inspect"), strings.HasSuffix(n, "ast.Walk"):
			return true
		}
		return false
	}
	// the walker: the function literal handed to the first walk over the file
	var walker *ast.FuncLit
	ast.Inspect(fd.Body, func(n ast.Node) bool {
		call, ok := n.(*ast.CallExpr)
		if ok && walker == nil && isWalk(call) {
			for _, a := range call.Args {
				if fl, ok := a.(*ast.FuncLit); ok {
					walker = fl
				}
				// a visitor kept in a local variable (it continues the walk with itself)
				if id, ok := a.(*ast.Ident); ok && walker == nil {
					obj := astx.ObjOf(info, id)
					astx.Writes(fd.Body, func(l ast.Expr, at ast.Node) {
						if astx.IdentObj(info, l) == obj {
							if as, ok := at.(*ast.AssignStmt); ok && len(as.Rhs) == 1 {
								if fl, ok := as.Rhs[0].(*ast.FuncLit); ok {
									walker = fl
								}
							}
						}
					})
				}
			}
		}
		return walker == nil
	})
	if walker == nil {
		c.s.Unk("G30", "compiler.compileFile|walker", c.pos(fd), "no walk of the file with a function literal found")
		return
	}
	// clauses that name the directives
	var clauses []*ast.CaseClause
	ast.Inspect(walker.Body, func(n ast.Node) bool {
		cc, ok := n.(*ast.CaseClause)
		if !ok {
			return true
		}
		for _, e := range cc.List {
			found := false
			ast.Inspect(e, func(m ast.Node) bool {
				if bl, ok := m.(*ast.BasicLit); ok && bl.Kind == token.STRING && (bl.Value == `"Flow"` || bl.Value == `"Parallel"`) {
					found = true
				}
				return true
			})
			if found {
				clauses = append(clauses, cc)
				break
			}
		}
		return true
	})
	if len(clauses) == 0 {
		c.s.Unk("G30", "compiler.compileFile|directive branches", c.pos(walker), "the walker has no branch that tests for the Flow / Parallel directives by name")
		return
	}
	// does the walker stop descending after a directive? (the return that ends the CallExpr case)
	descends := func(cc *ast.CaseClause) bool {
		// the innermost enclosing case clause of the type switch on the node: its last statement
		for x := fc.par[cc]; x != nil && x != ast.Node(walker); x = fc.par[x] {
			outer, ok := x.(*ast.CaseClause)
			if !ok || outer == cc || len(outer.Body) == 0 {
				continue
			}
			if ret, ok := outer.Body[len(outer.Body)-1].(*ast.ReturnStmt); ok && len(ret.Results) == 1 {
				return astx.IsBoolConst(info, ret.Results[0], true)
			}
		}
		return false
	}
	// a scan of the directive's arguments: a walk (here or in a package-local callee, two levels) whose callback reports
	var scans func(n ast.Node, depth int) bool
	scans = func(n ast.Node, depth int) bool {
		found := false
		ast.Inspect(n, func(m ast.Node) bool {
			call, ok := m.(*ast.CallExpr)
			if !ok || found {
				return !found
			}
			if isWalk(call) {
				reportsIn := func(body ast.Node) bool {
					reports := false
					ast.Inspect(body, func(k ast.Node) bool {
						if c2, ok := k.(*ast.CallExpr); ok {
							if se, ok := c2.Fun.(*ast.SelectorExpr); ok && (se.Sel.Name == "errf" || se.Sel.Name == "Errorf") {
								reports = true
							}
						}
						return true
					})
					return reports
				}
				for _, a := range call.Args {
					if fl, ok := a.(*ast.FuncLit); ok {
						if reportsIn(fl.Body) {
							found = true
						}
						continue
					}
					// a visitor value: the Visit method of its type (declared in the package) reports
					t := info.TypeOf(a)
					if t == nil {
						continue
					}
					if p, ok := t.(*types.Pointer); ok {
						t = p.Elem()
					}
					if nt, ok := t.(*types.Named); ok && nt.Obj().Pkg() == c.inter.Types {
						for i := 0; i < nt.NumMethods(); i++ {
							if m := nt.Method(i); m.Name() == "Visit" {
								for _, f2 := range c.files {
									if d := astx.DeclOfFunc(info, []*ast.File{f2.file}, m); d != nil && d.Body != nil && reportsIn(d.Body) {
										found = true
									}
								}
							}
						}
					}
				}
				return true
			}
			if depth < 2 {
				if fn := astx.Callee(info, call); fn != nil && fn.Pkg() == c.inter.Types {
					for _, f2 := range c.files {
						if f2.pkg != c.inter {
							continue
						}
						if d := astx.DeclOfFunc(info, []*ast.File{f2.file}, fn); d != nil && d.Body != nil && scans(d.Body, depth+1) {
							found = true
						}
					}
				}
			}
			return true
		})
		return found
	}
	for _, cc := range clauses {
		name := "directive"
		for _, e := range cc.List {
			name = astx.Short(e)
		}
		key := "compiler.compileFile|arguments of a compiled directive are scanned: case " + name
		switch {
		case descends(cc):
			c.s.OK("G30", key, c.pos(cc), "the walker keeps descending into the directive")
		case func() bool {
			for _, st := range cc.Body {
				if scans(st, 0) {
					return true
				}
			}
			// the scan may follow the switch that tells the directives apart, in the clause of the call, for every
			// branch that falls out of that switch (a branch that returns does not reach it)
			for _, st := range cc.Body {
				if _, ok := st.(*ast.ReturnStmt); ok {
					return false
				}
			}
			var sw ast.Stmt
			for x := fc.par[cc]; x != nil && x != ast.Node(walker); x = fc.par[x] {
				if s, ok := x.(*ast.SwitchStmt); ok && sw == nil {
					sw = s
				}
				if outer, ok := x.(*ast.CaseClause); ok && outer != cc && sw != nil {
					after := false
					for _, st := range outer.Body {
						if st == sw {
							after = true
							continue
						}
						if after && scans(st, 0) {
							return true
						}
					}
					break
				}
			}
			return false
		}():
			c.s.OK("G30", key, c.pos(cc), "a nested walk over the directive's arguments can report")
		default:
			c.s.Bad("G30", key, c.pos(cc), "after compiling the directive the walker neither descends into it nor scans its arguments: a cff.Flow / cff.Parallel written inside them (e.g. in a task's function literal) is left in the output unprocessed while cff exits 0; the generated code panics with \"code not generated\" at run time")
		}
	}
}
