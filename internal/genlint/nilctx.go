package genlint

import (
	"go/ast"
	"go/types"

	"cffverif/internal/astx"
)

// G34: a context argument that is the literal nil is rejected when the directive is compiled.
//
// The hoisting printer prints the literal nil in place (it cannot be bound to a variable without a type), and the
// templates bind the directive's context with `ctx := <arg>`: for `cff.Flow(nil, ...)`, which type-checks, cff
// exited 0 and wrote `ctx := nil` (finding F13, repaired). The rule requires, for every function of the compiler
// that stores an argument of the directive call in the `Ctx` field of the compiled directive, a test of
// `types.TypeAndValue.IsNil()` on the type-checker's record of that same argument whose true branch reports a
// diagnostic - in the function itself or in a helper it hands the argument to, unconditionally.
func (c *ctx) nilContext() {
	info := c.inter.TypesInfo
	n := 0
	for _, fc := range c.files {
		if fc.pkg != c.inter {
			continue
		}
		fc := fc
		ast.Inspect(fc.file, func(nn ast.Node) bool {
			kv, ok := nn.(*ast.KeyValueExpr)
			if !ok {
				return true
			}
			key, ok := kv.Key.(*ast.Ident)
			if !ok || key.Name != "Ctx" {
				return true
			}
			// a field of type ast.Expr of a struct of the package
			if f, ok := info.ObjectOf(key).(*types.Var); !ok || !f.IsField() || f.Type().String() != "go/ast.Expr" {
				return true
			}
			// stored from an argument of the directive call (not copied from an already compiled directive)
			// the argument itself (`call.Args[0]`) or a local that holds it (`ctx := args[0]`, a destructuring helper)
			if ix, ok := astx.Unparen(kv.Value).(*ast.IndexExpr); ok {
				if se, ok := astx.Unparen(ix.X).(*ast.SelectorExpr); !ok || se.Sel.Name != "Args" {
					return true
				}
			} else if _, isIdent := astx.Unparen(kv.Value).(*ast.Ident); !isIdent {
				return true
			}
			fd := fc.funcDecl(kv)
			if fd == nil {
				return true
			}
			n++
			arg := types.ExprString(astx.Unparen(kv.Value))
			good := c.rejectsNil(fc, fd.Body, arg, 0)
			c.s.Check(good, "G34", fc.funcName(kv)+"|nil context argument rejected", c.pos(kv), "IsNil() of the argument's recorded type → diagnostic", "the context argument stored in Ctx is never tested for the literal nil: `ctx := nil` is generated, cff exits 0 and the output does not compile")
			return true
		})
	}
	if n == 0 {
		c.s.Unk("G34", "compiler|Ctx of a compiled directive", "", "no struct literal with an ast.Expr field Ctx found")
	}
}

// rejectsNil: body contains, at its top level, `if ... info.Types[arg].IsNil() ... { <diagnostic> }` (possibly
// through `tv, ok := info.Types[arg]` in the if's init), or a call of a package helper with arg whose body does.
func (c *ctx) rejectsNil(fc *fileCtx, body *ast.BlockStmt, arg string, depth int) bool {
	info := c.inter.TypesInfo
	for _, st := range body.List {
		switch s := st.(type) {
		case *ast.IfStmt:
			if c.testsNilOf(info, s, arg) && c.reportsDiagnostic(s.Body) {
				return true
			}
		case *ast.ExprStmt:
			call, ok := s.X.(*ast.CallExpr)
			if !ok || depth > 1 {
				continue
			}
			fn := astx.Callee(info, call)
			if fn == nil || fn.Pkg() != c.inter.Types {
				continue
			}
			for _, f2 := range c.files {
				d := astx.DeclOfFunc(info, []*ast.File{f2.file}, fn)
				if d == nil || d.Body == nil {
					continue
				}
				k := 0
				for _, f := range d.Type.Params.List {
					for _, nm := range f.Names {
						if k < len(call.Args) && types.ExprString(astx.Unparen(call.Args[k])) == arg {
							if c.rejectsNil(f2, d.Body, nm.Name, depth+1) {
								return true
							}
						}
						k++
					}
				}
			}
		}
	}
	return false
}

// testsNilOf: the condition of `is` (with its init) calls IsNil() on X.Types[arg].
func (c *ctx) testsNilOf(info *types.Info, is *ast.IfStmt, arg string) bool {
	// names bound in the init to X.Types[arg]
	bound := map[types.Object]bool{}
	isRecord := func(e ast.Expr) bool {
		ix, ok := astx.Unparen(e).(*ast.IndexExpr)
		if !ok || types.ExprString(astx.Unparen(ix.Index)) != arg {
			return false
		}
		se, ok := astx.Unparen(ix.X).(*ast.SelectorExpr)
		return ok && se.Sel.Name == "Types"
	}
	if as, ok := is.Init.(*ast.AssignStmt); ok && len(as.Rhs) == 1 && isRecord(as.Rhs[0]) && len(as.Lhs) >= 1 {
		if id, ok := as.Lhs[0].(*ast.Ident); ok {
			bound[info.ObjectOf(id)] = true
		}
	}
	found := false
	var cs []astx.Cond
	astx.Split(is.Cond, true, is, &cs)
	for _, cd := range cs {
		call, ok := astx.Unparen(cd.E).(*ast.CallExpr)
		if !ok || !cd.Pos {
			continue
		}
		se, ok := call.Fun.(*ast.SelectorExpr)
		if !ok || se.Sel.Name != "IsNil" || fullName(astx.Callee(info, call)) != "(go/types.TypeAndValue).IsNil" {
			continue
		}
		if isRecord(se.X) || bound[astx.IdentObj(info, se.X)] {
			found = true
		}
	}
	return found
}

// reportsDiagnostic: the block calls a method that appends to an []error field of its receiver (errf).
func (c *ctx) reportsDiagnostic(body *ast.BlockStmt) bool {
	info := c.inter.TypesInfo
	found := false
	// directly: c.errors = append(c.errors, err)
	astx.Writes(body, func(l ast.Expr, at ast.Node) {
		if _, f, ok := astx.FieldSel(info, l); ok && f.Type().String() == "[]error" {
			found = true
		}
	})
	ast.Inspect(body, func(n ast.Node) bool {
		call, ok := n.(*ast.CallExpr)
		if !ok {
			return true
		}
		fn := astx.Callee(info, call)
		if fn == nil || fn.Pkg() != c.inter.Types {
			return true
		}
		for _, f2 := range c.files {
			d := astx.DeclOfFunc(info, []*ast.File{f2.file}, fn)
			if d == nil || d.Body == nil {
				continue
			}
			astx.Writes(d.Body, func(l ast.Expr, at ast.Node) {
				if _, f, ok := astx.FieldSel(info, l); ok && f.Type().String() == "[]error" {
					found = true
				}
			})
		}
		return true
	})
	return found
}
