package genlint

import (
	"fmt"
	"go/ast"
	"go/types"
	"strings"

	"cffverif/internal/astx"
)

// G35: syntax the generator synthesises is closed - it never wraps user syntax.
//
// The hoisting printer tells user-provided expressions (hoisted into the prologue, evaluated once, in source order,
// before any task starts) from expressions cff made up itself (printed in place) by their position: a node without
// one is cff's own. That is only right as long as a made-up node contains nothing the user wrote. A position-less
// `(<flow name> + ".file.go.12")` around the user's InstrumentFlow argument (seed C15_m) was printed in place in
// every task: the user's expression was evaluated once per task, after tasks had started, in the scope of
// generated identifiers. The rule: in every composite literal of a go/ast node type written in the generator, each
// element of syntax type (ast.Expr, ast.Node, ast.Stmt, a slice of them, a pointer to a node struct) is itself such
// a literal, a call of ast.NewIdent, or nil.
func (c *ctx) synthesisedSyntax() {
	n := 0
	for _, fc := range c.files {
		if fc.pkg != c.inter && !strings.HasSuffix(fc.pkg.PkgPath, "/internal/modifier") {
			continue
		}
		info := fc.pkg.TypesInfo
		fc := fc
		isNodeLit := func(e ast.Expr) bool {
			e = astx.Unparen(e)
			if u, ok := e.(*ast.UnaryExpr); ok {
				e = astx.Unparen(u.X)
			}
			cl, ok := e.(*ast.CompositeLit)
			return ok && isAstNodeType(info.TypeOf(cl))
		}
		ast.Inspect(fc.file, func(nn ast.Node) bool {
			cl, ok := nn.(*ast.CompositeLit)
			if !ok || !isAstNodeType(info.TypeOf(cl)) {
				return true
			}
			// only the outermost literal of a nest is reported on
			if p, ok := fc.par[cl].(*ast.UnaryExpr); ok {
				if _, inner := fc.par[p].(*ast.KeyValueExpr); inner {
					if outer, ok := fc.par[fc.par[p]].(*ast.CompositeLit); ok && isAstNodeType(info.TypeOf(outer)) {
						return true
					}
				}
			}
			n++
			bad := ""
			var check func(cl *ast.CompositeLit)
			check = func(cl *ast.CompositeLit) {
				for _, el := range cl.Elts {
					v := el
					name := ""
					if kv, ok := el.(*ast.KeyValueExpr); ok {
						v = kv.Value
						name = types.ExprString(kv.Key)
					}
					if !isSyntaxType(info.TypeOf(v)) {
						continue
					}
					inner := astx.Unparen(v)
					if u, ok := inner.(*ast.UnaryExpr); ok {
						inner = astx.Unparen(u.X)
					}
					switch x := inner.(type) {
					case *ast.CompositeLit:
						if isAstNodeType(info.TypeOf(x)) {
							check(x)
							continue
						}
						// a slice of nodes: every element
						okAll := true
						for _, e2 := range x.Elts {
							if !isNodeLit(e2) {
								okAll = false
							}
						}
						if okAll {
							for _, e2 := range x.Elts {
								e2 = astx.Unparen(e2)
								if u, ok := e2.(*ast.UnaryExpr); ok {
									e2 = u.X
								}
								check(e2.(*ast.CompositeLit))
							}
							continue
						}
					case *ast.CallExpr:
						if fullName(astx.Callee(info, x)) == "go/ast.NewIdent" {
							continue
						}
					case *ast.Ident:
						if x.Name == "nil" {
							continue
						}
					}
					bad = fmt.Sprintf("%s: %s", name, astx.Short(v))
				}
			}
			check(cl)
			key := fmt.Sprintf("%s|synthesised %s", fc.funcName(cl), strings.TrimPrefix(info.TypeOf(cl).String(), "go/ast."))
			if bad == "" {
				c.s.OK("G35", key, c.pos(cl), "made of literals only")
			} else {
				c.s.Bad("G35", key, c.pos(cl), "a synthesised, position-less node embeds other syntax ("+bad+"): if that is a user expression it is printed in place wherever the node is printed - evaluated repeatedly, late, and in the scope of generated identifiers - instead of being hoisted")
			}
			return true
		})
	}
	c.s.SetFact("genlint.synthesised_nodes", n)
}

func isAstNodeType(t types.Type) bool {
	if t == nil {
		return false
	}
	if p, ok := t.(*types.Pointer); ok {
		t = p.Elem()
	}
	n, ok := t.(*types.Named)
	if !ok || n.Obj().Pkg() == nil || n.Obj().Pkg().Path() != "go/ast" {
		return false
	}
	_, isStruct := n.Underlying().(*types.Struct)
	return isStruct
}

// isSyntaxType: ast.Expr / ast.Node / ast.Stmt / ast.Decl / ast.Spec, a pointer to a node struct, or a slice of those.
func isSyntaxType(t types.Type) bool {
	if t == nil {
		return false
	}
	if s, ok := t.Underlying().(*types.Slice); ok {
		return isSyntaxType(s.Elem())
	}
	if isAstNodeType(t) {
		_, isPtr := t.(*types.Pointer)
		return isPtr
	}
	if n, ok := t.(*types.Named); ok && n.Obj().Pkg() != nil && n.Obj().Pkg().Path() == "go/ast" {
		_, isIface := n.Underlying().(*types.Interface)
		return isIface
	}
	return false
}
