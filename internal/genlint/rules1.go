package genlint

import (
	"fmt"
	"go/ast"
	"go/token"
	"go/types"
	"strings"

	"cffverif/internal/astx"
)

func isMapType(t types.Type) bool {
	if t == nil {
		return false
	}
	_, ok := t.Underlying().(*types.Map)
	return ok
}

var sortFuncs = map[string]bool{"sort.Strings": true, "sort.Slice": true, "sort.SliceStable": true, "sort.Sort": true, "sort.Stable": true, "sort.Ints": true, "slices.Sort": true, "slices.SortFunc": true, "slices.SortStableFunc": true}

// G1 map order.
func (c *ctx) mapOrder() {
	n := 0
	for _, fc := range c.files {
		info := fc.pkg.TypesInfo
		fc := fc
		ast.Inspect(fc.file, func(nn ast.Node) bool {
			rs, ok := nn.(*ast.RangeStmt)
			if !ok {
				return true
			}
			xt := info.TypeOf(rs.X)
			unordered := isMapType(xt)
			what := "map"
			if call, ok := astx.Unparen(rs.X).(*ast.CallExpr); ok {
				if fn := astx.Callee(info, call); fn != nil && strings.HasSuffix(fn.FullName(), "typeutil.Map).Keys") {
					unordered, what = true, "typeutil.Map.Keys()"
				}
			}
			if o := astx.IdentObj(info, rs.X); o != nil && !unordered {
				// variable assigned from Keys()
				if d := declOf(fc, o); d != nil {
					if as, ok := fc.par[d].(*ast.AssignStmt); ok && len(as.Rhs) == 1 {
						if call, ok := as.Rhs[0].(*ast.CallExpr); ok {
							if fn := astx.Callee(info, call); fn != nil && strings.HasSuffix(fn.FullName(), "typeutil.Map).Keys") {
								unordered, what = true, "typeutil.Map.Keys()"
							}
						}
					}
				}
			}
			if !unordered {
				return true
			}
			n++
			key := fmt.Sprintf("%s|range over %s %s", fc.funcName(rs), what, astx.Short(rs.X))
			var slices []types.Object
			bad := ""
			var checkStmts func(list []ast.Stmt)
			checkStmts = func(list []ast.Stmt) {
				for _, st := range list {
					switch s := st.(type) {
					case *ast.AssignStmt:
						for i, l := range s.Lhs {
							if ix, ok := astx.Unparen(l).(*ast.IndexExpr); ok && isMapType(info.TypeOf(ix.X)) {
								// insertion into a map/set: the same in every order if no two iterations can write the
								// same entry (the entry is chosen by the range key) or all write the same thing (a set).
								// Keyed by the range VALUE, two keys with one value write one entry: the last one wins,
								// in Go's randomised order (an inverted map)
								keyObj := astx.IdentObj(info, rs.Key)
								byKey := false
								if keyObj != nil {
									ast.Inspect(ix.Index, func(m ast.Node) bool {
										if id, ok := m.(*ast.Ident); ok && astx.ObjOf(info, id) == keyObj {
											byKey = true
										}
										return true
									})
								}
								constant := false
								if i < len(s.Rhs) {
									r := astx.Unparen(s.Rhs[i])
									if tv, ok := info.Types[r]; ok && tv.Value != nil {
										constant = true
									}
									if cl, ok := r.(*ast.CompositeLit); ok && len(cl.Elts) == 0 {
										constant = true
									}
								}
								valObj := astx.IdentObj(info, rs.Value)
								usesValue := false
								if valObj != nil {
									ast.Inspect(ix.Index, func(m ast.Node) bool {
										if id, ok := m.(*ast.Ident); ok && astx.ObjOf(info, id) == valObj {
											usesValue = true
										}
										return true
									})
								}
								if usesValue && !byKey && !constant && s.Tok == token.ASSIGN {
									bad = "the loop body stores into " + astx.Short(ix.X) + " under a key taken from the map's VALUES: when two entries share a value the last one written wins, in iteration order"
								}
								continue
							}
							if id, ok := l.(*ast.Ident); ok && i < len(s.Rhs) {
								if call, ok := s.Rhs[i].(*ast.CallExpr); ok && astx.IsBuiltin(info, call, "append") && astx.IdentObj(info, call.Args[0]) == astx.ObjOf(info, id) {
									slices = append(slices, astx.ObjOf(info, id))
									continue
								}
								if s.Tok == token.DEFINE {
									continue // loop-local temporary
								}
								if id.Name == "_" {
									continue // value discarded
								}
								if t := info.TypeOf(id); t != nil {
									if b, ok := t.Underlying().(*types.Basic); ok && b.Info()&types.IsInteger != 0 && (s.Tok == token.ADD_ASSIGN) {
										continue
									}
								}
							}
							bad = "the loop body assigns " + astx.Short(l) + " in iteration order"
						}
					case *ast.IncDecStmt:
					case *ast.BranchStmt:
					case *ast.IfStmt:
						if isLazyInit(info, s) {
							continue // `if m == nil { m = make(...) }`: the same on whichever iteration it happens
						}
						checkStmts(s.Body.List)
						if s.Else != nil {
							if b, ok := s.Else.(*ast.BlockStmt); ok {
								checkStmts(b.List)
							} else {
								checkStmts([]ast.Stmt{s.Else})
							}
						}
					case *ast.ExprStmt:
						// diagnostics only
						if call, ok := s.X.(*ast.CallExpr); ok {
							if fn := astx.Callee(info, call); fn != nil && fn.Name() == "errf" {
								continue
							}
							if c.mapInsertOnly(astx.Callee(info, call)) {
								continue // a helper that only stores into a map (`g.noteHidden(name, err)`)
							}
						}
						bad = "the loop body performs an order-dependent effect: " + astx.Short(s.X)
					case *ast.DeclStmt:
					default:
						bad = fmt.Sprintf("unrecognised statement %T in the body of a map range", st)
					}
				}
			}
			checkStmts(rs.Body.List)
			// every slice built must be sorted before any other use
			for _, so := range slices {
				if !c.sortedBeforeUse(fc, rs, so) {
					bad = fmt.Sprintf("slice %s is built in map-iteration order and used without sorting first", so.Name())
				}
			}
			if bad != "" {
				c.s.Bad("G1", key, c.pos(rs), bad+": generated output would depend on Go's randomised map order")
			} else {
				c.s.OK("G1", key, c.pos(rs), fmt.Sprintf("body only fills sets/maps, diagnostics, or %d slice(s) sorted before use", len(slices)))
			}
			return true
		})
	}
	c.s.SetFact("genlint.map_ranges", n)
	c.unorderedKeys()
}

// unorderedSource: a call whose result lists the keys of a hashed container in its iteration order.
func unorderedSource(fn *types.Func) string {
	if fn == nil {
		return ""
	}
	full := fn.FullName()
	switch {
	case strings.HasSuffix(full, "typeutil.Map).Keys"):
		return "typeutil.Map.Keys()"
	case full == "maps.Keys" || full == "maps.Values" || full == "golang.org/x/exp/maps.Keys" || full == "golang.org/x/exp/maps.Values":
		return full + "()"
	case full == "(reflect.Value).MapKeys":
		return "reflect.Value.MapKeys()"
	}
	return ""
}

// G1 (second half): the key list of a hashed container is ranged over directly (the loop body is checked above),
// or bound to a local variable that is only ranged over or sorted before any other use. Returned, stored in a
// field or passed on, it carries Go's randomised order to wherever it is read.
func (c *ctx) unorderedKeys() {
	c.eachCall(func(fc *fileCtx, call *ast.CallExpr, fn *types.Func) {
		what := unorderedSource(fn)
		if what == "" {
			return
		}
		info := fc.pkg.TypesInfo
		key := fmt.Sprintf("%s|use of %s %s", fc.funcName(call), what, astx.Short(call))
		var parent ast.Node = fc.par[call]
		for {
			if p, ok := parent.(*ast.ParenExpr); ok {
				parent = fc.par[p]
				continue
			}
			break
		}
		switch p := parent.(type) {
		case *ast.RangeStmt:
			if astx.Unparen(p.X) == ast.Expr(call) {
				c.s.OK("G1", key, c.pos(call), "ranged over directly; the loop body is checked")
				return
			}
		case *ast.AssignStmt:
			if len(p.Lhs) == 1 && len(p.Rhs) == 1 {
				if id, ok := p.Lhs[0].(*ast.Ident); ok {
					obj := astx.ObjOf(info, id)
					if _, isVar := obj.(*types.Var); isVar && obj.Parent() != nil && obj.Parent() != fc.pkg.Types.Scope() {
						if bad := c.keyListUses(fc, p, obj); bad == "" {
							c.s.OK("G1", key, c.pos(call), "bound to a local that is only ranged over or sorted first")
						} else {
							c.s.Bad("G1", key, c.pos(call), bad+": generated output would depend on Go's randomised map order")
						}
						return
					}
				}
			}
		case *ast.CallExpr:
			// len(m.Keys()) and the like
			if astx.IsBuiltin(info, p, "len") {
				c.s.OK("G1", key, c.pos(call), "only counted")
				return
			}
		}
		c.s.Bad("G1", key, c.pos(call), "the key list of a hashed container leaves the function (or is consumed) in iteration order: generated output would depend on Go's randomised map order")
	})
}

// keyListUses: every use of obj after its definition at def is a range operand, a len, or comes after an
// unconditional sort of obj.
func (c *ctx) keyListUses(fc *fileCtx, def *ast.AssignStmt, obj types.Object) string {
	info := fc.pkg.TypesInfo
	fd := fc.funcDecl(def)
	if fd == nil {
		return "key list bound outside a function"
	}
	var uses []*ast.Ident
	ast.Inspect(fd.Body, func(n ast.Node) bool {
		if id, ok := n.(*ast.Ident); ok && info.Uses[id] == obj {
			uses = append(uses, id)
		}
		return true
	})
	sortedFrom := token.Pos(0)
	for _, id := range uses {
		if call, ok := fc.par[id].(*ast.CallExpr); ok && len(call.Args) > 0 && call.Args[0] == ast.Expr(id) {
			if fn := astx.Callee(info, call); fn != nil && sortFuncs[fn.FullName()] && len(fc.par.Known(call, fd)) <= len(fc.par.Known(def, fd)) {
				if sortedFrom == 0 || call.End() < sortedFrom {
					sortedFrom = call.End()
				}
			}
		}
	}
	for _, id := range uses {
		if sortedFrom != 0 && id.Pos() > sortedFrom {
			continue
		}
		switch p := fc.par[id].(type) {
		case *ast.RangeStmt:
			if p.X == ast.Expr(id) {
				continue
			}
		case *ast.CallExpr:
			if astx.IsBuiltin(info, p, "len") {
				continue
			}
			if fn := astx.Callee(info, p); fn != nil && sortFuncs[fn.FullName()] && len(p.Args) > 0 && p.Args[0] == ast.Expr(id) {
				continue
			}
		case *ast.AssignStmt:
			reassigned := false
			for _, l := range p.Lhs {
				if l == ast.Expr(id) {
					reassigned = true
				}
			}
			if reassigned {
				return "the local " + id.Name + " holding the key list is assigned again"
			}
		}
		where := fmt.Sprintf("%T", fc.par[id])
		if e, ok := fc.par[id].(ast.Expr); ok {
			where = astx.Short(e)
		}
		return "the key list in " + id.Name + " is used in iteration order (" + where + ")"
	}
	return ""
}

// isLazyInit: `if x == nil { x = make(...) }` (or a composite literal), nothing else.
func isLazyInit(info *types.Info, is *ast.IfStmt) bool {
	if is.Init != nil || is.Else != nil || len(is.Body.List) != 1 {
		return false
	}
	x, isNil := astx.EqNil(info, is.Cond)
	as, ok := is.Body.List[0].(*ast.AssignStmt)
	if x == nil || !isNil || !ok || as.Tok != token.ASSIGN || len(as.Lhs) != 1 || len(as.Rhs) != 1 {
		return false
	}
	if types.ExprString(as.Lhs[0]) != types.ExprString(x) {
		return false
	}
	switch r := astx.Unparen(as.Rhs[0]).(type) {
	case *ast.CallExpr:
		return astx.IsBuiltin(info, r, "make")
	case *ast.CompositeLit:
		return len(r.Elts) == 0
	}
	return false
}

func declOf(fc *fileCtx, o types.Object) *ast.Ident {
	var out *ast.Ident
	ast.Inspect(fc.file, func(n ast.Node) bool {
		if id, ok := n.(*ast.Ident); ok && fc.pkg.TypesInfo.Defs[id] == o {
			out = id
		}
		return out == nil
	})
	return out
}

// sortedBeforeUse: the first reference to obj after the range statement, in the enclosing function, is the first argument of a sort call.
func (c *ctx) sortedBeforeUse(fc *fileCtx, rs *ast.RangeStmt, obj types.Object) bool {
	info := fc.pkg.TypesInfo
	fd := fc.funcDecl(rs)
	if fd == nil {
		return false
	}
	var first *ast.Ident
	ast.Inspect(fd.Body, func(n ast.Node) bool {
		if id, ok := n.(*ast.Ident); ok && info.Uses[id] == obj && id.Pos() > rs.End() {
			if first == nil || id.Pos() < first.Pos() {
				first = id
			}
		}
		return true
	})
	if first == nil {
		return true // never used afterwards
	}
	call, ok := fc.par[first].(*ast.CallExpr)
	if !ok || len(call.Args) == 0 || call.Args[0] != ast.Expr(first) {
		return false
	}
	fn := astx.Callee(info, call)
	if fn == nil || !sortFuncs[strings.TrimPrefix(fn.FullName(), "")] {
		return false
	}
	// the sort must not be conditional relative to the loop
	return len(fc.par.Known(call, fd)) == len(fc.par.Known(rs, fd))
}

var entropyFuncs = map[string]string{
	"time.Now": "clock", "time.Since": "clock", "time.Until": "clock",
	"os.Getenv": "environment", "os.LookupEnv": "environment", "os.Environ": "environment", "os.Getpid": "process id", "os.Getppid": "process id", "os.Hostname": "host", "os.Getwd": "working directory",
	"os.Executable": "executable path", "os.UserHomeDir": "environment", "os.TempDir": "environment",
}

// G2 entropy sources.
func (c *ctx) entropy() {
	nRand := 0
	c.eachCall(func(fc *fileCtx, call *ast.CallExpr, fn *types.Func) {
		if fn == nil || fn.Pkg() == nil {
			return
		}
		p := fn.Pkg().Path()
		kind := entropyFuncs[fn.FullName()]
		if p == "math/rand" || p == "crypto/rand" || p == "math/rand/v2" {
			kind = "random source"
		}
		if p == "runtime" && (fn.Name() == "Caller" || fn.Name() == "Callers" || fn.Name() == "Stack" || fn.Name() == "NumGoroutine") {
			kind = "runtime introspection"
		}
		if kind == "" {
			// %p formatting
			if p == "fmt" && len(call.Args) > 0 {
				for _, a := range call.Args {
					if tv, ok := fc.pkg.TypesInfo.Types[a]; ok && tv.Value != nil && strings.Contains(tv.Value.ExactString(), "%p") {
						c.s.Bad("G2", fc.funcName(call)+"|pointer formatting", c.pos(call), "%p prints an address: output differs between runs")
					}
				}
			}
			return
		}
		name := fc.funcName(call)
		key := fmt.Sprintf("%s|%s (%s)", name, fn.FullName(), kind)
		if kind == "random source" && name == "newGenerator" {
			nRand++
			// must flow only into the `magic` field of the generator literal
			inMagic := false
			for x := ast.Node(call); x != nil; x = fc.par[x] {
				if kv, ok := x.(*ast.KeyValueExpr); ok {
					if id, ok := kv.Key.(*ast.Ident); ok && id.Name == "magic" {
						inMagic = true
					}
				}
				if as, ok := x.(*ast.AssignStmt); ok && len(as.Lhs) == 1 {
					if se, ok := as.Lhs[0].(*ast.SelectorExpr); ok && se.Sel.Name == "RandSrc" {
						inMagic = true // opts.RandSrc = rand.NewSource(rand.Int63()), consumed only by the magic literal (checked below)
					}
				}
			}
			c.s.Check(inMagic, "G2", key, c.pos(call), "feeds only the magic comment token", "random value flows somewhere other than the magic token")
			return
		}
		c.s.Bad("G2", key, c.pos(call), "the generator consults a "+kind+": generated text is no longer a function of the input alone")
	})
	if nRand == 0 {
		c.s.OK("G2", "newGenerator|no random source", "", "no random source in the generator")
	}
	// RandSrc and magic uses
	for _, fc := range c.files {
		info := fc.pkg.TypesInfo
		fc := fc
		ast.Inspect(fc.file, func(n ast.Node) bool {
			se, ok := n.(*ast.SelectorExpr)
			if !ok {
				return true
			}
			sel := info.Selections[se]
			if sel == nil || sel.Kind() != types.FieldVal {
				return true
			}
			switch se.Sel.Name {
			case "magic":
				name := fc.funcName(se)
				if isLvalueOf2(fc, se) {
					return true // the assignment in the constructor
				}
				c.s.Check(c.magicUseOK(fc, se), "G2", name+"|reads magic", c.pos(se), "printed inside a // comment (source-map mode) / compared against comment text to replace it", "the random token flows somewhere other than into a comment-only format string or a comparison with comment text: it could reach the generated code")
			case "RandSrc":
				c.s.Check(fc.funcName(se) == "newGenerator", "G2", fc.funcName(se)+"|uses RandSrc", c.pos(se), "", "the random source is used outside newGenerator")
			}
			return true
		})
		ast.Inspect(fc.file, func(n ast.Node) bool {
			switch n.(type) {
			case *ast.GoStmt:
				c.s.Bad("G2", fc.funcName(n)+"|go statement", c.pos(n), "the generator starts a goroutine: output order may depend on scheduling")
			case *ast.SelectStmt:
				c.s.Bad("G2", fc.funcName(n)+"|select statement", c.pos(n), "the generator uses select: nondeterministic choice")
			}
			return true
		})
	}
	// resetMagicTokens: every comment equal to the token is collected and replaced (no early loop exit)
	if fc, fd := c.findFunc(c.inter.PkgPath, "generator", "resetMagicTokens"); fd != nil {
		early := ""
		ast.Inspect(fd.Body, func(n ast.Node) bool {
			switch v := n.(type) {
			case *ast.BranchStmt:
				early = v.Tok.String()
			case *ast.ReturnStmt:
				if fc.par.InLoop(v) != nil {
					// allowed: `if err != nil { return err }`
					okRet := false
					for _, cd := range fc.par.Known(v, fd) {
						if _, isNil := astx.EqNil(fc.pkg.TypesInfo, cd.E); isNil && !cd.Pos {
							okRet = true
						}
					}
					if !okRet {
						early = "return"
					}
				}
			}
			return true
		})
		c.s.Check(early == "", "G2", "generator.resetMagicTokens|every token comment is replaced", c.pos(fd), "no break/continue/early return in the collection and replacement loops", "a loop of resetMagicTokens can stop early ("+early+"): a later random token comment survives into the output, which then differs on every run")
	} else {
		c.s.Unk("G2", "generator.resetMagicTokens", "", "not found")
	}
	// printMagic: returns a comment; only when sourceMapped
	if fc, fd := c.findFunc(c.inter.PkgPath, "generator", "printMagic"); fd != nil {
		good := false
		ast.Inspect(fd.Body, func(n ast.Node) bool {
			var at ast.Node
			if call, ok := n.(*ast.CallExpr); ok && fullName(astx.Callee(fc.pkg.TypesInfo, call)) == "fmt.Sprintf" {
				if s, ok := constStr(fc, call.Args[0]); ok && isLineCommentPrefix(s) {
					at = call
				}
			}
			if b, ok := n.(*ast.BinaryExpr); ok && b.Op == token.ADD {
				if s, ok := constStr(fc, b.X); ok && isLineCommentPrefix(s) {
					at = b
				}
			}
			if at != nil {
				for _, cd := range fc.par.Known(at, fd) {
					if se, ok := cd.E.(*ast.SelectorExpr); ok && se.Sel.Name == "sourceMapped" && cd.Pos {
						good = true
					}
				}
			}
			return true
		})
		c.s.Check(good, "G2", "generator.printMagic|token only inside a // comment, only in source-map mode", c.pos(fd), "", "the magic token can reach non-comment output or base-mode output")
	}
}

func constStr(fc *fileCtx, e ast.Expr) (string, bool) {
	tv, ok := fc.pkg.TypesInfo.Types[e]
	if !ok || tv.Value == nil {
		return "", false
	}
	s := tv.Value.ExactString()
	if len(s) >= 2 && s[0] == '"' {
		if u, err := unquote(s); err == nil {
			return u, true
		}
	}
	return "", false
}

// G3 no ambient state.
func (c *ctx) ambientState() {
	for _, fc := range c.files {
		info := fc.pkg.TypesInfo
		fc := fc
		astx.Writes(fc.file, func(l ast.Expr, at ast.Node) {
			root := l
			for {
				switch v := astx.Unparen(root).(type) {
				case *ast.SelectorExpr:
					if _, isPkg := info.Uses[identOf(v.X)].(*types.PkgName); isPkg {
						root = v.Sel
						goto done
					}
					root = v.X
					continue
				case *ast.IndexExpr:
					root = v.X
					continue
				case *ast.StarExpr:
					root = v.X
					continue
				}
				break
			}
		done:
			o, ok := astx.IdentObj(info, root).(*types.Var)
			if !ok || o.Parent() == nil || o.Pkg() == nil || o.Parent() != o.Pkg().Scope() {
				return
			}
			if as, ok := at.(*ast.AssignStmt); ok && as.Tok == token.DEFINE {
				return
			}
			name := fc.funcName(at)
			if name == "init" || name == "package-level" {
				return
			}
			c.s.Bad("G3", fmt.Sprintf("%s|writes package variable %s", name, o.Name()), c.pos(at), "package-level state is mutated during processing: output of a file can depend on what was processed before it")
		})
	}
	// list the package-level variables (evidence) and require Process to build fresh compiler+generator
	nv := 0
	for _, p := range stratumB {
		if pk := c.repo.Pkgs[p]; pk != nil {
			sc := pk.Types.Scope()
			for _, n := range sc.Names() {
				if _, ok := sc.Lookup(n).(*types.Var); ok {
					nv++
				}
			}
		}
	}
	c.s.SetFact("genlint.package_vars", nv)
	c.s.OK("G3", "stratum B|package variables are never written after initialisation", "", fmt.Sprintf("%d package-level variables, no write outside declarations/init", nv))
	if fc, fd := c.findFunc(c.inter.PkgPath, "Processor", "Process"); fd != nil {
		info := fc.pkg.TypesInfo
		fresh := map[string]bool{}
		// Process and the package-local helpers it delegates to (entered in place)
		bodies := map[*ast.FuncDecl]bool{fd: true}
		for _, ic := range astx.CallsInlined(info, fc.pkg.Syntax, fd, 2) {
			bodies[ic.Fd] = true
			if fn := astx.Callee(info, ic.Call); fn != nil {
				fresh[fn.Name()] = true
			}
		}
		// no field of a Processor receiver is written in any of them
		wr := false
		for body := range bodies {
			if body.Recv == nil || len(body.Recv.List) == 0 || len(body.Recv.List[0].Names) == 0 {
				continue
			}
			recv := info.Defs[body.Recv.List[0].Names[0]]
			if on := ownerNamed(recv.Type()); on == nil || on.Obj().Name() != "Processor" {
				continue
			}
			astx.Writes(body.Body, func(l ast.Expr, at ast.Node) {
				if se, ok := astx.Unparen(l).(*ast.SelectorExpr); ok && astx.IdentObj(info, se.X) == recv {
					wr = true
				}
			})
		}
		c.s.Check(fresh["newCompiler"] && fresh["newGenerator"] && !wr, "G3", "Processor.Process|fresh compiler and generator per file, receiver not mutated", c.pos(fd), "", "Process reuses a compiler/generator or mutates the Processor between files")
	} else {
		c.s.Unk("G3", "Processor.Process", "", "method not found")
	}
}

func identOf(e ast.Expr) *ast.Ident {
	id, _ := astx.Unparen(e).(*ast.Ident)
	return id
}

// isLvalueOf2: se is the target of an assignment or a key of a composite literal.
func isLvalueOf2(fc *fileCtx, se ast.Expr) bool {
	switch p := fc.par[se].(type) {
	case *ast.AssignStmt:
		for _, l := range p.Lhs {
			if l == se {
				return true
			}
		}
	case *ast.KeyValueExpr:
		return p.Key == se
	}
	return false
}

// magicUseOK: the value read flows only into a comparison, a string predicate, or a comment-only format.
// isLineCommentPrefix: after leading newlines the text opens a // comment and stays on that line.
func isLineCommentPrefix(s string) bool {
	t := strings.TrimLeft(s, "\n")
	return strings.HasPrefix(t, "//") && !strings.Contains(t, "\n")
}

func (c *ctx) magicUseOK(fc *fileCtx, e ast.Expr) bool {
	info := fc.pkg.TypesInfo
	var n ast.Node = e
	for depth := 0; depth < 6; depth++ {
		p := fc.par[n]
		switch x := p.(type) {
		case *ast.ParenExpr:
			n = x
			continue
		case *ast.BinaryExpr:
			if x.Op == token.EQL || x.Op == token.NEQ {
				return true
			}
			if x.Op == token.ADD {
				// "// " + token: a line comment built by concatenation
				if s, isC := constStr(fc, x.X); isC && ast.Node(x.X) != n && isLineCommentPrefix(s) {
					return true
				}
				n = x
				continue
			}
			return false
		case *ast.CallExpr:
			fn := astx.Callee(info, x)
			full := fullName(fn)
			switch {
			case full == "fmt.Fprintf" || full == "fmt.Sprintf":
				idx := 0
				if full == "fmt.Fprintf" {
					idx = 1
				}
				if len(x.Args) > idx {
					if s, isC := constStr(fc, x.Args[idx]); isC && isCommentFormat(s) {
						return true
					}
				}
				return false
			case strings.HasPrefix(full, "strings.") && fn != nil:
				if sig, ok := fn.Type().(*types.Signature); ok && sig.Results().Len() == 1 {
					if b, ok := sig.Results().At(0).Type().Underlying().(*types.Basic); ok && b.Kind() == types.Bool {
						return true // a predicate: only a truth value leaves
					}
				}
				return false
			}
			return false
		case *ast.KeyValueExpr:
			// copied into another struct field named magic (e.g. the expression printer)
			if id, ok := x.Key.(*ast.Ident); ok && id.Name == "magic" {
				return true
			}
			return false
		case *ast.AssignStmt:
			// magic := g.magic ; uses of the local are not followed: reject
			return false
		default:
			return false
		}
	}
	return false
}

// mapInsertOnly: fn is a function of the generator packages whose body only stores into maps (possibly creating the
// map first): calling it once per element of an unordered collection has the same effect in every order.
func (c *ctx) mapInsertOnly(fn *types.Func) bool {
	if fn == nil {
		return false
	}
	for _, fc := range c.files {
		info := fc.pkg.TypesInfo
		d := astx.DeclOfFunc(info, []*ast.File{fc.file}, fn)
		if d == nil || d.Body == nil {
			continue
		}
		if len(d.Body.List) == 0 {
			return false
		}
		for _, st := range d.Body.List {
			switch s := st.(type) {
			case *ast.IfStmt:
				if !isLazyInit(info, s) {
					return false
				}
			case *ast.AssignStmt:
				for _, l := range s.Lhs {
					ix, ok := astx.Unparen(l).(*ast.IndexExpr)
					if !ok || !isMapType(info.TypeOf(ix.X)) {
						return false
					}
				}
			default:
				return false
			}
		}
		return true
	}
	return false
}
