package genlint

import (
	"fmt"
	"go/ast"
	"go/token"
	"go/types"
	"sort"
	"strings"

	"cffverif/internal/astx"
	"cffverif/internal/load"
)

// G42: the dispatch over the options of a directive is total.
//
// The compiler handles the options of a directive with a switch over the name of the cff function called. The
// options of a directive all have one static type (cff.Option; cff.TaskOption for a task; cff.SliceOption ...), so
// every function of package cff that returns that type can be written there by a type-correct program. A switch
// that names only some of them and has no default skips the others in silence: the option's arguments are never
// evaluated and what only they refer to is unused in the generated file - cff.Parallel(ctx, cff.Tasks(f),
// cff.Results(&out)) made cff exit 0 with output that does not compile (finding F18, repaired). The rule takes
// every switch of package internal whose tag is the Name() of a resolved function and whose cases are string
// literals, computes from package cff the functions that return the same option type(s) as the functions the
// cases name, and requires the cases to cover them all - or a default clause (or a case on the directive-name
// predicate) that reports a diagnostic.
func (c *ctx) optionDispatch() {
	info := c.inter.TypesInfo
	root := c.repo.Pkgs[load.Module]
	if root == nil {
		c.s.Unk("G42", "package cff", "", "the root package is not loaded")
		return
	}
	// exported functions of package cff by the named type they return
	byResult := map[string][]string{}
	resultOf := map[string]string{}
	scope := root.Types.Scope()
	for _, name := range scope.Names() {
		fn, ok := scope.Lookup(name).(*types.Func)
		if !ok || !fn.Exported() {
			continue
		}
		sig := fn.Type().(*types.Signature)
		if sig.Results().Len() != 1 {
			continue
		}
		if nt, ok := sig.Results().At(0).Type().(*types.Named); ok && nt.Obj().Pkg() == root.Types {
			byResult[nt.Obj().Name()] = append(byResult[nt.Obj().Name()], name)
			resultOf[name] = nt.Obj().Name()
		}
	}
	n := 0
	for _, fc := range c.files {
		if fc.pkg != c.inter {
			continue
		}
		fc := fc
		ast.Inspect(fc.file, func(nn ast.Node) bool {
			sw, ok := nn.(*ast.SwitchStmt)
			if !ok || sw.Tag == nil {
				return true
			}
			// the tag: x.Name() of a types.Object / *types.Func, directly or through `switch name := x.Name(); name`
			tag := astx.Unparen(sw.Tag)
			if id, ok := tag.(*ast.Ident); ok && sw.Init != nil {
				if as, ok := sw.Init.(*ast.AssignStmt); ok && len(as.Lhs) == 1 && len(as.Rhs) == 1 {
					if l, ok := as.Lhs[0].(*ast.Ident); ok && info.ObjectOf(l) == info.ObjectOf(id) {
						tag = astx.Unparen(as.Rhs[0])
					}
				}
			}
			// (the tag is the Name() of a resolved function, or a string handed on from one - a parameter of a visitor
			// closure; what makes the switch one over option names is that its cases name option functions of
			// package cff, checked below)
			if t := info.TypeOf(tag); t == nil || t.Underlying().String() != "string" {
				return true
			}
			var named []string
			var deflt *ast.CaseClause
			reports := false
			for _, st := range sw.Body.List {
				cc := st.(*ast.CaseClause)
				if cc.List == nil {
					deflt = cc
				}
				for _, e := range cc.List {
					if bl, ok := astx.Unparen(e).(*ast.BasicLit); ok && bl.Kind == token.STRING {
						named = append(named, strings.Trim(bl.Value, `"`))
					}
				}
			}
			// the option types the named functions return
			types_ := map[string]bool{}
			for _, nm := range named {
				if t, ok := resultOf[nm]; ok {
					types_[t] = true
				}
			}
			if len(types_) == 0 {
				return true // not a switch over option functions (e.g. the Flow / Parallel dispatch, whose results are errors)
			}
			n++
			covered := map[string]bool{}
			for _, nm := range named {
				covered[nm] = true
			}
			if why := c.secondarySwitch(fc, sw, tag, covered); why != "" {
				c.s.OK("G42", fc.funcName(sw)+"|options handed on by a dispatching switch are all handled", c.pos(sw), why)
				return true
			}
			var missing []string
			for t := range types_ {
				for _, f := range byResult[t] {
					if !covered[f] {
						missing = append(missing, f)
					}
				}
			}
			sort.Strings(missing)
			if deflt != nil && c.reportsDiagnostic(&ast.BlockStmt{List: deflt.Body}) {
				reports = true
			}
			var ts []string
			for t := range types_ {
				ts = append(ts, "cff."+t)
			}
			sort.Strings(ts)
			key := fc.funcName(sw) + "|options of type " + strings.Join(ts, ", ") + " are all handled or reported"
			switch {
			case len(missing) == 0:
				c.s.OK("G42", key, c.pos(sw), fmt.Sprintf("the %d cases name every function of package cff that returns %s", len(named), strings.Join(ts, ", ")))
			case reports:
				c.s.OK("G42", key, c.pos(sw), "the default clause reports the options that do not belong here")
			default:
				c.s.Bad("G42", key, c.pos(sw), fmt.Sprintf("the switch handles %d of the functions of package cff that return %s and skips the others (%s) without a diagnostic: a type-correct directive that passes one of them is accepted, the option's arguments are never evaluated, and what only they refer to is left unused in the generated file, which then does not compile while cff exits 0", len(named), strings.Join(ts, ", "), strings.Join(missing, ", ")))
			}
			return true
		})
	}
	if n == 0 {
		c.s.Unk("G42", "compiler|switches over option names", "", "no switch over the Name() of an option function found")
	}
}

// secondarySwitch: the tag of sw is a parameter of its function, and at every call site of that function the
// argument is the tag of an enclosing switch, the call standing in a case clause whose literals are all
// cases of sw. Then sw receives only names it handles; the dispatching switch is judged on its own.
func (c *ctx) secondarySwitch(fc *fileCtx, sw *ast.SwitchStmt, tag ast.Expr, covered map[string]bool) string {
	info := c.inter.TypesInfo
	id, ok := tag.(*ast.Ident)
	if !ok {
		return ""
	}
	o := info.ObjectOf(id)
	fd := fc.funcDecl(sw)
	if o == nil || fd == nil || fd.Type.Params == nil {
		return ""
	}
	pi, k := -1, 0
	for _, f := range fd.Type.Params.List {
		for _, nm := range f.Names {
			if info.Defs[nm] == o {
				pi = k
			}
			k++
		}
	}
	fobj := info.Defs[fd.Name]
	if pi < 0 || fobj == nil {
		return ""
	}
	sites, good := 0, 0
	var under []string
	for _, cf := range c.files {
		if cf.pkg != c.inter {
			continue
		}
		cf := cf
		ast.Inspect(cf.file, func(n ast.Node) bool {
			call, ok := n.(*ast.CallExpr)
			if !ok || pi >= len(call.Args) {
				return true
			}
			if fn := astx.Callee(info, call); fn == nil || types.Object(fn) != fobj {
				return true
			}
			sites++
			ao := astx.IdentObj(info, call.Args[pi])
			if ao == nil {
				return true
			}
			for x := cf.par[ast.Node(call)]; x != nil; x = cf.par[x] {
				cc, ok := x.(*ast.CaseClause)
				if !ok || cc.List == nil {
					continue
				}
				body, _ := cf.par[cc].(*ast.BlockStmt)
				if body == nil {
					continue
				}
				osw, _ := cf.par[body].(*ast.SwitchStmt)
				if osw == nil || osw.Tag == nil || astx.IdentObj(info, osw.Tag) != ao {
					continue
				}
				all := true
				for _, e := range cc.List {
					bl, isLit := astx.Unparen(e).(*ast.BasicLit)
					if !isLit || bl.Kind != token.STRING || !covered[strings.Trim(bl.Value, `"`)] {
						all = false
					} else {
						under = append(under, strings.Trim(bl.Value, `"`))
					}
				}
				if all {
					good++
				}
				break
			}
			return true
		})
	}
	if sites == 0 || good != sites {
		return ""
	}
	sort.Strings(under)
	return fmt.Sprintf("reached only from %d call site(s) under the cases %s of a switch over the same name, all of which it handles", sites, strings.Join(under, ", "))
}
