package genlint

import (
	"go/ast"
	"go/types"

	"cffverif/internal/astx"
)

// G39: no spelling of a directive is skipped in silence.
//
// The compiler finds directives by walking the file with a visitor that switches on the node type and, for a
// call whose function is a selector expression of the cff package, compiles the flow or the parallel. Go allows the
// same call without a selector: with the package imported as ".", `Flow(ctx, ...)` is a call of a plain
// identifier. The visitor did not look at those: cff processed the file "with 0 errors" and wrote no output for
// it - the directive stayed unexpanded and the file's declarations were missing from the build without the cff
// tag (finding F17, repaired). The rule requires the walk that dispatches to the flow and parallel compilers to
// cover that spelling in one of the ways a repair can take:
//
//	(a) the same type switch has a case for *ast.Ident that tests whether the identifier denotes a directive (a
//	    call of the directive-name predicate the call case uses) and reports a diagnostic; or
//	(b) the case for *ast.ImportSpec tests the import name against "." and reports a diagnostic; or
//	(c) the call case itself inspects the called expression as an *ast.Ident as well as a selector (dot imports
//	    are expanded like the others).
func (c *ctx) spellings() {
	info := c.inter.TypesInfo
	returnsNamed := func(fn *types.Func, names ...string) bool {
		if fn == nil || fn.Pkg() != c.inter.Types {
			return false
		}
		sig, _ := fn.Type().(*types.Signature)
		if sig == nil || sig.Results().Len() == 0 {
			return false
		}
		t := sig.Results().At(0).Type()
		if p, ok := t.(*types.Pointer); ok {
			t = p.Elem()
		}
		n, ok := t.(*types.Named)
		if !ok {
			return false
		}
		for _, nm := range names {
			if n.Obj().Name() == nm {
				return true
			}
		}
		return false
	}
	found := 0
	for _, fc := range c.files {
		if fc.pkg != c.inter {
			continue
		}
		fc := fc
		ast.Inspect(fc.file, func(n ast.Node) bool {
			ts, ok := n.(*ast.TypeSwitchStmt)
			if !ok {
				return true
			}
			// the clauses by case type
			clause := map[string]*ast.CaseClause{}
			for _, st := range ts.Body.List {
				cc := st.(*ast.CaseClause)
				for _, te := range cc.List {
					if t := info.TypeOf(te); t != nil {
						clause[t.String()] = cc
					}
				}
			}
			callCase := clause["*go/ast.CallExpr"]
			if callCase == nil {
				return true
			}
			// the dispatch: the call case reaches both directive compilers
			flow, par := false, false
			var predicate *types.Func // func(string) bool of the package, called in the call case
			ast.Inspect(callCase, func(m ast.Node) bool {
				call, ok := m.(*ast.CallExpr)
				if !ok {
					return true
				}
				fn := astx.Callee(info, call)
				switch {
				case returnsNamed(fn, "flow"):
					flow = true
				case returnsNamed(fn, "parallel"):
					par = true
				}
				if fn != nil && fn.Pkg() == c.inter.Types {
					if sig, _ := fn.Type().(*types.Signature); sig != nil && sig.Recv() == nil && sig.Params().Len() == 1 && sig.Results().Len() == 1 &&
						sig.Params().At(0).Type().String() == "string" && sig.Results().At(0).Type().String() == "bool" {
						predicate = fn
					}
				}
				return true
			})
			if !flow || !par {
				return true
			}
			found++
			key := fc.funcName(ts) + "|a directive that is not written as a selector call is not skipped in silence"
			how := ""
			// (a)
			if ic := clause["*go/ast.Ident"]; ic != nil {
				blk := &ast.BlockStmt{List: ic.Body}
				// the clause itself and the helpers of the package it calls (`dot.ident(n)`)
				bodies := []*ast.BlockStmt{blk}
				ast.Inspect(blk, func(m ast.Node) bool {
					if call, ok := m.(*ast.CallExpr); ok {
						if fn := astx.Callee(info, call); fn != nil && fn.Pkg() == c.inter.Types {
							for _, f2 := range c.files {
								if d := astx.DeclOfFunc(info, []*ast.File{f2.file}, fn); d != nil && d.Body != nil {
									bodies = append(bodies, d.Body)
								}
							}
						}
					}
					return true
				})
				asks, reports := false, false
				for _, b := range bodies {
					ast.Inspect(b, func(m ast.Node) bool {
						if call, ok := m.(*ast.CallExpr); ok {
							if fn := astx.Callee(info, call); fn != nil && predicate != nil && fn == predicate {
								asks = true
							}
						}
						return true
					})
					if c.reportsDiagnostic(b) {
						reports = true
					}
				}
				if asks && reports {
					how = "plain identifiers that denote a directive are reported"
				}
			}
			// (b)
			if ic := clause["*go/ast.ImportSpec"]; ic != nil && how == "" {
				blk := &ast.BlockStmt{List: ic.Body}
				ast.Inspect(blk, func(m ast.Node) bool {
					is, ok := m.(*ast.IfStmt)
					if !ok {
						return true
					}
					dot := false
					ast.Inspect(is.Cond, func(k ast.Node) bool {
						if bl, ok := k.(*ast.BasicLit); ok && bl.Value == `"."` {
							dot = true
						}
						return true
					})
					if dot && c.reportsDiagnostic(is.Body) {
						how = "a dot import of the package is reported"
					}
					return true
				})
			}
			// (c)
			if how == "" {
				ast.Inspect(callCase, func(m ast.Node) bool {
					switch x := m.(type) {
					case *ast.TypeAssertExpr:
						if x.Type != nil {
							if t := info.TypeOf(x.Type); t != nil && t.String() == "*go/ast.Ident" {
								if se, ok := astx.Unparen(x.X).(*ast.SelectorExpr); ok && se.Sel.Name == "Fun" {
									how = "the called expression is also looked at as a plain identifier"
								}
							}
						}
					case *ast.TypeSwitchStmt:
						for _, st := range x.Body.List {
							for _, te := range st.(*ast.CaseClause).List {
								if t := info.TypeOf(te); t != nil && t.String() == "*go/ast.Ident" && m != ast.Node(ts) {
									how = "the called expression is also looked at as a plain identifier"
								}
							}
						}
					}
					return true
				})
			}
			c.s.Check(how != "", "G39", key, c.pos(ts), how, "the file walk recognises a directive only as a call of a selector expression of the cff package; with the package imported as \".\" the directive is a plain identifier: it is neither expanded nor reported, cff exits 0 and the file is left without output")
			return true
		})
	}
	if found == 0 {
		c.s.Unk("G39", "compiler|the walk that dispatches to the flow and parallel compilers", "", "no type switch over syntax nodes whose call case reaches both the flow and the parallel compiler was found")
	}
}
