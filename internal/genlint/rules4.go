package genlint

import (
	"fmt"
	"go/ast"
	"go/token"
	"go/types"
	"os"
	"runtime/debug"
	"strings"

	"cffverif/internal/astx"
	"cffverif/internal/load"
	"cffverif/internal/report"
)

// G15 inversion reaches the file / source bytes copied by a chained offset walk.
func (c *ctx) sourceCopy() {
	for _, recv := range []string{"generator", "generatorv2"} {
		fc, fd := c.findFunc(c.inter.PkgPath, recv, "GenerateFile")
		if fd == nil {
			c.s.Unk("G15", recv+".GenerateFile", "", "not found")
			continue
		}
		info := fc.pkg.TypesInfo
		// bs := os.ReadFile(f.Filepath)
		var bs, lastOff types.Object
		ast.Inspect(fd.Body, func(n ast.Node) bool {
			if as, ok := n.(*ast.AssignStmt); ok && len(as.Rhs) == 1 {
				if call, ok := as.Rhs[0].(*ast.CallExpr); ok && fullName(astx.Callee(info, call)) == "os.ReadFile" {
					bs = astx.IdentObj(info, as.Lhs[0])
				}
			}
			return true
		})
		if bs == nil {
			c.s.Unk("G15", recv+".GenerateFile|source bytes", c.pos(fd), "os.ReadFile of the source not found")
			continue
		}
		// slices of bs handed to calls, in textual order with package-local helpers entered in place (a helper
		// that receives the source buffer and the running offset continues the same walk)
		type sl struct {
			e      *ast.SliceExpr
			ic     *astx.InlinedCall
			inLoop bool
		}
		var sls []sl
		var loop *ast.RangeStmt
		inlined := astx.CallsInlined(info, fc.pkg.Syntax, fd, 3)
		for _, ic := range inlined {
			for _, a := range ic.Call.Args {
				se, ok := astx.Unparen(a).(*ast.SliceExpr)
				if !ok || astx.IdentObj(info, ic.Resolve(se.X)) != bs {
					continue
				}
				sfc := c.fileOf(se)
				if sfc == nil {
					continue
				}
				l, _ := sfc.par.InLoop(se).(*ast.RangeStmt)
				sls = append(sls, sl{se, ic, l != nil})
				if l != nil {
					loop = l
				}
			}
		}
		// slices of the buffer that are not call arguments escape this accounting
		stray := 0
		ast.Inspect(fd.Body, func(n ast.Node) bool {
			if se, ok := n.(*ast.SliceExpr); ok && astx.IdentObj(info, se.X) == bs {
				found := false
				for _, x := range sls {
					if x.e == se {
						found = true
					}
				}
				if !found {
					stray++
				}
			}
			return true
		})
		// parameters of entered helpers stand for the arguments they were called with
		allBind := map[types.Object]ast.Expr{}
		for _, ic := range inlined {
			for po, arg := range ic.Bindings() {
				allBind[po] = arg
			}
		}
		throughParams := func(e ast.Expr) ast.Expr {
			for i := 0; i < 6; i++ {
				id, ok := astx.Unparen(e).(*ast.Ident)
				if !ok {
					break
				}
				arg, ok := allBind[astx.ObjOf(info, id)]
				if !ok {
					break
				}
				e = arg
			}
			return e
		}
		isOffsetOf := func(e ast.Expr, what string) bool {
			call, ok := astx.Unparen(e).(*ast.CallExpr)
			if !ok || len(call.Args) != 1 {
				return false
			}
			se, ok := call.Fun.(*ast.SelectorExpr)
			if !ok || se.Sel.Name != "Offset" {
				return false
			}
			return strings.HasSuffix(astx.Short(throughParams(call.Args[0])), what)
		}
		root := func(x sl, e ast.Expr) types.Object {
			if e == nil {
				return nil
			}
			return astx.IdentObj(info, x.ic.Resolve(e))
		}
		good := len(sls) == 3 && stray == 0
		msg := fmt.Sprintf("%d slices of the source buffer (want 3: header, between directives, tail)", len(sls)+stray)
		// the buffer handed over to an abstraction (stored in a struct literal: a cursor with copyUpTo / skipTo /
		// copyRest methods) which does the slicing: what remains here is not the whole walk
		wrapped := false
		ast.Inspect(fd.Body, func(n ast.Node) bool {
			if kv, ok := n.(*ast.KeyValueExpr); ok && astx.IdentObj(info, kv.Value) == bs {
				wrapped = true
			}
			return true
		})
		if len(sls)+stray == 0 || (wrapped && len(sls)+stray < 3) {
			// the buffer is not sliced in this function at all (it is wrapped, e.g. in a cursor with upTo/skipTo/rest
			// methods): not an idiom this syntactic rule reads. That everything outside the directives is preserved is
			// decided on every regenerated corpus file by V19 (the output minus the generated code is the source).
			c.s.OK("G15", recv+".GenerateFile|source copied by a chained offset walk, header through the tag inverter", c.pos(fd), "the source buffer is not sliced here (an abstraction over it is used): decided on the regenerated corpora by V19")
			continue
		}
		if good {
			hdr, mid, tail := sls[0], sls[1], sls[2]
			lastOff = root(hdr, hdr.e.High)
			good = hdr.e.Low == nil && lastOff != nil && !hdr.inLoop &&
				mid.inLoop && root(mid, mid.e.Low) == lastOff && isOffsetOf(mid.e.High, ".Pos()") &&
				!tail.inLoop && root(tail, tail.e.Low) == lastOff && tail.e.High == nil && loop != nil &&
				(c.fileOf(tail.e) != c.fileOf(loop) || tail.e.Pos() > loop.End() || tail.e.End() < loop.Pos())
			if good && tail.e.Pos() < loop.End() && tail.e.Pos() > loop.Pos() {
				good = false
			}
			msg = "the source is not copied as bs[:pkgOffset] (through the tag inverter), bs[last:Offset(directive.Pos())] per directive, bs[last:] at the end"
			// header goes through writeInvertedCffTag
			if fn := astx.Callee(info, hdr.ic.Call); fn == nil || fn.Name() != "writeInvertedCffTag" {
				good = false
				msg = "the bytes before the package clause are not passed through writeInvertedCffTag"
			}
		}
		if good {
			// the text between directives and the tail are written verbatim: handed straight to a Write
			// (or to a helper that does nothing but Write its argument once)
			for _, x := range sls[1:] {
				if !c.verbatimWrite(c.fileOf(x.e), x.ic.Call, x.e, 0) {
					good = false
					msg = "source text between/after directive calls is not written verbatim (it passes through something other than a plain Write)"
				}
			}
		}
		if good {
			// the running offset: the variable itself and the helper parameters it is handed to
			eq := map[types.Object]bool{lastOff: true}
			bodies := map[*ast.FuncDecl]bool{fd: true}
			for _, ic := range inlined {
				bodies[ic.Fd] = true
				for po, arg := range ic.Bindings() {
					if astx.IdentObj(info, arg) == lastOff {
						eq[po] = true
					}
				}
			}
			// writes: init = Offset(f.AST.Package); in the loop = Offset(x.End()) after the mid slice, once
			nInit, nLoop := 0, 0
			for body := range bodies {
				bfc := c.fileOf(body)
				if bfc == nil {
					continue
				}
				astx.Writes(body.Body, func(l ast.Expr, at ast.Node) {
					if o := astx.IdentObj(info, l); o == nil || !eq[o] {
						return
					}
					as, ok := at.(*ast.AssignStmt)
					if !ok || len(as.Rhs) != 1 {
						good = false
						return
					}
					switch {
					case as.Tok == token.DEFINE && isOffsetOf(as.Rhs[0], ".Package"):
						nInit++
					case loop != nil && bfc.par.Within(as, loop) && isOffsetOf(as.Rhs[0], ".End()") && as.Pos() > sls[1].e.End() && bfc.par[as] == ast.Node(loop.Body):
						nLoop++
					default:
						good = false
					}
				})
			}
			if nInit != 1 || nLoop != 1 {
				good = false
			}
			msg = "the copy offset is not the chain lastOff := Offset(package clause); lastOff = Offset(directive.End()) once per directive"
		}
		c.s.Check(good, "G15", recv+".GenerateFile|source copied by a chained offset walk, header through the tag inverter", c.pos(fd), "everything outside directive calls is copied verbatim from the source buffer", msg+": source text would be dropped or duplicated")
	}
	// writeInvertedCffTag: every line is either echoed or replaced by the inverted constraint
	if fc, fd := c.findFunc(c.inter.PkgPath, "", "writeInvertedCffTag"); fd != nil {
		info := fc.pkg.TypesInfo
		_ = info
		inv := c.callsReach(fc, fd, "invertCffConstraint", map[*ast.FuncDecl]bool{})
		c.s.Check(inv, "G15", "writeInvertedCffTag|applies invertCffConstraint to parsed constraint lines", c.pos(fd), "", "constraint lines are not passed through invertCffConstraint")
	}
}

func isCommentFormat(s string) bool {
	t := strings.TrimLeft(s, "\n")
	if strings.HasPrefix(t, "//") {
		body := strings.TrimSuffix(t, "\n")
		return !strings.Contains(body, "\n")
	}
	if strings.HasPrefix(t, "/*") && strings.HasSuffix(t, "*/") {
		return !strings.Contains(t[2:len(t)-2], "*/")
	}
	return false
}

var pureStdlib = map[string]bool{"strconv": true, "strings": true, "path": true, "path/filepath": true, "unicode": true, "unicode/utf8": true}

// expandedScope: the functions of the generator whose source the abstract expansion evaluates for every variant,
// in both modes (generateFlow, generateParallel and what they call). What the source-map flag does there is
// decided semantically by T5 (same tokens in both modes); elsewhere (GenerateFile, the magic-token pass) only this
// syntactic rule looks.
func (c *ctx) expandedScope() map[*ast.FuncDecl]bool {
	out := map[*ast.FuncDecl]bool{}
	var add func(fc *fileCtx, fd *ast.FuncDecl, depth int)
	add = func(fc *fileCtx, fd *ast.FuncDecl, depth int) {
		if fd == nil || fd.Body == nil || out[fd] || depth > 6 {
			return
		}
		out[fd] = true
		info := fc.pkg.TypesInfo
		ast.Inspect(fd.Body, func(n ast.Node) bool {
			var fn *types.Func
			switch x := n.(type) {
			case *ast.CallExpr:
				fn = astx.Callee(info, x)
			case *ast.SelectorExpr:
				// method values handed to the FuncMap: p.printLineDir
				if sel := info.Selections[x]; sel != nil && sel.Kind() == types.MethodVal {
					fn, _ = sel.Obj().(*types.Func)
				}
			case *ast.Ident:
				fn, _ = info.Uses[x].(*types.Func)
			}
			if fn == nil || fn.Pkg() != c.inter.Types {
				return true
			}
			for _, f2 := range c.files {
				if d := astx.DeclOfFunc(info, []*ast.File{f2.file}, fn); d != nil {
					add(f2, d, depth+1)
				}
			}
			return true
		})
	}
	for _, name := range []string{"generateFlow", "generateParallel"} {
		if fc, fd := c.findFunc(c.inter.PkgPath, "generator", name); fd != nil {
			add(fc, fd, 0)
		}
	}
	return out
}

// commentOnly checks that the statements emit nothing but Go comments (helpers of the package are entered).
func (c *ctx) commentOnly(fc *fileCtx, region []ast.Stmt, allowedCalls map[string]bool, depth int) string {
	info := fc.pkg.TypesInfo
	bad := ""
	for _, st := range region {
		ast.Inspect(st, func(m ast.Node) bool {
			call, ok := m.(*ast.CallExpr)
			if !ok {
				return true
			}
			fn := astx.Callee(info, call)
			full := fullName(fn)
			switch {
			case full == "fmt.Fprintf" || full == "fmt.Sprintf":
				idx := 0
				if full == "fmt.Fprintf" {
					idx = 1
				}
				s, isC := constStr(fc, call.Args[idx])
				if !isC || !isCommentFormat(s) {
					bad = "source-map mode emits text that is not a Go comment: " + astx.Short(call.Args[idx])
				}
				for _, a := range call.Args[idx+1:] {
					t := info.TypeOf(a)
					if b, ok := t.Underlying().(*types.Basic); !ok || b.Info()&(types.IsInteger|types.IsString) == 0 {
						bad = "comment argument of non-basic type"
					}
				}
			case fn != nil && allowedCalls[fn.Name()]:
			case fn != nil && fn.Pkg() != nil && pureStdlib[fn.Pkg().Path()]:
				// string/number formatting helpers: they compute, they do not emit
			case fn == nil:
				// conversions / builtins
			default:
				// a helper of the generator: what it does is what the branch does
				if d := astx.DeclOfFunc(info, fc.pkg.Syntax, fn); d != nil && d.Body != nil && depth < 3 {
					if dfc := c.fileOf(d); dfc != nil {
						if b := c.commentOnly(dfc, d.Body.List, allowedCalls, depth+1); b != "" {
							bad = b + " (in " + fn.Name() + ")"
						}
						return true
					}
				}
				bad = "unmodelled call " + full + " under the source-map flag"
			}
			return true
		})
	}
	return bad
}

// G16 mode flag is comment-only.
func (c *ctx) modeFlag() {
	scope := c.expandedScope()
	allowedCalls := map[string]bool{"Base": true, "Position": true, "posInfo": true, "End": true, "Name": true, "resetMagicTokens": true, "WriteFile": true, "Bytes": true, "File": true, "Pos": true}
	n := 0
	for _, fc := range c.files {
		if fc.pkg != c.inter {
			continue
		}
		info := fc.pkg.TypesInfo
		fc := fc
		ast.Inspect(fc.file, func(nn ast.Node) bool {
			is, ok := nn.(*ast.IfStmt)
			if !ok {
				return true
			}
			var cs []astx.Cond
			astx.Split(is.Cond, true, is, &cs)
			if len(cs) != 1 {
				return true
			}
			se, ok := astx.Unparen(cs[0].E).(*ast.SelectorExpr)
			if !ok || se.Sel.Name != "sourceMapped" {
				return true
			}
			n++
			name := fc.funcName(is)
			key := fmt.Sprintf("%s|branch on sourceMapped", name)
			// guarded region
			var region []ast.Stmt
			if cs[0].Pos {
				region = is.Body.List
			} else {
				// `if !sourceMapped { return ... }` => the rest of the enclosing block is the region; the body must return the neutral value
				neutral := len(is.Body.List) == 1
				if neutral {
					ret, ok := is.Body.List[0].(*ast.ReturnStmt)
					neutral = ok && len(ret.Results) == 1
					if neutral {
						s, isC := constStr(fc, ret.Results[0])
						neutral = isC && s == ""
						// or: base mode writes the output as it is (`return os.WriteFile(g.outputPath, ...)`), the
						// source-map region below post-processes comments and writes to the same path
						if call, ok := ret.Results[0].(*ast.CallExpr); ok && !neutral {
							if fullName(astx.Callee(info, call)) == "os.WriteFile" && len(call.Args) > 0 {
								if se, ok := astx.Unparen(call.Args[0]).(*ast.SelectorExpr); ok && se.Sel.Name == "outputPath" {
									neutral = true
								}
							}
						}
					}
				}
				if !neutral {
					c.s.Bad("G16", key, c.pos(is), "the base-mode branch does more than return the empty string")
					return true
				}
				after := false
				if blk, ok := fc.par[is].(*ast.BlockStmt); ok {
					for _, st := range blk.List {
						if after {
							region = append(region, st)
						}
						if st == ast.Stmt(is) {
							after = true
						}
					}
				}
			}
			bad := c.commentOnly(fc, region, allowedCalls, 0)
			if bad != "" && scope[fc.funcDecl(is)] && !strings.HasPrefix(bad, "source-map mode emits text that is not a Go comment: \"") {
				c.s.OK("G16", key, c.pos(is), "not a shape this syntactic rule reads ("+bad+"); the function is evaluated in both modes for every expanded variant and the outputs are compared token by token (T5)")
				return true
			}
			if bad != "" {
				c.s.Bad("G16", key, c.pos(is), bad+": source-map output would differ from base output in more than comments")
			} else {
				c.s.OK("G16", key, c.pos(is), "guards only comment-emitting statements / the comment-to-comment magic replacement")
			}
			return true
		})
	}
	if n < 4 {
		c.s.Unk("G16", "sourceMapped branches", "", fmt.Sprintf("only %d branches on the source-map flag recognised (floor 4)", n))
	}
	// every read of the flag is the whole (possibly negated) condition of one of those branches, or the copy into the expr printer
	for _, fc := range c.files {
		if fc.pkg != c.inter {
			continue
		}
		info := fc.pkg.TypesInfo
		fc := fc
		ast.Inspect(fc.file, func(nn ast.Node) bool {
			se, ok := nn.(*ast.SelectorExpr)
			if !ok || se.Sel.Name != "sourceMapped" {
				return true
			}
			if sel := info.Selections[se]; sel == nil || sel.Kind() != types.FieldVal {
				return true
			}
			var p ast.Node = fc.par[se]
			for {
				if pe, ok := p.(*ast.ParenExpr); ok {
					p = fc.par[pe]
					continue
				}
				if u, ok := p.(*ast.UnaryExpr); ok && u.Op == token.NOT {
					p = fc.par[u]
					continue
				}
				break
			}
			switch v := p.(type) {
			case *ast.IfStmt:
				return true // analysed above
			case *ast.KeyValueExpr:
				_ = v
				return true // exprPrinter{sourceMapped: g.sourceMapped} / generator{sourceMapped: ...}
			case *ast.AssignStmt:
				if isLvalueOf(v, se) {
					return true
				}
			}
			if scope[fc.funcDecl(se)] {
				c.s.OK("G16", fc.funcName(se)+"|source-map flag in a compound condition or expression", c.pos(se), "consulted inside the code the expansion evaluates in both modes: decided by T5")
				return true
			}
			c.s.Bad("G16", fc.funcName(se)+"|source-map flag in a compound condition or expression", c.pos(se), "the source-map flag is consulted other than as the sole condition of a comment-only branch: source-map output can differ from base output in more than comments")
			return true
		})
	}
	// the flag is otherwise only set in newGenerator / copied to the expr printer
	for _, fc := range c.files {
		info := fc.pkg.TypesInfo
		fc := fc
		ast.Inspect(fc.file, func(nn ast.Node) bool {
			se, ok := nn.(*ast.SelectorExpr)
			if !ok || (se.Sel.Name != "SourceMapMode" && se.Sel.Name != "GenMode") {
				return true
			}
			if se.Sel.Name == "SourceMapMode" {
				if _, isPkg := info.Uses[identOf(se.X)].(*types.PkgName); !isPkg {
					return true
				}
				name := fc.funcName(se)
				ok := name == "newGenerator" || strings.HasPrefix(name, "Mode.") || name == "package-level" || fc.pkg.PkgPath == load.Module+"/internal/flag"
				c.s.Check(ok, "G16", name+"|uses flag.SourceMapMode", c.pos(se), "only to set generator.sourceMapped (and in the flag package itself)", "the source-map mode is consulted outside newGenerator: behaviour beyond comments may depend on it")
			}
			return true
		})
	}
	// resetMagicTokens (and whatever it delegates to): every formatted write is a comment
	if fc, fd := c.findFunc(c.inter.PkgPath, "generator", "resetMagicTokens"); fd != nil {
		nFmt, good := 0, true
		c.reachesCall(fc, fd.Body, func(f2 *fileCtx, call *ast.CallExpr) bool {
			if fullName(astx.Callee(f2.pkg.TypesInfo, call)) == "fmt.Fprintf" && len(call.Args) > 1 {
				nFmt++
				if s, ok := constStr(f2, call.Args[1]); !ok || !isCommentFormat(s) {
					good = false
				}
			}
			return false // keep walking
		}, map[*ast.FuncDecl]bool{})
		c.s.Check(good && nFmt > 0, "G16", "generator.resetMagicTokens|replaces comment groups by a comment", c.pos(fd), "", "the magic-token pass writes non-comment text")
	}
}

// condsInside: conditions contributed by if statements (not by early-return siblings).
func condsInside(fc *fileCtx, conds []astx.Cond, fd *ast.FuncDecl) []astx.Cond {
	var out []astx.Cond
	for _, cd := range conds {
		if is, ok := cd.At.(*ast.IfStmt); ok && !astx.Terminates(is.Body) {
			out = append(out, cd)
		}
	}
	return out
}

func isLvalueOf(as *ast.AssignStmt, e ast.Expr) bool {
	for _, l := range as.Lhs {
		if l == e {
			return true
		}
	}
	return false
}

// G19 dependency edges from the provider table; G20 synthetic nodes are position-less.
// isProviderLookupIf: `if i, ok := <...>providers.At(typ).(int); ok { ... }`.
func isProviderLookupIf(is *ast.IfStmt) bool {
	as, ok := is.Init.(*ast.AssignStmt)
	if !ok || len(as.Rhs) != 1 || len(as.Lhs) != 2 || !strings.Contains(astx.Short(as.Rhs[0]), "providers.At(") {
		return false
	}
	okID, ok1 := as.Lhs[1].(*ast.Ident)
	cond, ok2 := astx.Unparen(is.Cond).(*ast.Ident)
	return ok1 && ok2 && okID.Name == cond.Name
}

func (c *ctx) dependsOn() {
	fc, fd := c.findFunc(c.inter.PkgPath, "compiler", "scheduleFlowAndToposort")
	if fd == nil {
		c.s.Unk("G19", "compiler.scheduleFlowAndToposort", "", "not found")
	} else {
		info := fc.pkg.TypesInfo
		// scheduleFlowAndToposort and the package-local functions it is split into
		bodies := []*ast.FuncDecl{fd}
		seenBody := map[*ast.FuncDecl]bool{fd: true}
		for _, ic := range astx.CallsInlined(info, fc.pkg.Syntax, fd, 2) {
			if !seenBody[ic.Fd] {
				seenBody[ic.Fd] = true
				bodies = append(bodies, ic.Fd)
			}
		}
		n := 0
		for _, bfd := range bodies {
			bfc := c.fileOf(bfd)
			astx.Writes(bfd.Body, func(l ast.Expr, at ast.Node) {
				fc, fd := bfc, bfd
				se, ok := astx.Unparen(l).(*ast.SelectorExpr)
				if !ok || se.Sel.Name != "DependsOn" {
					return
				}
				n++
				as, isAs := at.(*ast.AssignStmt)
				good := isAs && len(as.Rhs) == 1
				if good {
					call, ok := as.Rhs[0].(*ast.CallExpr)
					good = ok && astx.IsBuiltin(info, call, "append") && len(call.Args) == 2 && astx.Same(info, call.Args[0], l)
					if good {
						ix, ok := call.Args[1].(*ast.IndexExpr)
						good = ok && strings.HasSuffix(astx.Short(ix.X), ".Funcs")
					}
				}
				// unconditional inside its loops
				conds := 0
				for _, cd := range fc.par.Known(at, fd) {
					if is, ok := cd.At.(*ast.IfStmt); ok && fc.par.Within(is, fd.Body) {
						if isProviderLookupIf(is) {
							continue // `if i, ok := providers.At(typ).(int); ok`: there is a provider to depend on
						}
						conds++
					}
				}
				c.s.Check(good && conds == 0, "G19", "scheduleFlowAndToposort|DependsOn gets every provider, unconditionally", c.pos(at), "one edge per dependency type that a function provides (duplicates are harmless: the scheduler counts and notifies per occurrence)", "a dependency edge is dropped or added conditionally when DependsOn is built: the generated job can start before a provider (or its own predicate) finished")
			})
		}
		if n != 1 {
			c.s.Unk("G19", "scheduleFlowAndToposort|DependsOn construction", c.pos(fd), fmt.Sprintf("%d assignments to DependsOn (want 1)", n))
		}
		// the Dependencies closure: for each typ: providers.At(typ) ok => append
		var lit *ast.FuncLit
		for _, bfd := range bodies {
			fd := bfd
			ast.Inspect(fd.Body, func(nn ast.Node) bool {
				if kv, ok := nn.(*ast.KeyValueExpr); ok {
					if id, ok := kv.Key.(*ast.Ident); ok && id.Name == "Dependencies" {
						lit, _ = kv.Value.(*ast.FuncLit)
						if lit == nil {
							// a method value / named function: `Dependencies: f.funcDependencies`
							var fobj *types.Func
							switch v := astx.Unparen(kv.Value).(type) {
							case *ast.SelectorExpr:
								fobj, _ = info.Uses[v.Sel].(*types.Func)
							case *ast.Ident:
								fobj, _ = info.Uses[v].(*types.Func)
							}
							if fobj != nil {
								for _, f2 := range c.files {
									if d := astx.DeclOfFunc(f2.pkg.TypesInfo, []*ast.File{f2.file}, fobj); d != nil && d.Body != nil {
										lit = &ast.FuncLit{Type: d.Type, Body: d.Body}
									}
								}
							}
						}
						if vid, ok := kv.Value.(*ast.Ident); ok && lit == nil {
							// a local function value defined once: `deps := func(i int) []int {...}`
							obj := astx.IdentObj(info, vid)
							n := 0
							astx.Writes(fd.Body, func(l ast.Expr, at ast.Node) {
								if astx.IdentObj(info, l) != obj || obj == nil {
									return
								}
								n++
								if as, ok := at.(*ast.AssignStmt); ok && len(as.Rhs) == 1 {
									lit, _ = as.Rhs[0].(*ast.FuncLit)
								}
							})
							if n != 1 {
								lit = nil
							}
						}
					}
				}
				return true
			})
		}
		good := false
		if lit != nil {
			ast.Inspect(lit.Body, func(nn ast.Node) bool {
				rs, ok := nn.(*ast.RangeStmt)
				if !ok || !strings.HasSuffix(astx.Short(rs.X), ".Dependencies") {
					return true
				}
				// body: if i, ok := providers.At(typ).(int); ok { deps = append(deps, i) }
				if len(rs.Body.List) == 1 {
					if is, ok := rs.Body.List[0].(*ast.IfStmt); ok && is.Else == nil && len(is.Body.List) == 1 && is.Init != nil {
						if as, ok := is.Body.List[0].(*ast.AssignStmt); ok && len(as.Rhs) == 1 {
							if call, ok := as.Rhs[0].(*ast.CallExpr); ok && astx.IsBuiltin(info, call, "append") && strings.Contains(astx.Short(is.Init.(*ast.AssignStmt).Rhs[0]), "providers.At(") {
								good = true
							}
						}
					}
				}
				return true
			})
		}
		if !good && lit != nil && len(lit.Body.List) == 1 {
			// the closure hands out rows of a table: `func(i int) []int { return deps[i] }`; the table is filled by a
			// loop over every function's Dependencies with one edge per type that has a provider
			if ret, ok := lit.Body.List[0].(*ast.ReturnStmt); ok && len(ret.Results) == 1 {
				if ix, ok := astx.Unparen(ret.Results[0]).(*ast.IndexExpr); ok {
					table := astx.IdentObj(info, ix.X)
					for _, bfd := range bodies {
						ast.Inspect(bfd.Body, func(nn ast.Node) bool {
							rs, ok := nn.(*ast.RangeStmt)
							if !ok || !strings.HasSuffix(astx.Short(rs.X), ".Dependencies") || len(rs.Body.List) != 1 {
								return true
							}
							is, ok := rs.Body.List[0].(*ast.IfStmt)
							if !ok || !isProviderLookupIf(is) || is.Else != nil {
								return true
							}
							for _, st := range is.Body.List {
								as, ok := st.(*ast.AssignStmt)
								if !ok || len(as.Lhs) != 1 || len(as.Rhs) != 1 {
									continue
								}
								call, ok := as.Rhs[0].(*ast.CallExpr)
								if !ok || !astx.IsBuiltin(info, call, "append") {
									continue
								}
								if lx, ok := astx.Unparen(as.Lhs[0]).(*ast.IndexExpr); ok && table != nil && astx.IdentObj(info, lx.X) == table {
									good = true
								}
							}
							return true
						})
					}
				}
			}
		}
		c.s.Check(good, "G19", "scheduleFlowAndToposort|graph edges = provider of every dependency type (incl. predicate sentinels)", c.pos(fd), "", "the dependency graph is not built from the provider of every type in function.Dependencies")
	}
	// consumer edges come from function.Dependencies only (it includes the predicate sentinel); function.inputs() omits it
	nIn := 0
	c.eachCall(func(fc *fileCtx, call *ast.CallExpr, fn *types.Func) {
		if fn != nil && fn.Name() == "inputs" && fn.Pkg() == c.inter.Types {
			nIn++
			c.s.Bad("G19", fc.funcName(call)+"|walks function.inputs() instead of function.Dependencies", c.pos(call), "graph code iterates function.inputs(), which omits the predicate sentinel a gated task depends on: missing providers behind predicates are accepted / inputs consumed only by predicates are reported unused")
		}
	})
	if nIn == 0 {
		c.s.OK("G19", "stratum B|graph code never iterates function.inputs()", "", "all consumer edges are read from function.Dependencies")
	}
	if fc, fd := c.findFunc(c.inter.PkgPath, "compiler", "compileTask"); fd != nil {
		info := fc.pkg.TypesInfo
		good := false
		astx.Writes(fd.Body, func(l ast.Expr, at ast.Node) {
			if !strings.HasSuffix(astx.Short(l), ".Function.Dependencies") {
				return
			}
			as, ok := at.(*ast.AssignStmt)
			if !ok || len(as.Rhs) != 1 {
				return
			}
			call, ok := as.Rhs[0].(*ast.CallExpr)
			if !ok || !astx.IsBuiltin(info, call, "append") || len(call.Args) != 2 || !strings.HasSuffix(astx.Short(call.Args[1]), ".Predicate.SentinelOutput") {
				return
			}
			conds := fc.par.Known(at, fd)
			for _, cd := range conds {
				if e, ok := astx.EqNil(info, cd.E); ok && !cd.Pos && strings.HasSuffix(astx.Short(e), ".Predicate") && len(condsInside(fc, conds, fd)) == 1 {
					good = true
				}
			}
		})
		c.s.Check(good, "G19", "compileTask|a task with a predicate depends on the predicate's sentinel output", c.pos(fd), "", "the predicate sentinel is not appended to the gated task's Dependencies exactly when it has a predicate: the task is not ordered after its predicate")
	} else {
		c.s.Unk("G19", "compiler.compileTask", "", "not found")
	}
	// G20
	n := 0
	for _, fc := range c.files {
		info := fc.pkg.TypesInfo
		fc := fc
		ast.Inspect(fc.file, func(nn ast.Node) bool {
			cl, ok := nn.(*ast.CompositeLit)
			if !ok {
				return true
			}
			t := info.TypeOf(cl)
			nt, ok := t.(*types.Named)
			if !ok || nt.Obj().Pkg() == nil || nt.Obj().Pkg().Path() != "go/ast" {
				return true
			}
			n++
			positioned := ""
			for _, e := range cl.Elts {
				if kv, ok := e.(*ast.KeyValueExpr); ok {
					if id, ok := kv.Key.(*ast.Ident); ok {
						if ft := info.TypeOf(kv.Value); ft != nil && ft.String() == "go/token.Pos" {
							positioned = id.Name
						}
					}
				}
			}
			c.s.Check(positioned == "", "G20", fc.funcName(cl)+"|synthetic ast."+nt.Obj().Name()+" carries no position", c.pos(cl), "the expression printer tells user expressions from synthetic ones by Pos().IsValid()", "a synthetic AST node is given a source position ("+positioned+"): the printer would hoist it as a user expression, colliding with the user expression at that position (the generated code then does not compile)")
			return true
		})
	}
	if n == 0 {
		c.s.OK("G20", "stratum B|no synthetic AST node", "", "the generator constructs no go/ast node")
	}
}

// okWriter: writes to e cannot fail silently: e is an in-memory buffer or the sticky error writer,
// or a local that was last assigned one before `at`, or a parameter of an unexported function that
// receives such a writer at every one of its call sites.
func (c *ctx) okWriter(fc *fileCtx, e ast.Expr, at ast.Node, depth int) bool {
	if depth > 4 {
		return false
	}
	info := fc.pkg.TypesInfo
	isMem := func(t types.Type) bool {
		if t == nil {
			return false
		}
		s := t.String()
		return s == "*bytes.Buffer" || s == "*strings.Builder" || strings.HasSuffix(s, "stickyErrWriter")
	}
	e = astx.Unparen(e)
	if isMem(info.TypeOf(e)) {
		return true
	}
	if u, ok := e.(*ast.UnaryExpr); ok && u.Op == token.AND {
		if t := info.TypeOf(u.X); t != nil && (t.String() == "bytes.Buffer" || t.String() == "strings.Builder" || strings.HasSuffix(t.String(), "stickyErrWriter")) {
			return true
		}
	}
	if se, ok := e.(*ast.SelectorExpr); ok {
		// a struct field: every value ever given to that field must be acceptable
		sel := info.Selections[se]
		if sel == nil || sel.Kind() != types.FieldVal {
			return false
		}
		field := sel.Obj()
		n, good := 0, true
		for _, f2 := range c.files {
			i2 := f2.pkg.TypesInfo
			f2 := f2
			ast.Inspect(f2.file, func(nn ast.Node) bool {
				switch x := nn.(type) {
				case *ast.KeyValueExpr:
					if id, ok := x.Key.(*ast.Ident); ok && i2.Uses[id] == field {
						n++
						if !c.okWriter(f2, x.Value, x, depth+1) {
							good = false
						}
					}
				case *ast.AssignStmt:
					for i, l := range x.Lhs {
						if ls, ok := astx.Unparen(l).(*ast.SelectorExpr); ok {
							if s2 := i2.Selections[ls]; s2 != nil && s2.Obj() == field {
								n++
								if len(x.Lhs) != len(x.Rhs) || !c.okWriter(f2, x.Rhs[i], x, depth+1) {
									good = false
								}
							}
						}
					}
				case *ast.CompositeLit:
					// unkeyed literals of the struct would hide a value
					if t := i2.TypeOf(x); t != nil {
						if st, ok := t.Underlying().(*types.Struct); ok && len(x.Elts) > 0 {
							if _, keyed := x.Elts[0].(*ast.KeyValueExpr); !keyed {
								for i := 0; i < st.NumFields(); i++ {
									if st.Field(i) == field {
										good = false
									}
								}
							}
						}
					}
				}
				return true
			})
		}
		return n > 0 && good
	}
	obj := astx.IdentObj(info, e)
	if obj == nil {
		return false
	}
	fd := fc.funcDecl(at)
	if fd == nil {
		return false
	}
	// last assignment before `at` in this function
	var last ast.Expr
	var lastPos token.Pos
	astx.Writes(fd.Body, func(l ast.Expr, w ast.Node) {
		if astx.IdentObj(info, l) != obj || w.Pos() >= at.Pos() || w.Pos() < lastPos {
			return
		}
		if as, ok := w.(*ast.AssignStmt); ok && len(as.Lhs) == len(as.Rhs) {
			for i := range as.Lhs {
				if astx.IdentObj(info, as.Lhs[i]) == obj {
					last, lastPos = as.Rhs[i], w.Pos()
				}
			}
		}
	})
	if last != nil {
		return c.okWriter(fc, last, at, depth+1)
	}
	// parameter: every call site must pass an acceptable writer
	idx := -1
	k := 0
	for _, f := range fd.Type.Params.List {
		for _, n := range f.Names {
			if info.Defs[n] == obj {
				idx = k
			}
			k++
		}
	}
	fn, _ := info.Defs[fd.Name].(*types.Func)
	if idx < 0 || fn == nil || fn.Exported() {
		return false
	}
	sites, good := 0, true
	c.eachCall(func(fc2 *fileCtx, call *ast.CallExpr, callee *types.Func) {
		if callee != fn {
			return
		}
		sites++
		if idx >= len(call.Args) || !c.okWriter(fc2, call.Args[idx], call, depth+1) {
			good = false
		}
	})
	// the function value must not escape (be referenced other than as a callee)
	for _, f := range c.files {
		for id, o := range f.pkg.TypesInfo.Uses {
			if o != types.Object(fn) {
				continue
			}
			var p ast.Node = id
			if se, ok := f.par[id].(*ast.SelectorExpr); ok && se.Sel == id {
				p = se
			}
			if call, ok := f.par[p].(*ast.CallExpr); !ok || call.Fun != p {
				if f.par[id] != nil {
					good = false
				}
			}
		}
	}
	return sites > 0 && good
}

// verbatimWrite: call writes arg unchanged: a Write method of a buffer/writer, or a stratum-B helper whose
// body is a single unconditional verbatim write of the corresponding parameter.
func (c *ctx) verbatimWrite(fc *fileCtx, call *ast.CallExpr, arg ast.Expr, depth int) bool {
	if depth > 2 {
		return false
	}
	info := fc.pkg.TypesInfo
	idx := -1
	for i, a := range call.Args {
		if astx.Unparen(a) == astx.Unparen(arg) {
			idx = i
		}
	}
	fn := astx.Callee(info, call)
	if fn == nil || idx < 0 {
		return false
	}
	switch fn.FullName() {
	case "(*bytes.Buffer).Write", "(io.Writer).Write", "(*bufio.Writer).Write", "(*strings.Builder).Write", "(*os.File).Write":
		return true
	}
	for _, f2 := range c.files {
		d := astx.DeclOfFunc(f2.pkg.TypesInfo, []*ast.File{f2.file}, fn)
		if d == nil || d.Body == nil {
			continue
		}
		// parameter object at idx
		var param types.Object
		k := 0
		for _, fl := range d.Type.Params.List {
			for _, n := range fl.Names {
				if k == idx {
					param = f2.pkg.TypesInfo.Defs[n]
				}
				k++
			}
		}
		if param == nil {
			return false
		}
		uses, writes, branches := 0, 0, 0
		ast.Inspect(d.Body, func(n ast.Node) bool {
			switch x := n.(type) {
			case *ast.ForStmt, *ast.RangeStmt, *ast.SwitchStmt, *ast.SelectStmt:
				branches++
			case *ast.Ident:
				if f2.pkg.TypesInfo.Uses[x] == param {
					uses++
				}
			case *ast.CallExpr:
				for _, a := range x.Args {
					if astx.IdentObj(f2.pkg.TypesInfo, a) == param && c.verbatimWrite(f2, x, a, depth+1) && len(f2.par.Known(x, d)) == 0 {
						writes++
					}
				}
			}
			return true
		})
		return uses == 1 && writes == 1 && branches == 0
	}
	return false
}

// reachesCall: fd (transitively, through functions declared in stratum B) contains a call satisfying pred.
func (c *ctx) reachesCall(fc *fileCtx, root ast.Node, pred func(fc *fileCtx, call *ast.CallExpr) bool, seen map[*ast.FuncDecl]bool) bool {
	found := false
	ast.Inspect(root, func(n ast.Node) bool {
		call, ok := n.(*ast.CallExpr)
		if !ok || found {
			return !found
		}
		if pred(fc, call) {
			found = true
			return false
		}
		fn := astx.Callee(fc.pkg.TypesInfo, call)
		if fn == nil {
			return true
		}
		for _, f2 := range c.files {
			if d := astx.DeclOfFunc(f2.pkg.TypesInfo, []*ast.File{f2.file}, fn); d != nil && d.Body != nil && !seen[d] {
				seen[d] = true
				if c.reachesCall(f2, d.Body, pred, seen) {
					found = true
				}
			}
		}
		return true
	})
	return found
}

// callsReach: fd (transitively, through functions declared in stratum B) calls a function named `name`.
func (c *ctx) callsReach(fc *fileCtx, fd *ast.FuncDecl, name string, seen map[*ast.FuncDecl]bool) bool {
	if fd == nil || fd.Body == nil || seen[fd] {
		return false
	}
	seen[fd] = true
	found := false
	ast.Inspect(fd.Body, func(n ast.Node) bool {
		call, ok := n.(*ast.CallExpr)
		if !ok || found {
			return !found
		}
		fn := astx.Callee(fc.pkg.TypesInfo, call)
		if fn == nil {
			return true
		}
		if fn.Name() == name {
			found = true
			return false
		}
		for _, f2 := range c.files {
			if d := astx.DeclOfFunc(f2.pkg.TypesInfo, []*ast.File{f2.file}, fn); d != nil {
				if c.callsReach(f2, d, name, seen) {
					found = true
				}
			}
		}
		return true
	})
	return found
}

// G17 error plumbing.
func (c *ctx) errorPlumbing() {
	errT := types.Universe.Lookup("error").Type()
	n := 0
	c.eachCall(func(fc *fileCtx, call *ast.CallExpr, fn *types.Func) {
		info := fc.pkg.TypesInfo
		sig, ok := info.TypeOf(call.Fun).Underlying().(*types.Signature)
		if !ok || sig.Results().Len() == 0 || !types.Identical(sig.Results().At(sig.Results().Len()-1).Type(), errT) {
			return
		}
		dropped := false
		switch p := fc.par[call].(type) {
		case *ast.ExprStmt, *ast.DeferStmt, *ast.GoStmt:
			dropped = true
		case *ast.AssignStmt:
			if len(p.Rhs) == 1 && len(p.Lhs) == sig.Results().Len() {
				if id, ok := p.Lhs[len(p.Lhs)-1].(*ast.Ident); ok && id.Name == "_" {
					dropped = true
				}
			}
		}
		n++
		if !dropped {
			return
		}
		full := fullName(fn)
		name := fc.funcName(call)
		key := fmt.Sprintf("%s|error of %s dropped", name, full)
		// accepted idioms
		dstType := ""
		if len(call.Args) > 0 {
			if t := info.TypeOf(call.Args[0]); t != nil {
				dstType = t.String()
			}
		}
		recvT := ""
		if se, ok := call.Fun.(*ast.SelectorExpr); ok {
			if t := info.TypeOf(se.X); t != nil {
				recvT = t.String()
			}
		}
		switch {
		case strings.HasPrefix(full, "(*strings.Builder).Write"):
			c.s.OK("G17", key, c.pos(call), "strings.Builder writes cannot fail")
		case full == "strconv.Unquote" && strings.HasSuffix(astx.Short(call.Args[0]), ".Path.Value"):
			c.s.OK("G17", key, c.pos(call), "table entry: unquoting the Path literal of an *ast.ImportSpec of a file that parsed cannot fail")
		case strings.HasPrefix(full, "(*bytes.Buffer).Write"), recvT == "bytes.Buffer" || recvT == "*bytes.Buffer":
			c.s.OK("G17", key, c.pos(call), "bytes.Buffer writes cannot fail")
		case strings.HasPrefix(full, "fmt.Fprint") && (dstType == "*bytes.Buffer" || strings.HasSuffix(dstType, "stickyErrWriter")):
			c.s.OK("G17", key, c.pos(call), "write to an in-memory buffer / the sticky writer whose Err is returned")
		case (strings.HasPrefix(full, "fmt.Fprint") || full == "io.WriteString") && len(call.Args) > 0 && c.okWriter(fc, call.Args[0], call, 0):
			c.s.OK("G17", key, c.pos(call), "the destination is, at every call site of this function, an in-memory buffer or the sticky error writer (whose Err is returned)")
		case c.onlyBufferErrors(fn):
			c.s.OK("G17", key, c.pos(call), "the callee's error can only come from writes to an in-memory buffer, which cannot fail")
		case strings.HasPrefix(full, "fmt.Fprint") && fc.pkg.PkgPath == load.Module+"/cmd/cff":
			c.s.OK("G17", key, c.pos(call), "usage text to the flag set's output")
		default:
			c.s.Bad("G17", key, c.pos(call), "an error is silently dropped: cff could report success although a step failed")
		}
	})
	c.s.SetFact("genlint.error_returning_calls", n)
	// main: non-nil run error => non-zero exit
	if fc, fd := c.findFunc(load.Module+"/cmd/cff", "", "main"); fd != nil {
		info := fc.pkg.TypesInfo
		good := false
		ast.Inspect(fd.Body, func(nn ast.Node) bool {
			if call, ok := nn.(*ast.CallExpr); ok {
				f := fullName(astx.Callee(info, call))
				if f == "log.Fatalf" || f == "log.Fatal" || f == "os.Exit" || f == "log.Fatalln" {
					for _, cd := range fc.par.Known(call, fd) {
						if _, ok := astx.EqNil(info, cd.E); ok && !cd.Pos {
							good = true
						}
					}
				}
			}
			return true
		})
		c.s.Check(good, "G17", "main|non-nil run() error exits non-zero", c.pos(fd), "", "main does not turn a run() error into a non-zero exit status")
	}
}

// G18 type-keyed tables.
func (c *ctx) typeKeyed() {
	tt := c.repo.Types("go/types")
	if tt == nil {
		c.s.Unk("G18", "go/types", "", "not loaded")
		return
	}
	typeI := tt.Scope().Lookup("Type").Type()
	n := 0
	seen := map[string]bool{}
	for _, fc := range c.files {
		for e, tv := range fc.pkg.TypesInfo.Types {
			m, ok := tv.Type.Underlying().(*types.Map)
			if !ok {
				continue
			}
			n++
			if types.Identical(m.Key(), typeI) {
				k := fc.funcName(e) + "|map keyed by types.Type"
				if !seen[k] {
					seen[k] = true
					c.s.Bad("G18", k, c.pos(e), "identical types are not pointer-equal: a Go map keyed by types.Type treats the same type as different keys (typeutil.Map must be used)")
				}
			}
		}
	}
	c.s.OK("G18", "stratum B|no Go map keyed by types.Type", "", fmt.Sprintf("%d map-typed expressions examined", n))
	// ... and no == / != between two types.Type values (or switch on one with types as cases): that is the
	// same pointer comparison; types.Identical (or typeutil.Map) is the equality of the type graph. Comparison
	// with nil and with the canonical universe/basic singletons (types.Typ[...], Universe lookups) is exact.
	isTypeVal := func(info *types.Info, e ast.Expr) bool {
		t := info.TypeOf(e)
		return t != nil && types.Identical(t, typeI)
	}
	singleton := func(info *types.Info, e ast.Expr) bool {
		e = astx.Unparen(e)
		if astx.IsNil(info, e) {
			return true
		}
		if ix, ok := e.(*ast.IndexExpr); ok {
			if se, ok := ix.X.(*ast.SelectorExpr); ok && se.Sel.Name == "Typ" {
				return true
			}
		}
		if call, ok := e.(*ast.CallExpr); ok {
			if se, ok := call.Fun.(*ast.SelectorExpr); ok && se.Sel.Name == "Type" {
				if inner, ok := se.X.(*ast.CallExpr); ok {
					if s2, ok := inner.Fun.(*ast.SelectorExpr); ok && s2.Sel.Name == "Lookup" {
						return true // types.Universe.Lookup("error").Type()
					}
				}
			}
		}
		return false
	}
	ncmp := 0
	for _, fc := range c.files {
		info := fc.pkg.TypesInfo
		fc := fc
		ast.Inspect(fc.file, func(nd ast.Node) bool {
			be, ok := nd.(*ast.BinaryExpr)
			if !ok || (be.Op != token.EQL && be.Op != token.NEQ) {
				return true
			}
			if !isTypeVal(info, be.X) || !isTypeVal(info, be.Y) {
				return true
			}
			ncmp++
			k := fc.funcName(be) + "|" + astx.Short(be.X) + " " + be.Op.String() + " " + astx.Short(be.Y)
			if singleton(info, be.X) || singleton(info, be.Y) {
				c.s.OK("G18", k, c.pos(be), "comparison with nil or a canonical singleton type")
			} else {
				c.s.Bad("G18", k, c.pos(be), "two types.Type values are compared with "+be.Op.String()+": identical types written at two places (`*T` and `*T`, two `[]byte`) are different objects, so a duplicate or a match goes unnoticed; types.Identical is the equality of types")
			}
			return true
		})
	}
	c.s.SetFact("lint.type_value_comparisons", ncmp)
	for _, recv := range []string{"generator", "generatorv2"} {
		for _, m := range []string{"typeID", "predID"} {
			fc, fd := c.findFunc(c.inter.PkgPath, recv, m)
			if fd == nil {
				continue
			}
			info := fc.pkg.TypesInfo
			// if i := M.At(t); i != nil { return i.(int) }; id := next; next++; M.Set(t, id); return id
			hasAt, hasSet, inc := false, false, false
			var atRecv, setRecv string
			// (in the method itself or in a helper both id methods share: internID(ids, &next, t))
			c.eachReachedBody(fd, 1, func(body *ast.BlockStmt) {
				ast.Inspect(body, func(nn ast.Node) bool {
					switch v := nn.(type) {
					case *ast.CallExpr:
						if fn := astx.Callee(info, v); fn != nil {
							if strings.HasSuffix(fn.FullName(), "typeutil.Map).At") {
								hasAt, atRecv = true, recvText(v)
							}
							if strings.HasSuffix(fn.FullName(), "typeutil.Map).Set") {
								hasSet, setRecv = true, recvText(v)
							}
						}
					case *ast.IncDecStmt:
						inc = inc || v.Tok == token.INC
					case *ast.AssignStmt:
						if v.Tok == token.ADD_ASSIGN {
							inc = true
						}
					}
					return true
				})
			})
			c.s.Check(hasAt && hasSet && inc && atRecv == setRecv, "G18", recv+"."+m+"|stored id iff typeutil.Map.At finds the type, else fresh", c.pos(fd), "", "type/predicate ids are not memoised through one typeutil.Map: two identical types can get different variable names (or different types the same)")
		}
	}
}

// Rules is the G-rule catalogue.
var Rules = []report.Rule{
	{ID: "G27", Floor: 3, Props: []string{"C14"}, Text: "the sentinel types of output-less tasks and of predicates are keys of the same structural type map as user types: the two families differ in their field type, and each member is named after the family's counter, incremented unconditionally first"},
	{ID: "G32", Floor: 3, Props: []string{"C14"}, Text: "a cff.Params value is struck off the unused list only where no task provides its type, leftovers are reported, and no diagnostic of compileFlow's option loop depends on what other options contributed so far (acceptance is independent of the order of the options)"},
	{ID: "G33", Floor: 5, Props: []string{"C13", "C20"}, Text: "every type handed to a type printer (base and modifier mode) is first checked for nameability where the generated code is placed - not an unexported type of another package, not a name that means something else at the directive, not a function-local type or type parameter in top-level code - and what the check records is returned by the driver between rendering and writing the output. Found F12, repaired."},
	{ID: "G34", Floor: 2, Props: []string{"C13"}, Text: "a directive whose context argument is the literal nil (which type-checks, and which the hoisting printer prints in place: `ctx := nil`) is rejected when it is compiled: IsNil() of the argument stored in Ctx leads to a diagnostic, in compileFlow and compileParallel. Found F13, repaired."},
	{ID: "G35", Floor: 1, Props: []string{"C15", "C13"}, Text: "syntax the generator synthesises (composite literals of go/ast node types; they carry no position, so the hoisting printer prints them in place) is closed: every element of syntax type is itself such a literal, ast.NewIdent(...) or nil - a made-up node never wraps a user expression (seed C15_m)"},
	{ID: "G36", Floor: 20, Props: []string{"C13", "C16"}, Text: "in the generator a branch taken because an error value is not nil never returns the literal nil as the function's error result (an error in hand is not turned into success; found by the mutation sweep of gen.go)"},
	{ID: "G37", Floor: 20, Props: []string{"C14", "C13"}, Text: "in the methods of the compiler that return a pointer, a conditional `return nil` stands in a block that reports a diagnostic first, or only hands on a failure reported where it arose (a nil result of another compiler method, the recorded diagnostics): the compiler never gives up on a directive, an option or a task silently (mutation sweep of compile_parallel.go)"},
	{ID: "G45", Floor: 1, Props: []string{"C13"}, Text: "the import names recorded for the templates exclude `_` and `.`: where the file's import table is filled a test of the name against both leaves first, or every \"import\" template function makes that test"},
	{ID: "G44", Floor: 0, Props: []string{"C16"}, Text: "in the loader (internal/pkg) and the command (cmd/cff) the Filename of a token.Position - which //line directives rewrite - is used for diagnostics only: the names that decide output paths and -file selection come from go/packages or token.File.Name()"},
	{ID: "G43", Floor: 0, Props: []string{"C11", "C02", "C15"}, Text: "a record of the compiler that holds the syntax it was compiled from (a field of type ast.Expr / ast.Node) is cached, if at all, under a key that is syntax too: never under a type or signature, which different expressions share"},
	{ID: "G42", Floor: 4, Props: []string{"C13", "C14", "C15"}, Text: "every switch of the compiler over the name of an option function covers all functions of package cff that return the same option type as the ones it names, or has a default clause that reports a diagnostic: no option a type-correct directive can pass is dropped in silence"},
	{ID: "G41", Floor: 1, Props: []string{"C13", "C16"}, Text: "the list of directives that GenerateFile walks by source offset is in source order: every append to it happens in the visitor of the walk over the file, or it is sorted by position"},
	{ID: "G40", Floor: 2, Props: []string{"C13", "C20"}, Text: "the position the name checks work with (a token.Pos field of the generator, read by the checks that run while the templates are rendered) is assigned from the directive being generated before the rendering call, in the rendering function or in all of its callers"},
	{ID: "G39", Floor: 1, Props: []string{"C13", "C14"}, Text: "no spelling of a directive is skipped in silence: the file walk that dispatches to the flow and parallel compilers also covers a directive written as a plain identifier (cff imported as \".\") - it reports such an identifier, or reports the dot import, or expands it like a selector call"},
	{ID: "G38", Floor: 3, Props: []string{"C14", "C10", "C11"}, Text: "the combinations the abstract expansion leaves out because the compiler rejects them are rejected: SliceEnd with ContinueOnError, MapEnd with ContinueOnError (a test of exactly that conjunction whose branch reports a diagnostic), FallbackWith on a task without an error result (inside the handling of that option, a branch on the negated error-result test reports)"},
	{ID: "G31", Floor: 5, Props: []string{"C13"}, Text: "every package name the base-mode generator hands to the templates (the import function, the type qualifier) is looked up in the scope of the directive first, and the recorded errors are returned before the output is written"},
	{ID: "G30", Floor: 2, Props: []string{"C13"}, Text: "after compiling a Flow/Parallel directive the file walker either descends into it or scans its arguments for nested directives and reports them: no directive call is left unprocessed silently"},
	{ID: "G28", Floor: 2, Props: []string{"C14"}, Text: "memo / visited-set keys of the validators' graph searches are total over the nodes: the key is the node (or its structural type) itself, or a field that every constructor of the node sets"},
	{ID: "G29", Floor: 4, Props: []string{"C14", "C13"}, Text: "every structural classification of a user-supplied go/types.Type (slice, map, function, pointer) is made on its underlying type, so named types of that kind are accepted like unnamed ones"},
	{ID: "G26", Floor: 1, Props: []string{"C14", "C13"}, Text: "the depth-first cycle search writes its memo only after a node's subtree was searched, or else tests the path first with the memo's key"},
	{ID: "G25", Floor: 3, Props: []string{"C20", "C13"}, Text: "package-level names generated in modifier mode are injective in (file, line, column): every integer component of the name is preceded by a non-digit literal separator"},
	{ID: "G1", Floor: 6, Props: []string{"C17"}, Text: "every range over a map / typeutil.Map.Keys() only fills sets, emits diagnostics, or builds slices that are sorted before any other use"},
	{ID: "G2", Floor: 4, Props: []string{"C17"}, Text: "no clock/environment/random/introspection source is consulted except the random magic token, which is read only by the comment printer (source-map mode) and the comment replacer; no go/select in the generator"},
	{ID: "G3", Floor: 2, Props: []string{"C17"}, Text: "package-level variables are never written after initialisation; Process builds a fresh compiler and generator per file"},
	{ID: "G4", Floor: 7, Props: []string{"C16", "C17"}, Text: "file-system mutations are exactly os.WriteFile(g.outputPath) plus the debug temp dump on the parse-failure path; outputPath flows from Process's parameter, which main derives from -file OUT or genFilename; the -file table holds only the OUT values the user gave, and the default output name is genFilename of the path of the very file handed to Process"},
	{ID: "G5", Floor: 2, Props: []string{"C13", "C14"}, Text: "generation is dominated by CompileFile() == nil, which returns all recorded diagnostics"},
	{ID: "G6", Floor: 3, Props: []string{"C13"}, Text: "every output write is dominated by successful re-parse and format of the generated text"},
	{ID: "G7", Floor: 1, Props: []string{"C13"}, Text: "go/constant accessors with panicking preconditions are dominated by a nil/kind test of the same value"},
	{ID: "G8", Floor: 4, Props: []string{"C14"}, Text: "types.AssignableTo(value type, slot type): the collection element / fallback expression is the first operand, the parameter / task output the second"},
	{ID: "G9", Floor: 6, Props: []string{"C14", "C13"}, Text: "compileFlow runs the registration loop and all validators unconditionally before scheduling; scheduling only with zero diagnostics and after the cycle check passed"},
	{ID: "G10", Floor: 2, Props: []string{"C14"}, Text: "every insertion into a provider table tests for an existing entry and reports it"},
	{ID: "G11", Floor: 2, Props: []string{"C13", "C14"}, Text: "every recorded diagnostic starts with a source position"},
	{ID: "G12", Floor: 4, Props: []string{"C15", "C12"}, Text: "generateFlow/generateParallel: stage body, open wrapper, prologue from the sorted recorded set, staged body, close; printExpr records before naming"},
	{ID: "G13", Floor: 2, Props: []string{"C15"}, Text: "the wrapper opening declares no identifier that is in scope of the hoisted user expressions"},
	{ID: "G14", Floor: 7, Props: []string{"C16"}, Text: "invertCffConstraint is a structural recursion over every constraint.Expr node kind and child, replacing only cff ↔ !cff"},
	{ID: "G15", Floor: 3, Props: []string{"C16"}, Text: "GenerateFile copies the source by a chained offset walk (header through the tag inverter, text between directives, tail)"},
	{ID: "G16", Floor: 6, Props: []string{"C20", "C17"}, Text: "every branch on the source-map flag guards only comment-emitting statements or the comment-to-comment magic replacement; the mode is consulted nowhere else"},
	{ID: "G17", Floor: 5, Props: []string{"C13"}, Text: "no error is dropped outside the accepted-idiom table; main turns a run() error into a non-zero exit"},
	{ID: "G19", Floor: 4, Props: []string{"C01", "C02", "C11", "C14"}, Text: "scheduleFlowAndToposort gives every function one DependsOn edge per provider of each of its dependency types (predicate sentinels included), unconditionally"},
	{ID: "G20", Floor: 1, Props: []string{"C13", "C15"}, Text: "AST nodes constructed by the generator carry no source position (the expression printer hoists exactly the positioned, i.e. user-written, expressions)"},
	{ID: "G46", Floor: 20, Props: []string{"C13"}, Text: "every index into (or slice of) the argument list of a user call expression is in range for every argument count >= 1 the dominating tests admit: one multi-value call may stand for the whole argument list (`cff.Slice(f())` has one argument expression)"},
	{ID: "G21", Floor: 8, Props: []string{"C13"}, Text: "every index into a slice/tuple whose length is the arity of a user function is in range for every length the dominating tests admit (evaluated per hypothesis len == 0..6)"},
	{ID: "G23", Floor: 1, Props: []string{"C13"}, Text: "(*types.Package).Path/Name on Obj().Pkg() (nil for universe objects such as error) is dominated by a nil test"},
	{ID: "G24", Floor: 3, Props: []string{"C13", "C14"}, Text: "results of the compiler's may-return-nil constructors are nil-tested before any field access, also after being stored in a slice that is ranged over later"},
	{ID: "G18", Floor: 3, Props: []string{"C02", "C13", "C14", "C20"}, Text: "no Go map keyed by types.Type and no ==/!= between two go/types values (identical types are not pointer-equal); type/predicate ids are memoised through typeutil.Map"},
}

// Run executes all G-rules.
func Run(repo *load.Repo, s *report.Sink) error {
	c := newCtx(repo, s)
	if c.inter == nil {
		return fmt.Errorf("package internal not loaded")
	}
	s.SetFact("genlint.files", len(c.files))
	// every rule runs under its own recover: a construct one rule cannot digest leaves that rule undecided
	// (which fails the properties it supports) without silencing the others
	steps := []struct {
		rules []string
		run   func()
	}{
		{[]string{"G1"}, c.mapOrder},
		{[]string{"G2"}, c.entropy},
		{[]string{"G3"}, c.ambientState},
		{[]string{"G4", "G6"}, c.fileWrites},
		{[]string{"G5", "G9"}, c.compileGate},
		{[]string{"G7"}, c.guardedPreconditions},
		{[]string{"G8"}, c.assignability},
		{[]string{"G10"}, c.duplicates},
		{[]string{"G11"}, c.positioned},
		{[]string{"G12", "G13"}, c.prologue},
		{[]string{"G14"}, c.inversion},
		{[]string{"G15"}, c.sourceCopy},
		{[]string{"G16"}, c.modeFlag},
		{[]string{"G17"}, c.errorPlumbing},
		{[]string{"G18"}, c.typeKeyed},
		{[]string{"G19", "G20"}, c.dependsOn},
		{[]string{"G21"}, c.bounds},
		{[]string{"G23", "G24"}, c.nilSafety},
		{[]string{"G25"}, c.generatedNames},
		{[]string{"G26"}, c.cycleSearch},
		{[]string{"G27"}, c.sentinelFamilies},
		{[]string{"G28"}, c.memoKeys},
		{[]string{"G30"}, c.walkerCompleteness},
		{[]string{"G31"}, c.packageVisibility},
		{[]string{"G32"}, c.inputAccounting},
		{[]string{"G33"}, c.typeNameability},
		{[]string{"G34"}, c.nilContext},
		{[]string{"G35"}, c.synthesisedSyntax},
		{[]string{"G36"}, c.swallowedErrors},
		{[]string{"G37"}, c.rejections},
		{[]string{"G38"}, c.feasibility},
		{[]string{"G39"}, c.spellings},
		{[]string{"G40"}, c.usePosition},
		{[]string{"G41"}, c.generatorOrder},
		{[]string{"G42"}, c.optionDispatch},
		{[]string{"G43"}, c.syntaxMemo},
		{[]string{"G44"}, c.fileNames},
		{[]string{"G45"}, c.importNames},
		{[]string{"G46"}, c.argBounds},
		{[]string{"G29"}, c.structuralAssertions},
	}
	for _, st := range steps {
		func() {
			defer func() {
				if r := recover(); r != nil {
					if os.Getenv("CFFVERIF_TRACE") != "" {
						os.Stderr.Write(debug.Stack())
					}
					for _, id := range st.rules {
						s.Unk(id, "analyser", "", fmt.Sprintf("rule %s could not be evaluated on this code (analyser panic: %v)", id, r))
					}
				}
			}()
			st.run()
		}()
	}
	return nil
}

// onlyBufferErrors: fn is a function of the generator packages whose error result is, on every return, nil or a
// variable bound only to the error of a write into a bytes.Buffer / strings.Builder (which never fails).
func (c *ctx) onlyBufferErrors(fn *types.Func) bool {
	if fn == nil {
		return false
	}
	for _, fc := range c.files {
		info := fc.pkg.TypesInfo
		d := astx.DeclOfFunc(info, []*ast.File{fc.file}, fn)
		if d == nil || d.Body == nil {
			continue
		}
		isBufWrite := func(e ast.Expr) bool {
			call, ok := astx.Unparen(e).(*ast.CallExpr)
			if !ok {
				return false
			}
			se, ok := call.Fun.(*ast.SelectorExpr)
			if !ok || !strings.HasPrefix(se.Sel.Name, "Write") {
				return false
			}
			t := info.TypeOf(se.X)
			if t == nil {
				return false
			}
			switch t.String() {
			case "*bytes.Buffer", "bytes.Buffer", "*strings.Builder", "strings.Builder":
				return true
			}
			return false
		}
		// variables bound to errors: every binding must be a buffer write
		okVar := map[types.Object]bool{}
		badVar := map[types.Object]bool{}
		ast.Inspect(d.Body, func(n ast.Node) bool {
			as, ok := n.(*ast.AssignStmt)
			if !ok {
				return true
			}
			for i, l := range as.Lhs {
				o := astx.IdentObj(info, l)
				if o == nil || o.Type() == nil || o.Type().String() != "error" {
					continue
				}
				r := as.Rhs[0]
				if len(as.Rhs) == len(as.Lhs) {
					r = as.Rhs[i]
				}
				if isBufWrite(r) {
					okVar[o] = true
				} else {
					badVar[o] = true
				}
			}
			return true
		})
		good, rets := true, 0
		ast.Inspect(d.Body, func(n ast.Node) bool {
			if _, ok := n.(*ast.FuncLit); ok {
				return false
			}
			ret, ok := n.(*ast.ReturnStmt)
			if !ok || len(ret.Results) == 0 {
				return true
			}
			rets++
			last := ret.Results[len(ret.Results)-1]
			if astx.IsNil(info, last) {
				return true
			}
			if o := astx.IdentObj(info, last); o != nil && okVar[o] && !badVar[o] {
				return true
			}
			if isBufWrite(last) {
				return true
			}
			good = false
			return true
		})
		return good && rets > 0
	}
	return false
}
