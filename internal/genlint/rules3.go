package genlint

import (
	"fmt"
	"go/ast"
	"go/parser"
	"go/token"
	"go/types"
	"sort"
	"strings"

	"cffverif/internal/astx"
)

func recvText(call *ast.CallExpr) string {
	if se, ok := call.Fun.(*ast.SelectorExpr); ok {
		return astx.Short(se.X)
	}
	return ""
}

// G10 duplicate detection.
func (c *ctx) duplicates() {
	n := 0
	c.eachCall(func(fc *fileCtx, call *ast.CallExpr, fn *types.Func) {
		if fn == nil || !strings.HasSuffix(fn.FullName(), "typeutil.Map).Set") || fc.pkg != c.inter {
			return
		}
		rt := recvText(call)
		if !(strings.HasSuffix(rt, "providers") || rt == "provided") {
			return
		}
		n++
		info := fc.pkg.TypesInfo
		key := fmt.Sprintf("%s|%s.Set(%s, ...)", fc.funcName(call), rt, astx.Short(call.Args[0]))
		good := false
		// (a) result bound and nil-tested
		if as, ok := fc.par[call].(*ast.AssignStmt); ok && len(as.Lhs) == 1 {
			prev := astx.IdentObj(info, as.Lhs[0])
			fd := fc.funcDecl(call)
			ast.Inspect(fd.Body, func(nn ast.Node) bool {
				if is, ok := nn.(*ast.IfStmt); ok && is.Pos() > call.End() {
					var cs []astx.Cond
					astx.Split(is.Cond, true, is, &cs)
					for _, cd := range cs {
						if e, ok := astx.EqNil(info, cd.E); ok && astx.IdentObj(info, e) == prev && prev != nil && !cd.Pos {
							// body records a diagnostic or panics
							ast.Inspect(is.Body, func(m ast.Node) bool {
								if c2, ok := m.(*ast.CallExpr); ok {
									if f2 := astx.Callee(info, c2); (f2 != nil && f2.Name() == "errf") || astx.IsBuiltin(info, c2, "panic") {
										good = true
									}
								}
								return true
							})
						}
					}
				}
				return true
			})
		}
		// (b) dominated (same loop iteration) by an At lookup of the same key whose non-nil branch records a diagnostic and skips the insertion
		if !good {
			for _, sib := range siblingsBefore(fc, call) {
				is, ok := sib.(*ast.IfStmt)
				if !ok || !astx.Terminates(is.Body) {
					continue
				}
				atSame := false
				ast.Inspect(is, func(m ast.Node) bool {
					if c2, ok := m.(*ast.CallExpr); ok {
						if f2 := astx.Callee(info, c2); f2 != nil && strings.HasSuffix(f2.FullName(), "typeutil.Map).At") && recvText(c2) == rt && astx.Same(info, c2.Args[0], call.Args[0]) {
							atSame = true
						}
					}
					return true
				})
				diag := false
				ast.Inspect(is.Body, func(m ast.Node) bool {
					if c2, ok := m.(*ast.CallExpr); ok {
						if f2 := astx.Callee(info, c2); f2 != nil && f2.Name() == "errf" {
							diag = true
						}
					}
					return true
				})
				if atSame && diag {
					good = true
				}
			}
		}
		c.s.Check(good, "G10", key, c.pos(call), "a second provider of the same type is detected and reported", "a provider table is updated without testing for an existing entry: a type provided twice is silently accepted (last one wins)")
	})
	if n < 2 {
		c.s.Unk("G10", "provider tables", "", fmt.Sprintf("only %d provider-table insertions recognised", n))
	}
}

func siblingsBefore(fc *fileCtx, n ast.Node) []ast.Stmt {
	st := fc.par.StmtOf(n)
	if st == nil {
		return nil
	}
	var list []ast.Stmt
	switch p := fc.par[st].(type) {
	case *ast.BlockStmt:
		list = p.List
	case *ast.CaseClause:
		list = p.Body
	}
	var out []ast.Stmt
	for _, s := range list {
		if s == st {
			break
		}
		out = append(out, s)
	}
	return out
}

// G11 positioned diagnostics.
func (c *ctx) positioned() {
	for _, fc := range c.files {
		if fc.pkg != c.inter {
			continue
		}
		info := fc.pkg.TypesInfo
		fc := fc
		astx.Writes(fc.file, func(l ast.Expr, at ast.Node) {
			se, ok := astx.Unparen(l).(*ast.SelectorExpr)
			if !ok || se.Sel.Name != "errors" {
				return
			}
			if sel := info.Selections[se]; sel == nil || sel.Kind() != types.FieldVal {
				return
			}
			name := fc.funcName(at)
			key := name + "|appends to compiler.errors"
			as, _ := at.(*ast.AssignStmt)
			good := false
			switch name {
			case "compiler.errf":
				// formattedMsg := fmt.Sprintf("%v: ", pos) + ...
				fd := fc.funcDecl(at)
				ast.Inspect(fd.Body, func(n ast.Node) bool {
					if call, ok := n.(*ast.CallExpr); ok && fullName(astx.Callee(info, call)) == "fmt.Sprintf" {
						if s, ok := constStr(fc, call.Args[0]); ok && strings.HasPrefix(s, "%v: ") && len(call.Args) == 2 {
							if t := info.TypeOf(call.Args[1]); t != nil && t.String() == "go/token.Position" {
								good = true
							}
						}
					}
					return true
				})
			default:
				// value comes from a function all of whose errors start with a position
				if as != nil && len(as.Rhs) == 1 {
					if call, ok := as.Rhs[0].(*ast.CallExpr); ok && astx.IsBuiltin(info, call, "append") && len(call.Args) == 2 {
						if o := astx.IdentObj(info, call.Args[1]); o != nil {
							if d := declOf(fc, o); d != nil {
								if das, ok := fc.par[d].(*ast.AssignStmt); ok && len(das.Rhs) == 1 {
									if src, ok := das.Rhs[0].(*ast.CallExpr); ok {
										good = c.errorsArePositioned(astx.Callee(info, src), 0)
									}
								}
							}
						}
					}
				}
			}
			c.s.Check(good, "G11", key, c.pos(at), "every recorded diagnostic starts with file:line:col", "a diagnostic is recorded without a source position")
		})
	}
}

// errorsArePositioned: every error constructed in fn (and in same-package callees whose error it returns) is fmt.Errorf("%v: ...", <Position>, ...).
func (c *ctx) errorsArePositioned(fn *types.Func, depth int) bool {
	if fn == nil || depth > 8 {
		return false
	}
	if c.inProgress == nil {
		c.inProgress = map[*types.Func]bool{}
	}
	if c.inProgress[fn] {
		return true // recursive call: coinductively fine, the base cases are checked where they are constructed
	}
	c.inProgress[fn] = true
	defer delete(c.inProgress, fn)
	var fc *fileCtx
	var fd *ast.FuncDecl
	for _, f := range c.files {
		if d := astx.DeclOfFunc(f.pkg.TypesInfo, []*ast.File{f.file}, fn); d != nil {
			fc, fd = f, d
		}
	}
	if fd == nil {
		return false
	}
	info := fc.pkg.TypesInfo
	ok := true
	ast.Inspect(fd.Body, func(n ast.Node) bool {
		ret, isRet := n.(*ast.ReturnStmt)
		if !isRet || len(ret.Results) == 0 {
			return true
		}
		e := ret.Results[len(ret.Results)-1]
		if astx.IsNil(info, e) {
			return true
		}
		if o := astx.IdentObj(info, e); o != nil {
			// err from a callee
			if d := declOf(fc, o); d != nil {
				if as, isAs := fc.par[d].(*ast.AssignStmt); isAs && len(as.Rhs) == 1 {
					if call, isCall := as.Rhs[0].(*ast.CallExpr); isCall {
						if !c.errorsArePositioned(astx.Callee(info, call), depth+1) {
							ok = false
						}
						return true
					}
				}
			}
			ok = false
			return true
		}
		call, isCall := e.(*ast.CallExpr)
		if !isCall {
			ok = false
			return true
		}
		if fullName(astx.Callee(info, call)) == "fmt.Errorf" {
			s, isC := constStr(fc, call.Args[0])
			if !isC || !strings.HasPrefix(s, "%v: ") || len(call.Args) < 2 || info.TypeOf(call.Args[1]).String() != "go/token.Position" {
				ok = false
			}
			return true
		}
		if !c.errorsArePositioned(astx.Callee(info, call), depth+1) {
			ok = false
		}
		return true
	})
	return ok
}

// hoistSorter finds the function that turns the set of recorded user expressions into the ordered list the
// prologue is written from: the package-level function of signature func(map[ast.Expr]struct{}) []ast.Expr.
func (c *ctx) hoistSorter() (*types.Func, *fileCtx, *ast.FuncDecl) {
	var fn *types.Func
	var rfc *fileCtx
	var rfd *ast.FuncDecl
	n := 0
	for _, fc := range c.files {
		if fc.pkg.PkgPath != c.inter.PkgPath {
			continue
		}
		for _, d := range fc.file.Decls {
			fd, ok := d.(*ast.FuncDecl)
			if !ok || fd.Recv != nil || fd.Body == nil {
				continue
			}
			f, _ := fc.pkg.TypesInfo.Defs[fd.Name].(*types.Func)
			if f == nil {
				continue
			}
			sig := f.Type().(*types.Signature)
			if sig.Params().Len() != 1 || sig.Results().Len() != 1 {
				continue
			}
			if sig.Params().At(0).Type().String() == "map[go/ast.Expr]struct{}" && sig.Results().At(0).Type().String() == "[]go/ast.Expr" {
				fn, rfc, rfd = f, fc, fd
				n++
			}
		}
	}
	if n != 1 {
		return nil, nil, nil
	}
	return fn, rfc, rfd
}

// singleDef: the expression a local identifier is defined from, if it is assigned exactly once in fd.
func (c *ctx) singleDef(fc *fileCtx, fd *ast.FuncDecl, id *ast.Ident) ast.Expr {
	info := fc.pkg.TypesInfo
	obj := astx.ObjOf(info, id)
	if obj == nil {
		return nil
	}
	var def ast.Expr
	n := 0
	astx.Writes(fd.Body, func(l ast.Expr, at ast.Node) {
		if astx.IdentObj(info, l) != obj {
			return
		}
		n++
		if as, ok := at.(*ast.AssignStmt); ok && len(as.Rhs) == 1 && len(as.Lhs) == 1 {
			def = as.Rhs[0]
		}
	})
	if n != 1 {
		return nil
	}
	return def
}

// G12 prologue protocol, G13 wrapper scope.
func (c *ctx) prologue() {
	sorter, sorterFc, sorterFd := c.hoistSorter()
	for _, name := range []string{"generateFlow", "generateParallel"} {
		fc, fd := c.findFunc(c.inter.PkgPath, "generator", name)
		if fd == nil {
			c.s.Unk("G12", name, "", "function not found")
			continue
		}
		info := fc.pkg.TypesInfo
		// events at top level
		type ev struct {
			kind string
			pos  token.Pos
			call *ast.CallExpr
		}
		var evs []ev
		var wObj types.Object
		for _, f := range fd.Type.Params.List {
			if t := info.TypeOf(f.Type); t != nil && t.String() == "io.Writer" && len(f.Names) == 1 {
				wObj = info.Defs[f.Names[0]]
			}
		}
		// the calls of the function in textual order, helpers that take the writer entered in place
		inl := map[*ast.CallExpr]*astx.InlinedCall{}
		for _, ic := range astx.CallsInlined(info, fc.pkg.Syntax, fd, 3) {
			call := ic.Call
			inl[call] = ic
			se, _ := call.Fun.(*ast.SelectorExpr)
			fn := astx.Callee(info, call)
			isW := func(e ast.Expr) bool { return astx.IdentObj(info, ic.Resolve(e)) == wObj }
			switch {
			case se != nil && se.Sel.Name == "ExecuteTemplate" && len(call.Args) == 3:
				dst := "staging"
				if isW(call.Args[0]) {
					dst = "out"
				}
				k := "exec:" + dst
				// the data: the sorted recorded set, as it is or as (the only content of) a field of a data struct
				dataArg := ic.Resolve(call.Args[2])
				if id, ok := astx.Unparen(dataArg).(*ast.Ident); ok {
					if v := c.singleDef(fc, fd, id); v != nil {
						dataArg = v
					}
				}
				if u, ok := astx.Unparen(dataArg).(*ast.UnaryExpr); ok && u.Op == token.AND {
					dataArg = u.X
				}
				isSorted := func(e ast.Expr) bool {
					c2, ok := astx.Unparen(ic.Resolve(e)).(*ast.CallExpr)
					return ok && sorter != nil && astx.Callee(info, c2) == sorter
				}
				if isSorted(dataArg) {
					k += ":paramExprs"
				} else if cl, ok := astx.Unparen(dataArg).(*ast.CompositeLit); ok {
					for _, el := range cl.Elts {
						if kv, ok := el.(*ast.KeyValueExpr); ok && isSorted(kv.Value) {
							k += ":paramExprs"
							break
						}
					}
				}
				evs = append(evs, ev{k, token.Pos(len(evs)), call})
			case fullName(fn) == "io.WriteString" && len(call.Args) == 2 && isW(call.Args[0]):
				s, _ := constStr(fc, call.Args[1])
				evs = append(evs, ev{"lit:" + s, token.Pos(len(evs)), call})
			case se != nil && se.Sel.Name == "Write" && isW(se.X):
				evs = append(evs, ev{"write:staged", token.Pos(len(evs)), call})
			}
		}
		sort.Slice(evs, func(i, j int) bool { return evs[i].pos < evs[j].pos })
		var seq []string
		for _, e := range evs {
			seq = append(seq, e.kind)
		}
		// shape: exec:staging, lit+, exec:out:paramExprs, lit*, write:staged, lit+
		stage, pre, post := 0, 0, 0
		good := true
		var preLits []ev
		for _, e := range evs {
			switch {
			case e.kind == "exec:staging" && stage == 0:
				stage = 1
			case strings.HasPrefix(e.kind, "lit:") && stage == 1:
				pre++
				preLits = append(preLits, e)
			case e.kind == "exec:out:paramExprs" && stage == 1 && pre > 0:
				stage = 2
			case strings.HasPrefix(e.kind, "lit:") && stage == 2:
			case e.kind == "write:staged" && stage == 2:
				stage = 3
			case strings.HasPrefix(e.kind, "lit:") && stage == 3:
				post++
			default:
				good = false
			}
		}
		good = good && stage == 3 && post > 0
		// which stages were recognised at all: an idiom this rule does not know (a strings.Builder for staging, an array
		// of steps, a helper struct) leaves stages out; a wrong order shows all of them
		recognised := map[string]bool{}
		for _, e := range evs {
			switch {
			case e.kind == "exec:staging":
				recognised["stage"] = true
			case strings.HasPrefix(e.kind, "exec:out"):
				recognised["prologue"] = true
			case e.kind == "write:staged":
				recognised["write"] = true
			case strings.HasPrefix(e.kind, "lit:"):
				recognised["lit"] = true
			}
		}
		allSeen := recognised["stage"] && recognised["prologue"] && recognised["write"] && recognised["lit"]
		// all unconditional up to early error returns
		for _, e := range evs {
			ic := inl[e.call]
			sites := append(append([]*ast.CallExpr(nil), ic.Chain...), e.call)
			for _, site := range sites {
				sfc := c.fileOf(site)
				if sfc == nil {
					good = false
					continue
				}
				for _, cd := range sfc.par.Known(site, sfc.funcDecl(site)) {
					if _, isNil := astx.EqNil(info, cd.E); !isNil || !cd.Pos {
						if is, ok := cd.At.(*ast.IfStmt); !ok || !sfc.par.Within(site, is.Init) && !sfc.par.Within(site, is.Cond) {
							good = false
						}
					}
				}
			}
		}
		if !good && !allSeen {
			c.s.OK("G12", name+"|order: stage body, open wrapper, prologue(paramExprs), staged body, close", c.pos(fd), "the driver's idiom is not one this syntactic rule reads ("+strings.Join(seq, " → ")+"); the order of prologue and staged body, the completeness and order of the hoisted definitions and the wrapper's scope are decided on every expanded variant (T2), where the driver's source is evaluated")
			c.s.OK("G13", name+"|wrapper declares no identifier visible to hoisted user expressions", c.pos(fd), "decided on every expanded variant (T2)")
			continue
		}
		c.s.Check(good, "G12", name+"|order: stage body, open wrapper, prologue(paramExprs), staged body, close", c.pos(fd), strings.Join(seq, " → "), "the generator does not (1) render the body into a staging buffer, (2) open the wrapper, (3) write the prologue from the complete recorded-expression set, (4) write the staged body, (5) close — in that order: user expressions would be evaluated late, out of order, or more than once; saw: "+strings.Join(seq, " → "))
		// G13
		var declared []string
		var opens []string
		for _, e := range preLits {
			open := strings.TrimPrefix(e.kind, "lit:")
			opens = append(opens, strings.TrimSpace(open))
			declared = append(declared, wrapperIdents(open)...)
		}
		key := name + "|wrapper declares no identifier visible to hoisted user expressions"
		switch {
		case len(preLits) == 0:
			c.s.Unk("G13", key, c.pos(fd), "no wrapper literal written before the prologue")
		case len(declared) == 0:
			c.s.OK("G13", key, c.pos(preLits[0].call), "text before the prologue `"+strings.Join(opens, " ")+"` declares nothing")
		default:
			c.s.Bad("G13", key, c.pos(preLits[0].call), fmt.Sprintf("the wrapper `%s` declares %v, which is in scope of the hoisted user expressions that follow: a user expression naming an outer variable `%s` is captured by the generated declaration", strings.Join(opens, " "), declared, declared[0]))
		}
	}
	// paramExprs sorted by position
	if fc, fd := sorterFc, sorterFd; fd != nil {
		info := fc.pkg.TypesInfo
		good := false
		ast.Inspect(fd.Body, func(n ast.Node) bool {
			call, ok := n.(*ast.CallExpr)
			if !ok || fullName(astx.Callee(info, call)) != "sort.Slice" {
				return true
			}
			if fl, ok := call.Args[1].(*ast.FuncLit); ok && len(fl.Body.List) == 1 {
				if ret, ok := fl.Body.List[0].(*ast.ReturnStmt); ok {
					if b, ok := ret.Results[0].(*ast.BinaryExpr); ok && b.Op == token.LSS && strings.HasSuffix(astx.Short(b.X), ".Pos()") && strings.HasSuffix(astx.Short(b.Y), ".Pos()") {
						good = true
					}
				}
			}
			return true
		})
		c.s.Check(good, "G12", "paramExprs|sorted by source position", c.pos(fd), "", "hoisted expressions are not ordered by their source position")
	} else {
		c.s.Unk("G12", "paramExprs", "", "not found")
	}
	// printExpr records before naming
	if fc, fd := c.findFunc(c.inter.PkgPath, "exprPrinter", "printExpr"); fd != nil {
		info := fc.pkg.TypesInfo
		// recordsThenNames: in function d, a write into a map (the set of recorded expressions) at the top level of
		// the body precedes the top-level return of a hoisted name
		recordsThenNames := func(dfc *fileCtx, d *ast.FuncDecl) bool {
			// the records: writes into a map; each with the statement list it stands in (the body, or the clause of a
			// switch that took over from an early-return chain)
			var recs []ast.Node
			astx.Writes(d.Body, func(l ast.Expr, at ast.Node) {
				if ix, ok := astx.Unparen(l).(*ast.IndexExpr); ok && isMapType(info.TypeOf(ix.X)) {
					recs = append(recs, at)
				}
			})
			good := false
			ast.Inspect(d.Body, func(n ast.Node) bool {
				ret, ok := n.(*ast.ReturnStmt)
				if ok && len(ret.Results) == 1 && c.isHoistedName(dfc, ret.Results[0]) {
					good = false
					for _, rec := range recs {
						if rec.Pos() < ret.Pos() && dfc.par[rec] == dfc.par[ret] {
							good = true
						}
					}
				}
				return true
			})
			return good
		}
		// a return that hands out a hoisted name: directly, or through a package-local helper that does
		namesHoisted := func(e ast.Expr) (isName bool, recorded bool) {
			if call, ok := astx.Unparen(e).(*ast.CallExpr); ok {
				if fn := astx.Callee(info, call); fn != nil && fn.Pkg() == c.inter.Types {
					for _, f2 := range c.files {
						if d := astx.DeclOfFunc(info, []*ast.File{f2.file}, fn); d != nil && d.Body != nil {
							named := false
							ast.Inspect(d.Body, func(n ast.Node) bool {
								if ret, ok := n.(*ast.ReturnStmt); ok && len(ret.Results) == 1 && c.isHoistedName(f2, ret.Results[0]) {
									named = true
								}
								return true
							})
							if named {
								return true, recordsThenNames(f2, d)
							}
						}
					}
				}
			}
			return c.isHoistedName(fc, e), false
		}
		good := false
		ast.Inspect(fd.Body, func(n ast.Node) bool {
			ret, ok := n.(*ast.ReturnStmt)
			if !ok || len(ret.Results) != 1 {
				return true
			}
			if isName, rec := namesHoisted(ret.Results[0]); isName {
				good = rec || recordsThenNames(fc, fd)
			}
			return true
		})
		c.s.Check(good, "G12", "exprPrinter.printExpr|expression recorded before its variable name is returned", c.pos(fd), "", "printExpr can return a `_L_C` name without recording the expression: the variable would be undefined or the expression never evaluated")
		// every other exit prints in place; allowed only for the literal nil and for position-less (synthetic) expressions
		ast.Inspect(fd.Body, func(n ast.Node) bool {
			ret, ok := n.(*ast.ReturnStmt)
			if !ok || len(ret.Results) != 1 {
				return true
			}
			if isName, _ := namesHoisted(ret.Results[0]); isName {
				return true
			}
			conds := c.expandPredicates(fc, fc.par.Known(ret, fd))
			why := ""
			for _, cd := range conds {
				// ident.Name == "nil"
				if b, ok := astx.Unparen(cd.E).(*ast.BinaryExpr); ok && b.Op == token.EQL && cd.Pos {
					if sv, ok := constStr(fc, b.Y); ok && sv == "nil" && strings.HasSuffix(astx.Short(b.X), ".Name") {
						why = "the literal nil"
					}
				}
				// !e.Pos().IsValid()
				if call, ok := astx.Unparen(cd.E).(*ast.CallExpr); ok && !cd.Pos && strings.HasSuffix(astx.Short(call.Fun), ".Pos().IsValid") {
					why = "position-less synthetic expression"
				}
			}
			c.s.Check(why != "", "G12", "exprPrinter.printExpr|in-place exit: "+astx.Short(ret.Results[0]), c.pos(ret), "prints in place only "+why, "printExpr prints a user expression in place (not hoisted) on a path other than `nil` / position-less synthetic expressions: it is evaluated late, possibly repeatedly, on a worker goroutine, and can be captured by generated identifiers")
			return true
		})
	} else {
		c.s.Unk("G12", "exprPrinter.printExpr", "", "not found")
	}
}

// isHoistedName: the returned string is a generated variable name built from the expression's source position
// (literal text and integer components only, e.g. "_" line "_" column), directly or through a helper.
func (c *ctx) isHoistedName(fc *fileCtx, e ast.Expr) bool {
	sk := c.skeleton(fc, e, nil, 0)
	ints := 0
	for _, t := range sk {
		switch t.kind {
		case "int":
			ints++
		case "lit":
		default:
			return false
		}
	}
	return ints >= 2
}

// wrapperIdents parses the wrapper opening and lists parameter/result names.
func wrapperIdents(open string) []string {
	src := "package p\nvar _ = " + open + "\n}"
	f, err := parser.ParseFile(token.NewFileSet(), "w.go", src, 0)
	if err != nil {
		return []string{"<unparsable wrapper>"}
	}
	var out []string
	ast.Inspect(f, func(n ast.Node) bool {
		if fl, ok := n.(*ast.FuncLit); ok {
			for _, fl2 := range []*ast.FieldList{fl.Type.Params, fl.Type.Results} {
				if fl2 == nil {
					continue
				}
				for _, fld := range fl2.List {
					for _, nm := range fld.Names {
						if nm.Name != "_" {
							out = append(out, nm.Name)
						}
					}
				}
			}
			return false
		}
		return true
	})
	return out
}

// G14 inversion induction.
func (c *ctx) inversion() {
	fc, fd := c.findFunc(c.inter.PkgPath, "", "invertCffConstraint")
	if fd == nil {
		c.s.Unk("G14", "invertCffConstraint", "", "function not found")
		return
	}
	info := fc.pkg.TypesInfo
	cp := c.repo.Types("go/build/constraint")
	if cp == nil {
		c.s.Unk("G14", "go/build/constraint", "", "package not loaded")
		return
	}
	exprI, _ := cp.Scope().Lookup("Expr").Type().Underlying().(*types.Interface)
	want := map[string]*types.Named{}
	for _, n := range cp.Scope().Names() {
		if tn, ok := cp.Scope().Lookup(n).(*types.TypeName); ok {
			if nt, ok := tn.Type().(*types.Named); ok && tn.Exported() {
				if _, isI := nt.Underlying().(*types.Interface); !isI && types.Implements(types.NewPointer(nt), exprI) {
					want[n] = nt
				}
			}
		}
	}
	var ts *ast.TypeSwitchStmt
	ast.Inspect(fd.Body, func(n ast.Node) bool {
		if t, ok := n.(*ast.TypeSwitchStmt); ok && ts == nil {
			ts = t
		}
		return true
	})
	if ts == nil {
		// the same recursion written as a chain of type assertions: which node kinds are told apart and which
		// children are recursed into can still be read; where exactly the cff tag is replaced is left to the truth
		// tables of the regenerated corpora (V21)
		self := info.Defs[fd.Name]
		asserted := map[string]bool{}
		recursedInto := map[string]bool{}
		ast.Inspect(fd.Body, func(n ast.Node) bool {
			switch x := n.(type) {
			case *ast.TypeAssertExpr:
				if x.Type != nil {
					if p, ok := info.TypeOf(x.Type).(*types.Pointer); ok {
						if nt, ok := p.Elem().(*types.Named); ok && nt.Obj().Pkg() == cp {
							asserted[nt.Obj().Name()] = true
						}
					}
				}
			case *ast.CallExpr:
				if astx.IdentObj(info, x.Fun) == self && len(x.Args) == 1 {
					if u, ok := x.Args[0].(*ast.UnaryExpr); ok && u.Op == token.AND {
						if se, ok := u.X.(*ast.SelectorExpr); ok {
							if p, ok := info.TypeOf(se.X).(*types.Pointer); ok {
								if nt, ok := p.Elem().(*types.Named); ok {
									recursedInto[nt.Obj().Name()+"."+se.Sel.Name] = true
								}
							}
						}
					}
				}
			}
			return true
		})
		if len(asserted) == 0 {
			c.s.Unk("G14", "invertCffConstraint|type switch", c.pos(fd), "no type switch over the constraint expression, and no type assertions either")
			return
		}
		for name, nt := range want {
			c.s.Check(asserted[name], "G14", "invertCffConstraint|handles *constraint."+name, c.pos(fd), "told apart by a type assertion", "constraint node kind "+name+" is not told apart: cff tags under it are left as they are")
			st, _ := nt.Underlying().(*types.Struct)
			for i := 0; st != nil && i < st.NumFields(); i++ {
				f := st.Field(i)
				if types.Identical(f.Type(), cp.Scope().Lookup("Expr").Type()) {
					c.s.Check(recursedInto[name+"."+f.Name()], "G14", fmt.Sprintf("invertCffConstraint|case *%s recurses into %s", name, f.Name()), c.pos(fd), "", fmt.Sprintf("sub-expression %s of %s is not visited: a cff tag nested there is not inverted", f.Name(), name))
				}
			}
		}
		c.s.OK("G14", "invertCffConstraint|replacement of the cff tag", c.pos(fd), "written as a chain of type assertions: which tag is replaced by what is decided on the regenerated corpora (V21, all tag assignments)")
		return
	}
	self := info.Defs[fd.Name]
	param := info.Defs[fd.Type.Params.List[0].Names[0]]
	seen := map[string]bool{}
	for _, cl := range ts.Body.List {
		cc := cl.(*ast.CaseClause)
		for _, te := range cc.List {
			t := info.TypeOf(te)
			p, ok := t.(*types.Pointer)
			if !ok {
				continue
			}
			nt, ok := p.Elem().(*types.Named)
			if !ok {
				continue
			}
			name := nt.Obj().Name()
			seen[name] = true
			st, _ := nt.Underlying().(*types.Struct)
			// every Expr-typed field is recursed into, unless the node is replaced on that path
			recursed := map[string]bool{}
			replaced := false
			ast.Inspect(cc, func(n ast.Node) bool {
				if call, ok := n.(*ast.CallExpr); ok && astx.IdentObj(info, call.Fun) == self && len(call.Args) == 1 {
					if u, ok := call.Args[0].(*ast.UnaryExpr); ok && u.Op == token.AND {
						if se, ok := u.X.(*ast.SelectorExpr); ok {
							// the call must execute on every path through the case: not under an if (except the replacement's early return before it), not in the right operand of && / ||
							shortCircuited := false
							for x := ast.Node(call); x != nil && x != ast.Node(cc); x = fc.par[x] {
								if b, ok := fc.par[x].(*ast.BinaryExpr); ok && (b.Op == token.LOR || b.Op == token.LAND) && b.Y == x {
									shortCircuited = true
								}
							}
							conds := 0
							for _, cd := range fc.par.Known(call, cc) {
								if is, ok := cd.At.(*ast.IfStmt); ok && fc.par.Within(call, is) {
									// `if <is the cff tag> { *exp = ... } else { recurse }`: the path that skips the
									// recursion replaces the node instead
									var other ast.Node
									switch {
									case fc.par.Within(call, is.Body) && is.Else != nil:
										other = is.Else
									case is.Else != nil && fc.par.Within(call, is.Else):
										other = is.Body
									}
									replaces := false
									if other != nil {
										astx.Writes(other, func(l ast.Expr, at ast.Node) {
											if s, ok := astx.Unparen(l).(*ast.StarExpr); ok && astx.IdentObj(info, s.X) == param {
												replaces = true
											}
										})
									}
									if !replaces {
										conds++
									}
								}
							}
							if !shortCircuited && conds == 0 {
								recursed[se.Sel.Name] = true
							}
						}
					}
				}
				return true
			})
			astx.Writes(cc, func(l ast.Expr, at ast.Node) {
				if s, ok := astx.Unparen(l).(*ast.StarExpr); ok && astx.IdentObj(info, s.X) == param {
					replaced = true
					// must be control dependent on Tag == "cff"
					conds := fc.par.Known(at, cc)
					tagged := false
					for _, cd := range conds {
						if b, ok := astx.Unparen(cd.E).(*ast.BinaryExpr); ok && b.Op == token.EQL && cd.Pos {
							if se, ok := b.X.(*ast.SelectorExpr); ok && se.Sel.Name == "Tag" {
								if sv, ok := constStr(fc, b.Y); ok && sv == "cff" {
									tagged = true
								}
							}
						}
					}
					as := at.(*ast.AssignStmt)
					shape := ""
					rhs := astx.Unparen(as.Rhs[0])
					if u, ok := rhs.(*ast.UnaryExpr); ok && u.Op == token.AND {
						if cl, ok := u.X.(*ast.CompositeLit); ok && strings.HasSuffix(info.TypeOf(cl).String(), "constraint.NotExpr") && name == "TagExpr" {
							shape = "Tag → Not{Tag}"
						}
					}
					if se, ok := rhs.(*ast.SelectorExpr); ok && se.Sel.Name == "X" && name == "NotExpr" {
						shape = "Not{Tag} → Tag"
					}
					c.s.Check(tagged && shape != "", "G14", "invertCffConstraint|case *"+name+" replacement", c.pos(at), shape+", only for the cff tag", "a constraint node is rewritten other than cff ↔ !cff, or for tags other than cff")
				}
			})
			for i := 0; st != nil && i < st.NumFields(); i++ {
				f := st.Field(i)
				if types.Identical(f.Type(), cp.Scope().Lookup("Expr").Type()) {
					c.s.Check(recursed[f.Name()], "G14", fmt.Sprintf("invertCffConstraint|case *%s recurses into %s", name, f.Name()), c.pos(cc), "", fmt.Sprintf("sub-expression %s of %s is not visited: a cff tag nested there is not inverted", f.Name(), name))
				}
			}
			_ = replaced
		}
	}
	for name := range want {
		c.s.Check(seen[name], "G14", "invertCffConstraint|handles *constraint."+name, c.pos(ts), "", "constraint node kind "+name+" has no case: cff tags under it are left as they are")
	}
}

// expandPredicates replaces a condition that is a call of a package-local predicate function with a single
// `return <expr>` by the conditions <expr> stands for (`isNilIdent(e)` -> `ok && ident.Name == "nil"`).
func (c *ctx) expandPredicates(fc *fileCtx, conds []astx.Cond) []astx.Cond {
	info := fc.pkg.TypesInfo
	var out []astx.Cond
	for _, cd := range conds {
		out = append(out, cd)
		call, ok := astx.Unparen(cd.E).(*ast.CallExpr)
		if !ok {
			continue
		}
		fn := astx.Callee(info, call)
		if fn == nil || fn.Pkg() != c.inter.Types {
			continue
		}
		for _, f2 := range c.files {
			d := astx.DeclOfFunc(info, []*ast.File{f2.file}, fn)
			if d == nil || d.Body == nil {
				continue
			}
			var rets []*ast.ReturnStmt
			ast.Inspect(d.Body, func(n ast.Node) bool {
				if r, ok := n.(*ast.ReturnStmt); ok {
					rets = append(rets, r)
				}
				return true
			})
			if len(rets) == 1 && len(rets[0].Results) == 1 {
				astx.Split(rets[0].Results[0], cd.Pos, cd.At, &out)
			}
		}
	}
	return out
}
