package genlint

import (
	"fmt"
	"go/ast"
	"go/constant"
	"go/token"
	"go/types"
	"strings"

	"cffverif/internal/astx"
)

// G25: names that modifier mode declares at package scope are an injective function of the source
// position they are derived from. The name is evaluated abstractly into a skeleton of literal text,
// string components and integer components; an integer component (line, column) must be preceded by
// a literal separator that is not a digit - otherwise the digits of a file name (batch1.go) run into
// the line number and two directives of one package get the same function name (the generated package
// does not compile).
type skTok struct {
	kind string // "lit", "str", "int", "?"
	text string
}

func (c *ctx) skeleton(fc *fileCtx, e ast.Expr, bind map[types.Object][]skTok, depth int) []skTok {
	info := fc.pkg.TypesInfo
	e = astx.Unparen(e)
	if depth > 6 {
		return []skTok{{kind: "?"}}
	}
	if tv, ok := info.Types[e]; ok && tv.Value != nil && tv.Value.Kind() == constant.String {
		return []skTok{{kind: "lit", text: constant.StringVal(tv.Value)}}
	}
	switch x := e.(type) {
	case *ast.BinaryExpr:
		if x.Op == token.ADD {
			return append(c.skeleton(fc, x.X, bind, depth+1), c.skeleton(fc, x.Y, bind, depth+1)...)
		}
	case *ast.Ident:
		if o := info.Uses[x]; o != nil {
			if b, ok := bind[o]; ok {
				return b
			}
		}
	case *ast.CallExpr:
		fn := astx.Callee(info, x)
		if fn != nil && fn.FullName() == "fmt.Sprintf" && len(x.Args) >= 1 {
			if tv, ok := info.Types[x.Args[0]]; ok && tv.Value != nil && tv.Value.Kind() == constant.String {
				return c.formatSkeleton(fc, constant.StringVal(tv.Value), x.Args[1:], bind, depth)
			}
			return []skTok{{kind: "?"}}
		}
		if fn != nil && (fn.FullName() == "strconv.Itoa" || fn.FullName() == "strconv.FormatInt") {
			return []skTok{{kind: "int"}}
		}
		// a function of the generator returning a string: inline its single return expression
		if fn != nil {
			for _, f2 := range c.files {
				d := astx.DeclOfFunc(f2.pkg.TypesInfo, []*ast.File{f2.file}, fn)
				if d == nil || d.Body == nil {
					continue
				}
				var rets []*ast.ReturnStmt
				ast.Inspect(d.Body, func(n ast.Node) bool {
					if _, ok := n.(*ast.FuncLit); ok {
						return false
					}
					if r, ok := n.(*ast.ReturnStmt); ok {
						rets = append(rets, r)
					}
					return true
				})
				if len(rets) != 1 || len(rets[0].Results) != 1 {
					break
				}
				// bind parameters to the skeletons of the arguments
				nb := map[types.Object][]skTok{}
				k := 0
				for _, fl := range d.Type.Params.List {
					for _, n := range fl.Names {
						if k < len(x.Args) {
							nb[f2.pkg.TypesInfo.Defs[n]] = c.skeleton(fc, x.Args[k], bind, depth+1)
						}
						k++
					}
				}
				// local single assignments `pos := ...` are followed through types only
				return c.skeleton(f2, rets[0].Results[0], nb, depth+1)
			}
		}
	}
	// by type
	if t := info.TypeOf(e); t != nil {
		if b, ok := t.Underlying().(*types.Basic); ok {
			switch {
			case b.Info()&types.IsInteger != 0:
				return []skTok{{kind: "int"}}
			case b.Info()&types.IsString != 0:
				return []skTok{{kind: "str"}}
			}
		}
	}
	return []skTok{{kind: "?"}}
}

func (c *ctx) formatSkeleton(fc *fileCtx, format string, args []ast.Expr, bind map[types.Object][]skTok, depth int) []skTok {
	var out []skTok
	lit := ""
	ai := 0
	for i := 0; i < len(format); i++ {
		if format[i] != '%' {
			lit += string(format[i])
			continue
		}
		if i+1 < len(format) && format[i+1] == '%' {
			lit += "%"
			i++
			continue
		}
		// skip flags/width
		j := i + 1
		for j < len(format) && strings.ContainsRune("+-# 0123456789.", rune(format[j])) {
			j++
		}
		if j >= len(format) {
			break
		}
		if lit != "" {
			out = append(out, skTok{kind: "lit", text: lit})
			lit = ""
		}
		if ai < len(args) {
			out = append(out, c.skeleton(fc, args[ai], bind, depth+1)...)
			ai++
		} else {
			out = append(out, skTok{kind: "?"})
		}
		i = j
	}
	if lit != "" {
		out = append(out, skTok{kind: "lit", text: lit})
	}
	return out
}

func skString(ts []skTok) string {
	var s []string
	for _, t := range ts {
		if t.kind == "lit" {
			s = append(s, fmt.Sprintf("%q", t.text))
		} else {
			s = append(s, "<"+t.kind+">")
		}
	}
	return strings.Join(s, " ")
}

func (c *ctx) generatedNames() {
	n := 0
	for _, fc := range c.files {
		for _, d := range fc.file.Decls {
			fd, ok := d.(*ast.FuncDecl)
			if !ok || fd.Body == nil || fd.Recv == nil || fd.Name.Name != "FuncExpr" {
				continue
			}
			var rets []*ast.ReturnStmt
			ast.Inspect(fd.Body, func(nn ast.Node) bool {
				if r, ok := nn.(*ast.ReturnStmt); ok {
					rets = append(rets, r)
				}
				return true
			})
			for _, r := range rets {
				if len(r.Results) != 1 {
					continue
				}
				sk := c.skeleton(fc, r.Results[0], nil, 0)
				if len(sk) == 1 && sk[0].kind == "lit" {
					continue // a constant (placeholder): no position involved
				}
				if len(sk) == 1 && sk[0].kind == "str" {
					continue // a stored string: built elsewhere
				}
				n++
				key := fc.funcName(fd) + "|name is injective in (file, line, column)"
				bad := ""
				for i, t := range sk {
					switch t.kind {
					case "?":
						bad = "a component of the name could not be evaluated"
					case "int":
						if i == 0 || sk[i-1].kind != "lit" || sk[i-1].text == "" || isDigit(sk[i-1].text[len(sk[i-1].text)-1]) {
							bad = "an integer component (line/column) follows a string or integer component without a non-digit separator"
						}
					}
				}
				if bad == "" {
					c.s.OK("G25", key, c.pos(fd), "name skeleton "+skString(sk)+": every integer component is delimited")
				} else {
					c.s.Bad("G25", key, c.pos(fd), bad+" (name skeleton "+skString(sk)+"): two directives of one package can get the same generated function name (file name digits run into the line number) and the generated package does not compile")
				}
			}
		}
	}
	if n == 0 {
		c.s.Unk("G25", "modifier names", "", "no FuncExpr method building a position-derived name found")
	}
}

func isDigit(b byte) bool { return b >= '0' && b <= '9' }
