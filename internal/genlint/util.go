package genlint

import "strconv"

func unquote(s string) (string, error) { return strconv.Unquote(s) }
