package genlint

import (
	"go/ast"
	"go/types"

	"cffverif/internal/astx"
)

// G41: the directives of a file are generated in source order.
//
// GenerateFile copies the source between consecutive directives by a chained offset walk (G15): it needs the list
// it ranges over - a slice field of the file object - in ascending source position; out of order the copy slices
// backwards and cff dies with "slice bounds out of range" (seed C13_o: the list rebuilt after the walk from the
// flows followed by the parallels). The list is in source order if every append to it happens inside the visitor
// of the walk over the file (ast.Walk / ast.Inspect visit in source order), or if it is sorted by position before
// it is used. The rule finds the slice fields of the compiled file that a GenerateFile method ranges over and
// requires one of the two for each.
func (c *ctx) generatorOrder() {
	info := c.inter.TypesInfo
	// the lists: fields of struct `file` ranged over in a method named GenerateFile
	lists := map[*types.Var]ast.Node{}
	for _, fc := range c.files {
		if fc.pkg != c.inter {
			continue
		}
		for _, d := range fc.file.Decls {
			fd, ok := d.(*ast.FuncDecl)
			if !ok || fd.Body == nil {
				continue
			}
			// GenerateFile, or a step split out of it: any function of the generator that walks a slice field of
			// the compiled file by the position of its elements while slicing the source buffer
			slices := false
			ast.Inspect(fd.Body, func(n ast.Node) bool {
				if se, ok := n.(*ast.SliceExpr); ok {
					if t := info.TypeOf(se.X); t != nil && t.String() == "[]byte" {
						slices = true
					}
				}
				return true
			})
			if fd.Name.Name != "GenerateFile" && !slices {
				continue
			}
			ast.Inspect(fd.Body, func(n ast.Node) bool {
				rs, ok := n.(*ast.RangeStmt)
				if !ok {
					return true
				}
				if _, f, ok := astx.FieldSel(info, rs.X); ok {
					if _, isSlice := f.Type().Underlying().(*types.Slice); isSlice {
						// only lists whose elements have a position the loop uses (a Pos() call on the loop variable)
						usesPos := false
						ast.Inspect(rs.Body, func(m ast.Node) bool {
							if call, ok := m.(*ast.CallExpr); ok {
								if se, ok := call.Fun.(*ast.SelectorExpr); ok && (se.Sel.Name == "Pos" || se.Sel.Name == "End") {
									usesPos = true
								}
							}
							return true
						})
						if usesPos {
							lists[f] = rs
						}
					}
				}
				return true
			})
		}
	}
	if len(lists) == 0 {
		c.s.Unk("G41", "GenerateFile|list of directives", "", "no GenerateFile method ranging over a slice field by position found")
		return
	}
	isWalk := func(call *ast.CallExpr) bool {
		switch n := astx.Short(call.Fun); n {
		case "astWalk", "ast.Inspect", "ast.Walk":
			return true
		}
		return false
	}
	for f, at := range lists {
		key := "file." + f.Name() + "|filled in source order"
		appends, outside := 0, ""
		sorted := false
		for _, fc := range c.files {
			if fc.pkg != c.inter {
				continue
			}
			fc := fc
			astx.Writes(fc.file, func(l ast.Expr, stmt ast.Node) {
				if _, wf, ok := astx.FieldSel(info, l); !ok || wf != f {
					return
				}
				appends++
				// inside a function literal handed to a walk, or inside a Visit method
				in := false
				for x := ast.Node(stmt); x != nil; x = fc.par[x] {
					switch fn := x.(type) {
					case *ast.FuncLit:
						if call, ok := fc.par[fn].(*ast.CallExpr); ok && isWalk(call) {
							in = true
						}
						// the visitor kept in a local variable that is handed to the walk
						if as, ok := fc.par[fn].(*ast.AssignStmt); ok && len(as.Lhs) == 1 {
							if vobj := astx.IdentObj(info, as.Lhs[0]); vobj != nil {
								ast.Inspect(fc.file, func(m ast.Node) bool {
									if call, ok := m.(*ast.CallExpr); ok && isWalk(call) {
										for _, a := range call.Args {
											if astx.IdentObj(info, a) == vobj {
												in = true
											}
										}
									}
									return true
								})
							}
						}
					case *ast.FuncDecl:
						if fn.Name.Name == "Visit" {
							in = true
						}
					}
				}
				if !in {
					// in a helper that is only called from the visitor
					if hd := fc.funcDecl(stmt); hd != nil {
						if self, _ := info.Defs[hd.Name].(*types.Func); self != nil {
							calls, allIn := 0, true
							for _, f2 := range c.files {
								if f2.pkg != c.inter {
									continue
								}
								f2 := f2
								ast.Inspect(f2.file, func(m ast.Node) bool {
									call, ok := m.(*ast.CallExpr)
									if !ok || astx.Callee(info, call) != self {
										return true
									}
									calls++
									inside := false
									for x := ast.Node(call); x != nil; x = f2.par[x] {
										switch fn := x.(type) {
										case *ast.FuncLit:
											if wc, ok := f2.par[fn].(*ast.CallExpr); ok && isWalk(wc) {
												inside = true
											}
										case *ast.FuncDecl:
											if fn.Name.Name == "Visit" {
												inside = true
											}
										}
									}
									if !inside {
										allIn = false
									}
									return true
								})
							}
							if calls > 0 && allIn {
								in = true
							}
						}
					}
				}
				if !in {
					outside = c.pos(stmt)
				}
			})
			ast.Inspect(fc.file, func(n ast.Node) bool {
				call, ok := n.(*ast.CallExpr)
				if !ok {
					return true
				}
				if fn := astx.Callee(info, call); fn != nil && (fn.FullName() == "sort.Slice" || fn.FullName() == "sort.SliceStable" || fn.FullName() == "sort.Sort") && len(call.Args) > 0 {
					if _, sf, ok := astx.FieldSel(info, call.Args[0]); ok && sf == f {
						sorted = true
					}
				}
				return true
			})
		}
		switch {
		case appends == 0:
			c.s.Unk("G41", key, c.pos(at), "nothing appends to the list GenerateFile ranges over")
		case outside == "" || sorted:
			c.s.OK("G41", key, c.pos(at), "every append happens in the visitor of the file walk (source order), or the list is sorted")
		default:
			c.s.Bad("G41", key, outside, "the list of directives that GenerateFile walks by source offset is filled outside the walk over the file and is not sorted by position: with directives out of source order the verbatim copy slices backwards and cff dies with a Go panic (or drops source text)")
		}
	}
}
