package genlint

import (
	"fmt"
	"go/ast"
	"go/token"
	"go/types"
	"strings"

	"cffverif/internal/astx"
)

// G23: (*types.Package) accessors on Obj().Pkg() — nil for universe objects such as `error` — are guarded.
// G24: results of the compiler's may-return-nil constructors are nil-tested before any field access,
// directly or after having been stored in a slice that is later ranged over.
// libMayNil: library functions documented to return nil for ordinary inputs (a call through a function value
// has no static callee).
var libMayNil = map[string]bool{
	"golang.org/x/tools/go/types/typeutil.StaticCallee": true,
	"golang.org/x/tools/go/types/typeutil.Callee":       true,
}

func (c *ctx) nilSafety() {
	// ---- G23
	n23 := 0
	c.eachCall(func(fc *fileCtx, call *ast.CallExpr, fn *types.Func) {
		if fn == nil || (fn.FullName() != "(*go/types.Package).Path" && fn.FullName() != "(*go/types.Package).Name") {
			return
		}
		se := call.Fun.(*ast.SelectorExpr)
		inner, ok := astx.Unparen(se.X).(*ast.CallExpr)
		if !ok {
			return // a *types.Package variable (loader results, f.Package.Types): not an Obj().Pkg() chain
		}
		ifn := astx.Callee(fc.pkg.TypesInfo, inner)
		if ifn == nil || ifn.Name() != "Pkg" {
			return
		}
		n23++
		info := fc.pkg.TypesInfo
		key := fmt.Sprintf("%s|%s", fc.funcName(call), astx.Short(call))
		guarded := false
		for _, cd := range fc.par.Known(call, fc.funcDecl(call)) {
			if e, ok := astx.EqNil(info, cd.E); ok && !cd.Pos && astx.Same(info, e, inner) {
				guarded = true
			}
		}
		// `a.Pkg() != nil && a.Pkg().Path() == ...` inside one expression
		for x := ast.Node(call); x != nil; x = fc.par[x] {
			if b, ok := fc.par[x].(*ast.BinaryExpr); ok && b.Op == token.LAND && b.Y == x {
				var cs []astx.Cond
				astx.Split(b.X, true, b, &cs)
				for _, cd := range cs {
					if e, ok := astx.EqNil(info, cd.E); ok && !cd.Pos && astx.Same(info, e, inner) {
						guarded = true
					}
				}
			}
			if _, ok := x.(ast.Stmt); ok {
				break
			}
		}
		// the object was found as the Sel of a selector expression (`info.Uses[sel.Sel]`): an identifier selected from
		// a package belongs to that package - its Pkg() is never nil
		if !guarded {
			if ise, ok := inner.Fun.(*ast.SelectorExpr); ok {
				if obj := astx.IdentObj(info, ise.X); obj != nil {
					if fd := fc.funcDecl(call); fd != nil {
						isSel := func(e ast.Expr) bool {
							e = astx.Unparen(e)
							if se, ok := e.(*ast.SelectorExpr); ok && se.Sel.Name == "Sel" {
								return true
							}
							if o := astx.IdentObj(info, e); o != nil {
								found := false
								astx.Writes(fd.Body, func(l ast.Expr, at ast.Node) {
									if astx.IdentObj(info, l) == o {
										if as, ok := at.(*ast.AssignStmt); ok && len(as.Rhs) == 1 {
											if se, ok := astx.Unparen(as.Rhs[0]).(*ast.SelectorExpr); ok && se.Sel.Name == "Sel" {
												found = true
											}
										}
									}
								})
								return found
							}
							return false
						}
						ast.Inspect(fd.Body, func(n ast.Node) bool {
							as, ok := n.(*ast.AssignStmt)
							if !ok || len(as.Rhs) != 1 {
								return true
							}
							for _, l := range as.Lhs {
								if astx.IdentObj(info, l) != obj {
									continue
								}
								if ix, ok := astx.Unparen(as.Rhs[0]).(*ast.IndexExpr); ok {
									if use, ok := astx.Unparen(ix.X).(*ast.SelectorExpr); ok && use.Sel.Name == "Uses" && isSel(ix.Index) {
										guarded = true
									}
								}
							}
							return true
						})
					}
				}
			}
		}
		if why, ok := nilTable[key]; ok && !guarded {
			c.s.OK("G23", key, c.pos(call), "table entry: "+why)
			return
		}
		c.s.Check(guarded, "G23", key, c.pos(call), "dominated by a nil test of the same Pkg() value", "Obj().Pkg() is nil for universe objects (e.g. the type `error`); calling "+fn.Name()+"() on it panics: cff dies with a Go panic on a type-correct input such as a task parameter of type error")
	})
	if n23 == 0 {
		c.s.OK("G23", "stratum B|no Pkg() accessor chain", "", "")
	}
	// ---- G24
	mayNil := map[*types.Func]bool{}
	for _, fc := range c.files {
		if fc.pkg != c.inter {
			continue
		}
		for _, d := range fc.file.Decls {
			fd, ok := d.(*ast.FuncDecl)
			if !ok || fd.Body == nil || fd.Type.Results == nil || len(fd.Type.Results.List) != 1 {
				continue
			}
			if _, isPtr := fc.pkg.TypesInfo.TypeOf(fd.Type.Results.List[0].Type).(*types.Pointer); !isPtr {
				continue
			}
			retNil := false
			ast.Inspect(fd.Body, func(n ast.Node) bool {
				if _, ok := n.(*ast.FuncLit); ok {
					return false
				}
				if r, ok := n.(*ast.ReturnStmt); ok && len(r.Results) == 1 && astx.IsNil(fc.pkg.TypesInfo, r.Results[0]) {
					retNil = true
				}
				return true
			})
			if retNil {
				if fn, ok := fc.pkg.TypesInfo.Defs[fd.Name].(*types.Func); ok {
					mayNil[fn] = true
				}
			}
		}
	}
	c.s.SetFact("genlint.may_return_nil_constructors", len(mayNil))
	nilFields := map[*types.Var]ast.Node{} // slice fields that can hold a nil element
	n24 := 0
	for _, fc := range c.files {
		if fc.pkg != c.inter {
			continue
		}
		info := fc.pkg.TypesInfo
		fc := fc
		ast.Inspect(fc.file, func(nn ast.Node) bool {
			as, ok := nn.(*ast.AssignStmt)
			if !ok || len(as.Rhs) != 1 || len(as.Lhs) != 1 {
				return true
			}
			call, ok := as.Rhs[0].(*ast.CallExpr)
			if !ok || !(mayNil[astx.Callee(info, call)] || libMayNil[fullName(astx.Callee(info, call))]) {
				return true
			}
			v := astx.IdentObj(info, as.Lhs[0])
			if v == nil {
				return true // stored straight into a field; readers test the field (t.Predicate != nil) — covered by the template model
			}
			n24++
			fd := fc.funcDecl(as)
			key := fmt.Sprintf("%s|%s := %s(...)", fc.funcName(as), v.Name(), astx.Callee(info, call).Name())
			bad := ""
			var nonNil func(at ast.Node) bool
			nonNil = func(at ast.Node) bool {
				// inside a function literal created where the value is already known to be non-nil (the value is
				// bound once, ahead of the literal): the literal's body inherits that
				for x := fc.par[at]; x != nil && x != ast.Node(fd); x = fc.par[x] {
					if fl, ok := x.(*ast.FuncLit); ok && v.Pos() < fl.Pos() && as.End() < fl.Pos() {
						if nonNil(fl) {
							return true
						}
						break
					}
				}
				for _, cd := range fc.par.Known(at, fd) {
					if e, ok := astx.EqNil(info, cd.E); ok && !cd.Pos && astx.IdentObj(info, e) == v {
						return true
					}
				}
				for x := at; x != nil; x = fc.par[x] {
					if b, ok := fc.par[x].(*ast.BinaryExpr); ok && b.Op == token.LAND && b.Y == x {
						var cs []astx.Cond
						astx.Split(b.X, true, b, &cs)
						for _, cd := range cs {
							if e, ok := astx.EqNil(info, cd.E); ok && !cd.Pos && astx.IdentObj(info, e) == v {
								return true
							}
						}
					}
					if _, ok := x.(ast.Stmt); ok {
						break
					}
				}
				return false
			}
			ast.Inspect(fd.Body, func(m ast.Node) bool {
				switch u := m.(type) {
				case *ast.SelectorExpr:
					if astx.IdentObj(info, u.X) == v && u.Pos() > as.End() && !nonNil(u) {
						bad = "field " + u.Sel.Name + " of " + v.Name() + " is read where " + v.Name() + " may be nil"
					}
				case *ast.CallExpr:
					// X = append(X, v)
					if astx.IsBuiltin(info, u, "append") && len(u.Args) == 2 && astx.IdentObj(info, u.Args[1]) == v && u.Pos() > as.End() && !nonNil(u) {
						if _, f, ok := astx.FieldSel(info, u.Args[0]); ok {
							nilFields[f] = u
						}
					}
				}
				return true
			})
			c.s.Check(bad == "", "G24", key, c.pos(as), "every field access is dominated by a nil test", bad+": when the directive fails to compile cff dereferences nil and dies with a Go panic instead of reporting the diagnostics")
			return true
		})
	}
	// ranges over slices that can hold nil
	for _, fc := range c.files {
		if fc.pkg != c.inter {
			continue
		}
		info := fc.pkg.TypesInfo
		fc := fc
		ast.Inspect(fc.file, func(nn ast.Node) bool {
			rs, ok := nn.(*ast.RangeStmt)
			if !ok || rs.Value == nil {
				return true
			}
			_, f, ok := astx.FieldSel(info, rs.X)
			if !ok || nilFields[f] == nil {
				return true
			}
			n24++
			ev := astx.IdentObj(info, rs.Value)
			bad := ""
			ast.Inspect(rs.Body, func(m ast.Node) bool {
				if u, ok := m.(*ast.SelectorExpr); ok && astx.IdentObj(info, u.X) == ev {
					guarded := false
					for _, cd := range fc.par.Known(u, rs) {
						if e, ok := astx.EqNil(info, cd.E); ok && !cd.Pos && astx.IdentObj(info, e) == ev {
							guarded = true
						}
					}
					if !guarded {
						bad = "element field " + u.Sel.Name + " read without nil test"
					}
				}
				return true
			})
			key := fmt.Sprintf("%s|range over %s (may hold nil)", fc.funcName(rs), astx.Short(rs.X))
			c.s.Check(bad == "", "G24", key, c.pos(rs), "elements are nil-tested before use", fmt.Sprintf("%s holds the nil result of a directive that failed to compile (appended at %s) and %s: cff dies with a Go panic instead of reporting the diagnostics", astx.Short(rs.X), c.pos(nilFields[f]), bad))
			return true
		})
	}
	if n24 == 0 {
		c.s.Unk("G24", "may-return-nil constructors", "", "none recognised")
	}
	_ = strings.Join
}

// nilTable: reviewed G23 sites where a nil Pkg() is infeasible for type-correct input (one reason each).
var nilTable = map[string]string{
	"compiler.identifyOption|fn.Pkg().Path()": "fn is the object selected by an expression of type cff.Option; the only package-less selectable object is error.Error, whose result is a string, so a nil Pkg() cannot occur in a program that type-checks",
}
